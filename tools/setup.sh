#!/bin/bash
# Build everything the checks need, offline, from files on disk: Coq development (full .vo), extraction + OCaml driver,
# Rust harness against /repo (hooks on).  Idempotent.
set -e
cd "$(dirname "$0")/.."
export CARGO_NET_OFFLINE=true RUST_BACKTRACE=0
python3 - <<'PY'
import sys, os
sys.path.insert(0, os.path.join(os.getcwd(), "tools"))
from svlib import *
import gentables
build_harness()
gentables.regenerate()
ok, out = coq_make([])
if not ok:
    print(out[-5000:]); sys.exit(1)
build_driver()
build_harness_fixed()
print("setup ok")
PY
