"""Per-property check driver: builds, proof gate, correspondence/direct gates, evidence, verdict."""
import hashlib
import json
import os
import random
import re
import sys
import time
import traceback

from svlib import *  # noqa


# Disagreements between a model and the implementation that do not by themselves contradict the property text (the
# model is one of several behaviours the property allows, or is only sound, not complete).  They are reported, but as a
# broken correspondence: the VIOLATION line ends with no-failing-input-found unless another part of the same check
# exhibits a concrete failing input (which is then reported on its own line).
CORRESPONDENCE_CLASSES = {
    "compile-term", "ast-not-well-typed", "model-stuck", "model-internal", "model-panic", "peg-model", "acceptance", "typed-ast",
    "jet-model", "span-model", "generator", "value-print-model", "type-print-model", "module-print-model", "render-model",
    "ptree-model", "print-model", "lex-model",
}


class Check:
    def __init__(self, pid, tier, seed):
        self.pid = pid
        self.tier = tier
        self.seed = seed
        self.rng = random.Random("%s/%s/%d" % (pid, tier, seed))
        self.t0 = time.time()
        self.evaluations = 0
        self.distinct = set()
        self.samples = []
        self.hist = {}
        self.violations = []   # (key, replay path, no_input)
        self.known_hits = []
        self.notes = []
        self.proof = None
        self.exhaustive = False
        self.extra = {}
        self.findings = load_known_findings()

    # ---- bookkeeping
    def count(self, bucket, n=1):
        self.hist[bucket] = self.hist.get(bucket, 0) + n

    def case(self, key, nontrivial=True, sample=None):
        self.evaluations += 1
        if nontrivial:
            self.distinct.add(hashlib.sha1(key.encode()).hexdigest()[:16])
        if sample is not None and len(self.samples) < 8:
            self.samples.append(sample)

    def sub_rng(self, label):
        return random.Random("%s/%s/%d/%s" % (self.pid, self.tier, self.seed, label))

    # ---- verdicts
    def match_known(self, signature):
        """signature: dict with at least 'class'.  A known finding lists property, class and a regex on 'what'."""
        for f in self.findings.get("findings", []):
            if f["property"] != self.pid:
                continue
            if f.get("class") != signature.get("class"):
                continue
            pat = f.get("match")
            if pat is None or re.search(pat, signature.get("what", ""), re.S):
                return f
        return None

    def violation(self, signature, replay, no_input=False):
        """Report a failing input (or a broken obligation).  `signature` = {'class':..., 'what':...}."""
        f = self.match_known(signature)
        if f is not None:
            if f["id"] not in [k["id"] for k in self.known_hits]:
                self.known_hits.append({"id": f["id"], "what": f["what"]})
            return False
        key = signature.get("class", "") + ":" + hashlib.sha1(json.dumps(replay, sort_keys=True, default=str).encode()).hexdigest()[:12]
        corr = signature.get("class") in CORRESPONDENCE_CLASSES
        no_input = no_input or corr
        self.count("violations." + str(signature.get("class")))
        if sum(1 for (_, _, ni) in self.violations if ni == no_input) >= (3 if no_input else 5):
            return True
        os.makedirs(os.path.join(VERIF, "replays"), exist_ok=True)
        path = os.path.join(VERIF, "replays", "%s-%s.json" % (self.pid, key.split(":")[-1]))
        replay = dict(replay)
        if corr:
            replay.setdefault("correspondence_broken", signature.get("class"))
        replay.update({"property": self.pid, "class": signature.get("class"), "what": signature.get("what"),
                       "seed": self.seed, "tier": self.tier,
                       "how_to_replay": "./check %s --replay %s" % (self.pid, os.path.relpath(path, VERIF))})
        write_json(path, replay)
        self.violations.append((key, path, no_input))
        return True

    # ---- proof gate
    def run_proof_gate(self):
        pf = "Properties/%s.v" % self.pid
        bad = scan_forbidden(all_v_files())
        res = proof_gate(pf)
        src = strip_comments(open(os.path.join(COQ, pf)).read())
        thms = re.findall(r"^\s*(?:Theorem|Lemma|Corollary)\s+([A-Za-z0-9_']+)", src, re.M)
        n_closed = sum(1 for (_, ax) in res["assumptions"] if not ax)
        axioms = sorted({a for (_, ax) in res["assumptions"] for a in ax})
        disallowed = [a for a in axioms if a not in ALLOWED_AXIOMS]
        ok = res["ok"] and not bad and not disallowed and len(res["assumptions"]) >= len(thms)
        self.proof = {"file": pf, "theorems": thms, "obligations": len(thms),
                      "discharged": len(thms) if ok else 0,
                      "print_assumptions_closed": n_closed, "axioms": axioms, "forbidden": bad,
                      "ok": ok}
        if not ok:
            tail = res["log"][-3000:]
            m = re.search(r'File "([^"]+)", line (\d+)', res["log"])
            which = "%s line %s" % (m.group(1), m.group(2)) if m else pf
            self.proof["failure"] = tail
            self.proof["where"] = which
        return ok

    # ---- finish
    def finish(self, level="proof"):
        wall = time.time() - self.t0
        if self.proof and not self.proof["ok"] and not any(k.split(":")[0] in ("jet-table", "grammar-shape", "proof-gate") for (k, _, _) in self.violations):
            # a theorem of this property no longer checks: the property is no longer shown to hold
            self.violations = self.violations[:7]
            self.violation({"class": "proof-gate", "what": "%s %s" % (self.proof.get("where", ""), self.proof.get("failure", "")[-200:])},
                           {"broken": "%s does not check any more (coqc error, an assumption appeared, or forbidden vernacular)" % self.proof["file"],
                            "theorems": self.proof["theorems"], "forbidden": self.proof["forbidden"], "axioms": self.proof["axioms"],
                            "detail": self.proof.get("failure", "")[-3000:]}, no_input=True)
        cov = {
            "evaluations": self.evaluations,
            "distinct_nontrivial": len(self.distinct),
            "rule": self.extra.pop("rule", "see explanation"),
            "samples": self.samples[:8] or ["(none)"],
            "histogram": self.hist,
            "exhaustive": self.exhaustive,
            "checker_cmd": "cd /verif/coq && coq_makefile -f _CoqProject -o Makefile && make Properties/%s.vo  (coqc 8.16.1, full .vo build; Print Assumptions read back)" % self.pid,
            "trusted_base": TRUSTED_BASE,
            "known_findings_hit": self.known_hits,
            "notes": self.notes,
        }
        if self.proof:
            cov["obligations"] = max(1, self.proof["obligations"])
            cov["discharged"] = self.proof["discharged"]
            cov["theorems"] = self.proof["theorems"]
            cov["axioms"] = self.proof["axioms"]
            cov["proof_gate_ok"] = self.proof["ok"]
        cov.update(self.extra)
        ev = {"property_id": self.pid, "tier": self.tier, "seed": self.seed, "level": level,
              "coverage": cov, "assumptions": ASSUMPTIONS, "wall_s": round(wall, 2),
              "violations": len(self.violations)}
        write_json(os.path.join(VERIF, "evidence", "%s.json" % self.pid), ev)
        for k in self.known_hits:
            print("KNOWN-FINDING: property=%s %s" % (self.pid, k["what"]))
        for (key, path, no_input) in sorted(self.violations, key=lambda v: v[2]):
            print("VIOLATION property=%s replay=%s%s" % (self.pid, path, " no-failing-input-found" if no_input else ""))
        sys.stdout.flush()
        return 1 if self.violations else 0


TRUSTED_BASE = [
    "Coq 8.16.1 kernel (coqc, full .vo builds; vm_compute for finite-domain lemmas; no native_compute)",
    "axioms: none declared; every property theorem prints 'Closed under the global context'",
    "extraction: Require Extraction + ExtrOcamlBasic only (bool/option/unit/list/prod/sumbool/sumor to OCaml natives); no Extract Constant; nat/N/positive/Z stay Coq inductives; OCaml 4.13.1 ocamlopt",
    "correspondence harness: /verif/harness (Rust, calls /repo's public API), /verif/driver (OCaml glue around the extracted model), /verif/tools (Python generators, diff)",
    "translators for generated Coq files: pest_meta grammar parser + printer; jet/alias tables dumped by calling simfony::jet::{source_type,target_type}",
    "modelled, not verified: simplicity-lang 0.4.0 (type inference, CMR, encoding, Bit Machine, C jets), pest runtime, serde_json, Rust std",
]
ASSUMPTIONS = [
    "theorems are about the Coq models; the tie to /repo is differential (generated cases) except for files regenerated from the source",
    "simplicity-lang's Bit Machine agrees with the denotational semantics of Simp/Core.v (validated on every run-time case, not proved)",
]


def main_for(pid, run_fn, argv=None):
    import argparse
    ap = argparse.ArgumentParser()
    ap.add_argument("--tier", default=os.environ.get("VERIF_TIER", "quick"))
    ap.add_argument("--replay", default=None)
    args = ap.parse_args(argv)
    seed = int(os.environ.get("VERIF_SEED", "1"))
    chk = Check(pid, args.tier, seed)
    try:
        if args.replay:
            return run_fn(chk, replay=json.load(open(os.path.join(VERIF, args.replay) if not os.path.isabs(args.replay) else args.replay)))
        run_fn(chk, replay=None)
    except BuildError as e:
        # the machinery cannot even be built against the current tree: the property is no longer shown to hold
        chk.violation({"class": "build", "what": str(e)[:300]},
                      {"broken": "build of the verification harness against /repo", "detail": str(e)[-3000:]}, no_input=True)
    except Exception:
        tb = traceback.format_exc()
        log(tb)
        chk.violation({"class": "internal", "what": tb[-300:]}, {"broken": "internal error of the check", "detail": tb[-3000:]}, no_input=True)
    return chk.finish()
