"""C19 — same source, same bytes: in-process, across processes, via simc."""
import base64
import subprocess
import tempfile

from framework import *  # noqa
import corelib
from checks.c08 import Prog

SIMC_TARGET = os.path.join(BUILD, "cargo-simc")
sh = run   # svlib.run (this module defines its own `run` below)


def build_simc():
    with Lock("simc"):
        env = dict(ENV)
        env.pop("RUSTFLAGS", None)
        env["CARGO_TARGET_DIR"] = SIMC_TARGET
        p = sh(["cargo", "build", "--offline", "-q", "--bin", "simc", "--manifest-path", os.path.join(REPO, "Cargo.toml")], env=env, check=False, timeout=3000)
        if p.returncode != 0:
            raise BuildError("simc does not build:\n" + p.stdout[-3000:])
    return os.path.join(SIMC_TARGET, "debug", "simc")


def run(chk, replay=None):
    build_harness()
    corelib.tables()
    build_driver()
    chk.run_proof_gate()
    simc = build_simc()
    if replay is not None:
        print(json.dumps(replay, indent=1)[:2000])
        return 0
    quick = chk.tier == "quick"
    progs = []
    ex = os.path.join(REPO, "examples")
    for f in sorted(os.listdir(ex)):
        if f.endswith(".simf"):
            progs.append(Prog(open(os.path.join(ex, f)).read(), [], "example/" + f))
    progs += corelib.gen_programs(chk, 40 if quick else 200, "gdet", size=40, allow_params=False)
    # large programs: encodings of several KiB up to ~100 KiB (output buffering, pipe writes), with many tracked calls
    for n in ((70, 350) if quick else (70, 200, 350, 1200)):
        body = " ".join("assert!(jet::eq_32(%d, %d)); let v%d: u32 = dbg!(%d);" % (k, k, k, k) for k in range(n))
        progs.append(Prog("fn main() { %s }" % body, [], "large/%d" % n))
    for a, b in (("u32", "u16"), ("(u8, u8)", "u16"), ("Either<u8, bool>", "Option<u8>")):
        progs.append(Prog("type Word = %s;\nfn id(x: Word) -> Word { x }\nfn main() { let w: Word = witness::W; let v: Word = id(w); }" % a, [], "alias/%s" % a))
        progs.append(Prog("type Word = %s;\nfn id(x: Word) -> Word { x }\nfn main() { let w: Word = witness::W; let v: Word = id(w); }" % b, [], "alias/%s" % b))
    progs.append(Prog("fn id(x: Word) -> Word { x }\nfn main() { let w: Word = witness::W; }", [], "alias/undefined"))
    base_ok = "fn main() { assert!(jet::eq_8(1, 1)); }"
    for nm, t in [("bom", "\ufeff" + base_ok), ("bom-bad", "\ufefffn main() {"), ("nbsp", "\u00a0" + base_ok), ("lead-ws", " \n\t" + base_ok), ("trail-ws", base_ok + " \n\n\t "), ("crlf", base_ok.replace(" ", "\r\n")),
                  ("zwsp", base_ok + "\u200b"), ("ff", "\x0c" + base_ok), ("nul", base_ok + "\x00"), ("lead-comment", "// x\n/* y */" + base_ok)]:
        progs.append(Prog(t, [], "blank/" + nm))
    progs += [Prog("fn main() { let x: u8 = y; }", [], "bad/undefined"), Prog("fn main() {", [], "bad/grammar"), Prog("", [], "bad/empty")]
    nproc = 8 if quick else 12
    for dbg in (0, 1):
        lines = ["(commit %s () %d)" % (quote(g.text), dbg) for g in progs]
        # N separately started processes (fresh hash seeds each): one process per repetition, all programs in each
        runs = [impl("core", lines, shards=1) for _ in range(nproc)]
        # the same programs compiled in other orders inside one process (reversed, shuffled): nothing may carry over from an
        # earlier compilation to a later one
        idx = list(range(len(lines)))
        for order in ("reversed", "shuffled"):
            perm = idx[::-1] if order == "reversed" else chk.sub_rng("order/%d" % dbg).sample(idx, len(idx))
            res = impl("core", [lines[j] for j in perm], shards=1)
            back = [None] * len(lines)
            for j, r in zip(perm, res):
                back[j] = r
            runs.append(back)
        # programs that give one alias / function name different meanings, compiled back to back in both orders
        # repeated compilation inside one process
        rep = impl("core", [l for l in lines for _ in range(5)], shards=1)
        for i, (g, ln) in enumerate(zip(progs, lines)):
            outs = {r[i] for r in runs} | set(rep[5 * i:5 * i + 5])
            chk.case(ln, sample={"program": g.text[:160], "debug": dbg, "outcome": runs[0][i][:60]})
            chk.count("commit.dbg%d.%s" % (dbg, runs[0][i].split(" ")[0].strip("(")))
            if len(outs) != 1:
                chk.violation({"class": "nondeterministic", "what": "%d different results || %s" % (len(outs), g.text[:200])},
                              {"cmd": "core", "line": ln, "program": g.text, "results": sorted(outs)[:4], "broken": "the same source compiled to different encodings / CMRs in different runs"})
                continue
            lib = runs[0][i]
            # the CLI
            with tempfile.NamedTemporaryFile("w", suffix=".simf", dir=BUILD, delete=False) as tf:
                tf.write(g.text)
                path = tf.name
            try:
                p = subprocess.run(["bash", "-c", "ulimit -s unlimited 2>/dev/null; exec \"$0\" \"$@\"", simc, path] + (["--debug"] if dbg else []), stdout=subprocess.PIPE, stderr=subprocess.PIPE, timeout=600)
            finally:
                os.unlink(path)
            out = p.stdout.decode("utf-8", "replace")
            err = p.stderr.decode("utf-8", "replace")
            if lib.startswith("(ok"):
                hexenc = lib.rstrip(")").split(" ")[2]
                want = "Program:\n" + base64.b64encode(bytes.fromhex(hexenc)).decode() + "\n"
                if p.returncode != 0 or out != want:
                    chk.violation({"class": "simc-output", "what": "exit=%d || %s" % (p.returncode, g.text[:160])},
                                  {"program": g.text, "debug": dbg, "simc_stdout": out[:400], "simc_stderr": err[:400], "expected_stdout": want[:400], "exit": p.returncode,
                                   "broken": "simc does not print the base64 of exactly the library's commit encoding with exit status 0"})
            elif lib.startswith("(rej") or lib.startswith("(cerr"):
                msg = parse_sx(lib)[1]
                if p.returncode == 0 or not err.strip() or msg.strip()[:40] not in err:
                    chk.violation({"class": "simc-error", "what": "exit=%d || %s" % (p.returncode, g.text[:160])},
                                  {"program": g.text, "debug": dbg, "simc_stdout": out[:400], "simc_stderr": err[:400], "library_error": msg[:300], "exit": p.returncode,
                                   "broken": "simc must exit non-zero with the library's message exactly when the library returns an error"})
    chk.extra["processes_per_program"] = nproc
    # ---- the constructors of the public API agree: CompiledProgram::new = TemplateProgram::new + instantiate (commit bytes);
    #      SatisfiedProgram::new = compile + satisfy = satisfy_with_env(.., None) (program and witness bytes)
    import gen
    aprogs = corelib.gen_programs(chk, 40 if quick else 300, "gapi", size=30)
    alines = []
    for g in aprogs:
        wr = chk.sub_rng("api/" + g.label)
        wit = [(n, gen.gen_val(wr, t)) for n, t in g.witnesses]
        for dbg in (0, 1):
            alines.append((g, "(apipaths %s %s %s %d)" % (quote(g.text), corelib.bindings_sx([(n, v) for (n, _, v) in g.params]), corelib.bindings_sx(wit), dbg)))
    for (g, ln), x in zip(alines, impl("core", [l for _, l in alines])):
        m = re.match(r"\(commit (\S+) (\S+)\) \(redeem (\S+) (\S+) (\S+)\)", x)
        chk.case(ln, sample={"program": g.text[:120], "outcome": x[:60]})
        chk.count("api." + ("agree" if m and m.group(1) == m.group(2) and m.group(3) == m.group(4) == m.group(5) else "differ"))
        if not m or m.group(1) != m.group(2) or not (m.group(3) == m.group(4) == m.group(5)):
            chk.violation({"class": "nondeterministic", "what": "API paths disagree: %s || %s" % (x[:120], g.text[:160])},
                          {"cmd": "core", "line": ln, "program": g.text, "implementation": x[:2000],
                           "broken": "the same source gives different bytes through CompiledProgram::new / TemplateProgram::new + instantiate, or SatisfiedProgram::new / satisfy / satisfy_with_env(None)"})
    chk.extra["rule"] = ("the shipped examples + generated programs + three erroneous texts x {debug off,on}: %d separately started harness processes and 5 repeated in-process compilations must give one "
                         "identical (CMR, encoding); the simc binary built from /repo must print `Program:` + base64 of exactly that encoding and exit 0, or exit non-zero with the library's message") % nproc
