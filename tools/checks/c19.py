"""C19 — same source, same bytes: in-process, across processes, via simc."""
import base64
import subprocess
import tempfile

from framework import *  # noqa
import corelib
from checks.c08 import Prog

SIMC_TARGET = os.path.join(BUILD, "cargo-simc")
sh = run   # svlib.run (this module defines its own `run` below)


def build_simc():
    with Lock("simc"):
        env = dict(ENV)
        env.pop("RUSTFLAGS", None)
        env["CARGO_TARGET_DIR"] = SIMC_TARGET
        p = sh(["cargo", "build", "--offline", "-q", "--bin", "simc", "--manifest-path", os.path.join(REPO, "Cargo.toml")], env=env, check=False, timeout=3000)
        if p.returncode != 0:
            raise BuildError("simc does not build:\n" + p.stdout[-3000:])
    return os.path.join(SIMC_TARGET, "debug", "simc")


def run(chk, replay=None):
    build_harness()
    corelib.tables()
    build_driver()
    chk.run_proof_gate()
    simc = build_simc()
    if replay is not None:
        print(json.dumps(replay, indent=1)[:2000])
        return 0
    quick = chk.tier == "quick"
    progs = []
    ex = os.path.join(REPO, "examples")
    for f in sorted(os.listdir(ex)):
        if f.endswith(".simf"):
            progs.append(Prog(open(os.path.join(ex, f)).read(), [], "example/" + f))
    progs += corelib.gen_programs(chk, 40 if quick else 200, "gdet", size=40, allow_params=False)
    # large programs: encodings of several KiB up to ~100 KiB (output buffering, pipe writes), with many tracked calls
    for n in ((70, 350) if quick else (70, 200, 350, 1200)):
        body = " ".join("assert!(jet::eq_32(%d, %d)); let v%d: u32 = dbg!(%d);" % (k, k, k, k) for k in range(n))
        progs.append(Prog("fn main() { %s }" % body, [], "large/%d" % n))
    for a, b in (("u32", "u16"), ("(u8, u8)", "u16"), ("Either<u8, bool>", "Option<u8>")):
        progs.append(Prog("type Word = %s;\nfn id(x: Word) -> Word { x }\nfn main() { let w: Word = witness::W; let v: Word = id(w); }" % a, [], "alias/%s" % a))
        progs.append(Prog("type Word = %s;\nfn id(x: Word) -> Word { x }\nfn main() { let w: Word = witness::W; let v: Word = id(w); }" % b, [], "alias/%s" % b))
    progs.append(Prog("fn id(x: Word) -> Word { x }\nfn main() { let w: Word = witness::W; }", [], "alias/undefined"))
    base_ok = "fn main() { assert!(jet::eq_8(1, 1)); }"
    for nm, t in [("bom", "\ufeff" + base_ok), ("bom-bad", "\ufefffn main() {"), ("nbsp", "\u00a0" + base_ok), ("lead-ws", " \n\t" + base_ok), ("trail-ws", base_ok + " \n\n\t "), ("crlf", base_ok.replace(" ", "\r\n")),
                  ("zwsp", base_ok + "\u200b"), ("ff", "\x0c" + base_ok), ("nul", base_ok + "\x00"), ("lead-comment", "// x\n/* y */" + base_ok)]:
        progs.append(Prog(t, [], "blank/" + nm))
    # a program file holds code only: modules written next to the code give the program neither arguments nor witnesses
    # (library and simc agree: a parameter is still missing its argument)
    for nm, t in [("param-inline-module", "mod param { const X: u32 = 7; }\nfn main() { assert!(jet::eq_32(param::X, 7)); }"),
                  ("param-inline-module-after", "fn main() { assert!(jet::eq_32(param::X, 7)); }\nmod param { const X: u32 = 7; }"),
                  ("param-no-module", "fn main() { assert!(jet::eq_32(param::X, 7)); }"),
                  ("witness-inline-module", "mod witness { const W: u32 = 7; }\nfn main() { assert!(jet::eq_32(witness::W, 7)); }"),
                  ("unused-inline-modules", "mod witness { const W: u32 = 7; }\nmod param { const X: u32 = 7; }\nfn main() { assert!(jet::eq_32(7, 7)); }"),
                  ("param-in-function", "mod param { const X: u32 = 7; }\nfn f() -> u32 { param::X }\nfn main() { assert!(jet::eq_32(f(), 7)); }")]:
        progs.append(Prog(t, [], "inline-module/" + nm))
    progs += [Prog("fn main() { let x: u8 = y; }", [], "bad/undefined"), Prog("fn main() {", [], "bad/grammar"), Prog("", [], "bad/empty")]
    nproc = 8 if quick else 12
    for dbg in (0, 1):
        lines = ["(commit %s () %d)" % (quote(g.text), dbg) for g in progs]
        # N separately started processes (fresh hash seeds each): one process per repetition, all programs in each
        runs = [impl("core", lines, shards=1) for _ in range(nproc)]
        # the same programs compiled in other orders inside one process (reversed, shuffled): nothing may carry over from an
        # earlier compilation to a later one
        idx = list(range(len(lines)))
        for order in ("reversed", "shuffled"):
            perm = idx[::-1] if order == "reversed" else chk.sub_rng("order/%d" % dbg).sample(idx, len(idx))
            res = impl("core", [lines[j] for j in perm], shards=1)
            back = [None] * len(lines)
            for j, r in zip(perm, res):
                back[j] = r
            runs.append(back)
        # programs that give one alias / function name different meanings, compiled back to back in both orders
        # repeated compilation inside one process
        rep = impl("core", [l for l in lines for _ in range(5)], shards=1)
        for i, (g, ln) in enumerate(zip(progs, lines)):
            outs = {r[i] for r in runs} | set(rep[5 * i:5 * i + 5])
            chk.case(ln, sample={"program": g.text[:160], "debug": dbg, "outcome": runs[0][i][:60]})
            chk.count("commit.dbg%d.%s" % (dbg, runs[0][i].split(" ")[0].strip("(")))
            if len(outs) != 1:
                chk.violation({"class": "nondeterministic", "what": "%d different results || %s" % (len(outs), g.text[:200])},
                              {"cmd": "core", "line": ln, "program": g.text, "results": sorted(outs)[:4], "broken": "the same source compiled to different encodings / CMRs in different runs"})
                continue
            lib = runs[0][i]
            # the CLI
            with tempfile.NamedTemporaryFile("w", suffix=".simf", dir=BUILD, delete=False) as tf:
                tf.write(g.text)
                path = tf.name
            try:
                p = subprocess.run(["bash", "-c", "ulimit -s unlimited 2>/dev/null; exec \"$0\" \"$@\"", simc, path] + (["--debug"] if dbg else []), stdout=subprocess.PIPE, stderr=subprocess.PIPE, timeout=600)
            finally:
                os.unlink(path)
            out = p.stdout.decode("utf-8", "replace")
            err = p.stderr.decode("utf-8", "replace")
            if lib.startswith("(ok"):
                hexenc = lib.rstrip(")").split(" ")[2]
                want = "Program:\n" + base64.b64encode(bytes.fromhex(hexenc)).decode() + "\n"
                if p.returncode != 0 or out != want:
                    chk.violation({"class": "simc-output", "what": "exit=%d || %s" % (p.returncode, g.text[:160])},
                                  {"program": g.text, "debug": dbg, "simc_stdout": out[:400], "simc_stderr": err[:400], "expected_stdout": want[:400], "exit": p.returncode,
                                   "broken": "simc does not print the base64 of exactly the library's commit encoding with exit status 0"})
            elif lib.startswith("(rej") or lib.startswith("(cerr"):
                msg = parse_sx(lib)[1]
                if p.returncode == 0 or not err.strip() or msg.strip()[:40] not in err:
                    chk.violation({"class": "simc-error", "what": "exit=%d || %s" % (p.returncode, g.text[:160])},
                                  {"program": g.text, "debug": dbg, "simc_stdout": out[:400], "simc_stderr": err[:400], "library_error": msg[:300], "exit": p.returncode,
                                   "broken": "simc must exit non-zero with the library's message exactly when the library returns an error"})
    # ---- history independence inside one process / thread: the programs compiled first in a fresh process, and compiled after a long
    #      history of OTHER inputs on the same thread (texts rejected at every stage — grammar, tree building, analysis, code generation —,
    #      rejected texts nested some levels deep, legal texts nested very deep, large legal texts) give the same answers
    hr = chk.sub_rng("history")
    hist = []
    for cf in sorted(os.listdir(os.path.join(VERIF, "corpus", "C03"))):
        hist += [l.rstrip("\n") for l in open(os.path.join(VERIF, "corpus", "C03", cf)) if l.strip() and not l.startswith("#")]
    late = ["let l: List<u8, 3> = list![];", "let l: List<u8, 0> = list![];", "let a: [u8; 18446744073709551616] = witness::A;", "let x: u8 = match witness::B { true => 1, true => 2, };",
            "let x: u8 = match witness::E { Left(a: u8) => a, Some(b: u8) => b, };", "let x: u8 = fold::<f, 6>(list![], 0);", "let x: u8 = 256;", "let x: u8 = y;",
            "let x: (u8, u8) = (1, 2, 3);", "let x: u8 = unwrap_left::<u8>(Right(1));", "let x: u300 = 1;", "let x: u8 = jet::no_such_jet(1);", "let x: u8 = 0x123;", "assert!(1);"]
    wraps = [("Some(", ")"), ("(", ")"), ("{ ", " }"), ("(", ", 1)"), ("[", "]"), ("Left(", ")"), ("dbg!(", ")"), ("match true { true => ", ", false => 0, }")]
    for k in range(60 if quick else 400):
        st = hr.choice(late)
        d = hr.choice([1, 2, 3, 4, 6, 9])
        # the failing statement sits inside d nested expressions
        inner = "{ %s 1 }" % st
        for _ in range(d):
            a, b = hr.choice(wraps)
            inner = a + inner + b
        hist.append("fn main() { let z: u8 = %s; }" % inner if hr.random() < 0.5 else "fn f(e: u8, a: u8) -> u8 { a } fn main() { let q: u8 = 1; let z: u8 = %s; }" % inner)
    for d in ((20, 70, 130) if quick else (20, 50, 70, 100, 130, 200, 400)):
        # (plain parentheses and value blocks are left out here: pest needs time exponential in their nesting depth, see DESIGN 12.7)
        for a, b in (wraps[0], wraps[3], wraps[4], wraps[5], wraps[6]):
            hist.append("fn main() { let z: u8 = %s1%s; }" % (a * d, b * d))      # mostly ill-typed, some legal: all nested deep
        hist.append("fn main() { " + "{ " * d + "assert!(jet::eq_8(1, 1));" + " };" * d + " }")
        hist.append("fn main() { let z: %s = %s; }" % ("Option<" * d + "u8" + ">" * d, "Some(" * d + "1" + ")" * d))
        hist.append("fn main() { let z: (%s) = %s; }" % ("(" * d + "u8" + ",)" * d, "(" * d + "1" + ",)" * d))
    hr.shuffle(hist)
    for dbg in (0, 1):
        plines = ["(commit %s () %d)" % (quote(g.text), dbg) for g in progs if not g.label.startswith("large/")]
        hlines = ["(commit %s () %d)" % (quote(t), dbg) for t in hist]
        fresh = impl("core", plines, shards=1)
        after = impl("core", hlines + plines, shards=1)
        chk.count("history.length", len(hlines))
        chk.count("history.crash", sum(1 for x in after[:len(hlines)] if x.startswith("CRASH")))
        for cls in ("ok", "rej", "cerr"):
            chk.count("history.%s" % cls, sum(1 for x in after[:len(hlines)] if x.startswith("(" + cls)))
        for ln, a, b in zip(plines, fresh, after[len(hlines):]):
            chk.case(ln + "#history")
            if a != b:
                chk.violation({"class": "nondeterministic", "what": "fresh process: %s; after %d other inputs on the same thread: %s || %s" % (a[:70], len(hlines), b[:70], ln[:160])},
                              {"cmd": "core", "line": ln, "history": hlines[:400], "fresh": a[:600], "after_history": b[:600],
                               "broken": "the same source compiles differently after other (rejected / deeply nested) sources were compiled earlier in the same process: state survives between compilations"})
    chk.extra["processes_per_program"] = nproc
    # ---- the constructors of the public API agree: CompiledProgram::new = TemplateProgram::new + instantiate (commit bytes);
    #      SatisfiedProgram::new = compile + satisfy = satisfy_with_env(.., None) (program and witness bytes)
    import gen
    aprogs = corelib.gen_programs(chk, 40 if quick else 300, "gapi", size=30)
    alines = []
    for g in aprogs:
        wr = chk.sub_rng("api/" + g.label)
        wit = [(n, gen.gen_val(wr, t)) for n, t in g.witnesses]
        for dbg in (0, 1):
            alines.append((g, "(apipaths %s %s %s %d)" % (quote(g.text), corelib.bindings_sx([(n, v) for (n, _, v) in g.params]), corelib.bindings_sx(wit), dbg)))
    for (g, ln), x in zip(alines, impl("core", [l for _, l in alines])):
        m = re.match(r"\(commit (\S+) (\S+)\) \(redeem (\S+) (\S+) (\S+)\)", x)
        chk.case(ln, sample={"program": g.text[:120], "outcome": x[:60]})
        chk.count("api." + ("agree" if m and m.group(1) == m.group(2) and m.group(3) == m.group(4) == m.group(5) else "differ"))
        if not m or m.group(1) != m.group(2) or not (m.group(3) == m.group(4) == m.group(5)):
            chk.violation({"class": "nondeterministic", "what": "API paths disagree: %s || %s" % (x[:120], g.text[:160])},
                          {"cmd": "core", "line": ln, "program": g.text, "implementation": x[:2000],
                           "broken": "the same source gives different bytes through CompiledProgram::new / TemplateProgram::new + instantiate, or SatisfiedProgram::new / satisfy / satisfy_with_env(None)"})
    chk.extra["rule"] = ("the shipped examples + generated programs + three erroneous texts x {debug off,on}: %d separately started harness processes and 5 repeated in-process compilations must give one "
                         "identical (CMR, encoding); the simc binary built from /repo must print `Program:` + base64 of exactly that encoding and exit 0, or exit non-zero with the library's message") % nproc
