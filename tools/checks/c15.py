"""C15 — values, witness/argument maps and types survive print-parse."""
import itertools

from framework import *  # noqa
import corelib
import gen


def names_pool(rng, n):
    base = ["a", "A", "b", "B", "key", "Key", "k2", "k10", "zz", "Z_1", "sig", "SIG", "x_y", "x", "y"]
    rng.shuffle(base)
    return base[:n]


def run(chk, replay=None):
    build_harness()
    corelib.tables()
    build_driver()
    chk.run_proof_gate()
    if replay is not None:
        x = impl("value", [replay["line"]])[0]
        print("implementation now:", x, "\nrecorded:", replay.get("implementation"), "\nexpected/model:", replay.get("expected") or replay.get("model"))
        return 0
    rng = chk.rng
    quick = chk.tier == "quick"
    # ---- types
    types = list(itertools.islice(gen.small_types(1), 0, 400)) + [gen.gen_ty(rng, depth=3) for _ in range(300 if quick else 5000)] + gen.layout_family()
    lines = ["(tshow %s)" % gen.ty_sx(t) for t in types]
    a = impl("value", lines)
    b = model("value", lines)
    back = impl("value", ["(tparse %s)" % x for x in a])
    for t, ln, x, y, r in zip(types, lines, a, b, back):
        chk.case(ln, nontrivial=t[0] not in ("B", "U"), sample={"type": gen.ty_src(t), "printed": x[:80]})
        chk.count("type." + t[0])
        if x != y:
            chk.violation({"class": "type-print-model", "what": "%s impl=%s model=%s" % (gen.ty_sx(t)[:80], x[:60], y[:60])},
                          {"cmd": "value", "line": ln, "implementation": x, "model": y, "broken": "correspondence: ResolvedType Display vs Text/TyPrint.v (C15_type_printer_machine)"})
        if r != "(ok %s)" % gen.ty_sx(t):
            chk.violation({"class": "type-roundtrip", "what": "%s printed %s parsed back %s" % (gen.ty_sx(t)[:80], x[:60], r[:80])},
                          {"cmd": "value", "line": "(tparse %s)" % x, "implementation": r, "expected": "(ok %s)" % gen.ty_sx(t), "broken": "a printed type does not parse back to the same type"})
    def parenthesise(r, text):
        """the same constant with redundant parentheses: around the whole text and around some integer / boolean atoms"""
        out = []
        i = 0
        for m in re.finditer(r"(?<![A-Za-z0-9_!\[])(0x[0-9a-fA-F]+|0b[01]+|\d+|true|false|None)(?![A-Za-z0-9_>;])", text):
            # not inside a type annotation (after ';' in [T; n] or ', n>' in List<T, n>) — those are not expressions
            pre = text[:m.start()].rstrip()
            if pre.endswith(";") or re.search(r"<[^()]*,$", pre):
                continue
            if r.random() < 0.4:
                out.append(text[i:m.start()] + "(" + m.group(0) + ")")
                i = m.end()
        t = "".join(out) + text[i:]
        return "(%s)" % t if r.random() < 0.5 else t

    # ---- values: byte arrays of every length 0..64, nested byte arrays, sub-byte ints, u128/u256, empties, singletons + random
    u8 = ("U", 3)
    values = []
    for n in range(0, 65):
        values.append(("a", u8, tuple(("u", 3, rng.getrandbits(8)) for _ in range(n))))
    for n in (0, 1, 2, 3):
        for m in (0, 1, 2, 5):
            inner = ("A", u8, m)
            values.append(("a", inner, tuple(("a", u8, tuple(("u", 3, rng.getrandbits(8)) for _ in range(m))) for _ in range(n))))
    values += [("t", ()), ("t", (("t", ()),)), ("t", (("u", 0, 1),)), ("a", ("T", ()), ()), ("li", u8, 1, ()), ("li", u8, 3, ()), ("li", ("A", u8, 2), 2, (("a", u8, (("u", 3, 1), ("u", 3, 2))),)),
               ("s", ("a", u8, (("u", 3, 0),))), ("n", ("A", u8, 4)), ("l", ("a", u8, (("u", 3, 255),)), ("A", u8, 1)), ("t", (("a", u8, ()), ("a", u8, (("u", 3, 7),)))),
               ("u", 7, (1 << 128) - 1), ("u", 8, (1 << 256) - 1), ("u", 7, 0), ("u", 8, 0), ("u", 0, 1), ("u", 1, 3), ("u", 2, 15), ("a", ("U", 4), (("u", 4, 1), ("u", 4, 2))),
               ("a", ("U", 2), (("u", 2, 1),)), ("s", ("s", ("n", u8))), ("r", ("B",), ("l", ("u", 3, 1), ("B",)))]
    for _ in range(800 if quick else 15000):
        t = gen.gen_ty(rng, depth=3, max_size=2048)
        values.append(gen.gen_val(rng, t))
    lines = ["(vshow %s)" % gen.val_sx(v) for v in values]
    a = impl("value", lines)
    b = model("value", lines)
    pl = ["(vparse %s %s)" % (gen.ty_sx(gen.type_of(v)), x) for v, x in zip(values, a)]
    back = impl("value", pl)
    mback = model("value", pl)
    for v, ln, x, y, r, mr, pln in zip(values, lines, a, b, back, mback, pl):
        chk.case(ln, nontrivial=v[0] not in ("b",), sample={"value": x[:100], "type": gen.ty_src(gen.type_of(v))[:80]})
        chk.count("value." + v[0])
        vs = gen.val_sx(v)
        if x != y:
            chk.violation({"class": "value-print-model", "what": "%s impl=%s model=%s" % (vs[:80], x[:80], y[:80])},
                          {"cmd": "value", "line": ln, "implementation": x, "model": y, "broken": "correspondence: Value Display vs Text/ValPrint.v (C15_value_printer_machine)"})
        if r != "(ok %s)" % vs:
            chk.violation({"class": "value-roundtrip", "what": "%s printed %s parsed back %s" % (vs[:80], x[:80], r[:100])},
                          {"cmd": "value", "line": pln, "implementation": r, "expected": "(ok %s)" % vs, "broken": "Value::parse_from_str(v.to_string(), type(v)) != v"})
        if mr != r and not (mr.startswith("(err") and r.startswith("(err")):
            chk.violation({"class": "value-parse-model", "what": "%s impl=%s model=%s" % (x[:80], r[:80], mr[:80])},
                          {"cmd": "value", "line": pln, "implementation": r, "model": mr, "broken": "correspondence: Value::parse_from_str vs Text/ValParse.v on printed text (C15_value_roundtrip)"})
    # ---- redundant parentheses inside a constant never change the value that is read (C17: parenthesisation is layout)
    pv = [(v, parse_sx(x)) for v, x in zip(values, a) if x.startswith('"')][: (600 if quick else 8000)]
    pr = chk.sub_rng("paren")
    ptexts = [parenthesise(pr, txt) for _, txt in pv]
    pl2 = ["(vparse %s %s)" % (gen.ty_sx(gen.type_of(v)), quote(t)) for (v, _), t in zip(pv, ptexts)]
    for (v, txt), t, ln, r in zip(pv, ptexts, pl2, impl("value", pl2)):
        if t == txt:
            continue
        chk.case(ln, sample={"value": txt[:80], "parenthesised": t[:100], "outcome": r[:60]})
        chk.count("value.parenthesised." + ("same" if r == "(ok %s)" % gen.val_sx(v) else "different"))
        if r != "(ok %s)" % gen.val_sx(v):
            chk.violation({"class": "value-roundtrip", "what": "%s written as %s reads %s" % (txt[:60], t[:80], r[:80])},
                          {"cmd": "value", "line": ln, "implementation": r, "expected": "(ok %s)" % gen.val_sx(v), "broken": "a constant with redundant parentheses is rejected or read as a different value"})
    # ---- maps: modules and JSON, 0..6 names
    maps = []
    for _ in range(150 if quick else 3000):
        n = rng.randrange(0, 7)
        names = names_pool(rng, n)
        entries = [(nm, gen.gen_val(rng, gen.gen_ty(rng, depth=2, max_size=600))) for nm in names]
        maps.append((rng.choice(["witness", "param"]), entries))
    ml = ["(modshow %s %s)" % (m, corelib.bindings_sx(e)) for m, e in maps]
    a = impl("value", ml)
    b = model("value", ml)
    shuffled = []
    for m, e in maps:
        e2 = list(e)
        rng.shuffle(e2)
        shuffled.append("(modshow %s %s)" % (m, corelib.bindings_sx(e2)))
    a2 = impl("value", shuffled)
    back = impl("value", ["(modparse %s %s)" % (m, x) for (m, _), x in zip(maps, a)])
    js = impl("value", ["(json %s %s)" % (m, corelib.bindings_sx(e)) for m, e in maps])
    jback = impl("value", ["(unjson %s %s)" % (m, x) for (m, _), x in zip(maps, js)])
    for (m, e), ln, x, y, x2, r, j, jr in zip(maps, ml, a, b, a2, back, js, jback):
        chk.case(ln, sample={"module": x[:160]})
        chk.count("map.%d" % len(e))
        want = "(ok%s)" % "".join(" (%s %s)" % (n, gen.val_sx(v)) for n, v in sorted(e))
        base = {"cmd": "value", "line": ln, "implementation": x}
        if x != y:
            chk.violation({"class": "module-print-model", "what": "impl=%s model=%s" % (x[:100], y[:100])}, dict(base, model=y, broken="correspondence: module Display vs Text/ModPrint.v"))
        if x != x2:
            chk.violation({"class": "module-print-order", "what": "%s vs %s" % (x[:100], x2[:100])}, dict(base, expected=x2, broken="printing a map as a module depends on the order of insertion"))
        names_in_text = re.findall(r"const ([A-Za-z0-9_]+):", parse_sx(x))
        if names_in_text != sorted(names_in_text):
            chk.violation({"class": "module-print-unsorted", "what": str(names_in_text)}, dict(base, broken="module printing does not sort the names"))
        if r != want:
            chk.violation({"class": "module-roundtrip", "what": "printed %s parsed %s" % (x[:100], r[:100])}, dict(base, expected=want, parsed=r, broken="a printed module does not parse back to the same map"))
        if jr != want:
            chk.violation({"class": "json-roundtrip", "what": "json %s parsed %s" % (j[:100], jr[:100])}, dict(base, expected=want, parsed=jr, json=j, broken="a map serialised as JSON does not parse back to the same map"))
    # duplicate names are rejected
    dups = ["(modparse witness %s)" % quote("mod witness { const A: u8 = 1; const A: u8 = 2; }"),
            "(modparse param %s)" % quote("mod param { const A: u8 = 1; const B: bool = true; const A: u8 = 1; }"),
            "(unjson witness %s)" % quote('{"A":{"value":"1","type":"u8"},"A":{"value":"2","type":"u8"}}'),
            "(unjson param %s)" % quote('{"A":{"value":"1","type":"u8"},"B":{"value":"true","type":"bool"},"A":{"value":"1","type":"u8"}}'),
            "(modparse witness %s)" % quote("mod witness { const A: u8 = 1; } mod witness { const B: u8 = 2; }")]
    for ln, x in zip(dups, impl("value", dups)):
        chk.case(ln)
        chk.count("duplicates.%s" % ("rejected" if x.startswith("(err") else "accepted"))
        if not x.startswith("(err"):
            chk.violation({"class": "duplicate-accepted", "what": "%s -> %s" % (ln[:100], x[:80])}, {"cmd": "value", "line": ln, "implementation": x, "broken": "a module / JSON text that assigns one name twice is accepted"})
    chk.extra["rule"] = ("types: exhaustive small + random depth-3 + layout family; values: byte arrays of every length 0..64, nested byte arrays, sub-byte integers, u128/u256 extremes, empty and singleton "
                         "aggregates, random values; maps of 0..6 names (case variants, digits) as module and as JSON, printed from two insertion orders; duplicate-name texts")
