"""C05 — satisfy type-checks witnesses and delivers each value to its name."""
from framework import *  # noqa
import corelib
import gen
import progen
from checks.c13 import assert_eq, Fresh, perturb


def zero_value(t):
    k = t[0]
    if k == "B":
        return ("b", False)
    if k == "U":
        return ("u", t[1], 0)
    if k == "E":
        return ("l", zero_value(t[1]), t[2])
    if k == "O":
        return ("n", t[1])
    if k == "T":
        return ("t", tuple(zero_value(x) for x in t[1]))
    if k == "A":
        return ("a", t[1], tuple(zero_value(t[1]) for _ in range(t[2])))
    if k == "L":
        return ("li", t[1], t[2], ())
    raise ValueError(t)


def observable(t):
    """types whose values assert_eq can pin"""
    k = t[0]
    if k in ("B", "U"):
        return True
    if k == "T":
        return all(observable(x) for x in t[1])
    if k == "A":
        return t[2] <= 4 and observable(t[1])
    if k in ("O",):
        return observable(t[1])
    if k == "E":
        return observable(t[1]) and observable(t[2])
    return False


def run(chk, replay=None):
    build_harness()
    corelib.tables()
    build_driver()
    chk.run_proof_gate()
    if replay is not None:
        x = impl("core", [replay["line"]])[0]
        print("implementation now:", x, "\nrecorded:", replay.get("implementation"), "\nexpected:", replay.get("expected"))
        return 0
    rng = chk.rng
    quick = chk.tier == "quick"
    pg = progen.ProgGen(rng, {}, size=10)
    cases = []   # (text, decl [(n,t)], lits {n: v}, map pairs, kind)
    for i in range(60 if quick else 1000):
        nw = rng.randrange(0, 9)
        decl = []
        lits = {}
        body = []
        fresh = Fresh()
        for j in range(nw):
            for _ in range(20):
                t = pg.small_ty(2)
                if observable(t):
                    break
            else:
                t = ("U", 3)
            if rng.random() < 0.2:
                # nested tuples (another grouping of the same leaves is a different type)
                t = rng.choice([("T", (("T", (("U", 3), ("U", 3))), ("U", 3))), ("T", (("T", (("U", 3), ("B",), ("U", 0))),)), ("T", (("T", (gen.UNIT, ("U", 3))), ("U", 4), ("B",))),
                                ("O", ("T", (("T", (("U", 0), ("U", 0))), ("B",)))), ("T", (("T", (("T", (("U", 3),)), ("U", 3))), ("U", 3)))])
            n = "W%d" % j
            v = gen.gen_val(rng, t)
            decl.append((n, t))
            lits[n] = v
            stm = ["let w%d: %s = witness::%s;" % (j, gen.ty_src(t), n)] + assert_eq("w%d" % j, t, v, fresh)
            c = rng.random()
            if c < 0.15:
                # the witness is read inside a match arm (the other arm reads nothing)
                stm = ["match true { true => { %s }, false => { }, };" % " ".join(stm)]
            elif c < 0.25:
                stm = ["match Left(()) { Right(r%d: u8) => (), Left(l%d: ()) => { %s }, };" % (j, j, " ".join(stm))]
            elif c < 0.35:
                stm = ["{ { %s }; };" % " ".join(stm)]
            body += stm
        text = "fn main() { %s }" % " ".join(body)
        base = [(n, lits[n]) for n, _ in decl]
        variants = [("exact", list(base))]
        perm = list(base)
        rng.shuffle(perm)
        variants.append(("permuted", perm))
        variants.append(("extra", base + [("XTRA", gen.gen_val(rng, pg.small_ty(1))), ("ZZ9", ("u", 3, 1))]))
        if decl:
            j = rng.randrange(len(decl))
            n, t = decl[j]
            variants.append(("missing", [p for p in base if p[0] != n]))
            pv = perturb(rng, t, lits[n])
            if pv is not None:
                variants.append(("other-value", [(m, (pv if m == n else v)) for m, v in base]))
            ps = progen.cast_partners(t)
            if ps:
                s = rng.choice(ps)
                variants.append(("same-layout-type", [(m, (gen.gen_val(rng, s) if m == n else v)) for m, v in base]))
            for _ in range(10):
                d = pg.small_ty(1)
                if d != t:
                    variants.append(("different-type", [(m, (gen.gen_val(rng, d) if m == n else v)) for m, v in base]))
                    break
            rg = progen.regroup(t, lits[n])
            if rg:
                variants.append(("regrouped-tuple-type", [(m, (rg[1] if m == n else v)) for m, v in base]))
        # combinations: the rules must hold jointly (an undeclared name next to an ill-typed declared one, ...)
        singles = {k: m for k, m in variants}
        for _ in range(4):
            m = list(base)
            tags = []
            if decl and rng.random() < 0.7:
                j = rng.randrange(len(decl))
                n, t = decl[j]
                which = rng.choice(["different-type", "same-layout-type", "other-value"])
                repl = None
                if which == "different-type":
                    for _ in range(10):
                        d = pg.small_ty(1)
                        if d != t:
                            repl = gen.gen_val(rng, d)
                            break
                elif which == "same-layout-type":
                    ps = progen.cast_partners(t)
                    if ps:
                        repl = gen.gen_val(rng, rng.choice(ps))
                else:
                    repl = perturb(rng, t, lits[n])
                if repl is not None:
                    m = [(a, (repl if a == n else v)) for a, v in m]
                    tags.append(which)
            if len(decl) > 1 and rng.random() < 0.3:
                drop = rng.choice([n for n, _ in decl])
                m = [p for p in m if p[0] != drop]
                tags.append("missing")
            k = rng.choice([1, 2, 6, 12])
            m += [("X%d_%s" % (q, rng.choice("abcxyz")), gen.gen_val(rng, pg.small_ty(1))) for q in range(k)]
            tags.append("extra%d" % k)
            rng.shuffle(m)
            variants.append(("combo:" + "+".join(tags), m))
        for kind, m in variants:
            cases.append((text, decl, lits, m, kind))
    il = ["(run %s () %s 0)" % (quote(c[0]), corelib.bindings_sx(c[3])) for c in cases]
    ml = ["(mwcons %s %s)" % (corelib.bindings_sx(c[3]), "(" + " ".join("(%s %s)" % (n, gen.ty_sx(t)) for n, t in c[1]) + ")") for c in cases]
    ia = impl("core", il)
    mb = model("core", ml)
    for (text, decl, lits, m, kind), x, y, ln in zip(cases, ia, mb, il):
        ci = corelib.classify_impl(x)
        chk.case(ln, sample={"program": text[:200], "map": corelib.bindings_sx(m)[:160], "kind": kind, "implementation": ci})
        chk.count("%s.%s" % (re.sub(r"extra\d+", "extra", kind), ci))
        base = {"cmd": "core", "line": ln, "program": text, "witness": corelib.bindings_sx(m), "implementation": x, "model_consistent": y}
        if ci == "panic":
            chk.violation({"class": "satisfy-panic", "what": "%s %s" % (kind, x[:120])}, dict(base, broken="satisfy / execution panicked"))
            continue
        accepted = ci != "sat-error"
        if accepted != (y == "true"):
            chk.violation({"class": "consistency", "what": "%s: satisfy %s, model consistent=%s" % (kind, ci, y)},
                          dict(base, expected="Err" if y != "true" else "Ok", broken="satisfy returns Err exactly when a declared name carries a value of a different type (C05_consistent_spec + correspondence)"))
            continue
        if not accepted:
            continue
        # delivery: the program asserts witness::N == literal for every N; it passes exactly when every supplied value is the literal
        md = dict(m)
        want = "ok"
        for n, t in decl:
            v = md.get(n, zero_value(t))
            if v != lits[n]:
                want = "failed"
        if ci != want:
            chk.violation({"class": "delivery", "what": "%s: expected %s got %s" % (kind, want, ci)},
                          dict(base, expected=want, broken="a witness expression does not evaluate to the value supplied under its name (C05_delivery / C05_witness_expression + C01)"))
    # every public way of attaching witness values applies the same type check: satisfy, satisfy_with_env(.., None),
    # satisfy_with_env(.., Some(env)) and SatisfiedProgram::new answer Err for every map the model calls inconsistent (none panics,
    # none lets the value through to pruning / encoding), and Ok for consistent ones (with an environment: Ok when the program succeeds)
    pl = ["(satpaths %s () %s)" % (quote(c[0]), corelib.bindings_sx(c[3])) for c in cases]
    for (text, decl, lits, m, kind), x, y, r, ln in zip(cases, impl("core", pl), mb, ia, pl):
        got = dict(re.findall(r"\((satisfy|env-none|env-some|new) (ok|panic|\(err)", x))
        chk.case(ln)
        if len(got) != 4:
            chk.violation({"class": "satisfy-panic", "what": "%s %s" % (kind, x[:120])}, {"cmd": "core", "line": ln, "program": text, "implementation": x[:600], "broken": "unexpected answer of the entry points"})
            continue
        for path, ans in got.items():
            if y != "true":
                want = "(err"
            elif path == "env-some" and corelib.classify_impl(r) != "ok":
                continue        # consistent, but the program itself fails under the environment: Err is right (C18)
            else:
                want = "ok"
            chk.count("paths.%s.%s" % (path, ans.strip("(")))
            if ans != want:
                chk.violation({"class": "consistency", "what": "%s: %s answers %s, model consistent=%s || %s" % (kind, path, ans.strip("("), y, x[:100])},
                              {"cmd": "core", "line": ln, "program": text, "witness": corelib.bindings_sx(m), "implementation": x[:800], "model_consistent": y, "entry_point": path,
                               "expected": "Err" if y != "true" else "Ok",
                               "broken": "this entry point does not apply the witness type check like satisfy does (an ill-typed value is accepted, reaches pruning or the encoder, or panics)"})
                break
    # witnesses declared through a builtin alias: a value of the documented type (book/src/type_alias.md) is accepted, a value of
    # a different type with the same layout is not
    doc = os.path.join(REPO, "book", "src", "type_alias.md")
    if os.path.exists(doc):
        rows = re.findall(r"^\|\s*`([A-Za-z0-9]+)`\s*\|\s*`([^`]+)`\s*\|", open(doc).read(), re.M)
        tys = impl("value", ["(tparse %s)" % quote(d) for _, d in rows])
        al, ar = [], []
        for (name, d), r in zip(rows, tys):
            if not r.startswith("(ok") or name == "ExplicitAmount":
                continue
            t = progen.sx_to_ty(parse_sx(r)[1])
            v = gen.gen_val(rng, t)
            text = "fn main() { let w: %s = witness::W; }" % name
            al.append((name, d, "ok", "(run %s () %s 0)" % (quote(text), corelib.bindings_sx([("W", v)]))))
            ps = progen.cast_partners(t)
            if ps:
                al.append((name, d, "sat-error", "(run %s () %s 0)" % (quote(text), corelib.bindings_sx([("W", gen.gen_val(rng, ps[0]))]))))
        for (name, d, want, ln), x in zip(al, impl("core", [a[3] for a in al])):
            ci = corelib.classify_impl(x)
            chk.case(ln, sample={"alias": name, "documented": d, "outcome": ci})
            chk.count("alias-witness.%s.%s" % (want, ci))
            if ci != want:
                chk.violation({"class": "consistency", "what": "witness declared %s (documented %s): expected %s, got %s" % (name, d, want, x[:80])},
                              {"cmd": "core", "line": ln, "implementation": x, "expected": want, "broken": "a witness declared through a builtin alias must take exactly the values of the alias's documented type"})
    # the witness node of a single-witness program: its value is the supplied value shrunk to the node's type, exactly as the
    # model of named.rs prune_value computes it (C05_prune_value_is_prune, C05_prune_typed_total); the node type is a shrunk
    # form of the declared layout (hypothesis of C05_pruned_witnesses_typed)
    single = [g for g in corelib.partial_witness_programs(chk, 150 if quick else 3000, "pwnode") if len(g.witnesses) == 1]
    wl = ["(witnodes %s () %s)" % (quote(g.text), corelib.bindings_sx(g.extra_assign[0])) for g in single]
    for g, ln, x in zip(single, wl, impl("core", wl)):
        if not x.startswith("(ok"):
            chk.count("witness-node.%s" % x.split(" ")[0].strip("("))
            continue
        nodes = parse_sx(x)[1:]
        if len(nodes) != 1:
            chk.count("witness-node.count%d" % len(nodes))
            continue
        ty, val = nodes[0]
        v = g.extra_assign[0][0][1]
        m = model("layout", ["(prune %s %s)" % (gen.val_sx(v), sx(ty))], shards=1)[0]
        chk.case(ln, sample={"program": g.text[:160], "supplied": gen.val_sx(v)[:80], "node_type": sx(ty)[:80], "node_value": sx(val)[:80]})
        chk.count("witness-node." + ("same" if m == "(some %s) (shrinks true)" % sx(val) else "different"))
        if m != "(some %s) (shrinks true)" % sx(val):
            chk.violation({"class": "delivery", "what": "witness node holds %s, model of the shrink gives %s || %s" % (sx(val)[:80], m[:100], g.text[:160])},
                          {"cmd": "core", "line": ln, "program": g.text, "witness": corelib.bindings_sx(g.extra_assign[0]), "node_type": sx(ty), "implementation": sx(val), "model": m,
                           "broken": "the value stored in the witness node is not the supplied value shrunk to the node's type, or the node's type is not a shrunk form of the declared layout"})
    # partially inspected witnesses: the value that satisfy puts into the node must be of the node's (smaller) type — checked
    # through the encoding round trip and the run against the source semantics
    pw = corelib.check_terms(chk, corelib.partial_witness_programs(chk, 60 if quick else 1500, "pw5"), dbgs=(0,))
    corelib.run_matrix(chk, pw, dbgs=(0,), max_assign=12 if quick else None)
    chk.extra["rule"] = ("programs with 0..8 witnesses of random observable types, each compared leaf by leaf with a literal; maps: exact, permuted, extra names, one name missing (documented: zero value), "
                         "one value changed, one value replaced by a value of a layout-equal but different type, one by a value of a different type, and random combinations of these with 1..12 undeclared names; satisfy Ok/Err vs the model, execution vs the expected delivery")
