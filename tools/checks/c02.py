"""C02 — what satisfy returns spends the committed CMR."""
from framework import *  # noqa
import corelib
import gen
import progen
from checks.c08 import Prog

SHAPES = [
    # witnesses whose value is never (fully) inspected
    ("unused-variable", "fn main() { let x: %(T)s = witness::A; }"),
    ("ignore-pattern", "fn main() { let _: %(T)s = witness::A; }"),
    ("ignored-tuple-component", "fn main() { let (a, _): (u8, %(T)s) = (1, witness::A); assert!(jet::eq_8(a, 1)); }"),
    ("left-payload-ignored", "fn main() { let e: Either<%(T)s, u8> = Left(witness::A); match e { Left(l: %(T)s) => (), Right(r: u8) => assert!(jet::eq_8(r, 0)), }; }"),
    ("either-witness-arm-ignores", "fn main() { match witness::A { Left(l: %(T)s) => (), Right(r: u8) => (), }; }"),
    ("through-dbg", "fn main() { let x: %(T)s = dbg!(witness::A); }"),
    ("dropped-by-function", "fn drop_it(x: %(T)s) -> () { () }\nfn main() { drop_it(witness::A); }"),
    ("statement-expression", "fn main() { { let y: %(T)s = witness::A; }; }"),
    ("option-is-none-only", "fn main() { let o: Option<%(T)s> = witness::A; assert!(is_none::<%(T)s>(None)); match o { None => (), Some(v: %(T)s) => (), }; }"),
    ("list-unused", "fn main() { let l: List<%(T)s, 4> = witness::A; }"),
    ("array-one-element-used", "fn main() { let [a, b, c]: [(u8, %(T)s); 3] = witness::A; let (x, y): (u8, %(T)s) = b; assert!(jet::eq_8(x, x)); }"),
    ("destructured-unused", "fn main() { let (a, b): (%(T)s, %(T)s) = witness::A; let first: %(T)s = a; let second: %(T)s = b; }"),
    ("destructured-array-unused", "fn main() { let [a, b, c]: [%(T)s; 3] = witness::A; let t: (%(T)s, %(T)s) = (c, a); }"),
    ("passed-through-functions", "fn id(x: %(T)s) -> %(T)s { x }\nfn main() { let y: %(T)s = id(id(witness::A)); }"),
    ("two-witnesses-one-used", "fn main() { let p: (%(T)s, u8) = (witness::A, witness::B); let (q, r): (%(T)s, u8) = p; assert!(jet::eq_8(r, r)); }"),
]


def shape_type(kind, T):
    if kind == "either-witness-arm-ignores":
        return {"A": ("E", T, ("U", 3))}
    if kind == "option-is-none-only":
        return {"A": ("O", T)}
    if kind == "list-unused":
        return {"A": ("L", T, 2)}
    if kind == "array-one-element-used":
        return {"A": ("A", ("T", (("U", 3), T)), 3)}
    if kind == "destructured-unused":
        return {"A": ("T", (T, T))}
    if kind == "destructured-array-unused":
        return {"A": ("A", T, 3)}
    if kind == "two-witnesses-one-used":
        return {"A": T, "B": ("U", 3)}
    return {"A": T}


def run(chk, replay=None):
    build_harness()
    corelib.tables()
    build_driver()
    chk.run_proof_gate()
    if replay is not None:
        import checks.c01 as c01
        return c01.do_replay(replay)
    rng = chk.rng
    quick = chk.tier == "quick"
    pg = progen.ProgGen(rng, {}, 5)
    types = [("U", 3), ("U", 0), ("B",), ("U", 6), ("U", 8), ("T", (("U", 3), ("B",))), ("O", ("U", 4)), ("E", ("U", 1), ("U", 3)), ("A", ("U", 3), 3), ("L", ("U", 3), 2), gen.UNIT]
    types += [pg.small_ty(2) for _ in range(6 if quick else 60)]
    progs = []
    for kind, tmpl in SHAPES:
        for T in types:
            text = tmpl % {"T": gen.ty_src(T)}
            wt = shape_type(kind, T)
            p = Prog(text, list(wt.items()), "shape/%s/%s" % (kind, gen.ty_src(T)))
            p.kind = kind
            progs.append(p)
    gprogs = corelib.gen_programs(chk, 80 if quick else 1000, "gsat", size=30)
    gprogs += corelib.partial_witness_programs(chk, 80 if quick else 1000, "pw")
    acc = corelib.check_terms(chk, progs + gprogs, dbgs=(0,))
    # every (program, witness map): redeem CMR = commit CMR, encoding decodes with that CMR, no panic — all flagged by run_matrix;
    # in addition the commit CMR must not depend on the witness values: compare `commit` with the cmr facts of >= 3 maps
    shapes = [g for g in acc if hasattr(g, "kind")]
    jobs = []
    for g in shapes:
        wr = chk.sub_rng("maps/" + g.label)
        for i in range(3 if quick else 8):
            jobs.append((g, [(n, gen.gen_val(wr, t)) for n, t in g.witnesses]))
    res = impl("core", ["(run %s () %s 0)" % (quote(g.text), corelib.bindings_sx(m)) for g, m in jobs])
    for (g, m), x in zip(jobs, res):
        ln = "(run %s () %s 0)" % (quote(g.text), corelib.bindings_sx(m))
        ci = corelib.classify_impl(x)
        chk.case(ln, sample={"program": g.text[:200], "witness": corelib.bindings_sx(m)[:160], "outcome": x[:80]})
        chk.count("shape.%s.%s" % (g.kind, ci))
        base = {"cmd": "core", "line": ln, "program": g.text, "witness": corelib.bindings_sx(m), "implementation": x}
        if ci == "panic":
            chk.violation({"class": "run-panic", "what": "%s || %s" % (x[:120], g.text[:160])}, dict(base, broken="satisfy / encode / decode / Bit Machine panicked on a type-correct witness map"))
        elif ci == "sat-error":
            chk.violation({"class": "satisfy-error", "what": "%s || %s" % (x[:120], g.text[:160])}, dict(base, broken="satisfy rejected a type-correct witness map"))
        elif "DIFF" in x or "decode=ERR" in x or "decode=ok" not in x:
            chk.violation({"class": "redeem-encoding", "what": "%s || %s" % (x[:120], g.text[:160])}, dict(base, broken="the redeem program's CMR differs from commit() or its encoding does not decode to that CMR"))
        elif ci != "ok":
            chk.violation({"class": "unexpected-failure", "what": "%s || %s" % (x[:120], g.text[:160])}, dict(base, broken="a program that inspects nothing fails"))
    corelib.run_matrix(chk, [g for g in acc if not hasattr(g, "kind")], dbgs=(0,), max_assign=12 if quick else None)
    chk.extra["rule"] = ("witness-flow shapes (unused variable, `_`, ignored tuple component, payload of an ignored arm, through dbg!, dropped by a function, inside an unused block, "
                         "Option/List/array partially used, two witnesses one used) x %d value types x >=3 random type-correct maps, plus the generated family x witness assignments: "
                         "redeem CMR = commit CMR (hence independent of the witness), encode/decode round trip keeps the CMR, execution never panics") % len(types)
