"""C07 — structural layout of types, values, casts; reconstruction."""
import itertools

from framework import *  # noqa
import gen


def gen_cases(chk):
    rng = chk.rng
    quick = chk.tier == "quick"
    types = []
    # exhaustive small types
    depth = 1 if quick else 2
    small = list(itertools.islice(gen.small_types(depth), 0, 1500 if quick else 20000))
    types += small
    chk.count("types.exhaustive_small", len(small))
    # list bounds 2..512 and array sizes 0..17 + selected large over a few element types
    els = [("B",), ("U", 0), ("U", 3), gen.UNIT, ("O", ("U", 1)), ("T", (("U", 0), ("B",)))]
    for e in els:
        for k in range(1, 10 if not quick else 8):
            types.append(("L", e, k))
        for n in list(range(0, 18)) + [31, 32, 33, 63, 64, 65, 100, 127, 128, 129, 255, 256, 257] + ([] if quick else [511, 512, 513, 1000, 1023, 1024, 1025]):
            types.append(("A", e, n))
        for n in range(0, 12):
            types.append(("T", tuple(els[(i + n) % len(els)] for i in range(n))))
    # random deep types
    nrand = 400 if quick else 6000
    for _ in range(nrand):
        types.append(gen.gen_ty(rng, depth=3))
    chk.count("types.random", nrand)
    types += gen.layout_family()
    # values
    values = []
    nval = 1500 if quick else 25000
    for i in range(nval):
        t = types[rng.randrange(len(types))] if rng.random() < 0.5 else gen.gen_ty(rng, depth=3, max_size=2048)
        if gen.ty_size(t) > 6000:
            continue
        values.append(gen.gen_val(rng, t))
    # every list length for small bounds, every block boundary for larger ones
    for k in range(1, 6 if quick else 8):
        for n in range(0, 1 << k):
            values.append(("li", ("U", 1), k, tuple(("u", 1, (i * 7 + n) % 4) for i in range(n))))
    for k in range(6, 9 if quick else 10):
        for n in sorted({0, 1, (1 << k) - 1, (1 << k) - 2} | {(1 << j) + d for j in range(k) for d in (-1, 0, 1)}):
            if 0 <= n < (1 << k):
                values.append(("li", ("B",), k, tuple(("b", (i * 5 + n) % 3 == 0) for i in range(n))))
    return types, values


def run(chk, replay=None):
    build_harness()
    build_driver()
    chk.run_proof_gate()
    types, values = gen_cases(chk)
    if replay is not None and "line" in replay:
        a = impl(replay["cmd"], [replay["line"]])[0]
        b = model(replay["cmd"], [replay["line"]])[0]
        print("implementation:", a)
        print("model         :", b)
        return 0 if a == b else 1

    # ---- T1: struct_ty
    lines = ["(sty %s)" % gen.ty_sx(t) for t in types]
    a = impl("layout", lines)
    b = model("layout", lines)
    for t, ln, x, y in zip(types, lines, a, b):
        chk.case(ln, nontrivial=t[0] not in ("B", "U"), sample={"type": gen.ty_src(t), "layout": x[:200]})
        chk.count("sty." + t[0])
        if x != y:
            chk.violation({"class": "layout-type", "what": "type %s" % gen.ty_src(t)},
                          {"cmd": "layout", "line": ln, "type": gen.ty_src(t), "implementation": x[:2000], "documented_layout(model)": y[:2000],
                           "broken": "correspondence StructuralType::from(&ResolvedType) vs Layout/Ty.v struct_ty (theorems C07_*_layout)"})
    # ---- T2: structural values + reconstruct
    lines = ["(sval %s)" % gen.val_sx(v) for v in values]
    a = impl("layout", lines)
    b = model("layout", lines)
    rl = ["(roundtrip %s)" % gen.val_sx(v) for v in values]
    ra = impl("layout", rl)
    rb = model("layout", rl)
    wf = model("layout", ["(wf %s)" % gen.val_sx(v) for v in values])
    for v, ln, x, y, rx, ry, w, rln in zip(values, lines, a, b, ra, rb, wf, rl):
        vs = gen.val_sx(v)
        chk.case(ln, nontrivial=v[0] not in ("b",), sample={"value": gen.val_src(v), "type": gen.ty_src(gen.type_of(v))})
        chk.count("val." + v[0])
        if w != "true":
            chk.violation({"class": "generator", "what": "generated value not well-formed in the model: " + vs[:100]},
                          {"cmd": "layout", "line": "(wf %s)" % vs, "broken": "generator/model disagreement on value_wf"}, no_input=True)
        if x != y:
            chk.violation({"class": "layout-value", "what": "value %s" % gen.val_src(v)[:200]},
                          {"cmd": "layout", "line": ln, "implementation": x[:2000], "documented_layout(model)": y[:2000],
                           "broken": "correspondence StructuralValue::from(&Value) vs Layout/Value.v structural"})
        expect = "(some %s)" % vs
        if rx != expect:
            # gate D: the property itself, no model needed
            chk.violation({"class": "reconstruct-roundtrip", "what": "value %s" % gen.val_src(v)[:200]},
                          {"cmd": "layout", "line": rln, "expected": expect[:2000], "implementation": rx[:2000],
                           "broken": "Value::reconstruct(StructuralValue::from(v), type(v)) != Some(v)"})
        if rx != ry:
            chk.violation({"class": "reconstruct-model", "what": "value %s" % gen.val_src(v)[:200]},
                          {"cmd": "layout", "line": rln, "implementation": rx[:2000], "model": ry[:2000],
                           "broken": "correspondence Value::reconstruct vs Layout/Value.v reconstruct (theorem C07_reconstruct_structural)"})
    # ---- T3: cross-type reconstruction and casts over the layout family
    fam = gen.layout_family()
    pairs = [(s, t) for s in fam for t in fam]
    if chk.tier == "quick":
        rng = chk.sub_rng("pairs")
        same = [p for p in pairs if True]
        pairs = rng.sample(pairs, 700)
    cast_lines = ["(cast %s %s)" % (gen.ty_sx(s), gen.ty_sx(t)) for s, t in pairs]
    mc = model("layout", cast_lines)
    progs = ["(accept %s)" % quote("fn main() { let a: %s = witness::a; let b: %s = <%s>::into(a); }" % (gen.ty_src(s), gen.ty_src(t), gen.ty_src(s))) for s, t in pairs]
    ia = impl("front", progs)
    rec_lines = []
    vrng = chk.sub_rng("recon")
    for s, t in pairs:
        v = gen.gen_val(vrng, s)
        rec_lines.append(None)
    n_ok = 0
    for (s, t), m, i, pl in zip(pairs, mc, ia, progs):
        chk.case(pl, sample=None)
        chk.count("cast.%s" % ("equal" if m == "true" else "different"))
        acc = i == "ok"
        if i.startswith("PANIC") or i.startswith("CRASH"):
            chk.violation({"class": "cast-panic", "what": "%s -> %s" % (gen.ty_src(s), gen.ty_src(t))},
                          {"cmd": "front", "line": pl, "implementation": i, "broken": "front end panics on a cast program"})
        elif acc != (m == "true"):
            chk.violation({"class": "cast-acceptance", "what": "%s -> %s" % (gen.ty_src(s), gen.ty_src(t))},
                          {"cmd": "front", "line": pl, "implementation": i, "model_cast_ok": m,
                           "broken": "cast accepted iff layouts equal (theorem C07_cast_admissible + correspondence)"})
        n_ok += acc
    # cross-type reconstruction where layouts are equal: reconstruct at T a value built at S
    eq_pairs = [(s, t) for (s, t), m in zip(pairs, mc) if m == "true"]
    rl2 = []
    for s, t in eq_pairs:
        v = gen.gen_val(vrng, s)
        rl2.append((s, t, v))
    sv = model("layout", ["(sval %s)" % gen.val_sx(v) for (_, _, v) in rl2])
    lines = ["(recon %s %s %s)" % (gen.ty_sx(t), gen.ty_sx(s), parse_first(x)) for (s, t, v), x in zip(rl2, sv)]
    a = impl("layout", lines)
    b = model("layout", lines)
    for (s, t, v), ln, x, y in zip(rl2, lines, a, b):
        chk.case(ln)
        chk.count("recon.cross")
        if x != y:
            chk.violation({"class": "reconstruct-cross", "what": "%s at %s" % (gen.val_src(v)[:100], gen.ty_src(t))},
                          {"cmd": "layout", "line": ln, "implementation": x[:2000], "model": y[:2000],
                           "broken": "correspondence Value::reconstruct vs model on a value of an equal-layout type"})
    chk.extra["rule"] = ("types: exhaustive small types to depth %d, list bounds 2..%d, array sizes 0..17 + powers-of-two neighbours, random depth-3 types; "
                         "values: random well-formed values of those types incl. every list length for bounds <= %d; casts: ordered pairs of a %d-type layout family; "
                         "a case is non-trivial unless it is a bare bool/uint; distinct = distinct wire form") % (
        1 if chk.tier == "quick" else 2, 128 if chk.tier == "quick" else 512, 32 if chk.tier == "quick" else 128, len(fam))
    chk.extra["cast_pairs_accepted"] = n_ok


def parse_first(s):
    """first element of a two-element S-expression list, textually"""
    assert s.startswith("("), s[:100]
    depth = 0
    i = 1
    start = 1
    while i < len(s):
        c = s[i]
        if c == "(":
            depth += 1
        elif c == ")":
            depth -= 1
            if depth == 0:
                return s[start:i + 1]
        elif c == " " and depth == 0:
            return s[start:i]
        i += 1
    return s[start:]
