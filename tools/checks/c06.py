"""C06 — every text entry point is total: Ok or Err, never a panic."""
from framework import *  # noqa
import corelib
import gen
import layout
import progen

TOKEN_RE = re.compile(r"[A-Za-z_][A-Za-z0-9_]*|[0-9][0-9a-fA-Fxb_]*|::|->|=>|[{}()\[\];:,=<>!&|+\-*/.\"'#@]|\s+")
EDGE = ["_", "0x_", "0b_", "0x", "0b", "__", "9" * 80, "0x" + "f" * 70, "0b" + "1" * 300, "1_", "_1", "\r", "\r\n", "\t", "é", "\U0001F388", "/*", "*/", "//", "/* c */", "// x\n",
        "witness::", "param::", "jet::", "jet::verify", "list![", "Left(", "Some(", "None", "true", "false", "match", "fn", "let", "type", "mod", "const", "u1", "u256", "u7", "bool", "()", "[]", "<", ">", "::<", ">::into",
        "unwrap", "unwrap_left::<", "is_none::<", "fold::<", "for_while::<", "dbg!", "assert!", "panic!", "18446744073709551616", "4294967296", "[u8; 18446744073709551615]", "List<u8, 0>", "List<u8, 3>", "List<u8, 1>",
        "\x00", "\x7f", "﻿"]


def nesting_ok(s, limit=12):
    d = 0
    m = 0
    for c in s:
        if c in "([{<":
            d += 1
            m = max(m, d)
        elif c in ")]}>":
            d = max(0, d - 1)
    return m <= limit


def mutate(rng, text):
    toks = [m.group(0) for m in TOKEN_RE.finditer(text)]
    if not toks:
        return rng.choice(EDGE)
    n = rng.choice([1, 1, 1, 2, 3])
    for _ in range(n):
        if not toks:
            toks = [rng.choice(EDGE)]
        i = rng.randrange(len(toks))
        c = rng.randrange(7)
        if c == 0:
            toks.insert(i, rng.choice(EDGE))
        elif c == 1:
            del toks[i]
            if not toks:
                toks = [""]
        elif c == 2:
            toks[i] = rng.choice(EDGE)
        elif c == 3:
            toks.insert(i, toks[i])
        elif c == 4:
            j = rng.randrange(len(toks))
            toks[i], toks[j] = toks[j], toks[i]
        elif c == 5:
            toks[i] = rng.choice(toks)
        else:
            toks = toks[:i]
    return "".join(toks)


def declared_size(text):
    """the largest array size / list bound written in a text"""
    ns = [int(x) for x in re.findall(r";\s*(\d+)\s*\]", text)] + [int(x) for x in re.findall(r",\s*(\d+)\s*>", text)]
    return max(ns) if ns else 0


def split_items(text):
    """top-level items of a program text (split at bracket depth 0 in front of fn / type / mod); comments are not special-cased,
    a wrong split only yields one more malformed text"""
    cuts, depth = [], 0
    for m in re.finditer(r"[{}()\[\]]|\b(?:fn|type|mod)\b", text):
        t = m.group(0)
        if t in "{([":
            depth += 1
        elif t in "})]":
            depth -= 1
        elif depth == 0:
            cuts.append(m.start())
    if not cuts:
        return [text]
    return [text[:cuts[0]]] + [text[a:b] for a, b in zip(cuts, cuts[1:] + [len(text)])]


def mutate_items(rng, text):
    """item-level changes: an item twice (two `main`s, a function / alias defined twice), items reordered (main first, use before
    definition), an item dropped, an item renamed to main / main renamed"""
    items = split_items(text)
    head, items = items[0], items[1:]
    if not items:
        return text + text
    c = rng.randrange(6)
    i = rng.randrange(len(items))
    if c == 0:
        items.insert(rng.randrange(len(items) + 1), items[i])
    elif c == 1:
        rng.shuffle(items)
    elif c == 2:
        del items[i]
    elif c == 3:
        items[i] = re.sub(r"\bfn\s+\w+", "fn main", items[i], count=1)
    elif c == 4:
        items = [re.sub(r"\bfn\s+main\b", "fn main2", it) for it in items]
    else:
        items = items + items
    return head + "".join(items)


def run(chk, replay=None):
    build_harness()
    corelib.tables()
    build_driver()
    chk.run_proof_gate()
    quick = chk.tier == "quick"
    if not quick:
        build_harness(release=True)
    if replay is not None:
        x = impl("total", [replay["line"]])[0]
        print("implementation now:", x, "\nrecorded:", replay.get("implementation"))
        return 0
    rng = chk.rng
    progs = corelib.gen_programs(chk, 60 if quick else 600, "gtok", size=30)
    texts = [g.text for g in progs]
    ex = os.path.join(REPO, "examples")
    wits, argsf = [], []
    for f in sorted(os.listdir(ex)):
        p = os.path.join(ex, f)
        if f.endswith(".simf"):
            texts.append(open(p).read())
        elif f.endswith(".wit"):
            wits.append(open(p).read())
        elif f.endswith(".args"):
            argsf.append(open(p).read())
    cd = os.path.join(VERIF, "corpus", "C03")
    corpus_texts = [l.strip() for f in sorted(os.listdir(cd)) for l in open(os.path.join(cd, f)) if l.strip()]
    modules = ["mod witness { const A: u8 = 1; const B: (bool, [u8; 2]) = (true, 0x0102); }", "mod param { const P: Either<u8, u16> = Left(3); }", "mod witness { }",
               "mod witness { const A: List<u8, 4> = list![1, 2]; }\nmod param { const X: Option<u256> = None; }"]
    jsons = wits + argsf + ['{"A":{"value":"1","type":"u8"}}', "{}", '{"A":{"value":"(true, 0x0102)","type":"(bool, [u8; 2])"},"B":{"value":"None","type":"Option<u8>"}}']
    lines = []
    nmut = 25 if quick else 250
    import layout
    for t in corpus_texts:
        lines.append("(entry program %s)" % quote(t))
    for t in texts:
        lines.append("(entry program %s)" % quote(t))
        # valid programs in other layouts: comments with multi-byte characters in front of calls, CRLF, tabs
        for j in range(3 if quick else 12):
            lines.append("(entry program %s)" % quote(layout.relayout(rng, t, crlf=rng.random() < 0.3, comments=True, comment_rate=0.5)))
        for _ in range(nmut):
            m = mutate(rng, t)
            if nesting_ok(m):
                lines.append("(entry program %s)" % quote(m))
        for _ in range(6 if quick else 30):
            m = mutate_items(rng, t)
            chk.count("item-mutations")
            lines.append("(entry program %s)" % quote(m))
    for t in modules:
        for kind in ("witmod", "argmod"):
            lines.append("(entry %s %s)" % (kind, quote(t)))
            for _ in range(nmut * 2):
                m = mutate(rng, t)
                if nesting_ok(m):
                    lines.append("(entry %s %s)" % (kind, quote(m)))
    for t in jsons:
        for kind in ("witjson", "argjson"):
            lines.append("(entry %s %s)" % (kind, quote(t)))
            for _ in range(nmut):
                m = mutate(rng, t)
                if nesting_ok(m):
                    lines.append("(entry %s %s)" % (kind, quote(m)))
    # value parsing at every type of a family x value texts and their mutants; type parsing
    fam = gen.layout_family() + [("U", k) for k in range(9)] + [("A", ("U", 3), n) for n in (0, 1, 32)] + [("L", ("U", 3), 8)]
    vtexts = []
    for t in fam:
        for _ in range(2 if quick else 10):
            vtexts.append(gen.val_src(gen.gen_val(rng, t)))
    vtexts += EDGE
    for t in fam:
        for v in rng.sample(vtexts, 12 if quick else 60):
            lines.append("(entry value %s %s)" % (gen.ty_sx(t), quote(v)))
            lines.append("(entry value %s %s)" % (gen.ty_sx(t), quote(mutate(rng, v))))
        lines.append("(entry type %s)" % quote(gen.ty_src(t)))
        for _ in range(6 if quick else 40):
            lines.append("(entry type %s)" % quote(mutate(rng, gen.ty_src(t))))
    # boundary shapes at every entry point: lists at / over their bound, arrays and tuples one element short / long, empty aggregates
    for k in (0, 1, 2, 3, 4):
        b = 1 << k
        for n in sorted({0, 1, b - 1, b, b + 1}):
            els = ", ".join(str(i % 7) for i in range(n))
            lit = "list![%s]" % els
            if k > 0:   # a list type with bound 1 cannot be built through the API (only written as text, below)
                lines.append("(entry value (L (U 3) %d) %s)" % (k, quote(lit)))
            lines.append("(entry program %s)" % quote("fn main() { let l: List<u8, %d> = %s; }" % (b, lit)))
            lines.append("(entry program %s)" % quote("fn main() { let w: u8 = witness::W; let l: List<u8, %d> = list![%s]; }" % (b, ", ".join(["w"] * n))))
            lines.append("(entry program %s)" % quote("fn f(e: u8, a: u8) -> u8 { a }\nfn main() { let s: u8 = fold::<f, %d>(%s, 0); }" % (b, lit)))
            lines.append("(entry witmod %s)" % quote("mod witness { const L: List<u8, %d> = %s; }" % (b, lit)))
            lines.append("(entry argmod %s)" % quote("mod param { const L: List<u8, %d> = %s; }" % (b, lit)))
            lines.append("(entry witjson %s)" % quote('{"L":{"value":"%s","type":"List<u8, %d>"}}' % (lit, b)))
            lines.append("(entry argjson %s)" % quote('{"L":{"value":"%s","type":"List<u8, %d>"}}' % (lit, b)))
    for size in (0, 1, 2, 3):
        for n in sorted({0, max(size - 1, 0), size, size + 1}):
            els = ", ".join(str(i) for i in range(n))
            for lit, ty, tysx in (("[%s]" % els, "[u8; %d]" % size, "(A (U 3) %d)" % size),
                                  ("(%s%s)" % (els, "," if n == 1 else ""), "(%s%s)" % (", ".join(["u8"] * size), "," if size == 1 else ""), "(T %s)" % " ".join(["(U 3)"] * size))):
                lines.append("(entry value %s %s)" % (tysx, quote(lit)))
                lines.append("(entry program %s)" % quote("fn main() { let x: %s = %s; }" % (ty, lit)))
                lines.append("(entry witmod %s)" % quote("mod witness { const X: %s = %s; }" % (ty, lit)))
                lines.append("(entry witjson %s)" % quote('{"X":{"value":"%s","type":"%s"}}' % (lit, ty)))
    # type / value texts that parse but must be rejected (undefined alias, non-constant expression), and every text with blank
    # lines / blank-looking lines after it (the error then spans a text that ends in an empty line)
    tails = ["", "\n", "\n\n", "\r\n\r\n", " \n\n", "\n\t\n", "\n\n\n// c"]
    for tt in ["Foo", "(u8, Foo)", "[Foo; 2]", "List<Foo, 4>", "Either<Foo, u8>", "Option<Bar>", "u8", "(u8, bool)", "Pubkey"]:
        for tail in tails:
            lines.append("(entry type %s)" % quote(tt + tail))
            lines.append("(entry program %s)" % quote("fn main() { let x: %s = witness::X; }%s" % (tt, tail)))
    for vt, tysx in [("{ 1 }", "(U 3)"), ("witness::A", "(U 3)"), ("f(1)", "(U 3)"), ("match true { true => 1, false => 2, }", "(U 3)"), ("x", "(U 3)"), ("param::P", "(U 3)"),
                     ("jet::add_8(1, 2)", "(T B (U 3))"), ("1", "(U 3)"), ("(1, true)", "(T (U 3) B)"), ("Left({ 2 })", "(E (U 3) B)"), ("[1, x]", "(A (U 3) 2)"), ("list![y]", "(L (U 3) 2)")]:
        for tail in tails:
            lines.append("(entry value %s %s)" % (tysx, quote(vt + tail)))
            lines.append("(entry witmod %s)" % quote("mod witness { const A: u8 = %s; }%s" % (vt, tail)))
            lines.append("(entry witjson %s)" % quote('{"A":{"value":"%s","type":"u8"}}' % (vt + tail).replace("\n", "\\n").replace("\r", "\\r").replace("\t", "\\t")))
    # raw random strings
    alphabet = "abfnuxlet{}()[];:,=<>!0123456789_ \n\t\r" + "é"
    for _ in range(300 if quick else 5000):
        s = "".join(rng.choice(alphabet) for _ in range(rng.randrange(0, 60)))
        if nesting_ok(s):
            lines.append("(entry %s %s)" % (rng.choice(["program", "witmod", "witjson", "type"]), quote(s)))
    lines = sorted(set(lines))
    for rel in ([False] if quick else [False, True]):
        # the default main-thread stack (8 MiB), not the unlimited one the other checks use: stack overflows must show
        res = impl("total", lines, release=rel, stack_kb=8192)
        for ln, x in zip(lines, res):
            kind = ln.split(" ")[1]
            chk.case(ln + str(rel), sample={"entry": kind, "text": parse_sx(ln)[-1][:160], "outcome": x[:40]})
            chk.count("%s.%s.%s" % ("release" if rel else "debug", kind, x.split(" ")[0][:5]))
            if x not in ("ok", "err"):
                ds = declared_size(parse_sx(ln)[-1])
                nst = parse_sx(ln)[-1].count(";")
                cls = "entry-point-abort" if ds >= 10 ** 8 else ("entry-point-stack" if "overflowed its stack" in x and nst >= 1000 else "entry-point-panic")
                chk.violation({"class": cls, "what": "declared-size=%d statements=%d %s: %s || %s" % (ds, nst, kind, x[:160], parse_sx(ln)[-1][:400])},
                              {"cmd": "total", "line": ln, "implementation": x, "release_build": rel,
                               "broken": "a text entry point panicked / aborted instead of returning Ok or Err"})
    # ---- declared sizes / bounds far beyond what can be laid out: must be Err, not an abort (run one per process, memory-limited)
    big = ["fn main() { let x: [u8; 1099511627776] = witness::A; }", "fn main() { let x: List<u8, 1099511627776> = witness::A; }",
           "fn f(a: [bool; 4398046511104]) { } fn main() { }", "type Big = [u8; 1099511627776]; fn main() { let x: Big = witness::A; }",
           "fn main() { let x: ([u8; 1099511627776], u8) = witness::A; }", "fn main() { let x: u8 = <[u8; 1099511627776]>::into(witness::A); }",
           "fn main() { let x: [[u8; 1048576]; 1048576] = witness::A; }"]
    # sizes at which `2 * length` no longer fits the machine word (hex literal against a byte array type)
    wrap = ["(entry program %s)" % quote("fn main() { let x: [u8; 9223372036854775809] = 0x0102; }"),
            "(entry program %s)" % quote("fn main() { let x: [u8; 18446744073709551615] = 0x01; }"),
            "(entry value (A (U 3) 9223372036854775809) %s)" % quote("0x0102"),
            "(entry value (A (U 3) 18446744073709551615) %s)" % quote("0x"),
            "(entry value (A (U 3) 9223372036854775808) %s)" % quote("0x"),
            "(entry witjson %s)" % quote('{"A":{"value":"0x0102","type":"[u8; 9223372036854775809]"}}'),
            "(entry witmod %s)" % quote("mod witness { const A: [u8; 9223372036854775809] = 0x0102; }")]
    for ln in wrap:
        for rel in ([False] if quick else [False, True]):
            x = impl("total", [ln], shards=1, ulimit_v=4000000, release=rel)[0]
            chk.case(ln + str(rel), sample={"entry": ln.split(" ")[1], "text": ln[:160], "outcome": x[:60]})
            chk.count("wrap-size.%s" % x.split(" ")[0][:5])
            if x != "err":
                chk.violation({"class": "entry-point-panic", "what": "%s || %s" % (x[:100], ln[:300])},
                              {"cmd": "total", "line": ln, "implementation": x, "release_build": rel, "expected": "err",
                               "broken": "a hex literal against a byte-array type whose length does not fit twice into the machine word must be rejected (Err), not panic / be accepted"})
    # long statement lists (bracket depth 1): recursion over the statements of a block — known finding D14.
    # Probed with the unoptimised simc binary built from /repo (the harness itself is built with opt-level 1 and needs ten times more)
    import subprocess
    import tempfile
    from checks.c19 import build_simc
    simc = build_simc()
    for n in (300, 2500):
        t = "fn main() { %s }" % " ".join("assert!(jet::eq_32(%d, %d)); let v%d: u32 = dbg!(%d);" % (k, k, k, k) for k in range(n))
        with tempfile.NamedTemporaryFile("w", suffix=".simf", dir=BUILD, delete=False) as tf:
            tf.write(t)
            path = tf.name
        try:
            p = subprocess.run(["bash", "-c", "ulimit -s 8192; exec \"$0\" \"$1\"", simc, path], stdout=subprocess.PIPE, stderr=subprocess.PIPE, timeout=900)
        finally:
            os.unlink(path)
        err = p.stderr.decode("utf-8", "replace")
        outcome = "ok" if p.returncode == 0 else ("err" if p.returncode == 1 else "CRASH exit=%d %s" % (p.returncode, err[-200:].replace("\n", " ")))
        chk.case("simc long %d" % n, sample={"entry": "simc (program)", "statements": 2 * n, "outcome": outcome[:80]})
        chk.count("long-block.%d.%s" % (2 * n, outcome.split(" ")[0][:5]))
        if outcome not in ("ok", "err"):
            chk.violation({"class": "entry-point-stack" if "overflowed its stack" in outcome else "entry-point-panic", "what": "declared-size=0 statements=%d %s" % (2 * n, outcome[:120])},
                          {"program_head": t[:300], "statements": 2 * n, "implementation": outcome, "stack_kb": 8192, "binary": "simc (debug profile) built from /repo",
                           "broken": "a program with a long statement list (bracket depth 1) overflows the 8 MiB stack instead of ending with Ok / Err"})
    for t in big:
        ln = "(entry program %s)" % quote(t)
        x = impl("total", [ln], shards=1, ulimit_v=4000000)[0]
        chk.case(ln, sample={"entry": "program", "text": t, "outcome": x[:60]})
        chk.count("huge-size.%s" % x.split(" ")[0][:5])
        if x not in ("ok", "err"):
            chk.violation({"class": "entry-point-abort", "what": "declared-size=%d %s || %s" % (declared_size(t), x[:100], t)},
                          {"cmd": "total", "line": ln, "implementation": x, "ulimit_v_kb": 4000000,
                           "broken": "a text entry point aborts the process (allocation proportional to a declared array size / list bound) instead of returning Err"})
    chk.extra["rule"] = ("token-level mutations (insert / delete / replace / duplicate / swap / truncate; literal edge forms _ 0x_ 0b_, huge digit runs, CR/LF/tab, non-ASCII, comments, keyword fragments) of generated programs, "
                         "the shipped examples, witness/argument modules and JSON files, value texts at every type of a type family, type texts, plus raw random strings; nesting depth <= 12; every entry point "
                         "(program: new + instantiate + commit + satisfy; modules; JSON; value at type; type); debug build (thorough: also release)")
