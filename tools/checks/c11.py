"""C11 — integer literals denote their mathematical value."""
from framework import *  # noqa
import corelib
import gen

EQ = {0: "eq_1", 3: "eq_8", 4: "eq_16", 5: "eq_32", 6: "eq_64", 8: "eq_256"}


def dec_strings(rng, k):
    w = 1 << k
    vals = {0, 1, 2, 9, 10, (1 << w) - 1, 1 << w, (1 << w) + 1, (1 << w) - 2}
    p = 1
    while p < (1 << w) * 100:
        vals |= {p, p - 1, p + 1}
        p *= 10
    for _ in range(12):
        vals.add(rng.getrandbits(w))
        vals.add(rng.getrandbits(w + 3))
    # the boundaries of EVERY machine width (an implementation may parse through a wider or narrower integer and
    # truncate): 2^j - 1, 2^j, 2^j + 1, valid values shifted by multiples of 2^j, and powers of ten up to 10^40
    for j in (1, 2, 4, 8, 16, 32, 64, 128, 256):
        vals |= {(1 << j) - 1, 1 << j, (1 << j) + 1, (1 << j) + ((1 << w) - 1), 3 << j, (1 << j) + rng.getrandbits(w)}
    p = 1
    for _ in range(41):
        vals |= {p, p + 1, 2 * p}
        p *= 10
    out = set()
    for v in vals:
        if v < 0:
            continue
        s = str(v)
        out.add(s)
        out.add("0" * rng.randrange(1, 4) + s)
    out |= {"", "00", "0" * 80, "9" * 78, "9" * 79, "1" + "0" * 77, "1" + "0" * 78}
    return sorted(out)


def underscore_variants(rng, s):
    out = [s]
    if s:
        i = rng.randrange(len(s) + 1)
        out.append(s[:i] + "_" + s[i:])
        out.append("_" + s)
        out.append(s + "_")
        out.append("_".join(s))
    out += ["_", "__"]
    return out


def run(chk, replay=None):
    build_harness()
    corelib.tables()
    build_driver()
    chk.run_proof_gate()
    if replay is not None:
        a = impl(replay["cmd"], [replay["line"]])[0]
        b = model(replay["cmd"], [replay["line"]])[0] if replay.get("model_cmd", True) else ""
        print("implementation:", a, "\nmodel:", b)
        return 0
    rng = chk.rng
    quick = chk.tier == "quick"
    lines = []
    for k in range(0, 9):
        w = 1 << k
        for s in dec_strings(rng, k):
            lines.append("(dec %d %s)" % (k, quote(s)))
        # binary: lengths around w
        for ln in sorted({0, 1, w - 1, w, w + 1, 2 * w} | {rng.randrange(0, 2 * w + 2) for _ in range(3)}):
            for _ in range(2 if ln != w else 6):
                s = "".join(rng.choice("01") for _ in range(ln))
                lines.append("(bin %d %s)" % (k, quote(s)))
        lines.append("(bin %d %s)" % (k, quote("1" * w)))
        lines.append("(bin %d %s)" % (k, quote("0" * w)))
        # hex: lengths around w/4
        hl = max(w // 4, 0)
        for ln in sorted({0, 1, 2, max(hl - 1, 0), hl, hl + 1, 2 * hl} | {rng.randrange(0, 2 * hl + 3) for _ in range(3)}):
            for _ in range(2 if ln != hl else 6):
                s = "".join(rng.choice("0123456789abcdefABCDEF") for _ in range(ln))
                lines.append("(hexu %d %s)" % (k, quote(s)))
        for _ in range(10 if quick else 60):
            lines.append("(disp %d %x)" % (k, gen.gen_uint(rng, k)))
    for n in list(range(0, 9)) + [16, 31, 32, 33, 64]:
        for ln in sorted({0, 1, max(2 * n - 1, 0), 2 * n, 2 * n + 1, 2 * n + 2}):
            s = "".join(rng.choice("0123456789abcdefABCDEF") for _ in range(ln))
            lines.append("(hexb %d %s)" % (n, quote(s)))
    for s in dec_strings(rng, 8):
        lines.append("(u256 %s)" % quote(s))
    for _ in range(40 if quick else 400):
        lines.append("(u256disp %x)" % gen.gen_uint(rng, 8))
    lines = sorted(set(lines))
    a = impl("literal", lines)
    b = model("literal", lines)
    for ln, x, y in zip(lines, a, b):
        kind = ln[1:ln.index(" ")]
        chk.case(ln, sample={"case": ln[:120], "implementation": x[:80]})
        chk.count("api.%s.%s" % (kind, "text" if x.startswith(chr(34)) else x.split(" ")[0][:5]))
        xn = "PANIC" if x.startswith("PANIC") else x
        yn = "PANIC" if y.startswith("PANIC") else y
        if xn != yn:
            chk.violation({"class": "literal-model", "what": "%s impl=%s model=%s" % (ln[:100], x[:60], y[:60])},
                          {"cmd": "literal", "line": ln, "implementation": x, "model": y,
                           "broken": "correspondence: value.rs / num.rs literal conversion vs Text/Literal.v, Text/U256.v (theorems C11_*)"})
    # byte-array lengths that do not fit twice into the machine word: no hex string has that many digits, so the answer is Err
    # (C11_hex_bytes: Ok exactly when the digit count is 2n; the unary model cannot be run at these n)
    big = ["(hexb %d %s)" % (n, quote(h)) for n in (1 << 63, (1 << 63) + 1, (1 << 63) + 2, (1 << 64) - 1) for h in ("", "01", "0102", "010203", "01020304")]
    for ln, x in zip(big, impl("literal", big)):
        chk.case(ln, sample={"case": ln, "implementation": x[:60]})
        chk.count("api.hexb-wrap.%s" % x.split(" ")[0][:5])
        if x != "err":
            chk.violation({"class": "literal-value", "what": "%s -> %s" % (ln, x[:80])},
                          {"cmd": "literal", "line": ln, "implementation": x, "expected": "err",
                           "broken": "a hex literal is accepted (or the library panics) at a byte-array type whose length differs from its digit count / 2"})
    # gate D (no model): printed integers parse back, through the library's own parser
    disp = [(ln, x) for ln, x in zip(lines, a) if ln.startswith("(disp ")]
    back = []
    for ln, x in disp:
        k = int(ln.split()[1])
        txt = parse_sx(x)
        if k <= 6:
            back.append("(dec %d %s)" % (k, quote(txt)))
        else:
            back.append("(hexu %d %s)" % (k, quote(txt[2:])))
    for (ln, x), bl, r in zip(disp, back, impl("literal", back)):
        want = "ok " + ln.split()[2].rstrip(")")
        chk.case(bl)
        chk.count("roundtrip.display")
        if r != want:
            chk.violation({"class": "display-parse", "what": "%s -> %s -> %s" % (ln, x, r)},
                          {"cmd": "literal", "line": bl, "printed": x, "parsed_back": r, "expected": want, "model_cmd": False,
                           "broken": "the text printed for an integer does not parse back to it"})
    # text level: let x: uK = LIT;  acceptance and the constant's value, with separators
    progs = []
    for k in range(0, 9):
        w = 1 << k
        cands = []
        ds = dec_strings(rng, k)
        for s in rng.sample(ds, min(len(ds), 10 if quick else 40)):
            for u in underscore_variants(rng, s):
                cands.append((u, "dec", u.replace("_", "")))
        for ln in (w, w - 1 if w > 1 else 2):
            s = "".join(rng.choice("01") for _ in range(ln))
            for u in underscore_variants(rng, s):
                cands.append(("0b" + u, "bin", u.replace("_", "")))
        for ln in (w // 4, w // 4 + 1):
            s = "".join(rng.choice("0123456789abcdef") for _ in range(ln))
            for u in underscore_variants(rng, s):
                cands.append(("0x" + u, "hexu", u.replace("_", "")))
        for lit, kind, stripped in cands:
            progs.append((k, lit, kind, stripped))
    ast_lines = ["(ast %s)" % quote("fn main() { let x: u%d = %s; }" % (1 << k, lit)) for (k, lit, _, _) in progs]
    mdl_lines = ["(%s %d %s)" % (kind, k, quote(stripped)) for (k, _, kind, stripped) in progs]
    ia = impl("core", ast_lines)
    mb = model("literal", mdl_lines)
    for (k, lit, kind, stripped), x, y, ln in zip(progs, ia, mb, ast_lines):
        chk.case(ln, sample={"literal": lit, "type": "u%d" % (1 << k), "accepted": x.startswith("(ok")})
        has_digit = stripped != ""
        expect_ok = y.startswith("ok ") and has_digit
        chk.count("text.%s.%s" % (kind, "accept" if x.startswith("(ok") else "reject"))
        if x.startswith("PANIC") or x.startswith("CRASH"):
            chk.violation({"class": "literal-panic", "what": "let x: u%d = %s; -> %s" % (1 << k, lit, x[:80])},
                          {"cmd": "core", "line": ln, "implementation": x, "model_cmd": False, "broken": "front end panics on an integer literal"})
            continue
        if x.startswith("(ok") != expect_ok:
            chk.violation({"class": "literal-acceptance", "what": "let x: u%d = %s; impl=%s model=%s" % (1 << k, lit, x[:40], y[:40])},
                          {"cmd": "core", "line": ln, "implementation": x[:300], "model": y, "model_cmd": False,
                           "broken": "acceptance of an integer literal differs from the specification (value fits / digit count / at least one digit)"})
        elif expect_ok:
            m = re.search(r"\(const \(U %d\) \(u %d ([0-9a-f]+)\)\)" % (k, k), x)
            if not m or ("ok " + m.group(1)) != y:
                chk.violation({"class": "literal-value", "what": "let x: u%d = %s; denotes %s, expected %s" % (1 << k, lit, m.group(1) if m else "?", y)},
                              {"cmd": "core", "line": ln, "implementation": x[:300], "model": y, "model_cmd": False, "broken": "the literal denotes a different value"})
    chk.extra["rule"] = ("API level: every width u1..u256 x decimal strings (0,1,2^N-1,2^N,2^N+1, powers of ten +-1, random, leading zeros, empty, 78/79-digit strings), binary and hex strings of "
                         "lengths around the required digit count, [u8;n] hex for n=0..8,16,31..33,64, printed integers; text level: let x: uN = LIT; with separator placements "
                         "(inside, leading, trailing, between every digit, separators only) — acceptance and the denoted constant compared with the model; printed integers re-parsed")
