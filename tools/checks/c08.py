"""C08 — fold consumes list elements first to last, each exactly once."""
from framework import *  # noqa
import corelib
import gen


class Prog:
    def __init__(self, text, witnesses, label, params=None):
        self.text, self.witnesses, self.label = text, witnesses, label
        self.params = params or []
        self.forms = set()


F_ORDER = ("fn f(e: u8, acc: u8) -> u8 { let (hi, lo): (u8, u8) = <u16>::into(jet::multiply_8(acc, 3)); "
           "let (c, s): (bool, u8) = jet::add_8(lo, e); s }")
F_PANIC = ("fn f(e: u8, acc: u8) -> u8 { match jet::eq_8(e, 200) { true => panic!(), false => { "
           "let (hi, lo): (u8, u8) = <u16>::into(jet::multiply_8(acc, 3)); let (c, s): (bool, u8) = jet::add_8(lo, e); s }, } }")
F_PAIR = ("fn f(e: (u4, bool), acc: u8) -> u8 { let (n, b): (u4, bool) = e; let x: u8 = <(u4, u4)>::into((n, match b { true => 9, false => 2, })); "
          "let (hi, lo): (u8, u8) = <u16>::into(jet::multiply_8(acc, 5)); let (c, s): (bool, u8) = jet::add_8(lo, x); s }")
F_OPT = ("fn f(e: Option<u2>, acc: u8) -> u8 { let x: u8 = match e { None => 77, Some(v: u2) => <(u4, u4)>::into((1, <(u2, u2)>::into((v, 3)))), }; "
         "let (hi, lo): (u8, u8) = <u16>::into(jet::multiply_8(acc, 7)); let s: u8 = jet::xor_8(lo, x); s }")


F_PART = ("fn f(e: Either<(u8, u8), u16>, acc: u8) -> u8 { match e { Left(p: (u8, u8)) => { let (x, y): (u8, u8) = p; jet::xor_8(jet::left_rotate_8(1, acc), y) }, "
          "Right(w: u16) => jet::complement_8(acc), } }")
F_UNIT = "fn f(e: u8, acc: ()) -> () { assert!(jet::lt_8(e, 200)); }"


def build(chk):
    rng = chk.rng
    quick = chk.tier == "quick"
    ks = list(range(1, 9)) + ([] if quick else [9])
    progs = []
    for k in ks:
        n = 1 << k
        if n <= 16:
            lens = list(range(n))
        else:
            lens = sorted({0, 1, 2, n - 1, n - 2, n // 2, n // 2 - 1, n // 2 + 1, n // 4, n // 4 + 1, 3 * n // 4} | {rng.randrange(n) for _ in range(3 if quick else 12)})
        for ln in lens:
            for variant in ("literal", "witness", "computed", "mixed", "witness-pair"):
                if n > 16 and variant != "literal" and ln not in (0, n - 1, n // 2):
                    continue
                if variant == "mixed" and (ln == 0 or n > 32):
                    continue
                if variant == "witness-pair" and n > 32:
                    continue
                for fname, ftext, ety in (("order", F_ORDER, ("U", 3)), ("panic", F_PANIC, ("U", 3)), ("unit", F_UNIT, ("U", 3)), ("part", F_PART, ("E", ("T", (("U", 3), ("U", 3))), ("U", 4))), ("pair", F_PAIR, ("T", (("U", 2), ("B",)))), ("opt", F_OPT, ("O", ("U", 1)))):
                    if fname in ("pair", "opt") and (n > 16 or variant != "literal"):
                        continue
                    if fname == "part" and (n > 16 or variant not in ("literal", "witness")):
                        continue
                    if fname in ("panic", "unit") and n > 32:
                        continue
                    if fname == "unit" and variant not in ("literal", "witness"):
                        continue
                    lt = ("L", ety, k)
                    v = gen.gen_val(rng, lt)
                    els = [gen.gen_val(rng, ety) for _ in range(ln)]
                    if fname in ("panic", "unit") and ln > 0 and rng.random() < 0.5:
                        els[rng.randrange(ln)] = ("u", 3, 200)
                    lv = ("li", ety, k, tuple(els))
                    wits = []
                    if variant == "literal":
                        src = gen.val_src(lv)
                    elif variant == "witness":
                        src = "witness::L"
                        wits.append(("L", lt, lv))
                    elif variant == "witness-pair":
                        # the list arrives inside a larger value, next to siblings of the element type (one witness for (init, list, extra))
                        if fname not in ("order", "panic"):
                            continue
                        src = None
                        iv, xv = rng.randrange(256), rng.randrange(256)
                        pty = ("T", (("U", 3), lt, ("U", 3)))
                        wits.append(("P", pty, ("t", (("u", 3, iv), lv, ("u", 3, xv)))))
                    elif variant == "mixed":
                        # a literal whose elements are partly constants, partly computed (a witness, a block, a call)
                        if fname != "order" and fname != "panic":
                            continue
                        j = rng.randrange(ln)
                        parts = [gen.val_src(e) for e in els]
                        parts[j] = "witness::E"
                        if ln > 1:
                            j2 = (j + 1 + rng.randrange(ln - 1)) % ln
                            parts[j2] = "{ let q: u8 = %s; q }" % parts[j2]
                        src = "list![%s]" % ", ".join(parts)
                        wits.append(("E", ety, els[j]))
                    else:
                        # computed: the list comes out of a block / match / function
                        src = "{ let t: (bool, List<%s, %d>) = (true, %s); match t { (b, l) => l } }" % (gen.ty_src(ety), n, gen.val_src(lv))
                        src = "{ let (b, l): (bool, List<%s, %d>) = (witness::B, %s); match b { true => l, false => list![], } }" % (gen.ty_src(ety), n, gen.val_src(lv))
                        wits.append(("B", ("B",), ("b", rng.random() < 0.8)))
                    if fname == "unit":
                        # an accumulator of unit type: the fold is there for its effects only
                        text = "%s\nfn main() { let l: List<u8, %d> = %s; fold::<f, %d>(l, ()); let r: u8 = %d; assert!(jet::eq_8(r, witness::EXPECT)); }" % (ftext, n, src, n, rng.randrange(256))
                    elif variant == "witness-pair":
                        text = ("%s\nfn main() { let (i0, l, x0): (u8, List<%s, %d>, u8) = witness::P; let r0: u8 = fold::<f, %d>(l, i0); let r: u8 = jet::xor_8(r0, x0); "
                                "assert!(jet::eq_8(r, witness::EXPECT)); }") % (ftext, gen.ty_src(ety), n, n)
                    else:
                        text = "%s\nfn main() { let l: List<%s, %d> = %s; let r: u8 = fold::<f, %d>(l, %d); assert!(jet::eq_8(r, witness::EXPECT)); }" % (
                            ftext, gen.ty_src(ety), n, src, n, rng.randrange(256))
                    p = Prog(text, [(a, b) for (a, b, _) in wits] + [("EXPECT", ("U", 3))], "fold/%d/%d/%s/%s" % (k, ln, variant, fname))
                    p.fixed = [(a, c) for (a, _, c) in wits]
                    chk.count("fold.bound%d" % n)
                    chk.count("fold.%s.%s" % (variant, fname))
                    progs.append(p)
    # several folds in ONE program: different functions with the same signature (same parameter names and types) at the same bound,
    # the same function at two bounds, the same function twice, a fold inside a folded function — every fold applies ITS function
    sigs = [("fn %s(e: u8, acc: u8) -> u8 { jet::xor_8(jet::left_rotate_8(1, acc), e) }", "rot"),
            ("fn %s(e: u8, acc: u8) -> u8 { e }", "last"),
            ("fn %s(e: u8, acc: u8) -> u8 { let (c, s): (bool, u8) = jet::subtract_8(acc, e); s }", "sub"),
            ("fn %s(e: u8, acc: u8) -> u8 { assert!(jet::lt_8(e, 200)); acc }", "strict")]
    for k in (1, 2, 3, 4):
        n = 1 << k
        for (fa, na), (fb, nb) in [(sigs[0], sigs[1]), (sigs[1], sigs[2]), (sigs[2], sigs[0]), (sigs[1], sigs[3]), (sigs[3], sigs[1]), (sigs[0], sigs[0])]:
            for ln in sorted({0, 1, n - 1, n // 2}):
                els = [rng.randrange(256) for _ in range(ln)]
                if "strict" in (na, nb) and ln and rng.random() < 0.5:
                    els[rng.randrange(ln)] = 200
                lv = ("li", ("U", 3), k, tuple(("u", 3, e) for e in els))
                text = ("%s\n%s\nfn main() { let l: List<u8, %d> = witness::L; let a: u8 = fold::<g1, %d>(l, 5); let b: u8 = fold::<g2, %d>(l, 9); "
                        "let r: u8 = jet::xor_8(jet::left_rotate_8(3, a), b); assert!(jet::eq_8(r, witness::EXPECT)); }") % (fa % "g1", fb % "g2", n, n, n)
                p = Prog(text, [("L", ("L", ("U", 3), k)), ("EXPECT", ("U", 3))], "fold-two/%d/%d/%s-%s" % (k, ln, na, nb))
                p.fixed = [("L", lv)]
                chk.count("fold.two.%s-%s" % (na, nb))
                progs.append(p)
        # the same function at two bounds, and a fold inside a folded function
        els = [rng.randrange(256) for _ in range(n - 1)]
        lv = ("li", ("U", 3), k, tuple(("u", 3, e) for e in els))
        text = ("%s\nfn main() { let l: List<u8, %d> = witness::L; let a: u8 = fold::<g1, %d>(l, 5); let m: List<u8, %d> = list![a, 3]; let b: u8 = fold::<g1, %d>(m, 9); "
                "assert!(jet::eq_8(b, witness::EXPECT)); }") % (sigs[0][0] % "g1", n, n, 2 * n, 2 * n)
        p = Prog(text, [("L", ("L", ("U", 3), k)), ("EXPECT", ("U", 3))], "fold-two/%d/two-bounds" % k)
        p.fixed = [("L", lv)]
        progs.append(p)
        text = ("%s\nfn outer(e: u8, acc: u8) -> u8 { let m: List<u8, %d> = list![e, acc]; fold::<g1, %d>(m, 1) }\n"
                "fn main() { let l: List<u8, %d> = witness::L; let b: u8 = fold::<outer, %d>(l, 9); assert!(jet::eq_8(b, witness::EXPECT)); }") % (sigs[2][0] % "g1", n * 2, n * 2, n, n)
        p = Prog(text, [("L", ("L", ("U", 3), k)), ("EXPECT", ("U", 3))], "fold-two/%d/nested" % k)
        p.fixed = [("L", lv)]
        progs.append(p)
    return progs


def run(chk, replay=None):
    build_harness()
    corelib.tables()
    build_driver()
    chk.run_proof_gate()
    if replay is not None:
        import checks.c01 as c01
        return c01.do_replay(replay)
    progs = build(chk)
    rejected = []
    acc = corelib.check_terms(chk, progs, on_reject=lambda g, a: rejected.append((g, a)))
    for g, a in rejected:
        chk.violation({"class": "fold-program-rejected", "what": "%s || %s" % (a[:160], g.text[-200:])},
                      {"program": g.text, "implementation": a, "broken": "a well-typed fold program is rejected"})
    corelib.run_matrix(chk, acc, fixed_witnesses=True)
    chk.extra["programs"] = len(acc)
    chk.extra["rule"] = ("bounds N=2^k for k=1..8 (9 thorough) x every length 0..N-1 for N<=16, boundary+random lengths above x list as literal / witness / computed "
                         "x {order-sensitive f, f panicking at element 200, tuple elements, Option elements}; each program ends in assert!(eq_8(fold result, EXPECT)) with EXPECT pinned "
                         "to the value the source semantics computes and to another value; x {debug off,on}; term-hash equality of the emitted fold combinator for every bound")
