"""C01 — the compiled program behaves as the source semantics prescribe."""
from framework import *  # noqa
import corelib


def run(chk, replay=None):
    build_harness()
    corelib.tables()
    build_driver()
    chk.run_proof_gate()
    if replay is not None:
        return do_replay(replay)
    quick = chk.tier == "quick"
    n = 160 if quick else 2500
    progs = corelib.gen_programs(chk, n, "gprog", size=28 if quick else 45)
    # a second family with larger programs and fewer of them
    progs += corelib.gen_programs(chk, 30 if quick else 400, "gbig", size=70 if quick else 140)
    # witnesses of nested sum / product type that are only partly inspected (the node type is smaller than the declared type)
    progs += corelib.partial_witness_programs(chk, 60 if quick else 1500, "pw")
    progs += corelib.effect_programs()
    progs += corelib.literal_programs(chk)
    progs += corelib.long_scope_programs(chk)
    progs += corelib.shadow_product_programs()
    rejected = []
    acc = corelib.check_terms(chk, progs, on_reject=lambda g, a: rejected.append((g, a)))
    for g, a in rejected:
        chk.count("generator.rejected")
        chk.violation({"class": "well-typed-rejected", "what": "%s || %s" % (a[:160], g.text[:200])},
                      {"program": g.text, "implementation": a, "cmd": "core", "line": "(ast %s)" % quote(g.text),
                       "broken": "a program generated from the typing rules of the book is rejected by the front end (C04) — or the generator is wrong"})
    forms = {}
    for g in acc:
        for f in getattr(g, "forms", ()):
            forms[f] = forms.get(f, 0) + 1
    chk.extra["forms_histogram"] = forms
    chk.extra["programs"] = len(acc)
    corelib.run_matrix(chk, acc, max_assign=None if not quick else 40)
    chk.extra["rule"] = ("programs: type-directed random generation from the book's typing rules (every expression form, see forms_histogram), "
                         "each ending in assert!(eq(<observed expr>, witness::EXPECT)); witnesses: exhaustive when the joint domain <= 4096 else sampled; "
                         "EXPECT is set to the value the source semantics computes and to a different one; x {debug off,on}. "
                         "A case = (program, witness assignment, debug flag); all are non-trivial (they execute generated code)")


def do_replay(r):
    line = r.get("line")
    print("program:\n" + r.get("program", ""))
    print("witness:", r.get("witness"))
    if line:
        x = impl(r.get("cmd", "core"), [line])[0]
        print("implementation now:", x)
        print("recorded          :", r.get("implementation"))
        print("model recorded    :", r.get("model"))
    return 0
