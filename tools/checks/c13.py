"""C13 — jets are callable with documented arity, order and result type."""
from framework import *  # noqa
import corelib
import gen
import progen
from checks.c08 import Prog

EQ = {0: "eq_1", 3: "eq_8", 4: "eq_16", 5: "eq_32", 6: "eq_64", 8: "eq_256"}


class Fresh:
    def __init__(self):
        self.n = 0

    def __call__(self):
        self.n += 1
        return "v%d" % self.n


def assert_eq(x, t, v, fresh):
    """statements asserting that expression x of type t equals the constant v, using only eq jets, casts and destructuring"""
    k = t[0]
    if k == "B":
        return ["assert!(jet::eq_1(<bool>::into(%s), %d));" % (x, 1 if v[1] else 0)]
    if k == "U":
        kk = t[1]
        if kk in EQ:
            return ["assert!(jet::%s(%s, %d));" % (EQ[kk], x, v[2])]
        half = ("U", kk - 1)
        w = 1 << (kk - 1)
        h, l = fresh(), fresh()
        out = ["let (%s, %s): (%s, %s) = <%s>::into(%s);" % (h, l, gen.ty_src(half), gen.ty_src(half), gen.ty_src(t), x)]
        return out + assert_eq(h, half, ("u", kk - 1, v[2] >> w), fresh) + assert_eq(l, half, ("u", kk - 1, v[2] & ((1 << w) - 1)), fresh)
    if k == "T":
        names = [fresh() for _ in t[1]]
        if len(names) == 0:
            return []
        pat = "(%s,)" % names[0] if len(names) == 1 else "(%s)" % ", ".join(names)
        out = ["let %s: %s = %s;" % (pat, gen.ty_src(t), x)]
        for n, tt, vv in zip(names, t[1], v[1]):
            out += assert_eq(n, tt, vv, fresh)
        return out
    if k == "A":
        names = [fresh() for _ in range(t[2])]
        out = ["let [%s]: %s = %s;" % (", ".join(names), gen.ty_src(t), x)]
        for n, vv in zip(names, v[2]):
            out += assert_eq(n, t[1], vv, fresh)
        return out
    if k == "O":
        if v[0] == "n":
            return ["assert!(is_none::<%s>(%s));" % (gen.ty_src(t[1]), x)]
        n = fresh()
        return ["let %s: %s = unwrap(%s);" % (n, gen.ty_src(t[1]), x)] + assert_eq(n, t[1], v[1], fresh)
    if k == "E":
        n = fresh()
        if v[0] == "l":
            return ["let %s: %s = unwrap_left::<%s>(%s);" % (n, gen.ty_src(t[1]), gen.ty_src(t[2]), x)] + assert_eq(n, t[1], v[1], fresh)
        return ["let %s: %s = unwrap_right::<%s>(%s);" % (n, gen.ty_src(t[2]), gen.ty_src(t[1]), x)] + assert_eq(n, t[2], v[2], fresh)
    raise ValueError(t)


def perturb(rng, t, v):
    """a value of type t different from v (flip one integer/bool leaf)"""
    k = t[0]
    if k == "B":
        return ("b", not v[1])
    if k == "U":
        w = 1 << t[1]
        return ("u", t[1], v[2] ^ (1 << rng.randrange(w)))
    if k == "T" and t[1]:
        i = rng.randrange(len(t[1]))
        vs = list(v[1])
        pv = perturb(rng, t[1][i], vs[i])
        if pv is None:
            return None
        vs[i] = pv
        return ("t", tuple(vs))
    return None


def boundary_args(rng, ptys):
    out = []
    for t in ptys:
        if t[0] == "U":
            w = 1 << t[1]
            out.append(("u", t[1], rng.choice([0, 1, (1 << w) - 1, 1 << (w - 1), rng.getrandbits(w), rng.getrandbits(w), 3 % (1 << w), 5 % (1 << w)])))
        else:
            out.append(gen.gen_val(rng, t))
    return out


def value_of_sx(e):
    tag = e[0]
    if tag == "b":
        return ("b", e[1] != "0")
    if tag == "u":
        return ("u", int(e[1]), int(e[2], 16))
    if tag == "t":
        return ("t", tuple(value_of_sx(x) for x in e[1:]))
    if tag == "a":
        return ("a", progen.sx_to_ty(e[1]), tuple(value_of_sx(x) for x in e[2:]))
    if tag == "n":
        return ("n", progen.sx_to_ty(e[1]))
    if tag == "s":
        return ("s", value_of_sx(e[1]))
    if tag == "l":
        return ("l", value_of_sx(e[1]), progen.sx_to_ty(e[2]))
    if tag == "r":
        return ("r", progen.sx_to_ty(e[1]), value_of_sx(e[2]))
    raise ValueError(e)


def run(chk, replay=None):
    build_harness()
    t = corelib.tables()
    build_driver()
    ok = chk.run_proof_gate()
    if replay is not None:
        x = impl(replay.get("cmd", "front"), [replay["line"]])[0]
        print("implementation now:", x, "\nrecorded:", replay.get("implementation"))
        return 0
    rng = chk.rng
    quick = chk.tier == "quick"
    rows = [(int(r[0]), r[1], [progen.sx_to_ty(p) for p in r[2]], progen.sx_to_ty(r[3])) for r in t["jets"]]
    if not ok:
        # the table no longer satisfies the theorems: name the offending rows by running the boolean checks row by row in the model
        chk.violation({"class": "jet-table", "what": (chk.proof.get("where", "") + " " + chk.proof.get("failure", "")[-300:])},
                      {"broken": "Properties/C13.v no longer checks against the regenerated jet table (layout agreement / family reference / pinned signatures)",
                       "detail": chk.proof.get("failure", "")[-2000:]}, no_input=True)
    # ---- the documented spelling of the types: every builtin alias name is usable as a type and denotes its documented type;
    #      every jet can be called with its parameters and result spelled through the aliases
    by_ty = {}
    al = [(n, progen.sx_to_ty(tsx)) for (n, tsx) in t["aliases"] if tsx is not None]
    for n, ty in al:
        by_ty.setdefault(ty, n)
    atexts = ["fn main() { let x: %s = witness::X; }" % n for n, _ in al]
    for (n, ty), x in zip(al, impl("core", ["(ast %s)" % quote(a) for a in atexts])):
        ln = "(ast %s)" % quote("fn main() { let x: %s = witness::X; }" % n)
        chk.case(ln, sample={"alias": n, "outcome": x[:60]})
        chk.count("alias." + ("ok" if x.startswith("(ok") else "rejected"))
        want = "(X %s)" % gen.ty_sx(ty)
        if not x.startswith("(ok") or want not in x:
            chk.violation({"class": "jet-not-callable", "what": "builtin alias %s: %s" % (n, x[:120])},
                          {"cmd": "core", "line": ln, "implementation": x[:600], "expected_witness": want,
                           "broken": "a documented builtin type alias is not accepted as a type, or does not denote its documented type"})

    # the documented meaning of the builtin aliases (the table of the book shipped with the source) is the reference
    doc = os.path.join(REPO, "book", "src", "type_alias.md")
    documented = {}
    if os.path.exists(doc):
        for m in re.finditer(r"^\|\s*`([A-Za-z0-9]+)`\s*\|\s*`([^`]+)`\s*\|", open(doc).read(), re.M):
            documented[m.group(1)] = m.group(2)
    dnames = sorted(documented)
    for n, r in zip(dnames, impl("value", ["(tparse %s)" % quote(documented[n]) for n in dnames])):
        got = dict(al).get(n)
        chk.case("doc-alias " + n, sample={"alias": n, "documented": documented[n]})
        chk.count("alias-documented." + ("same" if got is not None and r == "(ok %s)" % gen.ty_sx(got) else "different"))
        if n == "ExplicitAmount" and got == ("U", 6) and dict(al).get("Amount1") == ("E", dict(al).get("Confidential1"), ("U", 6)):
            # the book's row for ExplicitAmount says u256 while its own row for Amount1 (= Either<Confidential1, ExplicitAmount>)
            # says u64: a slip of the book, not of the code (DESIGN.md §12.7); the Amount1 row is the reference here
            chk.count("alias-documented.book-slip")
            continue
        if got is None or r != "(ok %s)" % gen.ty_sx(got):
            chk.violation({"class": "jet-not-callable", "what": "builtin alias %s is documented as %s but resolves to %s" % (n, documented[n], gen.ty_src(got) if got else None)},
                          {"alias": n, "documented": documented[n], "implementation": gen.ty_src(got) if got else None,
                           "broken": "a builtin type alias does not denote its documented type (book/src/type_alias.md)"})
    chk.extra["documented_aliases"] = len(documented)

    def spell(ty):
        return by_ty.get(ty) or gen.ty_src(ty)
    aprogs = []
    for idx, name, ps, ret in rows:
        if any(p in by_ty for p in ps) or ret in by_ty:
            lets = " ".join("let a%d: %s = witness::A%d;" % (i, spell(p), i) for i, p in enumerate(ps))
            aprogs.append((name, "fn main() { %s let r: %s = jet::%s(%s); }" % (lets, spell(ret), name, ", ".join("a%d" % i for i in range(len(ps))))))
    known_reserved = {"verify", "check_sig_verify"}
    for (name, text), x in zip(aprogs, impl("core", ["(commit %s () 0)" % quote(p) for _, p in aprogs])):
        if name in known_reserved:
            continue
        ln = "(commit %s () 0)" % quote(text)
        chk.case(ln, sample={"jet": name, "outcome": x[:60]})
        chk.count("alias-call." + x.split(" ")[0].strip("("))
        if not x.startswith("(ok"):
            chk.violation({"class": "jet-not-callable", "what": "%s with alias-spelled types: %s" % (name, x[:120])},
                          {"cmd": "core", "line": ln, "program": text, "implementation": x[:600],
                           "broken": "a jet cannot be called with its documented parameter / result types spelled through the builtin aliases"})
    # ---- every jet is callable with one witness per documented parameter, result bound at the documented type
    progs = []
    for idx, name, ps, ret in rows:
        args = ", ".join("witness::A%d" % i for i in range(len(ps)))
        lets = " ".join("let a%d: %s = witness::A%d;" % (i, gen.ty_src(p), i) for i, p in enumerate(ps))
        call = "jet::%s(%s)" % (name, ", ".join("a%d" % i for i in range(len(ps))))
        progs.append((idx, name, "fn main() { %s let r: %s = %s; }" % (lets, gen.ty_src(ret), call)))
    res = impl("front", ["(compile %s)" % quote(p) for (_, _, p) in progs])
    for (idx, name, p), x in zip(progs, res):
        chk.case(p, sample={"jet": name, "program": p[:200], "outcome": x[:60]})
        reserved = name in ("verify", "check_sig_verify")
        chk.count("callable.%s" % ("reserved" if reserved else x.split(" ")[0]))
        if reserved:
            if not x.startswith("rej"):
                chk.violation({"class": "reserved-jet-accepted", "what": name}, {"cmd": "front", "line": "(compile %s)" % quote(p), "implementation": x, "broken": "a reserved jet is callable"})
        elif not x.startswith("ok"):
            chk.violation({"class": "jet-not-callable", "what": "%s: %s" % (name, x[:200])},
                          {"cmd": "front", "line": "(compile %s)" % quote(p), "program": p, "implementation": x,
                           "broken": "the documented one-call program for this jet is rejected / does not compile"})
    # ... and every parameter takes a run-time value of exactly its documented type: witness values (and template arguments) built
    # through the value API at the documented types are accepted by satisfy / instantiate (the jet itself may fail on them)
    wl = []
    for idx, name, ps, ret in rows:
        if name in ("verify", "check_sig_verify") or not ps:
            continue
        vals = boundary_args(rng, ps)
        p_w = [pp for (i2, n2, pp) in progs if i2 == idx][0]
        wl.append((name, "witness", "(run %s () %s 0)" % (quote(p_w), corelib.bindings_sx([("A%d" % i, a) for i, a in enumerate(vals)]))))
        p_p = p_w.replace("witness::", "param::")
        wl.append((name, "param", "(run %s %s () 0)" % (quote(p_p), corelib.bindings_sx([("A%d" % i, a) for i, a in enumerate(vals)]))))
    for (name, chan, ln), x in zip(wl, impl("core", [w[2] for w in wl])):
        ci = corelib.classify_impl(x)
        chk.case(ln)
        chk.count("runtime-typed.%s.%s" % (chan, ci if ci in ("ok", "failed", "sat-error", "panic") else "other"))
        if ci not in ("ok", "failed"):
            chk.violation({"class": "jet-not-callable", "what": "%s with %s values of the documented types: %s" % (name, chan, x[:160])},
                          {"cmd": "core", "line": ln, "implementation": x[:600], "jet": name,
                           "broken": "a jet parameter does not take a run-time value (%s) of its documented type" % chan})
    # wrong arity / swapped heterogeneous arguments must be rejected
    neg = []
    for idx, name, ps, ret in rows:
        if name in ("verify", "check_sig_verify"):
            continue
        lets = " ".join("let a%d: %s = witness::A%d;" % (i, gen.ty_src(p), i) for i, p in enumerate(ps))
        more = "jet::%s(%s)" % (name, ", ".join(["a%d" % i for i in range(len(ps))] + ["()"]))
        neg.append((name, "extra-arg", "fn main() { %s let r: %s = %s; }" % (lets, gen.ty_src(ret), more)))
        if len(ps) >= 2 and ps[0] != ps[1]:
            sw = ["a%d" % i for i in range(len(ps))]
            sw[0], sw[1] = sw[1], sw[0]
            neg.append((name, "swapped", "fn main() { %s let r: %s = jet::%s(%s); }" % (lets, gen.ty_src(ret), name, ", ".join(sw))))
        if len(ps) >= 1:
            neg.append((name, "missing-arg", "fn main() { %s let r: %s = jet::%s(%s); }" % (lets, gen.ty_src(ret), name, ", ".join("a%d" % i for i in range(len(ps) - 1)))))
    if quick:
        neg = rng.sample(neg, 300)
    res = impl("front", ["(accept %s)" % quote(p) for (_, _, p) in neg])
    for (name, kind, p), x in zip(neg, res):
        chk.case(p)
        chk.count("negative.%s.%s" % (kind, "rejected" if x.startswith("err") else "accepted"))
        if not x.startswith("err"):
            chk.violation({"class": "jet-arity", "what": "%s %s accepted" % (name, kind)},
                          {"cmd": "front", "line": "(accept %s)" % quote(p), "program": p, "implementation": x, "broken": "a call with the wrong arity / argument order is accepted"})
    # ---- closed-form meaning: model value vs the C jet, asymmetric boundary + random arguments
    known = set(int(x) for x in parse_sx(model("core", ["(knownjets)"])[0]))
    chk.extra["jets_with_closed_form"] = len(known)
    cases = []
    for idx, name, ps, ret in rows:
        if idx not in known or name == "verify":
            continue
        for _ in range(4 if quick else 40):
            cases.append((idx, name, ps, ret, boundary_args(rng, ps)))
    mres = model("core", ["(mjet %d %s)" % (idx, gen.val_sx(("t", tuple(args)))) for (idx, _, _, _, args) in cases])
    runs = []
    for (idx, name, ps, ret, args), m in zip(cases, mres):
        if not m.startswith("(some"):
            chk.violation({"class": "jet-model", "what": "%s %s -> %s" % (name, gen.val_sx(("t", tuple(args)))[:100], m)}, {"broken": "model jet semantics returned no value"}, no_input=True)
            continue
        v = value_of_sx(parse_sx(m)[1])
        fresh = Fresh()
        call = "jet::%s(%s)" % (name, ", ".join(gen.val_src(a) for a in args))
        body = ["let r: %s = %s;" % (gen.ty_src(ret), call)] + assert_eq("r", ret, v, fresh)
        runs.append((name, args, "fn main() { %s }" % " ".join(body), "ok"))
        if ps and (len(runs) % 3 == 0 or any(t == ("U", 7) for t in ps)):
            # the same call with the arguments supplied at run time: one witness / one template parameter per documented parameter,
            # holding a value of exactly the documented type
            for chan, kw in (("witness", "wit"), ("param", "args")):
                fresh = Fresh()
                lets = ["let a%d: %s = %s::A%d;" % (i, gen.ty_src(t), chan, i) for i, t in enumerate(ps)]
                body = lets + ["let r: %s = jet::%s(%s);" % (gen.ty_src(ret), name, ", ".join("a%d" % i for i in range(len(ps))))] + assert_eq("r", ret, v, fresh)
                runs.append((name, args, "fn main() { %s }" % " ".join(body), "ok", {kw: corelib.bindings_sx([("A%d" % i, a) for i, a in enumerate(args)])}))
        pv = perturb(rng, ret, v)
        if pv is not None:
            fresh = Fresh()
            body = ["let r: %s = %s;" % (gen.ty_src(ret), call)] + assert_eq("r", ret, pv, fresh)
            runs.append((name, args, "fn main() { %s }" % " ".join(body), "failed"))
    def run_line(r):
        ch = r[4] if len(r) > 4 else {}
        return "(run %s %s %s 0)" % (quote(r[2]), ch.get("args", "()"), ch.get("wit", "()"))
    res = impl("core", [run_line(r) for r in runs])
    for r, x in zip(runs, res):
        name, args, p, want = r[:4]
        ci = corelib.classify_impl(x)
        if len(r) > 4:
            chk.count("value.runtime-arguments.%s" % ci)
        chk.case(p, sample={"jet": name, "program": p[:240], "expected": want, "implementation": ci})
        chk.count("value.%s.%s" % (want, ci))
        if ci != want:
            chk.violation({"class": "jet-value", "what": "%s(%s): expected %s got %s" % (name, ", ".join(gen.val_src(a) for a in args)[:80], want, ci)},
                          {"cmd": "core", "line": run_line(r), "program": p, "implementation": x, "expected": want,
                           "broken": "the value computed through Simfony differs from the jet's closed-form meaning (Jets/JetSem.v) — or the argument order/grouping changed"})
    chk.exhaustive = True
    chk.extra["rule"] = ("all %d jets of Elements::ALL: documented one-call program must compile (reserved: must be rejected), wrong arity / swapped heterogeneous arguments must be rejected; "
                         "for the %d jets with a closed form: boundary + random asymmetric arguments, result asserted leaf by leaf against the model's value (must succeed) and against a perturbed value (must fail)") % (len(rows), len(known))
