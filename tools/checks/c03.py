"""C03 — accepted programs always compile to well-typed 1->1 Simplicity."""
from framework import *  # noqa
import corelib
from checks.c08 import Prog


def corpus(chk):
    out = []
    d = os.path.join(VERIF, "corpus", "C03")
    for f in sorted(os.listdir(d)):
        for i, line in enumerate(open(os.path.join(d, f))):
            line = line.strip()
            if line:
                p = Prog(line, [], "corpus/%s/%d" % (f, i))
                p.fixed = []
                out.append(p)
    for i, (tag, text) in enumerate(corelib.scope_type_family()):
        p = Prog(text, [], "corpus/scope-type/%s%d" % (tag, i))
        p.fixed = []
        out.append(p)
    ex = os.path.join(REPO, "examples")
    for f in sorted(os.listdir(ex)):
        if f.endswith(".simf"):
            p = Prog(open(os.path.join(ex, f)).read(), [], "example/" + f)
            p.fixed = []
            p.is_example = True
            out.append(p)
    return out


def run(chk, replay=None):
    build_harness()
    corelib.tables()
    build_driver()
    chk.run_proof_gate()
    if replay is not None:
        import checks.c01 as c01
        return c01.do_replay(replay)
    quick = chk.tier == "quick"
    progs = corpus(chk) + corelib.gen_programs(chk, 250 if quick else 4000, "gprog", size=30 if quick else 50, allow_params=False)
    # the same programs in other layouts (comments with multi-byte characters in front of calls, CRLF): acceptance must carry
    # over to code generation there too (instantiate looks the source text of every tracked call up again)
    import layout
    relaid = []
    for g in progs[: (120 if quick else 1500)]:
        r = chk.sub_rng("lay/" + g.label)
        q = Prog(layout.relayout(r, g.text, crlf=r.random() < 0.3, comments=True, comment_rate=0.5), list(g.witnesses), g.label + "/layout")
        q.fixed = []
        q.is_layout = True
        relaid.append(q)
    progs = progs + relaid
    # templates with parameters: accepted + consistent arguments => instantiate is Ok (arguments of every aggregate shape,
    # lists of every length below their bound)
    import gen
    tprogs = [g for g in corelib.gen_programs(chk, 120 if quick else 1500, "gtmpl", size=30) if g.params]
    for k in (1, 2, 3, 4):
        for n in range(1 << k):
            lv = ("li", ("U", 3), k, tuple(("u", 3, (7 * i + 1) % 256) for i in range(n)))
            q = Prog("fn main() { let l: List<u8, %d> = param::L; let p: (u8, List<u8, %d>) = (1, param::L); }" % (1 << k, 1 << k), [], "tmpl-list/%d/%d" % (k, n), params=[("L", ("L", ("U", 3), k), lv)])
            tprogs.append(q)
    tl = ["(commit %s %s 0)" % (quote(g.text), corelib.bindings_sx([(n, v) for (n, _, v) in g.params])) for g in tprogs]
    for g, ln, x in zip(tprogs, tl, impl("core", tl)):
        chk.case(ln, sample={"program": g.text[:200], "outcome": x[:60]})
        chk.count("instantiate." + x.split(" ")[0].strip("("))
        if not x.startswith("(ok") and not x.startswith("(rej"):
            chk.violation({"class": "accepted-but-not-compiled", "what": "%s || %s" % (x[:160], g.text[:300])},
                          {"program": g.text, "arguments": corelib.bindings_sx([(n, v) for (n, _, v) in g.params]), "implementation": x, "cmd": "core", "line": ln,
                           "broken": "TemplateProgram::new accepted the text and the arguments are consistent, but instantiate failed or panicked"})
    # D gate: TemplateProgram::new accepts => instantiate(no args) is Ok and commit() is 1 -> 1
    lines = ["(compile %s)" % quote(g.text) for g in progs]
    res = impl("front", lines)
    accepted = []
    for g, x, ln in zip(progs, res, lines):
        chk.case(ln, sample={"program": g.text[:300], "outcome": x[:80]})
        kind = x.split(" ")[0]
        chk.count("compile." + kind)
        if kind == "ok":
            accepted.append(g)
        elif kind == "rej":
            continue
        elif "param::" in g.text and "is missing an argument" in x:
            # a template compiled without arguments: the documented Err of instantiate (C12), not a failure of code generation
            chk.count("compile.example_needs_args")
        else:
            chk.violation({"class": "accepted-but-not-compiled", "what": "%s || %s" % (x[:160], g.text[:300])},
                          {"program": g.text, "implementation": x, "cmd": "front", "line": ln,
                           "broken": "TemplateProgram::new accepted the text but instantiate/commit failed or panicked (CannotCompile / panic)"})
    # T gate: the dumped AST is well-typed in the model and the model compiles it to the same term
    corelib.check_terms(chk, [g for g in accepted if not getattr(g, "is_layout", False) and (not getattr(g, "is_example", False) or "param::" not in g.text)])
    chk.extra["programs"] = len(accepted)
    chk.extra["rule"] = ("texts: the shipped examples, an edge corpus (pattern/type arity, duplicate parameter names, empty aggregates, singleton tuples, list bounds), "
                         "and the generated well-typed family; every accepted text must instantiate to Ok, commit() must not panic (type 1->1), its dumped AST must satisfy Lang/WT.v "
                         "(hypothesis of C03_compile_total / C01) and the model must emit the same term")
