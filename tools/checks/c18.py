"""C18 — pruning for an environment never changes the verdict."""
from framework import *  # noqa
import corelib
import gen
from checks.c08 import Prog
import checks.c02 as c02
import svlib


def run(chk, replay=None):
    build_harness()
    corelib.tables()
    build_driver()
    chk.run_proof_gate()
    if replay is not None:
        import checks.c01 as c01
        return c01.do_replay(replay)
    rng = chk.rng
    quick = chk.tier == "quick"
    build_harness_fixed()

    def fixed(line):
        return svlib._run_lines(svlib.SVH_FIXED, "core", [line], shards=1)[0]
    gprogs = corelib.gen_programs(chk, 100 if quick else 1500, "gprune", size=30, allow_params=False)
    gprogs += corelib.partial_witness_programs(chk, 80 if quick else 2000, "pw")
    # programs whose verdict depends on the environment
    env_progs = []
    for i, (cond, wt) in enumerate([
        ("jet::check_lock_height(witness::H);", {"H": ("U", 5)}),
        ("jet::check_lock_time(witness::H);", {"H": ("U", 5)}),
        ("jet::check_lock_distance(witness::D);", {"D": ("U", 4)}),
        ("let s: u32 = jet::current_sequence(); assert!(jet::eq_32(s, witness::H));", {"H": ("U", 5)}),
        ("let l: u32 = jet::lock_time(); match witness::B { true => assert!(jet::eq_32(l, witness::H)), false => (), };", {"B": ("B",), "H": ("U", 5)}),
        ("match witness::B { true => jet::check_lock_height(witness::H), false => assert!(jet::eq_32(jet::version(), jet::version())), };", {"B": ("B",), "H": ("U", 5)}),
        # no witness and no case node at all: the verdict comes from the environment / from constants only
        ("assert!(jet::eq_8(7, 8));", {}), ("assert!(jet::eq_8(7, 7));", {}),
        ("jet::check_lock_height(1000);", {}), ("jet::check_lock_height(0);", {}), ("jet::check_lock_time(500000001);", {}),
        ("jet::check_lock_distance(50);", {}), ("jet::check_lock_distance(0);", {}), ("let v: u32 = jet::version(); assert!(jet::eq_32(v, 77));", {}),
        ("let x: u8 = unwrap_left::<()>(Right(()));", {}), ("panic!();", {}),
    ]):
        p = Prog("fn main() { %s }" % cond, list(wt.items()), "env/%d" % i)
        env_progs.append(p)
    # the recorded inputs of the two known findings (dependency defects D10, D13) are probed on every run
    k10 = Prog("fn main() { let w0: Either<Either<bool, Option<u4>>, bool> = witness::W0; match w0 { Left(v1: Either<bool, Option<u4>>) => { match v1 { Left(v3: bool) => { assert!(jet::eq_1(<bool>::into(v3), 1)); }, Right(v4: Option<u4>) => (), }; }, Right(v2: bool) => (), }; }",
               [("W0", ("E", ("E", ("B",), ("O", ("U", 2))), ("B",)))], "known/D10")
    k10.extra_assign = [[("W0", ("l", ("r", ("B",), ("s", ("u", 2, 9))), ("B",)))]]
    k13 = Prog("fn g1(el: u1, acc: u1) -> u1 { 1 }\nfn main() { let a: u1 = fold::<g1, 4>(list![1, 1], 0); let c: u1 = fold::<g1, 8>(witness::W2, 0); assert!(jet::eq_1(c, 1)); }",
               [("W2", ("L", ("U", 0), 3))], "known/D13")
    k13.extra_assign = [[("W2", ("li", ("U", 0), 3, (("u", 0, 0),)))]]
    k15 = Prog("fn helper2(el: bool, acc: List<u8, 2>) -> List<u8, 2> { list![0xff] }\nfn main() { let x: List<u8, 2> = fold::<helper2, 4>(list![], witness::W3); }",
               [("W3", ("L", ("U", 3), 1))], "known/D15")
    k15.extra_assign = [[("W3", ("li", ("U", 3), 1, (("u", 3, 61),)))]]
    # the witness-flow shapes of C02 (unused, ignored, destructured-but-never-inspected, ...) through the pruned path
    pgx = __import__("progen").ProgGen(rng, {}, 5)
    for kind, tmpl in c02.SHAPES:
        for T in [("U", 3), ("B",), ("T", (("U", 3), ("B",))), ("E", ("U", 1), ("U", 3)), gen.UNIT, pgx.small_ty(2)]:
            q = Prog(tmpl % {"T": gen.ty_src(T)}, list(c02.shape_type(kind, T).items()), "shape/%s/%s" % (kind, gen.ty_src(T)))
            gprogs.append(q)
    gprogs = [k10, k13, k15] + gprogs
    acc = corelib.check_terms(chk, gprogs + env_progs, dbgs=(0,))
    jobs = []
    for g in acc:
        wr = chk.sub_rng("w/" + g.label)
        assigns, _, _ = corelib.witness_assignments(wr, g.witnesses, sample=4)
        assigns = getattr(g, "extra_assign", []) + assigns
        if not g.witnesses:
            assigns = [[]]
        for a in assigns[:(6 if quick else 40)]:
            full = list(a)
            for n, t in g.witnesses:
                if n == "EXPECT":
                    full.append(("EXPECT", ("u", t[1], wr.getrandbits(1 << t[1]) if wr.random() < 0.5 else 0)))
            if g.label.startswith("env/"):
                full = [(n, ("u", t[1], wr.choice([0, 1, 500, 1000, 2 ** 31, 500000000, 500000001]) % (1 << (1 << t[1]))) if t[0] == "U" else gen.gen_val(wr, t)) for n, t in g.witnesses]
            jobs.append((g, full))
    un = impl("core", ["(run %s () %s 0)" % (quote(g.text), corelib.bindings_sx(w)) for g, w in jobs])
    pr = impl("core", ["(runp %s () %s 0)" % (quote(g.text), corelib.bindings_sx(w)) for g, w in jobs])
    for (g, w), x, y in zip(jobs, un, pr):
        ln = "(runp %s () %s 0)" % (quote(g.text), corelib.bindings_sx(w))
        cu, cp = corelib.classify_impl(x), corelib.classify_impl(y)
        chk.case(ln, sample={"program": g.text[:200], "witness": corelib.bindings_sx(w)[:120], "unpruned": cu, "pruned": y[:60]})
        chk.count("verdict.%s.%s" % (cu.split(":")[0], cp.split(":")[0]))
        base = {"cmd": "core", "line": ln, "program": g.text, "witness": corelib.bindings_sx(w), "implementation": y, "unpruned": x}
        if cp == "panic" or cu == "panic":
            chk.violation({"class": "prune-panic", "what": "%s || %s" % (y[:100], g.text[:160])}, dict(base, broken="satisfy_with_env panicked"))
            continue
        # satisfy_with_env(Some(env)) returns Err exactly when the unpruned program fails under env
        if cu == "ok":
            if cp != "ok" and "twins=yes" in y and "mexec=ok" in y:
                chk.violation({"class": "upstream-ihr-twins", "what": g.text[:300]},
                              dict(base, expected="ok", broken="the pruned program succeeds in memory but contains two different nodes with one identity hash (assertl / assertr twins made by the library's pruner); its encoding merges them (D13)"))
            elif cp != "ok" and corelib.classify_impl(fixed(ln)) == "ok":
                chk.violation({"class": "upstream-value-prune", "what": g.text[:300]},
                              dict(base, expected="ok", with_corrected_dependency="ok", broken="satisfy_with_env(Some(env)) fails only because of simplicity-lang 0.4.0 Value::prune (D10)"))
            elif cp != "ok":
                chk.violation({"class": "prune-verdict", "what": "unpruned ok, pruned %s || %s" % (y[:80], g.text[:160])},
                              dict(base, expected="ok", broken="the unpruned program succeeds under env but satisfy_with_env(Some(env)) does not return a succeeding program"))
            elif ("DIFF" in y or "decode=ok" not in y) and "depprune=same" in y and "mexec=ok" in y and "decode=ok" in x and "DIFF" not in x:
                chk.violation({"class": "upstream-prune-encoding", "what": g.text[:300]},
                              dict(base, broken="the encoding of the pruned program does not decode although simfony's unpruned program is healthy; the dependency's RedeemNode::prune applied to that unpruned program reproduces the returned program byte for byte (D15)"))
            elif "DIFF" in y or "decode=ok" not in y:
                chk.violation({"class": "prune-encoding", "what": "%s || %s" % (y[:80], g.text[:160])}, dict(base, broken="the pruned program has a different CMR or does not decode"))
        elif cu == "failed":
            if cp != "sat-error":
                chk.violation({"class": "prune-verdict", "what": "unpruned fails, pruned %s || %s" % (y[:80], g.text[:160])},
                              dict(base, expected="Err", broken="the unpruned program fails under env but satisfy_with_env(Some(env)) returned a program"))
    # ---- other environments (lock time, sequence, fee output): the verdict of the pruned program follows the environment it was pruned for
    eprogs = [
        ("fn main() { jet::check_lock_height(witness::H); }", [("H", ("U", 5))]),
        ("fn main() { jet::check_lock_height(1000); }", []),
        ("fn main() { jet::check_lock_time(witness::H); }", [("H", ("U", 5))]),
        ("fn main() { jet::check_lock_distance(witness::D); }", [("D", ("U", 4))]),
        ("fn main() { jet::check_lock_duration(witness::D); }", [("D", ("U", 4))]),
        ("fn main() { let h: u32 = jet::tx_lock_height(); match jet::eq_32(h, witness::H) { true => assert!(jet::eq_32(jet::num_outputs(), witness::N)), false => assert!(witness::B), }; }", [("H", ("U", 5)), ("N", ("U", 5)), ("B", ("B",))]),
        ("fn main() { let s: u32 = jet::current_sequence(); match witness::E { Left(x: u32) => assert!(jet::eq_32(s, x)), Right(y: u16) => jet::check_lock_distance(y), }; }", [("E", ("E", ("U", 5), ("U", 4)))]),
    ]
    # programs the Bit Machine refuses to run at all (more than 2^31 - 1 cells: many live copies of a 2^24-bit value): the unpruned
    # program fails under every environment, so Some(env) must answer Err
    def oversized(copies, wit):
        t = "fn check(elt: u256, acc: u8) -> u8 { assert!(jet::eq_256(elt, elt)); acc }\nfn main() { let l0: List<u256, 65536> = %s;" % ("witness::L" if wit else "list![]")
        for i in range(1, copies + 1):
            t += " let l%d: List<u256, 65536> = l%d;" % (i, i - 1)
        for i in range(copies + 1):
            t += " assert!(jet::eq_8(fold::<check, 65536>(l%d, 7), 7));" % i
        return t + " }"
    eprogs += [(oversized(24, False), []), (oversized(30, True), [("L", ("L", ("U", 8), 16))])]
    envs = [(0, 0xffffffff, 0), (1000, 0, 0), (999, 0xfffffffe, 1), (500000001, 50, 0), (500000000, 0x00400031, 1), (0, 49, 0)]
    el = []
    for text, wts in eprogs:
        big = "65536" in text
        for env in (envs[:2] if big else envs):
            for _ in range(1 if big else (2 if quick else 8)):
                vals = []
                for n, t in wts:
                    if t[0] == "U":
                        vals.append((n, ("u", t[1], rng.choice([0, 1, 2, 49, 50, 51, 999, 1000, 1001, 500000000, 500000001, env[0], env[1] & 0xffff]) % (1 << (1 << t[1])))))
                    elif t[0] == "L":
                        vals.append((n, ("li", t[1], t[2], ())))
                    else:
                        vals.append((n, gen.gen_val(rng, t)))
                el.append((text, vals, env, "(runpe %s () %s 0 (%d %d %d))" % (quote(text), corelib.bindings_sx(vals), env[0], env[1], env[2])))
    for (text, vals, env, ln), x in zip(el, impl("core", [e[3] for e in el])):
        m = re.match(r"\(unpruned \((\w+)[^)]*\)\) \(pruned \((\w+)(.*)\)\)$", x)
        chk.case(ln, sample={"program": text[:100], "env": env, "outcome": x[:90]})
        if not m:
            chk.violation({"class": "prune-panic", "what": x[:200]}, {"cmd": "core", "line": ln, "implementation": x, "broken": "unexpected outcome under a non-default environment"})
            continue
        u, pr, rest = m.group(1), m.group(2), m.group(3)
        chk.count("env.%s.%s" % (u, pr))
        good = (u == "ok" and pr == "ok" and "mexec=ok" in rest and "decode=ok" in rest) or (u in ("fail", "limits") and pr == "sat")
        if not good and not ("twins=yes" in rest or "depprune=same" in rest and "mexec=ok" in rest):
            chk.violation({"class": "prune-verdict", "what": "env %s: unpruned %s, pruned %s || %s" % (env, u, pr, text[:160])},
                          {"cmd": "core", "line": ln, "program": text, "witness": corelib.bindings_sx(vals), "environment": env, "implementation": x[:600],
                           "broken": "under this environment satisfy_with_env(Some(env)) is not Ok-and-succeeding exactly when the unpruned program succeeds"})
    # ---- one CompiledProgram object, the same witness, several environments one after the other: every call answers for ITS environment
    #      (a result remembered from an earlier call of the same object must not leak into a later one)
    sl = []
    for text, wts in eprogs:
        if "65536" in text:
            continue
        for _ in range(3 if quick else 12):
            vals = []
            order = list(envs)
            rng.shuffle(order)
            order = order[:rng.choice([2, 3, 6])]
            for n, t in wts:
                if t[0] == "U":
                    vals.append((n, ("u", t[1], rng.choice([0, 5, 49, 50, 999, 1000, order[0][0], order[-1][0], order[0][1] & 0xffff, order[-1][1] & 0xffff]) % (1 << (1 << t[1])))))
                else:
                    vals.append((n, gen.gen_val(rng, t)))
            seq = "(runpe %s () %s 0 (%s))" % (quote(text), corelib.bindings_sx(vals), " ".join("(%d %d %d)" % e for e in order))
            singles = ["(runpe %s () %s 0 (%d %d %d))" % (quote(text), corelib.bindings_sx(vals), e[0], e[1], e[2]) for e in order]
            sl.append((text, vals, order, seq, singles))
    flat = []
    for e in sl:
        flat.append(e[3])
        flat.extend(e[4])
    res = impl("core", flat)
    pos = 0

    def verdict(x):
        m = re.match(r"\(unpruned \((\w+)[^)]*\)\) \(pruned \((\w+)", x)
        return (m.group(1), m.group(2), "mexec=ok" in x, "twins=yes" in x) if m else ("?", x[:60], False, False)

    for text, vals, order, seq, singles in sl:
        got = res[pos].split(" ; ")
        fresh = res[pos + 1: pos + 1 + len(singles)]
        pos += 1 + len(singles)
        chk.case(seq, sample={"program": text[:100], "envs": order, "outcome": res[pos - 1 - len(singles)][:90]})
        chk.count("envseq.len%d" % len(order))
        if len(got) != len(order):
            chk.violation({"class": "prune-panic", "what": res[pos - 1 - len(singles)][:200]}, {"cmd": "core", "line": seq, "implementation": res[pos - 1 - len(singles)][:600], "broken": "unexpected outcome for a sequence of environments"})
            continue
        for k, (a, b) in enumerate(zip(got, fresh)):
            if verdict(a) != verdict(b) and not (verdict(a)[3] or verdict(b)[3]):
                chk.violation({"class": "prune-verdict", "what": "call %d of one object under env %s: %s, a fresh object: %s || %s" % (k + 1, order[k], verdict(a)[:3], verdict(b)[:3], text[:140])},
                              {"cmd": "core", "line": seq, "program": text, "witness": corelib.bindings_sx(vals), "environments": order, "implementation": a[:400], "fresh_object": b[:400],
                               "broken": "the %d-th satisfy_with_env call on one CompiledProgram answers differently from the same call on a fresh object: the verdict does not follow the environment passed" % (k + 1)})
                break
    # the pruned run against the source semantics, with the observed value pinned (so that successes are frequent)
    corelib.run_matrix(chk, [g for g in acc if not g.label.startswith("env/")], dbgs=(0,), cmd="runp", pruned=True, max_assign=8 if quick else None, upstream_fixed=fixed)
    chk.extra["rule"] = ("generated programs x witness assignments, and programs whose verdict depends on the environment (check_lock_*, current_sequence, lock_time; one with an untaken branch holding an "
                         "unsatisfiable lock) : satisfy_with_env(Some(dummy env)) is Ok exactly when the unpruned redeem program succeeds under the same env; the pruned program has the commit CMR, "
                         "decodes and succeeds")
