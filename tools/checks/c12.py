"""C12 — template instantiation equals literal substitution."""
from framework import *  # noqa
import corelib
import gen
import progen
from checks.c08 import Prog


def lit_src(v, t):
    """source text of a value that parses at type t (used for literal substitution)"""
    return gen.val_src(v)


def run(chk, replay=None):
    build_harness()
    corelib.tables()
    build_driver()
    chk.run_proof_gate()
    if replay is not None:
        x = impl("core", [replay["line"]])[0]
        print("implementation now:", x, "\nrecorded:", replay.get("implementation"), "\nexpected:", replay.get("expected"))
        return 0
    rng = chk.rng
    quick = chk.tier == "quick"
    progs = [g for g in corelib.gen_programs(chk, 140 if quick else 2500, "gpar", size=28) if g.params or rng.random() < 0.2]
    # plus a parameter inside a function that is never called, and one used twice
    extra = []
    for i in range(10 if quick else 100):
        t = progen.ProgGen(rng, {}, 5).small_ty(1)
        v = gen.gen_val(rng, t)
        text = "fn never() -> %s { param::Q }\nfn twice() -> (%s, %s) { (param::Q, param::Q) }\nfn main() { let x: %s = param::P; }" % (gen.ty_src(t), gen.ty_src(t), gen.ty_src(t), gen.ty_src(t))
        p = Prog(text, [], "uncalled/%d" % i, params=[("P", t, v), ("Q", t, gen.gen_val(rng, t))])
        extra.append(p)
    progs += extra
    # arguments of aggregate type used in an order-sensitive way: a list folded with a non-commutative function, an array and a
    # tuple taken apart component by component (the argument must arrive element for element where the literal would)
    from checks.c08 import F_ORDER
    for i in range(12 if quick else 120):
        k = rng.choice([1, 2, 3, 4])
        n = rng.randrange(0, 1 << k)
        lt = ("L", ("U", 3), k)
        lv = ("li", ("U", 3), k, tuple(("u", 3, rng.randrange(256)) for _ in range(n)))
        at = ("A", ("U", 3), 3)
        av = gen.gen_val(rng, at)
        tt = ("T", (("U", 3), ("U", 3), ("U", 3), ("U", 3), ("U", 3)))
        tv = gen.gen_val(rng, tt)
        text = ("%s\nfn main() { let r: u8 = fold::<f, %d>(param::L, %d); let [a0, a1, a2]: [u8; 3] = param::A; let (t0, t1, t2, t3, t4): (u8, u8, u8, u8, u8) = param::T; "
                "let m: u8 = jet::xor_8(jet::xor_8(r, jet::left_rotate_8(1, a0)), jet::xor_8(jet::left_rotate_8(2, a1), jet::left_rotate_8(3, a2))); "
                "let q: u8 = jet::xor_8(jet::xor_8(jet::left_rotate_8(1, t0), jet::left_rotate_8(2, t1)), jet::xor_8(jet::left_rotate_8(3, t2), jet::xor_8(jet::left_rotate_8(4, t3), jet::left_rotate_8(5, t4)))); "
                "assert!(jet::eq_8(jet::xor_8(m, q), witness::EXPECT)); }") % (F_ORDER, 1 << k, rng.randrange(256))
        p = Prog(text, [("EXPECT", ("U", 3))], "aggregate/%d" % i, params=[("L", lt, lv), ("A", at, av), ("T", tt, tv)])
        p.observe = 3
        progs.append(p)
    # one parameter name at two sites: accepted (one entry) when both sites have one type, rejected when the types differ
    for a, b in (("u16", "(u8, u8)"), ("u1", "bool"), ("u8", "u32"), ("[u8; 2]", "u16"), ("Option<u8>", "Either<(), u8>")):
        for ta, tb, ok in ((a, b, False), (b, a, False), (a, a, True)):
            for text in ("fn main() { let x: %s = param::X; let y: %s = param::X; }" % (ta, tb), "fn f() -> %s { param::X }\nfn main() { let y: %s = param::X; let z: %s = f(); }" % (ta, tb, ta)):
                x = impl("core", ["(params %s)" % quote(text)], shards=1)[0]
                chk.case("(params %s)" % quote(text), sample={"program": text[:120], "outcome": x[:60]})
                chk.count("param-two-sites.%s" % x.split(" ")[0].strip("()"))
                if x.startswith("(ok") != ok or (ok and x.count("(X ") != 1):
                    chk.violation({"class": "parameters", "what": "one name at types %s / %s: %s" % (ta, tb, x[:100])},
                                  {"cmd": "core", "line": "(params %s)" % quote(text), "program": text, "implementation": x, "expected": "accepted with one entry" if ok else "rejected",
                                   "broken": "a parameter name used at two sites must have one type (and is reported once)"})
    # parameters used only in functions that main never calls — written above main, BELOW main, or both: they are reported and
    # need an argument like any other (the item order of a program carries no meaning)
    extra = []
    for g in [g for g in progs if "fn main" in g.text][: (40 if chk.tier == "quick" else 400)]:
        r = chk.sub_rng("below/" + g.label)
        pgb = progen.ProgGen(r, {}, 5)
        t = pgb.small_ty(1)
        v = gen.gen_val(r, t)
        where = r.choice(["below", "below", "above", "both"])
        fb = "\nfn below_main_%d() -> %s { param::BELOW }\n" % (len(extra), gen.ty_src(t))
        fa = "fn above_main_%d() -> %s { param::ABOVE }\n" % (len(extra), gen.ty_src(t))
        if where == "below":
            q = Prog(g.text + fb, list(g.witnesses), g.label + "/below", params=list(g.params) + [("BELOW", t, v)])
        elif where == "above":
            q = Prog(fa + g.text, list(g.witnesses), g.label + "/above", params=list(g.params) + [("ABOVE", t, v)])
        else:
            q = Prog(fa + g.text + fb, list(g.witnesses), g.label + "/both", params=list(g.params) + [("ABOVE", t, v), ("BELOW", t, v)])
        for a in ("fixed", "expect"):
            if hasattr(g, a):
                setattr(q, a, getattr(g, a))
        chk.count("params.uncalled-function.%s" % where)
        extra.append(q)
    progs = progs + extra
    # (a) parameters() reports exactly the param:: occurrences
    res = impl("core", ["(params %s)" % quote(g.text) for g in progs])
    ok_progs = []
    for g, x in zip(progs, res):
        chk.case("(params %s)" % g.text, sample={"program": g.text[:200], "parameters": x[:120]})
        want = "(ok%s)" % "".join(" (%s %s)" % (n, gen.ty_sx(t)) for (n, t, _) in sorted(g.params))
        if not x.startswith("(ok"):
            chk.violation({"class": "template-rejected", "what": "%s || %s" % (x[:100], g.text[:200])}, {"cmd": "core", "line": "(params %s)" % quote(g.text), "implementation": x, "broken": "a well-typed template is rejected"})
            continue
        chk.count("params.%d" % len(g.params))
        if x != want:
            chk.violation({"class": "parameters", "what": "reported %s expected %s" % (x[:120], want[:120])},
                          {"cmd": "core", "line": "(params %s)" % quote(g.text), "implementation": x, "expected": want, "program": g.text,
                           "broken": "parameters() does not report exactly the param::NAME occurrences with their types"})
        ok_progs.append(g)
    # (b) instantiate fails exactly when a reported parameter has no / a differently typed argument; extras ignored
    cases = []
    pg = progen.ProgGen(rng, {}, 5)
    for g in ok_progs:
        base = [(n, v) for (n, _, v) in g.params]
        cases.append((g, "exact", base))
        cases.append((g, "extra", base + [("NOPE", ("u", 3, 7))]))
        if g.params:
            j = rng.randrange(len(g.params))
            n, t, v = g.params[j]
            cases.append((g, "missing", [p for p in base if p[0] != n]))
            ps = progen.cast_partners(t)
            if ps:
                s = rng.choice(ps)
                cases.append((g, "same-layout-type", [(m, (gen.gen_val(rng, s) if m == n else w)) for m, w in base]))
            for _ in range(10):
                d = pg.small_ty(1)
                if d != t:
                    cases.append((g, "different-type", [(m, (gen.gen_val(rng, d) if m == n else w)) for m, w in base]))
                    break
            rg = progen.regroup(t, v)
            if rg:
                cases.append((g, "regrouped-tuple-type", [(m, (rg[1] if m == n else w)) for m, w in base]))
        # combinations: the rules hold jointly (a missing argument next to unrelated extra names, a retyped one next to extras, ...)
        for _ in range(3):
            m = list(base)
            tags = []
            if g.params and rng.random() < 0.5:
                n = rng.choice(g.params)[0]
                m = [p for p in m if p[0] != n]
                tags.append("missing")
            elif g.params and rng.random() < 0.5:
                n, t, v = rng.choice(g.params)
                for _ in range(10):
                    d = pg.small_ty(1)
                    if d != t:
                        m = [(a, (gen.gen_val(rng, d) if a == n else w)) for a, w in m]
                        tags.append("different-type")
                        break
            k = rng.choice([1, 2, 5])
            m += [("Q%d%s" % (q, rng.choice("xyz")), gen.gen_val(rng, pg.small_ty(1))) for q in range(k)]
            tags.append("extra")
            rng.shuffle(m)
            cases.append((g, "combo:" + "+".join(tags), m))
    il = ["(commit %s %s 0)" % (quote(g.text), corelib.bindings_sx(m)) for (g, _, m) in cases]
    ml = ["(macons %s %s)" % (corelib.bindings_sx(m), "(" + " ".join("(%s %s)" % (n, gen.ty_sx(t)) for (n, t, _) in g.params) + ")") for (g, _, m) in cases]
    ia = impl("core", il)
    mb = model("core", ml)
    subst_jobs = []
    for (g, kind, m), x, y, ln in zip(cases, ia, mb, il):
        chk.case(ln, sample={"program": g.text[:160], "arguments": corelib.bindings_sx(m)[:120], "kind": kind, "implementation": x[:40]})
        chk.count("instantiate.%s.%s" % (kind, x.split(" ")[0].strip("(")))
        if x.startswith("PANIC") or x.startswith("CRASH"):
            chk.violation({"class": "instantiate-panic", "what": x[:150]}, {"cmd": "core", "line": ln, "implementation": x, "broken": "instantiate panicked"})
            continue
        ok = x.startswith("(ok")
        if ok != (y == "true"):
            chk.violation({"class": "argument-consistency", "what": "%s: instantiate %s, model consistent=%s" % (kind, x[:60], y)},
                          {"cmd": "core", "line": ln, "implementation": x, "model": y, "program": g.text, "arguments": corelib.bindings_sx(m),
                           "broken": "instantiate fails exactly when a reported parameter has no argument or one of a different type (C12_args_consistent_spec + correspondence)"})
        if ok and kind in ("exact", "extra", "combo:extra"):
            subst_jobs.append((g, m, x))
    # (c) the instantiated program behaves like the literal-substituted program (and has the same CMR when every
    #     argument is a plain integer / bool, whose literal compiles to the same constant)
    sub_progs = []
    for g, m, x in subst_jobs:
        text = g.text
        md = dict(m)
        for (n, t, _) in sorted(g.params, key=lambda p: -len(p[0])):
            text = re.sub(r"param::%s\b" % n, lit_src(md[n], t), text)
        sub_progs.append((g, m, x, text))
    sres = impl("core", ["(commit %s () 0)" % quote(t) for (_, _, _, t) in sub_progs])
    behave = []
    for (g, m, x, text), y in zip(sub_progs, sres):
        sl = "(commit %s () 0)" % quote(text)
        chk.case(sl)
        simple = all(t[0] in ("U", "B") for (_, t, _) in g.params)
        if not y.startswith("(ok"):
            chk.violation({"class": "substituted-rejected", "what": "%s || %s" % (y[:100], text[:200])},
                          {"cmd": "core", "line": sl, "program": g.text, "arguments": corelib.bindings_sx(m), "implementation": y,
                           "broken": "the program with the argument values written literally is rejected"})
            continue
        chk.count("substitution.cmr.%s.%s" % ("simple" if simple else "composite", "same" if x == y else "different"))
        if simple and x != y:
            chk.violation({"class": "substitution-cmr", "what": "instantiated %s vs substituted %s" % (x[:80], y[:80])},
                          {"cmd": "core", "line": sl, "program": g.text, "arguments": corelib.bindings_sx(m), "implementation": y, "expected": x,
                           "broken": "with integer/bool arguments the instantiated program must be the literal-substituted program (C12_param_is_constant)"})
        if getattr(g, "witnesses", None) and hasattr(g, "observe") and len(behave) < (150 if chk.tier == "quick" else 3000):
            behave.append((g, m, text))
    # behaviour on witnesses: same outcome for instantiated and substituted text
    jobs = []
    for g, m, text in behave:
        wr = chk.sub_rng("subst/" + g.label)
        assigns, _, _ = corelib.witness_assignments(wr, g.witnesses, sample=3)
        for a in assigns[:4]:
            k = [t for n, t in g.witnesses if n == "EXPECT"]
            full = a + ([("EXPECT", ("u", k[0][1], wr.getrandbits(1 << k[0][1])))] if k else [])
            jobs.append((g, m, text, full))
    ra = impl("core", ["(run %s %s %s 0)" % (quote(g.text), corelib.bindings_sx(m), corelib.bindings_sx(w)) for (g, m, _, w) in jobs])
    rb = impl("core", ["(run %s () %s 0)" % (quote(text), corelib.bindings_sx(w)) for (_, _, text, w) in jobs])
    for (g, m, text, w), x, y in zip(jobs, ra, rb):
        cx, cy = corelib.classify_impl(x), corelib.classify_impl(y)
        chk.case("subst-run " + g.label + corelib.bindings_sx(w))
        chk.count("substitution.behaviour.%s" % ("same" if cx == cy else "different"))
        if cx != cy:
            chk.violation({"class": "substitution-behaviour", "what": "instantiated %s vs substituted %s" % (cx, cy)},
                          {"cmd": "core", "line": "(run %s () %s 0)" % (quote(text), corelib.bindings_sx(w)), "program": g.text, "substituted": text,
                           "arguments": corelib.bindings_sx(m), "witness": corelib.bindings_sx(w), "implementation": y, "expected": x,
                           "broken": "the instantiated program and the literal-substituted program behave differently"})
    acc = corelib.check_terms(chk, [g for g in ok_progs if hasattr(g, "forms") and g.witnesses is not None and getattr(g, "observe", None) is not None], dbgs=(0,))
    corelib.run_matrix(chk, acc, dbgs=(0,), max_assign=6)
    chk.extra["rule"] = ("generated templates with 0..4 parameters in main and in functions (incl. never-called functions and a name used twice): parameters() vs the generator's record; "
                         "argument maps exact / extra / missing / layout-equal other type / different type: instantiate Ok/Err vs the model; literal substitution: CMR and encoding equality; "
                         "instantiated programs executed against the source semantics with the arguments")
