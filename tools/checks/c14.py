"""C14 — debug symbols are behaviour-neutral (a) and point at the right call (b)."""
from framework import *  # noqa
import corelib


def markers(chk, acc):
    """(b): every marker of the debug build resolves to text and kind of exactly one tracked call site; distinct sites, distinct markers"""
    import layout
    variants = []
    for g in acc:
        r = chk.sub_rng("lay/" + g.label)
        variants.append((g, g.text))
        variants.append((g, layout.relayout(r, g.text, crlf=False, comments=True)))
    args = [corelib.bindings_sx([(n, v) for (n, _, v) in g.params]) for g, _ in variants]
    calls = impl("core", ["(calls %s)" % quote(t) for _, t in variants])
    syms = impl("core", ["(dbgsyms %s %s)" % (quote(t), a) for (_, t), a in zip(variants, args)])
    pss = impl("peg", ["(callspans %s)" % quote(t) for _, t in variants])
    rng_of = []
    oq = []
    for (_, t), ps in zip(variants, pss):
        r = [(int(a), int(b)) for a, b in parse_sx(ps)[1:]] if ps.startswith("(ok") else []
        rng_of.append(r)
        oq += ["(offsets %s %d %d)" % (quote(t), a, b) for a, b in r]
    oa = iter(model("span", oq))
    span_maps = []
    for r in rng_of:
        d = {}
        for (a, b) in r:
            o = next(oa)
            if o.startswith("("):
                d[tuple(parse_sx(o))] = (a, b)
        span_maps.append(d)
    for (g, text), c, sy, a, by_span in zip(variants, calls, syms, args, span_maps):
        ln = "(dbgsyms %s %s)" % (quote(text), a)
        if not c.startswith("(ok") or not sy.startswith("(ok"):
            if c.startswith("PANIC") or sy.startswith("PANIC"):
                chk.violation({"class": "debug-symbols-panic", "what": (c + sy)[:200]}, {"cmd": "core", "line": ln, "implementation": sy, "broken": "debug symbol extraction panicked"})
            continue
        cl = parse_sx(c)[1:]
        spans = sorted({(k, sl, sc, el, ec) for (k, sl, sc, el, ec) in cl})
        # the call expressions as pest itself delimits them (byte ranges), placed on lines/columns by the model of pest's line_col
        bad = [sp for sp in spans if sp[1:] not in by_span]
        if bad:
            chk.violation({"class": "tracked-span", "what": "span %s of a tracked call is not the span of a call expression || %s" % (bad[0], text[:160])},
                          {"cmd": "core", "line": "(calls %s)" % quote(text), "program": text, "implementation": c[:1500], "pest_call_expressions": str(sorted(by_span))[:1500],
                           "broken": "the span recorded for a tracked call is not the (line, column) range pest gives the call expression"})
            continue
        pred = model("span", ["(tracked %s %d %d)" % ((quote(text),) + by_span[sp[1:]]) for sp in spans], shards=1) if spans else []
        want = sorted((parse_sx(p) if p.startswith('"') else p, k) for (k, _, _, _, _), p in zip(spans, pred))
        ms = parse_sx(sy)[1:]
        got = []
        unresolved = 0
        for m in ms:
            if m[1] == "UNRESOLVED":
                unresolved += 1
            else:
                got.append((m[1], m[2].split(":")[0]))
        got.sort()
        chk.case(ln, sample={"program": text[:200], "markers": got[:4]})
        chk.count("markers.sites", len(spans))
        base = {"cmd": "core", "line": ln, "program": text, "implementation": sy[:1500], "expected": str(want)[:1500]}
        if unresolved:
            chk.violation({"class": "marker-unresolved", "what": "%d markers of the debug build are not in debug_symbols() || %s" % (unresolved, text[:160])},
                          dict(base, broken="an embedded debug marker does not resolve through debug_symbols()"))
        elif len(ms) != len(spans):
            chk.violation({"class": "marker-count", "what": "%d markers for %d tracked call sites || %s" % (len(ms), len(spans), text[:160])},
                          dict(base, broken="distinct call sites must get distinct markers, one each"))
        elif got != want:
            chk.violation({"class": "marker-text", "what": "markers resolve to %s, call sites are %s" % (str(got)[:150], str(want)[:150])},
                          dict(base, broken="a marker does not resolve to the source text and kind of its call site (C14b_to_slice_correct + correspondence)"))


def marker_values(chk, acc):
    """last clause of (b): the value a dbg! / unwrap_* marker reports for a Simplicity input is the source-level value"""
    import gen
    import progen
    args = [corelib.bindings_sx([(n, v) for (n, _, v) in g.params]) for g in acc]
    syms = impl("core", ["(dbgsyms %s %s)" % (quote(g.text), a) for g, a in zip(acc, args)])
    tyq, where = [], []
    for g, a, sy in zip(acc, args, syms):
        if not sy.startswith("(ok"):
            continue
        for m in parse_sx(sy)[1:]:
            if len(m) == 3 and m[2].split(":")[0] in ("dbg", "unwrap_left", "unwrap_right"):
                tyq.append("(tparse %s)" % quote(m[2].split(":", 1)[1]))
                where.append((g, a, m[0], m[2].split(":")[0], m[1]))
    tys = impl("value", tyq)
    per_prog = {}
    for (g, a, cmr, kind, text), t in zip(where, tys):
        if not t.startswith("(ok"):
            continue
        ty = progen.sx_to_ty(parse_sx(t)[1])
        r = chk.sub_rng("mv/%s/%s" % (g.label, cmr[:8]))
        vals = [gen.gen_val(r, ty) for _ in range(3)]
        if progen.domain_size(ty) <= 8:
            vals = progen.all_values(ty)
        per_prog.setdefault((g.label, a), (g, [])) [1].extend((cmr, kind, text, v) for v in vals)
    lines, metas = [], []
    for (label, a), (g, qs) in per_prog.items():
        lines.append("(mapvalue %s %s (%s))" % (quote(g.text), a, " ".join("(%s %s)" % (c, gen.val_sx(v)) for (c, _, _, v) in qs)))
        metas.append((g, qs))
    for ln, (g, qs), x in zip(lines, metas, impl("core", lines)):
        if not x.startswith("(ok"):
            if x.startswith("PANIC") or x.startswith("CRASH"):
                chk.violation({"class": "debug-symbols-panic", "what": x[:200]}, {"cmd": "core", "line": ln, "implementation": x, "broken": "TrackedCall::map_value panicked"})
            continue
        res = parse_sx(x)[1:]
        for (cmr, kind, text, v), r in zip(qs, res):
            chk.case(ln + cmr + gen.val_sx(v), sample={"call": text[:80], "kind": kind, "value": gen.val_sx(v)[:80], "reported": sx(r)[:80]})
            chk.count("marker-value.%s" % kind)
            want = "(%s %s)" % ("dbg" if kind == "dbg" else "fallible", gen.val_sx(v))
            if sx(r) != want:
                chk.violation({"class": "marker-value", "what": "%s %s: %s reported as %s" % (kind, text[:60], gen.val_sx(v)[:80], sx(r)[:80])},
                              {"cmd": "core", "line": ln, "program": g.text, "call": text, "value": gen.val_sx(v), "implementation": sx(r), "expected": want,
                               "broken": "the value reconstructed for a tracked call from its Simplicity input is not the source-level value"})


def run(chk, replay=None):
    build_harness()
    corelib.tables()
    build_driver()
    chk.run_proof_gate()
    if replay is not None:
        import checks.c01 as c01
        return c01.do_replay(replay)
    quick = chk.tier == "quick"
    progs = corelib.gen_programs(chk, 120 if quick else 1000, "gdbg", size=30 if quick else 50, focus="dbg")
    from checks.c08 import Prog
    twins = [
        "fn chk_a(x: u8) { assert!(jet::eq_8(x, 16)); }\nfn chk_b(x: u8) { assert!(jet::eq_8(x, 16)); }\nfn main() { chk_a(witness::A); chk_b(witness::B); }",
        "fn first(o: Option<u8>) -> u8 { let v: u8 = dbg!(unwrap(o)); v }\nfn second(o: Option<u8>) -> u8 { let v: u8 = dbg!(unwrap(o)); v }\nfn main() { let a: u8 = first(witness::A); let b: u8 = second(witness::B); assert!(jet::eq_8(a, b)); }",
        "fn l1(acc: u8, ctx: (), i: u2) -> Either<u8, u8> { assert!(jet::lt_8(acc, 200)); Right(acc) }\nfn l2(acc: u8, ctx: (), i: u2) -> Either<u8, u8> { assert!(jet::lt_8(acc, 200)); Right(acc) }\nfn main() { let r: Either<u8, u8> = for_while::<l1>(witness::A, ()); let s: Either<u8, u8> = for_while::<l2>(witness::B, ()); }",
        "fn f1(e: u8, a: u8) -> u8 { assert!(jet::lt_8(e, 9)); a }\nfn f2(e: u8, a: u8) -> u8 { assert!(jet::lt_8(e, 9)); a }\nfn main() { let x: u8 = fold::<f1, 4>(list![1, 2], witness::A); let y: u8 = fold::<f2, 4>(list![1, witness::B], 0); }",
        "fn same(x: u8) { assert!(jet::eq_8(x, 16)); }\nfn main() { same(witness::A); same(witness::B); same(16); }",
    ]
    for i, t in enumerate(twins):
        wn = sorted(set(re.findall(r"witness::([A-Z])", t)))
        ty = {"A": ("U", 3), "B": ("U", 3)}
        if "Option<u8>" in t:
            ty = {"A": ("O", ("U", 3)), "B": ("O", ("U", 3))}
        q = Prog(t, [(n, ty[n]) for n in wn], "twin-functions/%d" % i)
        q.forms = set()
        progs.append(q)
    acc = corelib.check_terms(chk, progs)
    outcomes = {}

    def on_case(g, a, dbg, x, y):
        key = (g.label, corelib.bindings_sx(a))
        outcomes.setdefault(key, {})[dbg] = (corelib.classify_impl(x), g, a, x)
    corelib.run_matrix(chk, acc, on_case=on_case, max_assign=20 if quick else None)
    n = 0
    for key, d in outcomes.items():
        if 0 in d and 1 in d:
            n += 1
            if d[0][0] != d[1][0]:
                g, a = d[0][1], d[0][2]
                chk.violation({"class": "debug-changes-behaviour", "what": "plain=%s debug=%s || %s" % (d[0][0], d[1][0], g.text[:200])},
                              {"program": g.text, "witness": corelib.bindings_sx(a), "plain": d[0][3], "debug": d[1][3],
                               "broken": "the debug build and the plain build disagree on success (C14_debug_neutral + correspondence)"})
    chk.extra["pairs_compared"] = n
    markers(chk, acc)
    marker_values(chk, acc)
    chk.extra["rule"] = ("generated programs biased towards dbg!/assert!/unwrap*/jet calls x witness assignments; each (program, witness) is run with include_debug_symbols "
                         "off and on through satisfy/encode/decode/Bit Machine and both outcomes are compared with each other and with the source semantics")
