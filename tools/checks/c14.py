"""C14 — debug symbols are behaviour-neutral (a) [markers: (b) is checked once the front-end model predicts call ids]."""
from framework import *  # noqa
import corelib


def run(chk, replay=None):
    build_harness()
    corelib.tables()
    build_driver()
    chk.run_proof_gate()
    if replay is not None:
        import checks.c01 as c01
        return c01.do_replay(replay)
    quick = chk.tier == "quick"
    progs = corelib.gen_programs(chk, 120 if quick else 2000, "gdbg", size=30 if quick else 50, focus="dbg")
    acc = corelib.check_terms(chk, progs)
    outcomes = {}

    def on_case(g, a, dbg, x, y):
        key = (g.label, corelib.bindings_sx(a))
        outcomes.setdefault(key, {})[dbg] = (corelib.classify_impl(x), g, a, x)
    corelib.run_matrix(chk, acc, on_case=on_case, max_assign=20 if quick else None)
    n = 0
    for key, d in outcomes.items():
        if 0 in d and 1 in d:
            n += 1
            if d[0][0] != d[1][0]:
                g, a = d[0][1], d[0][2]
                chk.violation({"class": "debug-changes-behaviour", "what": "plain=%s debug=%s || %s" % (d[0][0], d[1][0], g.text[:200])},
                              {"program": g.text, "witness": corelib.bindings_sx(a), "plain": d[0][3], "debug": d[1][3],
                               "broken": "the debug build and the plain build disagree on success (C14_debug_neutral + correspondence)"})
    chk.extra["pairs_compared"] = n
    chk.extra["rule"] = ("generated programs biased towards dbg!/assert!/unwrap*/jet calls x witness assignments; each (program, witness) is run with include_debug_symbols "
                         "off and on through satisfy/encode/decode/Bit Machine and both outcomes are compared with each other and with the source semantics")
