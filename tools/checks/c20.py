"""C20 — compile errors quote the source lines they point at."""
from framework import *  # noqa
import corelib
import layout


def boundaries(s):
    b = s.encode("utf-8")
    return [i for i in range(len(b) + 1) if i == len(b) or (b[i] & 0xC0) != 0x80]


def run(chk, replay=None):
    build_harness()
    corelib.tables()
    build_driver()
    chk.run_proof_gate()
    if replay is not None:
        x = impl(replay["cmd"], [replay["line"]])[0]
        print("implementation now:", x, "\nrecorded:", replay.get("implementation"), "\nexpected/model:", replay.get("model") or replay.get("expected"))
        return 0
    rng = chk.rng
    quick = chk.tier == "quick"

    # ---- gate T: model render / to_slice vs implementation on synthetic spans of small files
    files = ["a", "ab\ncd", "ab\ncd\n", "a\r\nb\r\n", "x\ry\n", "\n", "\n\n", "é(\n)", "\tfn\t\n", "α\U0001F388β\nq", "a\n\nb", "one\ntwo\nthree\nfour\nfive\nsix\nseven\neight\nnine\nten\neleven"]
    for _ in range(10 if quick else 100):
        n = rng.randrange(1, 14)
        files.append("".join(rng.choice(["a", "b", " ", "\n", "\n", "\r\n", "\r", "\t", "é", "\U0001F388", "("]) for _ in range(n)))
    lines = []
    meta = []
    for f in files:
        bs = boundaries(f)
        pairs = [(s, e) for s in bs for e in bs if s <= e]
        if len(pairs) > (60 if quick else 400):
            pairs = rng.sample(pairs, 60 if quick else 400)
        res = model("span", ["(offsets %s %d %d)" % (quote(f), s, e) for (s, e) in pairs])
        for (s, e), r in zip(pairs, res):
            if not r.startswith("("):
                chk.violation({"class": "span-model", "what": "offsets %r %d %d -> %s" % (f, s, e, r)}, {"broken": "model: span_of_offsets failed on a boundary pair (contradicts span_of_offsets_spec)"}, no_input=True)
                continue
            sl, sc, el, ec = r.strip("()").split()
            lines.append("(render %s %s %s %s %s %s)" % (quote(f), sl, sc, el, ec, quote("msg")))
            meta.append((f, s, e))
            lines.append("(slice %s %s %s %s %s)" % (quote(f), sl, sc, el, ec))
            meta.append((f, s, e))
    a = impl("span", lines)
    b = model("span", lines)
    for ln, (f, s, e), x, y in zip(lines, meta, a, b):
        kind = ln[1:ln.index(" ")]
        chk.case(ln, sample={"file": f[:60], "bytes": [s, e], "kind": kind, "implementation": x[:120]})
        chk.count("synthetic." + kind)
        xn = "PANIC" if x.startswith("PANIC") else x
        yn = "PANIC" if y.startswith("PANIC") else y
        if xn == "PANIC":
            chk.violation({"class": "render-panic", "what": "%s file=%r [%d,%d)" % (kind, f, s, e)},
                          {"cmd": "span", "line": ln, "implementation": x, "model": y, "broken": "rendering / slicing a span built from two in-file offsets panics"})
        elif xn != yn:
            chk.violation({"class": "render-model", "what": "%s file=%r [%d,%d)" % (kind, f, s, e)},
                          {"cmd": "span", "line": ln, "implementation": x, "model": y, "broken": "correspondence: error.rs Display / Span::to_slice vs Text/Span.v (theorems C20_render_quotes, C14b_to_slice_correct)"})
        if kind == "slice" and e < len(f.encode("utf-8")) and xn != "PANIC":
            want = "(some %s)" % quote(f.encode("utf-8")[s:e].decode("utf-8"))
            if x != want:
                chk.violation({"class": "slice-direct", "what": "file=%r [%d,%d) -> %s" % (f, s, e, x[:80])},
                              {"cmd": "span", "line": ln, "implementation": x, "expected": want, "broken": "Span::to_slice does not return file[s..e)"})

    # ---- gate D: real error messages of rejected programs quote the file
    progs = corelib.gen_programs(chk, 60 if quick else 800, "gerr", size=25)
    texts = []
    for g in progs:
        r = chk.sub_rng("lay/" + g.label)
        for v in range(3):
            broken = layout.break_program(r, g.text)
            t = layout.relayout(r, broken, crlf=(v == 1), comments=True)
            texts.append(t)
            # the same file starting with blank lines / blank-looking lines (line numbers and quoted lines must still be the file's)
            lead = r.choice(["\n", "\n\n\n", "\r\n\r\n", " \n\t\n", "\n  \n// c\n"])
            texts.append(lead + t)
    texts += ["\n\nfn main() { let x: u8 = y; }", "\n\n\nfn main() {", "\r\n\r\nfn main() { let x: List<u8, 3> = list![]; }\r\n", "\n\nfn main() {\n    let x: u8 = 1\n}\n\n\n",
              "\n\n\nfn main() { match true { true => (), true => (), }; }\n", "", " ", "\n", "fn main() { let x: u8 = y; }", "fn main() {\n    let x: u8 = y;\n}\n", "fn main() {\r\n\tlet x: u8 = \r\n\t\ty;\r\n}\r\n",
              "// é\nfn main() { let x: u8 = \U0001F388; }", "fn f() {}", "fn main() { }\nfn main() { }\n", "fn main() { let x: (u8, u8) = (1,\n 2,\n 3); }", "fn main() {"]
    el = ["(errmsg %s)" % quote(t) for t in texts]
    res = impl("span", el)
    for t, ln, x in zip(texts, el, res):
        if x == "ok":
            chk.count("real.accepted")
            continue
        chk.case(ln, sample={"file": t[:200], "message": x[:300]})
        if x.startswith("PANIC") or x.startswith("CRASH"):
            chk.violation({"class": "error-panic", "what": "%s || %r" % (x[:100], t[:200])}, {"cmd": "span", "line": ln, "implementation": x, "broken": "compilation of a text panics instead of returning an error"})
            continue
        msg = parse_sx(x)[1]
        chk.count("real.rejected")
        if t == "":
            continue
        flines = layout.rust_lines(t)
        mlines = msg.split("\n")
        quoted = []
        for ml in mlines:
            m = re.match(r"^ *(\d+) \| (.*)$", ml, re.S)
            if m:
                quoted.append((int(m.group(1)), m.group(2)))
            else:
                m2 = re.match(r"^ *(\d+) \|$", ml)
                if m2:
                    quoted.append((int(m2.group(1)), ""))
        bad = None
        for i, (n, txt) in enumerate(quoted):
            if i > 0 and n != quoted[i - 1][0] + 1:
                bad = "line numbers not consecutive: %s" % [q[0] for q in quoted]
            if n < 1 or n > len(flines):
                bad = "line %d does not exist (file has %d lines)" % (n, len(flines))
            elif flines[n - 1] != txt:
                bad = "line %d quoted as %r but is %r" % (n, txt, flines[n - 1])
        last = mlines[-1]
        m3 = re.match(r"^ *\|( *)(\^*) (.*)$", last, re.S)
        if mlines[0].strip() != "|":
            bad = bad or "message does not start with the gutter line"
        if not m3 or not m3.group(3).strip():
            bad = bad or "message does not end with underline + description: %r" % last[:80]
        chk.count("real.quoted_lines", len(quoted))
        if bad:
            chk.violation({"class": "error-quote", "what": "%s || %r" % (bad, t[:160])},
                          {"cmd": "span", "line": ln, "implementation": x, "file": t, "expected": bad, "broken": "a rendered compile error does not quote the source lines it points at"})
    chk.extra["rule"] = ("synthetic: every pair of char-boundary offsets s<=e of small files (CRLF, lone CR, tabs, multi-byte, empty lines, 11 lines) -> model span -> implementation Display / to_slice vs model; "
                         "real: generated programs broken by one edit and re-laid-out (CRLF, tabs, comments with non-ASCII, trailing newline or not): every `N | text` line of the message must quote line N verbatim, "
                         "numbers consecutive and existing, message ends with underline + description")
