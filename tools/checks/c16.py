"""C16 — printing a parsed program and re-parsing it changes nothing."""
import glob

from framework import *  # noqa
import corelib
import layout
import syngen


def norm_spans(t):
    return re.sub(r"\(call \d+ ", "(call 0 ", t)


HAND = [
    "fn main() { { let a: u8 = 1; }; { }; let b: u8 = 2; { assert!(jet::eq_8(b, 2)); }; }",
    "fn main() { { { }; }; }",
    "fn main() { let x: u8 = { { 3 } }; { let y: u8 = x; } }",
    "fn main() { match true { true => { }, false => { } }; }",
    "fn main() { match Left(1) { Right(b: u8) => { assert!(false); } Left(a: u8) => assert!(jet::eq_8(a, 1)), }; }",
    "fn main() { match None { Some(v: u8) => panic!(), None => (), }; }",
    "fn main() { match { true } { false => (), true => (), }; }",
    "fn f(a: u8,) -> () { }\nfn main() { f(1); }" if False else "fn f(a: u8) -> () { }\nfn main() { f(1); }",
    "fn main() { let (a,): (u8,) = (1,); let (): () = (); let ((b, c), _): ((u8, u8), bool) = ((1, 2,), true,); let [d, e,]: [u8; 2] = [1, 2,]; }",
    "fn main() { let l: List<u8, 4> = list![1, 2, 3,]; let e: List<u8, 2> = list![]; let z: [u8; 0] = []; }",
    "fn main() { let x: u32 = 1_000_000; let y: u8 = 0b_0000_0001; let z: u16 = 0x_ab_CD; let w: u8 = __7__; }",
    "fn main() { let x: u8 = ((((1)))); let y: (u8,) = ((2),); }",
    "type Pair = (u8, u8);\ntype Deep = Either<Option<[Pair; 3]>, List<(), 2>>;\nfn main() { let p: Pair = (1, 2); }",
    "mod witness { const A: u8 = 1; const B: (u8, bool) = (1, true); }\nfn main() { assert!(jet::eq_8(witness::A, 1)); }\nmod param { }",
    "fn id(x: Either<u8, ()>) -> Either<u8, ()> { x }\nfn main() { let r: Either<u8, ()> = id(Left(unwrap(Some(<u8>::into(1))))); let b: bool = is_none::<u8>(None); dbg!(r); }",
    "fn step(acc: u8, ctx: (), i: u8) -> Either<(), u8> { Right(acc) }\nfn add(e: u8, a: u8) -> u8 { a }\nfn main() { let o: Either<(), u8> = for_while::<step>(0, ()); let s: u8 = fold::<add, 4>(list![1], 0); }",
    "fn main() { let a: u8 = unwrap_left::<()>(Left(1)); let b: () = unwrap_right::<u8>(Right(())); }",
    "fn main() {\n    let x: Pubkey = 0x0000000000000000000000000000000000000000000000000000000000000001;\n    let h: Height = 1; let t: Time = 2; let c: Ctx8 = jet::sha_256_ctx_8_init();\n}",
]


# texts that may or may not parse (if they do, they must round-trip): names that collide with constructor-like words
CORNER = [
    "fn Left(x: u8) -> u8 { x }\nfn main() { let y: u8 = Left (1); }",
    "fn Right(x: u8) -> u8 { x }\nfn main() { let y: u8 = Right (1); }",
    "fn Some(x: u8) -> u8 { x }\nfn main() { let y: u8 = Some (1); }",
    "fn Some(x: u8) -> u8 { x }\nfn main() { let y: u8 = Some\n(1); }",
    "fn None() -> u8 { 1 }\nfn main() { let y: u8 = None (); }",
    "fn list(x: u8) -> u8 { x }\nfn main() { let y: u8 = list (1); let z: List<u8, 2> = list![1]; }",
    "fn main() { let Left: u8 = 1; let Some: u8 = 2; let t: (u8, u8) = (Left, Some); }",
    "fn witness(x: u8) -> u8 { x }\nfn main() { let witness: u8 = witness (1); let param: u8 = 2; }",
    "fn jet(x: u8) -> u8 { x }\nfn main() { let y: u8 = jet (1); }",
    "fn Either(x: u8) -> u8 { x }\nfn main() { let y: u8 = Either (1); }",
    "fn true_(x: u8) -> u8 { x }\nfn main() { let y: u8 = true_ (1); }",
    "type Lefty = u8;\nfn main() { let y: Lefty = 1; match Left (y) { Left(a: u8) => (), Right(b: u8) => (), }; }",
]


def run(chk, replay=None):
    build_harness()
    corelib.tables()
    build_driver()
    chk.run_proof_gate()
    if replay is not None:
        for cmd in ("rt", "pprint"):
            print(cmd, "now:", impl("ptree", ["(%s %s)" % (cmd, quote(replay["text"]))])[0][:2000])
        print("recorded:", replay.get("implementation"))
        return 0
    rng = chk.rng
    quick = chk.tier == "quick"
    texts = []   # (kind, text, args sexp or None)
    for f in sorted(glob.glob("/repo/examples/*.simf")):
        texts.append(("example", open(f).read(), None))
    for t in HAND:
        texts.append(("hand", t, None))
    for t in CORNER:
        texts.append(("corner", t, None))
    # the generated (well-typed) family, plain and re-laid-out
    for g in corelib.gen_programs(chk, 60 if quick else 1500, "gprint", size=30 if quick else 50):
        args = corelib.bindings_sx([(n, v) for (n, _, v) in g.params])
        texts.append(("generated", g.text, args))
        r = chk.sub_rng("lay/" + g.label)
        texts.append(("generated-layout", layout.relayout(r, g.text, crlf=r.random() < 0.3, comments=True), args))
    for g in corelib.partial_witness_programs(chk, 30 if quick else 500, "pwprint"):
        texts.append(("generated", g.text, "()"))
    # random syntax over the whole grammar (not necessarily well-typed)
    for i in range(400 if quick else 12000):
        r = chk.sub_rng("syn/%d" % i)
        sg = syngen.SynGen(r, layout=r.random() < 0.7, max_depth=r.choice([2, 3, 4, 5]))
        texts.append(("syntactic", sg.program(), None))
    # token-mutated examples that still parse
    ex = [t for k, t, _ in texts if k == "example"]
    for i in range(150 if quick else 4000):
        r = chk.sub_rng("mut/%d" % i)
        texts.append(("mutated-example", layout.break_program(r, r.choice(ex)), None))

    lines = ["(rt %s)" % quote(t) for _, t, _ in texts]
    rts = impl("ptree", lines)
    trees = impl("ptree", ["(ptree %s)" % quote(t) for _, t, _ in texts])
    parsed = []
    for (kind, text, args), ln, x, tr in zip(texts, lines, rts, trees):
        if x.startswith("PANIC") or x.startswith("CRASH"):
            chk.case(ln, sample={"kind": kind, "outcome": x[:80]})
            chk.violation({"class": "print-panic", "what": "%s || %s" % (x[:120], text[:200])},
                          {"cmd": "ptree", "line": ln, "text": text, "implementation": x, "broken": "parsing or printing panics"})
            continue
        if x.startswith("(err"):
            chk.count("%s.unparseable" % kind)
            if kind in ("example", "hand", "generated", "generated-layout", "syntactic"):
                # these families are built to parse; a rejection is a defect of the generator or of the grammar
                chk.violation({"class": "generator", "what": "%s does not parse: %s || %s" % (kind, x[:120], text[:300])},
                              {"cmd": "ptree", "line": ln, "text": text, "implementation": x, "broken": "a text built from the grammar does not parse (generator vs grammar)"})
            continue
        chk.case(ln, sample={"kind": kind, "text": text[:160], "outcome": x[:30]})
        chk.count("%s.%s" % (kind, x.split(" ")[1]))
        if not x.startswith("(ok eq "):
            chk.violation({"class": "print-parse", "what": "%s || %s" % (x[:60], text[:300])},
                          {"cmd": "ptree", "line": ln, "text": text, "implementation": x[:3000],
                           "broken": "parse(print(parse text)) is not equal to parse text (or the printed text does not parse)"})
            continue
        printed = parse_sx(x)[2]
        parsed.append((kind, text, args, printed, tr, ln))

    # the printed text: same tree in the wire dump too (names, literals, types field by field), model printer byte-equal, tree well-formed
    t2 = impl("ptree", ["(ptree %s)" % quote(p[3]) for p in parsed])
    mp = model("front", ["(mprint %s)" % sx(parse_sx(p[4])[1]) for p in parsed])
    mw = model("front", ["(mwf %s)" % sx(parse_sx(p[4])[1]) for p in parsed])
    # the character-level reader of the model (lexer of Text/ProgLex.v + token parser) against pest + parse.rs, on the text and on its print
    ml = model("front", ["(mparse %s %s)" % (quote(p[1]), sx(parse_sx(p[4])[1])) for p in parsed])
    mlp = model("front", ["(mparse %s %s)" % (quote(p[3]), sx(parse_sx(p[4])[1])) for p in parsed])
    for (kind, text, args, printed, tr, ln), a, b in zip(parsed, ml, mlp):
        for which, r, t in (("text", a, text), ("printed", b, printed)):
            chk.count("lex.%s.%s" % (which, r.replace("(", "").replace(")", "").replace(" ", "_")[:40]))
            if r.startswith("(parse same)"):
                continue
            if "names_ok false" in r:
                continue   # a name that the context-free lexer model reserves (outside C16_print_parse_text's hypothesis)
            chk.violation({"class": "lex-model", "what": "%s of %s: %s || %s" % (which, kind, r, t[:200])},
                          {"cmd": "ptree", "line": "(ptree %s)" % quote(t), "text": t, "model": r, "implementation": sx(parse_sx(tr)[1])[:3000],
                           "broken": "correspondence: pest + parse.rs vs the lexer and token parser of Text/ProgLex.v / ProgPrint.v on the same text"})
    for (kind, text, args, printed, tr, ln), tr2, m, w in zip(parsed, t2, mp, mw):
        base = {"cmd": "ptree", "line": ln, "text": text, "printed": printed}
        a = norm_spans(sx(parse_sx(tr)[1]))
        b = norm_spans(sx(parse_sx(tr2)[1])) if tr2.startswith("(ok") else tr2
        if a != b:
            chk.violation({"class": "print-parse", "what": "field-level tree dump differs || %s" % text[:300]},
                          dict(base, implementation=b[:3000], expected=a[:3000], broken="the tree of the printed text differs from the tree of the text in the field-by-field dump (PartialEq may be too coarse)"))
        mtext = parse_sx(m) if m.startswith('"') else m
        if mtext != printed:
            chk.violation({"class": "print-model", "what": "%s || %s" % (str(mtext)[:100], printed[:100])},
                          dict(base, model=str(mtext)[:3000], implementation=printed[:3000], broken="correspondence: Display of parse::Program vs Text/ProgPrint.v print_program_machine"))
        if w != "(wf true) (roundtrip true)":
            chk.violation({"class": "ptree-model", "what": "%s || %s" % (w, text[:300])},
                          dict(base, model=w, broken="a tree produced by the parser does not satisfy prog_wf (hypothesis of C16_print_parse_roundtrip), or the evaluated round trip of the model fails"))

    # acceptance and the compiled program of printed vs original
    cand = [p for p in parsed if p[0] != "syntactic" or True]
    ca = impl("core", ["(commit %s %s 0)" % (quote(p[1]), p[2] or "()") for p in cand])
    cb = impl("core", ["(commit %s %s 0)" % (quote(p[3]), p[2] or "()") for p in cand])
    for (kind, text, args, printed, tr, ln), x, y in zip(cand, ca, cb):
        cx, cy = x.split(" ")[0], y.split(" ")[0]
        chk.count("compile.%s" % cx.strip("()"))
        same = (x == y) if cx == "(ok" else (cx == cy)
        if not same:
            chk.violation({"class": "printed-program-differs", "what": "%s vs %s || %s" % (x[:80], y[:80], text[:200])},
                          {"cmd": "core", "line": "(commit %s %s 0)" % (quote(printed), args or "()"), "text": text, "printed": printed, "original": x, "implementation": y,
                           "broken": "the printed program is not accepted / rejected like the original, or compiles to a different program (CMR)"})
    chk.extra["rule"] = ("texts: shipped examples, hand-written corner syntax (block statements, swapped arms, 0/1-tuples, trailing commas, separators in literals, modules, aliases), "
                         "the generated well-typed family plain and re-laid-out (comments, CRLF), random syntactic programs over every rule of minimal.pest, token-mutated examples that still parse; "
                         "for each: parse -> print -> parse equal (Rust PartialEq and field-level dump), Display = model printer byte for byte, tree satisfies prog_wf, "
                         "printed text accepted/rejected like the original and compiled to the same CMR")
