"""C04 — the front end accepts exactly the well-typed programs."""
from framework import *  # noqa
import corelib
import gen
import layout
import progen
from checks.c08 import Prog


def targeted_mutants(rng, g):
    """single-edit near misses, one family per static rule"""
    t = g.text
    out = []

    def sub(kind, pattern, repl, count=1):
        ms = list(re.finditer(pattern, t))
        if ms:
            m = rng.choice(ms)
            r = repl(m) if callable(repl) else repl
            out.append((kind, t[:m.start()] + r + t[m.end():]))
    sub("type", r"\bu8\b", "u16")
    sub("type", r"\bbool\b", "u1")
    sub("type", r"\bu1\b", "bool")
    sub("array-size", r"; (\d+)\]", lambda m: "; %d]" % (int(m.group(1)) + 1))
    sub("list-bound", r"List<([^<>]*), (\d+)>", lambda m: "List<%s, %d>" % (m.group(1), max(2, int(m.group(2)) // 2)))
    sub("list-bound-nonpow2", r", (\d+)>", lambda m: ", %d>" % (int(m.group(1)) + 1))
    sub("tuple-arity", r"\(([a-z0-9_]+), ([a-z0-9_]+)\)", lambda m: "(%s, %s, %s)" % (m.group(1), m.group(2), m.group(1)))
    sub("scope", r"(?<![A-Za-z0-9_:])(a|b|c|x|y|z|acc|val)(?![A-Za-z0-9_(])", "undefined_variable")
    sub("dup-pattern", r"let \(([a-z0-9_]+), ([a-z0-9_]+)\)", lambda m: "let (%s, %s)" % (m.group(1), m.group(1)))
    sub("witness-reuse", r"witness::W(\d+)", "witness::W0")
    sub("main-param", r"fn main\(\)", "fn main(q: u8)")
    sub("main-result", r"fn main\(\)( -> \(\))?", "fn main() -> u8")
    sub("no-main", r"fn main\(", "fn mainx(")
    sub("literal-range", r"(?<![A-Za-z0-9_])(\d+)(?![A-Za-z0-9_\]>])", lambda m: m.group(1) + "99999")
    sub("literal-digits", r"0x([0-9a-f]+)", lambda m: "0x" + m.group(1) + "0")
    sub("literal-digits", r"0b([01]+)", lambda m: "0b" + m.group(1)[1:])
    sub("cast", r"<([^<>;]*)>::into", lambda m: "<(%s, u8)>::into" % m.group(1))
    sub("fold-bound", r"fold::<(\w+), (\d+)>", lambda m: "fold::<%s, %d>" % (m.group(1), int(m.group(2)) * 2))
    sub("unwrap-type", r"unwrap_left::<([^<>]*)>", "unwrap_left::<[u8; 3]>")
    sub("arg-count", r"(\w+)\(\)", lambda m: m.group(1) + "(1)")
    sub("jet-reserved", r"jet::\w+", "jet::verify")
    sub("jet-unknown", r"jet::\w+", "jet::no_such_jet")
    if g.fns:
        f = rng.choice(g.fns)
        out.append(("dup-function", f.text + "\n" + t))
        out.append(("use-before-def", t.replace(f.text + "\n", "", 1) + "\n" + f.text) if (f.text + "\n") in t else ("noop", t))
        out.append(("witness-outside-main", t.replace(f.text, f.text[:-1] + " ; let wq: u8 = witness::WQ; }", 1) if f.ret == gen.UNIT else t))
    out.append(("two-mains", t + "\nfn main() { }"))
    return [(k, x) for k, x in out if x != t]


def run(chk, replay=None):
    build_harness()
    corelib.tables()
    build_driver()
    chk.run_proof_gate()
    if replay is not None:
        x = impl("core", ["(ast %s)" % quote(replay["program"])])[0]
        print("implementation now:", x[:300], "\nrecorded:", replay.get("implementation", "")[:300], "\nmodel:", replay.get("model", "")[:300])
        return 0
    rng = chk.rng
    quick = chk.tier == "quick"
    progs = corelib.gen_programs(chk, 120 if quick else 2000, "gwt", size=30)
    texts = []   # (label, kind, text, must_accept)
    for g in progs:
        texts.append((g.label, "well-typed", g.text, True))
        r = chk.sub_rng("miss/" + g.label)
        for kind, m in targeted_mutants(r, g):
            texts.append((g.label, "miss:" + kind, m, None))
        for i in range(3 if quick else 8):
            texts.append((g.label, "miss:token", layout.break_program(r, g.text), None))
    d = os.path.join(VERIF, "corpus", "C03")
    for f in sorted(os.listdir(d)):
        for i, line in enumerate(open(os.path.join(d, f))):
            if line.strip():
                texts.append(("corpus/%d" % i, "corpus", line.strip(), None))
    for g in corelib.literal_programs(chk):
        texts.append((g.label, "literal", g.text, True))
    # builtin aliases as the book documents them: a constant of the documented type is accepted at the alias, and the alias and
    # its documented type are interchangeable
    doc = os.path.join(REPO, "book", "src", "type_alias.md")
    if os.path.exists(doc):
        rows = [(n, d) for n, d in re.findall(r"^\|\s*`([A-Za-z0-9]+)`\s*\|\s*`([^`]+)`\s*\|", open(doc).read(), re.M) if n != "ExplicitAmount"]
        for (n, d), r in zip(rows, impl("value", ["(tparse %s)" % quote(d) for _, d in rows])):
            if not r.startswith("(ok"):
                continue
            t = progen.sx_to_ty(parse_sx(r)[1])
            if t[0] == "T" and t[1] and t[1][0][0] == "L":
                v = gen.val_src(("t", (("li", t[1][0][1], t[1][0][2], ()),) + tuple(gen.gen_val(rng, x) for x in t[1][1:])))
            else:
                v = gen.val_src(gen.gen_val(rng, t))
            texts.append(("alias/%s" % n, "builtin-alias", "fn main() { let x: %s = %s; let y: %s = x; let z: %s = y; }" % (n, v, d, n), True))
            texts.append(("alias-fn/%s" % n, "builtin-alias", "fn id(a: %s) -> %s { a }\nfn main() { let x: %s = id(%s); }" % (n, d, n, v), True))
    for i, (tag, text) in enumerate(corelib.scope_type_family()):
        texts.append(("scope-type/%d" % i, "scope-type:" + tag, text, True if tag == "W" else None))
    ex = os.path.join(REPO, "examples")
    for f in sorted(os.listdir(ex)):
        if f.endswith(".simf"):
            texts.append(("example/" + f, "example", open(os.path.join(ex, f)).read(), True))
    pt = impl("ptree", ["(ptree %s)" % quote(t) for (_, _, t, _) in texts])
    ia = impl("core", ["(ast %s)" % quote(t) for (_, _, t, _) in texts])
    mlines, idx = [], []
    for i, p in enumerate(pt):
        if p.startswith("(ok "):
            e = parse_sx(p)
            mlines.append("(manalyze %s)" % sx(e[1]))
            idx.append(i)
    mres = model("front", mlines)
    mmap = dict(zip(idx, mres))
    for i, ((label, kind, text, must), p, x) in enumerate(zip(texts, pt, ia)):
        ln = "(ast %s)" % quote(text)
        impl_ok = x.startswith("(ok ")
        chk.case(ln, sample={"kind": kind, "program": text[:240], "accepted": impl_ok})
        base = {"cmd": "core", "line": ln, "program": text, "implementation": x[:2000], "kind": kind}
        if x.startswith("PANIC") or x.startswith("CRASH") or p.startswith("PANIC"):
            chk.violation({"class": "front-panic", "what": "%s || %s" % (x[:100], text[:200])}, dict(base, broken="the front end panics"))
            continue
        if not p.startswith("(ok "):
            chk.count("%s.parse-error" % kind.split(":")[0])
            if impl_ok:
                chk.violation({"class": "inconsistent", "what": text[:200]}, dict(base, broken="TemplateProgram accepts a text the parser rejects"))
            if must:
                chk.violation({"class": "well-typed-rejected", "what": "%s || %s" % (p[:120], text[:200])}, dict(base, implementation=p, broken="a program generated from the typing rules of the book does not parse"))
            continue
        m = mmap[i]
        model_ok = m.startswith("(ok ")
        chk.count("%s.%s" % (kind, "accept" if impl_ok else "reject"))
        if m == "panic":
            chk.violation({"class": "model-panic", "what": text[:200]}, dict(base, model=m, broken="the model of ast.rs reaches a panic site on a parsed program (contradicts C04_analyze_no_panic) — would the Rust panic too?"))
            continue
        if kind in ("miss:dup-pattern", "miss:scope", "miss:list-bound-nonpow2") and impl_ok and not model_ok:
            chk.violation({"class": "ill-typed-accepted", "what": "%s: %s" % (kind, text[:300])},
                          dict(base, model=m[:500], broken="a single edit that violates a static rule by construction (a name bound twice in one pattern / an undefined variable / a list bound that is not a power of two) is accepted"))
            continue
        if kind == "scope-type:I" and impl_ok:
            chk.violation({"class": "ill-typed-accepted", "what": text[:300]}, dict(base, broken="a program that uses a re-bound name at the type of the binding it shadows (or a name that is out of scope) is accepted"))
            continue
        if must and not impl_ok:
            chk.violation({"class": "well-typed-rejected", "what": "%s || %s" % (x[:120], text[:200])}, dict(base, broken="a well-typed program (generated from the book's rules / shipped example) is rejected"))
            continue
        if impl_ok != model_ok:
            if impl_ok:
                # accepted although the (sound) model of the analysis rejects it: look for the concrete failure downstream
                c = impl("core", ["(commit %s () 0)" % quote(text)], shards=1)[0]
                if c.startswith("(cerr") and "param" not in c.lower() or c.startswith("PANIC") or c.startswith("CRASH"):
                    chk.violation({"class": "accepted-but-not-compiled", "what": "%s || %s" % (c[:120], text[:200])},
                                  dict(base, model=m[:2000], downstream=c, broken="the front end accepts a program that is not well typed: code generation fails on it (the model of ast.rs rejects it)"))
                    continue
            chk.violation({"class": "acceptance", "what": "impl %s, model %s || %s" % ("accepts" if impl_ok else "rejects: " + x[:80], "accepts" if model_ok else "rejects", text[:200])},
                          dict(base, model=m[:2000], broken="ast.rs and its model Front/Analyze.v disagree on acceptance: either the model is stale or the front end now accepts/rejects differently (C04_analyze_sound is about the model)"))
            continue
        if impl_ok:
            # same typed AST, parameters and witness types
            mm = m[:m.rindex(" (tracked")] + ")"
            if mm != x:
                chk.violation({"class": "typed-ast", "what": text[:200]}, dict(base, model=m[:3000], broken="ast.rs and its model produce different typed ASTs / parameter / witness tables"))
    chk.extra["rule"] = ("the generated well-typed family and the shipped examples (must be accepted); single-edit near misses: one targeted family per static rule (type, array size, list bound, tuple arity, scope, "
                         "duplicate pattern variable, witness reuse / outside main, main shape, literal range / digit count, cast endpoints, fold bound, unwrap type, argument count, reserved/unknown jet, duplicate "
                         "function, use before definition, two mains) plus random token edits, and an edge corpus — every one classified by the model of ast.rs (whose acceptance implies well-typedness by C04_analyze_sound): "
                         "acceptance and the produced typed AST / parameter / witness tables must coincide")
