"""C17 — names are opaque: renaming and layout never change meaning."""
from framework import *  # noqa
import corelib
import gen
import layout
import progen


def reserved_words(rules):
    """every literal of the keyword-ish rules of the regenerated grammar"""
    import gentables
    out = set()
    for r in rules:
        name = r[1]
        if name in ("builtin_type", "builtin_function", "builtin_alias", "unsigned_type", "boolean_type", "module_name") or name.endswith("_keyword") \
                or name in ("none_expr", "true_expr", "false_expr", "none_pattern", "true_pattern", "false_pattern", "unwrap"):
            out |= set(gentables.literals_of(r[3]))
    out |= {"Left", "Right", "Some", "None", "jet", "witness", "param", "list", "main", "is_none", "unwrap_left", "unwrap_right", "for_while"}
    return sorted(w for w in out if re.match(r"^[A-Za-z][A-Za-z0-9_]*$", w))


def candidates(rng, words, n):
    """identifiers that are NOT exactly reserved: reserved + suffix, case variants, random"""
    out = []
    for w in words:
        out += [w + "x", w + "1", w + "_", w + "_x", w + "9_", w.upper() if w.upper() != w else w + "Z", w.capitalize() + "q"]
    out += ["".join(rng.choice("abcXYZ_019") for _ in range(rng.randrange(1, 9))) for _ in range(30)]
    res = []
    wl = set(words)
    for c in out:
        if re.match(r"^[A-Za-z][A-Za-z0-9_]*$", c) and c not in wl and c not in res:
            res.append(c)
    rng.shuffle(res)
    return res[:n] if n else res


def rename(text, mapping):
    for old, new in mapping.items():
        text = re.sub(r"(?<![A-Za-z0-9_])%s(?![A-Za-z0-9_])" % re.escape(old), "\x00" + new + "\x00", text)
    return text.replace("\x00", "")


def run(chk, replay=None):
    build_harness()
    t = corelib.tables()
    build_driver()
    ok = chk.run_proof_gate()
    if replay is not None:
        x = impl(replay.get("cmd", "core"), [replay["line"]])[0]
        print("implementation now:", x, "\nrecorded:", replay.get("implementation"), "\nexpected/model:", replay.get("expected") or replay.get("model"))
        return 0
    rng = chk.rng
    quick = chk.tier == "quick"
    words = reserved_words(t["rules"])
    chk.extra["reserved_words"] = len(words)
    cands = candidates(rng, words, 0)

    # ---- T: the PEG model on the regenerated grammar vs the real pest parser, per naming role and on whole programs
    roles = [("function_name", "%s"), ("alias_name", "%s"), ("identifier", "%s"), ("witness_name", "%s"), ("single_expression", "%s"), ("pattern", "%s"),
             ("ty", "%s"), ("call_expr", "%s(a, 1)"), ("assignment", "let %s: u8 = 1"), ("single_expression", "witness::%s"), ("single_expression", "param::%s"),
             ("type_alias", "type %s = u8;"), ("function", "fn %s(%s: u8) -> u8 { %s }")]
    peg_lines = []
    for role, tmpl in roles:
        pool = cands + words if quick is False else rng.sample(cands, min(len(cands), 120)) + words
        for c in pool:
            peg_lines.append("(peg %s %s)" % (role, quote(tmpl.replace("%s", c))))
    progs = corelib.gen_programs(chk, 60 if quick else 600, "gname", size=30)
    for g in progs:
        peg_lines.append("(peg program %s)" % quote(g.text))
        peg_lines.append("(peg program %s)" % quote(layout.relayout(chk.sub_rng("l/" + g.label), g.text)))
    a = impl("peg", peg_lines)
    b = model("peg", peg_lines)
    for ln, x, y in zip(peg_lines, a, b):
        chk.case(ln, sample={"case": ln[:120], "real_parser": x[:80]})
        chk.count("peg.%s" % ("ok" if x.startswith("(ok") else x[:8]))
        if x != y:
            chk.violation({"class": "peg-model", "what": "%s real=%s model=%s" % (ln[:120], x[:80], y[:80])},
                          {"cmd": "peg", "line": ln, "implementation": x[:3000], "model": y[:3000],
                           "broken": "correspondence: pest on src/minimal.pest vs Text/Peg.v on the regenerated Gen/Grammar.v (translator + PEG semantics)"})
    if not ok:
        chk.violation({"class": "grammar-shape", "what": chk.proof.get("where", "") + " " + chk.proof.get("failure", "")[-200:]},
                      {"broken": "Properties/C17.v no longer checks against the regenerated grammar (keyword boundaries / literal order / name rules)", "detail": chk.proof.get("failure", "")[-2500:]}, no_input=True)

    # programs in which a name is re-bound at another type in a nested scope: acceptance must not depend on the bound names
    from checks.c08 import Prog as _Prog
    for i, (tag, text) in enumerate(corelib.scope_type_family()):
        if tag == "W":
            q = _Prog(text, [], "scope-type/%d" % i)
            q.fns, q.aliases = [], []
            progs.append(q)
    # ---- D: consistent renaming, alias inlining and re-layout keep acceptance and the compiled program (CMR + encoding)
    base = impl("core", ["(commit %s %s 0)" % (quote(g.text), corelib.bindings_sx([(n, v) for (n, _, v) in g.params])) for g in progs])
    jobs = []
    for g, bx in zip(progs, base):
        if not bx.startswith("(ok"):
            # the family is well typed by construction (typing rules of the book): its members must be accepted as written
            chk.violation({"class": "well-typed-rejected", "what": "%s || %s" % (bx[:120], g.text[:300])},
                          {"cmd": "core", "line": "(commit %s %s 0)" % (quote(g.text), corelib.bindings_sx([(n, v) for (n, _, v) in g.params])), "program": g.text, "implementation": bx[:600],
                           "broken": "a well-typed generated program is rejected as written (identifier choice / layout / parenthesisation must not matter)"})
            continue
        r = chk.sub_rng("ren/" + g.label)
        args = [(n, v) for (n, _, v) in g.params]
        # one role at a time, and all roles together
        vars_ = sorted(set(re.findall(r"(?<![A-Za-z0-9_:])(?:a|b|c|x|y|z|acc|val|t0|in1|el|ctx|i|p0|p1|p2)(?![A-Za-z0-9_(])", g.text)))
        fns = sorted(set(f.name for f in g.fns))
        als = sorted(set(n for n, _ in g.aliases))
        wits = sorted(set(n for n, _ in g.witnesses))
        pars = sorted(set(n for n, _, _ in g.params))
        for role, names in (("variable", vars_), ("function", fns), ("alias", als), ("witness", wits), ("parameter", pars), ("all", vars_ + fns + als + wits + pars)):
            if not names:
                continue
            picks = r.sample(cands, len(names))
            m = dict(zip(names, picks))
            text = rename(g.text, m)
            nargs = [(m.get(n, n), v) for n, v in args]
            jobs.append((g, role, text, nargs, bx, str(m)[:200]))
        jobs.append((g, "layout", layout.relayout(r, g.text, crlf=r.random() < 0.3), args, bx, ""))
        jobs.append((g, "layout", layout.relayout(r, g.text, crlf=False, comments=True, comment_rate=0.6), args, bx, "comments (multi-byte characters) in front of most tokens"))
        if "/*" not in g.text and "//" not in g.text:
            jobs.append((g, "layout", layout.respace(r, g.text), args, bx, "blanks between any two terminals"))
            jobs.append((g, "layout", layout.respace(r, g.text, rate=1.0, comments=True), args, bx, "blanks and comments between any two terminals"))
        if "match(" in g.text or "match (" in g.text:
            jobs.append((g, "layout", g.text.replace("match(", "match\t(").replace("match (", "match("), args, bx, "blank between match and a parenthesised scrutinee"))
        if g.aliases:
            text = g.text
            for n, ty in g.aliases:
                text = re.sub(r"(?<![A-Za-z0-9_])%s(?![A-Za-z0-9_])(?! =)" % n, gen.ty_src(ty), text)
            jobs.append((g, "alias-inlined", text, args, bx, ""))
    res = impl("core", ["(commit %s %s 0)" % (quote(t), corelib.bindings_sx(na)) for (_, _, t, na, _, _) in jobs])
    for (g, role, text, nargs, bx, info), x in zip(jobs, res):
        ln = "(commit %s %s 0)" % (quote(text), corelib.bindings_sx(nargs))
        chk.case(ln, sample={"role": role, "renaming": info, "outcome": x[:40]})
        chk.count("variant.%s.%s" % (role, "same" if x == bx else ("rejected" if not x.startswith("(ok") else "different")))
        if x != bx:
            chk.violation({"class": "not-opaque", "what": "%s %s: %s || %s" % (role, info, x[:120], text[:200])},
                          {"cmd": "core", "line": ln, "original": g.text, "variant": text, "role": role, "renaming": info, "implementation": x[:600], "expected": bx[:200],
                           "broken": "a consistently renamed / alias-inlined / re-laid-out program is rejected or compiles to a different program"})
    # ---- an alias is only a name for the type it was given LAST (a second `type N = ..;` re-binds N from there on; aliases built
    #      from N earlier keep what N meant then): the program equals the one with every use replaced by the definition in effect
    redef = [
        ("type Word = u8;\nfn low(x: Word) -> Word { x }\ntype Word = u16;\nfn high(x: Word) -> Word { x }\nfn main() { let a: u8 = low(1); let b: Word = high(0x1234); assert!(jet::eq_16(b, 4660)); }",
         "fn low(x: u8) -> u8 { x }\nfn high(x: u16) -> u16 { x }\nfn main() { let a: u8 = low(1); let b: u16 = high(0x1234); assert!(jet::eq_16(b, 4660)); }"),
        ("type A = u8;\ntype B = (A, A);\ntype A = u16;\nfn main() { let x: B = (1, 2); let y: A = 300; let (p, q): B = x; assert!(jet::eq_8(p, 1)); assert!(jet::eq_16(y, 300)); }",
         "fn main() { let x: (u8, u8) = (1, 2); let y: u16 = 300; let (p, q): (u8, u8) = x; assert!(jet::eq_8(p, 1)); assert!(jet::eq_16(y, 300)); }"),
        ("type T = bool;\ntype T = Option<u8>;\ntype T = Either<u8, u16>;\nfn main() { let e: T = Right(7); match e { Left(a: u8) => (), Right(b: u16) => assert!(jet::eq_16(b, 7)), }; }",
         "fn main() { let e: Either<u8, u16> = Right(7); match e { Left(a: u8) => (), Right(b: u16) => assert!(jet::eq_16(b, 7)), }; }"),
        ("type N = u32;\ntype N = u32;\nfn main() { let x: N = 5; assert!(jet::eq_32(x, 5)); }", "fn main() { let x: u32 = 5; assert!(jet::eq_32(x, 5)); }"),
        ("type Pubkey2 = u8;\nfn f(k: Pubkey2) -> Pubkey2 { k }\ntype Pubkey2 = u256;\nfn main() { let k: Pubkey2 = 1; let s: u8 = f(3); assert!(jet::eq_8(s, 3)); }",
         "fn f(k: u8) -> u8 { k }\nfn main() { let k: u256 = 1; let s: u8 = f(3); assert!(jet::eq_8(s, 3)); }"),
    ]
    rl = []
    for a, b in redef:
        rl += ["(commit %s () 0)" % quote(a), "(commit %s () 0)" % quote(b)]
    rr = impl("core", rl, shards=1)
    for i, (a, b) in enumerate(redef):
        xa, xb = rr[2 * i], rr[2 * i + 1]
        chk.case(rl[2 * i], sample={"role": "alias-redefined", "outcome": xa[:40]})
        chk.count("variant.alias-redefined.%s" % ("same" if xa == xb and xa.startswith("(ok") else "different"))
        if xa != xb or not xa.startswith("(ok"):
            chk.violation({"class": "not-opaque", "what": "alias defined twice: %s, with the definitions in effect written out: %s || %s" % (xa[:100], xb[:60], a[:160])},
                          {"cmd": "core", "line": rl[2 * i], "original": a, "variant": b, "role": "alias-redefined", "implementation": xa[:600], "expected": xb[:200],
                           "broken": "a program whose alias is defined a second time differs from the program with each alias use replaced by the definition in effect at that point"})
    # ---- parentheses are layout in constant contexts too (witness / param modules, value texts)
    consts = [("u8", "5"), ("(u8, u8)", "(5, 7)"), ("Option<u8>", "Some(5)"), ("Either<u8, bool>", "Left(5)"), ("[u8; 2]", "[1, 2]"), ("List<u8, 4>", "list![1, 2, 3]"),
              ("bool", "true"), ("u16", "0x00ff"), ("Option<(u8, bool)>", "Some((1, false))")]
    plines = []
    for ty, v in consts:
        wrapped = [v, "(%s)" % v, "((%s))" % v, re.sub(r"\b(\d+|true|false)\b", r"(\1)", v), "( %s )" % re.sub(r"\b(\d+|true|false)\b", r"((\1))", v)]
        for w in wrapped:
            plines.append((ty, v, w, "(entry witmod %s)" % quote("mod witness { const A: %s = %s; }" % (ty, w))))
            plines.append((ty, v, w, "(entry argmod %s)" % quote("mod param { const A: %s = %s; }" % (ty, w))))
            plines.append((ty, v, w, "(entry witjson %s)" % quote('{"A":{"value":"%s","type":"%s"}}' % (w, ty))))
    for (ty, v, w, ln), x in zip(plines, impl("total", [l[3] for l in plines])):
        chk.case(ln, sample={"type": ty, "constant": w, "outcome": x})
        chk.count("const-paren.%s" % x.split(" ")[0][:5])
        if x != "ok":
            chk.violation({"class": "not-opaque", "what": "constant %s of type %s written as %s: %s" % (v, ty, w, x[:80])},
                          {"cmd": "total", "line": ln, "implementation": x, "expected": "ok", "broken": "redundant parentheses around (part of) a constant change its acceptance"})
    chk.extra["rule"] = ("identifiers: every reserved word of the regenerated grammar extended by a letter, digit, underscore, underscore+letter, plus case variants and random identifiers, "
                         "in each naming role (function, alias, identifier, witness, expression, pattern, type, call, let, witness::, param::, type alias, fn definition): PEG model vs real pest pair trees; "
                         "generated programs: consistent renaming per role and of all roles at once, alias inlining, re-layout (comments, CRLF): acceptance and (CMR, encoding) must equal the original's")
