"""C10 — a variable denotes its nearest, most recent binding."""
import itertools

from framework import *  # noqa
import corelib
from checks.c08 import Prog

NAMES = ["a", "b"]


def patterns():
    """pattern shapes with up to three leaves over {a, b, _}, names pairwise distinct; returns (text, type, [names per leaf])"""
    leaves = ["a", "b", "_"]
    out = []
    for l in leaves:
        out.append((l, "u16", [l]))
    for n in (2, 3):
        for combo in itertools.product(leaves, repeat=n):
            named = [x for x in combo if x != "_"]
            if len(named) != len(set(named)):
                continue
            out.append(("(%s)" % ", ".join(combo), "(%s)" % ", ".join(["u16"] * n), list(combo)))
            out.append(("[%s]" % ", ".join(combo), "[u16; %d]" % n, list(combo)))
    # nested shapes with three leaves
    for combo in itertools.product(leaves, repeat=3):
        named = [x for x in combo if x != "_"]
        if len(named) != len(set(named)):
            continue
        out.append(("(%s, (%s, %s))" % combo, "(u16, (u16, u16))", list(combo)))
        out.append(("((%s, %s), %s)" % combo, "((u16, u16), u16)", list(combo)))
        out.append(("(%s, [%s, %s])" % combo, "(u16, [u16; 2])", list(combo)))
    return out


class Ctr:
    def __init__(self):
        self.n = 10

    def next(self):
        self.n += 1
        return self.n


def value_for(pat_text, leaves, ctr):
    """an expression for the pattern's type with a fresh distinct constant per leaf"""
    txt = pat_text
    out = []
    i = 0
    res = ""
    for ch in txt:
        if ch in "ab_":
            res += str(ctr.next())
        else:
            res += ch
    return res


def binders(depth, ctr, pats):
    """enumerate binding structures: each is a function body -> text wrapping the observation"""
    if depth == 0:
        yield lambda obs: obs
        return
    for inner in binders(depth - 1, ctr, pats):
        for (ptxt, pty, leaves) in pats:
            v = value_for(ptxt, leaves, ctr)
            yield (lambda obs, ptxt=ptxt, pty=pty, v=v, inner=inner: "let %s: %s = %s; %s" % (ptxt, pty, v, inner(obs)))
        for name in NAMES:
            c1, c2 = ctr.next(), ctr.next()
            # inner block binding that must vanish afterwards
            yield (lambda obs, name=name, c1=c1, inner=inner: "let z: u16 = { let %s: u16 = %d; %s }; %s" % (name, c1, name, inner(obs)))
            # a block that mixes a let with expression statements (its bindings must vanish like those of any block)
            yield (lambda obs, name=name, c1=c1, inner=inner: "let z: u16 = { let %s: u16 = %d; assert!(jet::eq_16(%s, %d)); (); %s }; %s" % (name, c1, name, c1, name, inner(obs)))
            yield (lambda obs, name=name, c1=c1, inner=inner: "let t: (u16, u16) = ({ let q: u16 = %d; assert!(jet::eq_16(q, %d)); q }, %s); %s" % (c1, c1, name, inner(obs)))
            # match arm binding
            yield (lambda obs, name=name, c1=c1, c2=c2, inner=inner:
                   "let z: u16 = match Left(%d) { Left(%s: u16) => %s, Right(%s: u16) => %d, }; %s" % (c1, name, name, name, c2, inner(obs)))
            # the observation happens inside an arm that shadows
            yield (lambda obs, name=name, c1=c1, inner=inner:
                   "match Some(%d) { None => { }, Some(%s: u16) => { %s }, };" % (c1, name, inner(obs)))
            # rhs sees only earlier bindings: let a = a + 0 style (uses previous a, needs one)
        # function whose parameter names coincide with outer names: body sees only its parameters
        c1, c2 = ctr.next(), ctr.next()
        yield (lambda obs, c1=c1, c2=c2, inner=inner: "let z: u16 = first(%d, %d); %s" % (c1, c2, inner(obs)))
        yield (lambda obs, c1=c1, c2=c2, inner=inner: "let a: u16 = second(%d, %d); %s" % (c1, c2, inner(obs)))


def build(chk):
    quick = chk.tier == "quick"
    rng = chk.rng
    pats = patterns()
    ctr = Ctr()
    progs = []
    fns = "fn first(a: u16, b: u16) -> u16 { a }\nfn second(b: u16, a: u16) -> u16 { a }\nfn pair(x: u16, y: u16) -> u32 { <(u16, u16)>::into((x, y)) }\n"
    structures = []
    for d in (1, 2, 3):
        sub = pats if d == 1 else rng.sample(pats, 6 if quick else 14)
        ctr = Ctr()
        bs = list(binders(d, ctr, sub))
        if d == 3 and len(bs) > (250 if quick else 3000):
            bs = rng.sample(bs, 250 if quick else 3000)
        if d == 2 and len(bs) > (250 if quick else 1500):
            bs = rng.sample(bs, 250 if quick else 1500)
        structures += [(d, b) for b in bs]
    for idx, (d, b) in enumerate(structures):
        for name in NAMES:
            obs = "assert!(jet::eq_16(%s, witness::EXPECT));" % name
            text = fns + "fn main() { let a: u16 = 1; let b: u16 = 2; %s }" % b(obs)
            p = Prog(text, [("EXPECT", ("U", 4))], "bind/%d/%d/%s" % (d, idx, name))
            p.fixed = []
            chk.count("bind.depth%d" % d)
            progs.append(p)
        # both names fetched at once (one projection of the environment instead of two lookups): as a tuple and as call arguments
        if idx % 3 != 2:
            obs = ("assert!(jet::eq_32(<(u16, u16)>::into((a, b)), witness::EXPECT));" if idx % 3 == 0 else "assert!(jet::eq_32(pair(b, a), witness::EXPECT));")
            text = fns + "fn main() { let a: u16 = 1; let b: u16 = 2; %s }" % b(obs)
            p = Prog(text, [("EXPECT", ("U", 5))], "bind/%d/%d/pair" % (d, idx))
            p.fixed = []
            chk.count("bind.pair")
            progs.append(p)
    progs += corelib.long_scope_programs(chk)
    for i, (tag, text) in enumerate(corelib.scope_type_family()):
        if tag == "W":
            p = Prog(text, [], "scope-type/%d" % i)
            p.fixed = []
            chk.count("bind.scope-type")
            progs.append(p)
    return progs


def run(chk, replay=None):
    build_harness()
    corelib.tables()
    build_driver()
    chk.run_proof_gate()
    if replay is not None:
        import checks.c01 as c01
        return c01.do_replay(replay)
    progs = build(chk)
    rejected = []
    acc = corelib.check_terms(chk, progs, on_reject=lambda g, a: rejected.append((g, a)))
    for g, a in rejected:
        chk.violation({"class": "binding-program-rejected", "what": "%s || %s" % (a[:160], g.text[:300])},
                      {"program": g.text, "implementation": a, "broken": "a well-scoped program is rejected"})
    corelib.run_matrix(chk, acc, fixed_witnesses=True, dbgs=(0,))
    # uses of a name at the type of a binding that is not visible there, or of a name that is out of scope: must be rejected
    ill = [t for tag, t in corelib.scope_type_family() if tag == "I"]
    for t, x in zip(ill, impl("core", ["(ast %s)" % quote(t) for t in ill])):
        chk.case("(ast %s)" % quote(t), sample={"program": t[:200], "accepted": x.startswith("(ok")})
        chk.count("scope-type.ill." + ("accepted" if x.startswith("(ok") else "rejected"))
        if x.startswith("(ok") or x.startswith("PANIC"):
            chk.violation({"class": "out-of-scope-accepted", "what": t[:300]}, {"cmd": "core", "line": "(ast %s)" % quote(t), "program": t, "implementation": x[:1000],
                          "broken": "a reference resolves to a binding that is not the nearest visible one (a shadowed outer binding, a binding of a block that has ended, or the caller's variable)"})
    chk.extra["programs"] = len(acc)
    chk.exhaustive = False
    chk.extra["rule"] = ("binding structures of depth 1 (exhaustive over all pattern shapes with <= 3 leaves over names {a,b,_}: flat/nested tuples, arrays), depth 2 and 3 (products of "
                         "pattern lets, inner blocks, match arms, observation inside a shadowing arm, calls whose parameter names coincide with outer names), every bound leaf a distinct constant; "
                         "each program asserts which constant `a` resp. `b` holds, pinned through EXPECT against the source semantics")
