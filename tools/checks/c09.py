"""C09 — for_while iterates 0,1,2,... and stops at the first Left."""
from framework import *  # noqa
import corelib
import gen
from checks.c08 import Prog

# counter -> u8, by casts only (layout-equal types)
CONV = {
    0: "<(u4, u4)>::into((0, <(u2, u2)>::into((0, <(u1, u1)>::into((0, i))))))",
    1: "<(u4, u4)>::into((0, <(u2, u2)>::into((0, i))))",
    2: "<(u4, u4)>::into((0, i))",
    3: "i",
}


def body(w, mode):
    """loop body over a 2^w-bit counter.  acc: u8 (order-recording), ctx: u8 = the exit iteration.
    mode: 'exit' -> Left(acc) when conv(i) == ctx ; 'panic_after' additionally panics when conv(i) > ctx."""
    if w <= 3:
        conv = CONV[w]
        cty = "u%d" % (1 << w)
        test = "jet::eq_8(n, ctx)"
        later = "jet::lt_8(ctx, n)"
        pre = "let n: u8 = %s;" % conv
        mix = "let (hi, lo): (u8, u8) = <u16>::into(jet::multiply_8(acc, 3)); let (c, s): (bool, u8) = jet::add_8(lo, n);"
        ctxty = "u8"
    else:
        cty = "u16"
        pre = "let n: u16 = i; let (nh, nl): (u8, u8) = <u16>::into(n);"
        test = "jet::eq_16(n, ctx)"
        later = "jet::lt_16(ctx, n)"
        mix = "let (hi, lo): (u8, u8) = <u16>::into(jet::multiply_8(acc, 3)); let (c, s0): (bool, u8) = jet::add_8(lo, nl); let s: u8 = jet::xor_8(s0, nh);"
        ctxty = "u16"
    inner = "{ %s Right(s) }" % mix
    if mode == "panic_after":
        inner = "match %s { true => panic!(), false => %s, }" % (later, inner)
    return ("fn lp(acc: u8, ctx: %s, i: %s) -> Either<u8, u8> { %s match %s { true => Left(acc), false => %s, } }" % (ctxty, cty, pre, test, inner), ctxty)


def build(chk):
    rng = chk.rng
    quick = chk.tier == "quick"
    progs = []
    ws = [0, 1, 2, 3, 4]
    for w in ws:
        iters = 1 << (1 << w)
        if iters <= 16:
            exits = list(range(iters)) + ["none"]
        elif iters == 256:
            exits = sorted({0, 1, 2, 15, 16, 17, 127, 128, 254, 255} | {rng.randrange(256) for _ in range(4 if quick else 40)}) + ["none"]
        else:
            exits = ([256] if quick else sorted({0, 1, 255, 256, 257, 32767, 32768, 65534, 65535} | {rng.randrange(65536) for _ in range(6)})) + ["none"]
        for ex in exits:
            for mode in (("exit",) if (quick and w == 4) else ("exit", "panic_after")):
                ftext, ctxty = body(w, mode)
                if ex == "none":
                    if w <= 2:
                        ctxv = 200   # never reached by a counter below 16
                    elif w == 3:
                        if mode == "panic_after":
                            continue
                        ctxv = None
                    else:
                        continue
                else:
                    ctxv = ex
                if w == 3 and ex == "none":
                    # an 8-bit counter reaches every u8; "no exit" needs a body that never exits
                    ftext = ftext.replace("true => Left(acc)", "true => Right(acc)")
                    ctxv = 7
                init = rng.randrange(256)
                kctx = 3 if ctxty == "u8" else 4
                text = ("%s\nfn main() { let c: %s = witness::C; let r: Either<u8, u8> = for_while::<lp>(%d, c); "
                        "let v: u8 = match r { Left(x: u8) => x, Right(y: u8) => { let (cc, z): (bool, u8) = jet::add_8(y, 101); z }, }; "
                        "assert!(jet::eq_8(v, witness::EXPECT)); }") % (ftext, ctxty, init)
                p = Prog(text, [("C", ("U", kctx)), ("EXPECT", ("U", 3))], "loop/%d/%s/%s" % (w, ex, mode))
                p.fixed = [("C", ("u", kctx, ctxv))]
                chk.count("loop.width%d" % (1 << w))
                chk.count("loop.%s.%s" % (mode, "noexit" if ex == "none" else "exit"))
                progs.append(p)
    # bodies of other syntactic shapes: a bare `Right(expr)` / `Left(expr)` (no let, no match), a match as the whole body,
    # ctx of unit type; the accumulator update is order-sensitive (rotate-and-xor), so the iteration order is observable
    conv8 = {0: "<(u4, u4)>::into((0, <(u2, u2)>::into((0, <(u1, u1)>::into((0, i))))))", 1: "<(u4, u4)>::into((0, <(u2, u2)>::into((0, i))))", 2: "<(u4, u4)>::into((0, i))", 3: "i"}
    for w in (0, 1, 2, 3):
        cty = "u%d" % (1 << w)
        upd = "jet::xor_8(jet::left_rotate_8(1, acc), %s)" % conv8[w]
        shapes = [
            ("bare-right", "fn lp(acc: u8, ctx: (), i: %s) -> Either<u8, u8> { Right(%s) }" % (cty, upd)),
            ("bare-right-ctx", "fn lp(acc: u8, ctx: u8, i: %s) -> Either<u8, u8> { Right(jet::xor_8(%s, ctx)) }" % (cty, upd)),
            ("bare-left", "fn lp(acc: u8, ctx: (), i: %s) -> Either<u8, u8> { Left(%s) }" % (cty, upd)),
            ("match-body", "fn lp(acc: u8, ctx: u8, i: %s) -> Either<u8, u8> { match jet::eq_8(%s, ctx) { true => Left(acc), false => Right(%s), } }" % (cty, conv8[w], upd)),
        ]
        helper = ("fn helper(limit: u8, total: u8, i: %s) -> Either<u8, u8> { match jet::eq_8(%s, limit) { true => Left(total), false => Right(jet::xor_8(jet::left_rotate_8(1, total), %s)), } }\n" % (cty, conv8[w], conv8[w]))
        shapes += [
            ("forward-swapped", helper + "fn lp(total: u8, limit: u8, i: %s) -> Either<u8, u8> { helper(limit, total, i) }" % cty),
            ("forward-in-order", helper + "fn lp(limit: u8, total: u8, i: %s) -> Either<u8, u8> { helper(limit, total, i) }" % cty),
            ("forward-renamed", helper + "fn lp(acc: u8, ctx: u8, i: %s) -> Either<u8, u8> { { helper(ctx, acc, i) } }" % cty),
        ]
        for nm, ftext in shapes:
            unit = "ctx: ()" in ftext.split("fn lp")[-1]
            for init in (1, rng.randrange(256)):
                cv = rng.randrange(1 << (1 << w)) if w < 3 else rng.choice([0, 3, 200, 255])
                text = ("%s\nfn main() { let r: Either<u8, u8> = for_while::<lp>(%d, %s); "
                        "let v: u8 = match r { Left(x: u8) => jet::complement_8(x), Right(y: u8) => y, }; assert!(jet::eq_8(v, witness::EXPECT)); }") % (ftext, init, "()" if unit else "witness::C")
                wits = ([] if unit else [("C", ("U", 3))]) + [("EXPECT", ("U", 3))]
                p = Prog(text, wits, "loop-shape/%d/%s/%d" % (w, nm, init))
                p.fixed = [] if unit else [("C", ("u", 3, cv))]
                chk.count("loop.shape.%s" % nm)
                progs.append(p)
    # the loop observed only through its failure: the result is discarded (ignore pattern, ignored tuple component, argument of a
    # function that drops it, scrutinee of a match with constant arms); the body panics on iteration `ctx`, exits on iteration 2
    for w in (0, 1, 2, 3):
        cty = "u%d" % (1 << w)
        dbody = ("fn lp(acc: u8, ctx: u8, i: %s) -> Either<u8, u8> { let hit: bool = jet::eq_8(%s, ctx); match hit { true => panic!(), false => (), }; "
                "match jet::eq_8(%s, 2) { true => Left(acc), false => Right(acc), } }\nfn forget(x: Either<u8, u8>) -> u8 { 3 }\n") % (cty, conv8[w], conv8[w])
        uses = [
            ("ignore", "let _: Either<u8, u8> = for_while::<lp>(5, witness::C);"),
            ("ignore-in-tuple", "let (_, k): (Either<u8, u8>, u8) = (for_while::<lp>(5, witness::C), 1);"),
            ("ignore-in-block", "let k: u8 = { let _: Either<u8, u8> = for_while::<lp>(5, witness::C); 4 };"),
            ("dropped-by-function", "let k: u8 = forget(for_while::<lp>(5, witness::C));"),
            ("constant-arms", "let k: u8 = match for_while::<lp>(5, witness::C) { Left(a: u8) => 1, Right(b: u8) => 1, };"),
            ("named-unused", "let r: Either<u8, u8> = for_while::<lp>(5, witness::C);"),
        ]
        for nm, use in uses:
            for cv in (0, 1, 2, 3, 200):
                p = Prog("%sfn main() { %s }" % (dbody, use), [("C", ("U", 3))], "loop-discard/%d/%s/%d" % (w, nm, cv))
                p.fixed = [("C", ("u", 3, cv))]
                chk.count("loop.discard.%s" % nm)
                progs.append(p)
    return progs


def run(chk, replay=None):
    build_harness()
    corelib.tables()
    build_driver()
    chk.run_proof_gate()
    if replay is not None:
        import checks.c01 as c01
        return c01.do_replay(replay)
    progs = build(chk)
    rejected = []
    acc = corelib.check_terms(chk, progs, on_reject=lambda g, a: rejected.append((g, a)))
    for g, a in rejected:
        chk.violation({"class": "loop-program-rejected", "what": "%s || %s" % (a[:160], g.text[:200])},
                      {"program": g.text, "implementation": a, "broken": "a well-typed for_while program is rejected"})
    corelib.run_matrix(chk, acc, fixed_witnesses=True)
    # the loop call is layout-insensitive like every other call: blanks / comments between any two terminals (inside
    # `for_while::< f >` too) give the same program
    import layout
    lr = chk.sub_rng("respace")
    sample = [g for g in acc if "//" not in g.text and "/*" not in g.text]
    sample = lr.sample(sample, min(len(sample), 60 if chk.tier == "quick" else 600))
    pairs = []
    for g in sample:
        pairs.append((g, g.text, layout.respace(lr, g.text, rate=lr.choice([0.3, 1.0]), comments=lr.random() < 0.5)))
    rs = impl("core", [l for (_, a, b) in pairs for l in ("(commit %s () 0)" % quote(a), "(commit %s () 0)" % quote(b))])
    for i, (g, a, b) in enumerate(pairs):
        xa, xb = rs[2 * i], rs[2 * i + 1]
        chk.case("(commit %s () 0)" % quote(b))
        chk.count("respaced.%s" % ("same" if xa == xb else "different"))
        if xa != xb:
            chk.violation({"class": "loop-program-rejected", "what": "with other blanks: %s || %s" % (xb[:120], b[:200])},
                          {"cmd": "core", "line": "(commit %s () 0)" % quote(b), "program": b, "original": a, "implementation": xb[:600], "expected": xa[:200],
                           "broken": "a for_while program written with other blanks / comments between its terminals is rejected or compiles differently"})
    chk.extra["programs"] = len(acc)
    chk.extra["rule"] = ("counter widths 1,2,4,8 (16 thorough) x every exit iteration for <=16 iterations, boundary+random exits above, and no exit at all "
                         "x {order-recording body, body that panics on any iteration after the exit point}; the loop result is folded into a u8 and pinned through EXPECT; "
                         "x {debug off,on}; term-hash equality of the emitted loop for every width")
