#!/bin/bash
# run every claimed check (quick tier) on the current tree; print one line per check
cd "$(dirname "$0")/.."
ids=$(python3 -c "import json; print(' '.join(c['property_id'] for c in json.load(open('MANIFEST.json'))['checks']))")
fail=0
for id in ${@:-$ids}; do
  s=$(date +%s)
  out=$(./check $id --tier ${TIER:-quick} 2>&1); rc=$?
  e=$(date +%s)
  echo "$id exit=$rc $((e-s))s $(echo "$out" | grep -c '^VIOLATION') violations $(echo "$out" | grep -c '^KNOWN') known"
  [ $rc -ne 0 ] && fail=1 && echo "$out" | grep '^VIOLATION' | head -3
done
exit $fail
