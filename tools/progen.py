"""G-prog: type-directed generator of well-typed Simfony programs, written from the language rules of the
book (doc/, book/src): this is the independent "checker written from the book" in generator form.
Every program it emits must be accepted by the front end (a rejection is a C04 finding or a generator bug)."""
import gen

U = lambda k: ("U", k)
BOOL = ("B",)
UNIT = gen.UNIT

EQ_WIDTHS = {0: "eq_1", 3: "eq_8", 4: "eq_16", 5: "eq_32", 6: "eq_64", 8: "eq_256"}

# jets used by the generator: name -> (param types, result type); all have closed-form model semantics
def jet_catalog(known_rows):
    """known_rows: rows of the regenerated jet table restricted to modelled jets: (idx, name, params, ret)."""
    cat = {}
    for idx, name, params, ret in known_rows:
        cat[name] = (params, ret)
    return cat


def sx_to_ty(t):
    """wire S-expression (parsed) -> tuple form"""
    if t == "B":
        return BOOL
    tag = t[0]
    if tag == "U":
        return ("U", int(t[1]))
    if tag == "E":
        return ("E", sx_to_ty(t[1]), sx_to_ty(t[2]))
    if tag == "O":
        return ("O", sx_to_ty(t[1]))
    if tag == "T":
        return ("T", tuple(sx_to_ty(x) for x in t[1:]))
    if tag == "A":
        return ("A", sx_to_ty(t[1]), int(t[2]))
    if tag == "L":
        return ("L", sx_to_ty(t[1]), int(t[2]))
    raise ValueError(t)


def domain_size(t, cap=1 << 20):
    k = t[0]
    if k == "B":
        return 2
    if k == "U":
        return min(cap, 1 << (1 << t[1]))
    if k == "E":
        return min(cap, domain_size(t[1], cap) + domain_size(t[2], cap))
    if k == "O":
        return min(cap, 1 + domain_size(t[1], cap))
    if k == "T":
        n = 1
        for x in t[1]:
            n = min(cap, n * domain_size(x, cap))
        return n
    if k == "A":
        return min(cap, domain_size(t[1], cap) ** t[2])
    if k == "L":
        d = domain_size(t[1], cap)
        n = 0
        for i in range(1 << t[2]):
            n = min(cap, n + min(cap, d ** min(i, 64)))
            if n >= cap and d > 1:
                break
        return n
    raise ValueError(t)


def all_values(t):
    """every value of a small type"""
    import itertools
    k = t[0]
    if k == "B":
        return [("b", False), ("b", True)]
    if k == "U":
        return [("u", t[1], i) for i in range(1 << (1 << t[1]))]
    if k == "E":
        return [("l", v, t[2]) for v in all_values(t[1])] + [("r", t[1], v) for v in all_values(t[2])]
    if k == "O":
        return [("n", t[1])] + [("s", v) for v in all_values(t[1])]
    if k == "T":
        return [("t", tuple(c)) for c in itertools.product(*[all_values(x) for x in t[1]])]
    if k == "A":
        if t[2] == 0:
            return [("a", t[1], ())]          # do not enumerate the element type: [[u8; 5]; 0] has one value
        ev = all_values(t[1])
        return [("a", t[1], tuple(c)) for c in itertools.product(*[ev] * t[2])]
    if k == "L":
        out = [("li", t[1], t[2], ())]
        if (1 << t[2]) > 1:
            ev = all_values(t[1])
            for n in range(1, 1 << t[2]):
                out += [("li", t[1], t[2], tuple(c)) for c in itertools.product(*[ev] * n)]
        return out
    raise ValueError(t)


def regroup(t, v):
    """a DIFFERENT type (and the corresponding value) with the same leaves in the same order but another tuple grouping, or None:
    (a, b, c) -> ((a, b), c);  ((a, b), c) -> ((a, b, c),);  (a, b) -> ((a,), b);  recursively inside sums / options / arrays"""
    k = t[0]
    if k == "T":
        xs, vs = list(t[1]), list(v[1])
        # same number of tuple nodes, other arities: ((a, b), c, ..) <-> ((a, b, c, ..),)
        if len(xs) >= 2 and xs[0][0] == "T":
            return ("T", (("T", tuple(xs[0][1]) + tuple(xs[1:])),)), ("t", (("t", tuple(vs[0][1]) + tuple(vs[1:])),))
        if len(xs) == 1 and xs[0][0] == "T" and len(xs[0][1]) >= 2:
            ys, ws = list(xs[0][1]), list(vs[0][1])
            return ("T", (("T", tuple(ys[:-1])), ys[-1])), ("t", (("t", tuple(ws[:-1])), ws[-1]))
        if len(xs) >= 3:
            return ("T", (("T", tuple(xs[:-1])), xs[-1])), ("t", (("t", tuple(vs[:-1])), vs[-1]))
        if len(xs) == 2 and xs[0][0] == "T" and len(xs[0][1]) >= 1:
            return ("T", (("T", tuple(xs[0][1]) + (xs[1],)),)), ("t", (("t", tuple(vs[0][1]) + (vs[1],)),))
        if len(xs) == 2:
            return ("T", (("T", (xs[0],)), xs[1])), ("t", (("t", (vs[0],)), vs[1]))
        if len(xs) == 1:
            r = regroup(xs[0], vs[0])
            if r:
                return ("T", (r[0],)), ("t", (r[1],))
        return None
    if k == "O":
        if v[0] == "s":
            r = regroup(t[1], v[1])
            return (("O", r[0]), ("s", r[1])) if r else None
        return None
    if k == "E":
        if v[0] == "l":
            r = regroup(t[1], v[1])
            return (("E", r[0], t[2]), ("l", r[1], t[2])) if r else None
        r = regroup(t[2], v[2])
        return (("E", t[1], r[0]), ("r", t[1], r[1])) if r else None
    if k == "A" and t[2] >= 1:
        rs = [regroup(t[1], x) for x in v[2]]
        if all(rs):
            return ("A", rs[0][0], t[2]), ("a", rs[0][0], tuple(r[1] for r in rs))
    return None


def cast_partners(t):
    """types with the same layout as t, by the documented equations (never t itself)"""
    out = []
    k = t[0]
    if k == "U" and t[1] >= 1:
        h = U(t[1] - 1)
        out += [("T", (h, h)), ("A", h, 2)]
        if t[1] >= 2:
            q = U(t[1] - 2)
            out += [("A", q, 4), ("T", (("T", (q, q)), h))]
    if k == "U" and t[1] == 0:
        out += [BOOL, ("E", UNIT, UNIT), ("O", UNIT)]
    if k == "B":
        out += [U(0), ("E", UNIT, UNIT), ("O", UNIT)]
    if k == "O":
        out += [("E", UNIT, t[1]), ("L", t[1], 1)]
    if k == "E" and t[1] == UNIT:
        out += [("O", t[2])]
    if k == "A":
        a, n = t[1], t[2]
        if n <= 4:
            out += [("T", tuple([a] * n))]
        if n == 1:
            out += [a]
        if n == 2 and a[0] == "U" and a[1] <= 7:
            out += [U(a[1] + 1)]
        if n == 3:
            out += [("T", (a, ("T", (a, a)))), ("T", (a, ("A", a, 2)))]
        if n == 4:
            out += [("T", (("A", a, 2), ("A", a, 2))), ("A", ("A", a, 2), 2)]
    if k == "T":
        ts = t[1]
        if len(ts) == 1:
            out += [ts[0]]
        if len(ts) >= 1 and all(x == ts[0] for x in ts):
            out += [("A", ts[0], len(ts))]
        if len(ts) == 2 and ts[0] == ts[1] and ts[0][0] == "U" and ts[0][1] <= 7:
            out += [U(ts[0][1] + 1)]
        if len(ts) == 3:
            out += [("T", (ts[0], ("T", (ts[1], ts[2]))))]
        if len(ts) == 4:
            out += [("T", (("T", (ts[0], ts[1])), ("T", (ts[2], ts[3]))))]
        if len(ts) == 0:
            out += [("A", U(3), 0), ("A", UNIT, 0)]
    if k == "L" and t[2] == 1:
        out += [("O", t[1])]
    if k == "L" and t[2] == 2:
        out += [("T", (("O", ("A", t[1], 2)), ("O", t[1])))]
    return [x for x in out if x != t]


class Fn:
    def __init__(self, name, params, ret, kind="plain"):
        self.name, self.params, self.ret, self.kind = name, params, ret, kind  # params: [(name, ty)]
        self.body = None


class ProgGen:
    """One generated program.  Fields after generate(): text, witnesses [(name, ty)], params [(name, ty, value)],
    forms (set of AST forms used), observe (the type of the final observed expression or None)."""

    BUILTIN_ALIASES = []   # [(name, ty)] from the regenerated alias table (set by corelib.jet_catalog)

    def __init__(self, rng, jets, size=40, allow_params=True, allow_big=False, focus=None):
        self.rng = rng
        self.jets = jets  # name -> (params, ret)
        self.jets_by_ret = {}
        for n, (ps, r) in jets.items():
            self.jets_by_ret.setdefault(r, []).append(n)
        self.size = size
        self.budget = size
        self.witnesses = []
        self.params = []
        self.fns = []
        self.aliases = []  # (name, ty)
        self.forms = set()
        self.in_main = False
        self.allow_params = allow_params
        self.allow_big = allow_big
        self.wit_domain = 1
        self.focus = focus
        self.names = ["a", "b", "c", "x", "y", "z", "acc", "val", "t0", "in1"]

    # ------------------------------------------------------------ types
    def small_ty(self, depth=2):
        r = self.rng
        if depth <= 0:
            return r.choice([BOOL, U(0), U(1), U(2), U(3), U(3), UNIT])
        c = r.randrange(12)
        if c < 5:
            return r.choice([BOOL, U(0), U(1), U(2), U(3), U(3), U(4), UNIT] + ([U(5), U(6)] if self.allow_big else []))
        if c == 5:
            return ("O", self.small_ty(depth - 1))
        if c == 6:
            return ("E", self.small_ty(depth - 1), self.small_ty(depth - 1))
        if c in (7, 8):
            return ("T", tuple(self.small_ty(depth - 1) for _ in range(r.choice([1, 2, 2, 3, 3, 4, 5]))))
        if c == 9:
            return ("A", self.small_ty(depth - 1), r.choice([0, 1, 2, 2, 3, 4, 5]))
        if c == 10:
            return ("L", self.small_ty(depth - 1), r.choice([1, 2, 2, 3]))
        return r.choice([BOOL, U(0), U(3)])

    def ty(self, t):
        """source text of a type, sometimes through an alias"""
        for (n, a) in self.aliases:
            if a == t and self.rng.random() < 0.4:
                self.forms.add("alias")
                return n
        for (n, a) in self.BUILTIN_ALIASES:
            if a == t and self.rng.random() < 0.3:
                self.forms.add("builtin_alias")
                return n
        k = t[0]
        if k in ("B", "U"):
            return gen.ty_src(t)
        if k == "E":
            return "Either<%s, %s>" % (self.ty(t[1]), self.ty(t[2]))
        if k == "O":
            return "Option<%s>" % self.ty(t[1])
        if k == "T":
            if len(t[1]) == 1:
                return "(%s,)" % self.ty(t[1][0])
            return "(%s)" % ", ".join(self.ty(x) for x in t[1])
        if k == "A":
            return "[%s; %d]" % (self.ty(t[1]), t[2])
        if k == "L":
            return "List<%s, %d>" % (self.ty(t[1]), 1 << t[2])

    # ------------------------------------------------------------ expressions
    def const(self, t):
        self.forms.add("const")
        v = gen.gen_val(self.rng, t)
        return self.lit(v, t)

    def lit(self, v, t):
        """literal text of a value at type t (hex for u128/u256 because decimal needs no width, both work)"""
        k = v[0]
        if k == "u":
            c = self.rng.randrange(6)
            w = 1 << v[1]
            if c == 0 and w >= 8:
                pre, digits = "0x", "%0*x" % (w // 4, v[2])
            elif c == 1 and w <= 64:
                pre, digits = "0b", format(v[2], "0%db" % w)
            else:
                pre, digits = "", str(v[2])
            if self.rng.random() < 0.15:
                # digit separators anywhere, leading ones too
                self.forms.add("literal_separators")
                ds = list(digits)
                for _ in range(self.rng.randrange(1, 3)):
                    ds.insert(self.rng.randrange(len(ds) + 1), "_")
                digits = "".join(ds)
            return pre + digits
        if k == "b":
            return "true" if v[1] else "false"
        if k == "l":
            return "Left(%s)" % self.lit(v[1], t[1])
        if k == "r":
            return "Right(%s)" % self.lit(v[2], t[2])
        if k == "n":
            return "None"
        if k == "s":
            return "Some(%s)" % self.lit(v[1], t[1])
        if k == "t":
            if len(v[1]) == 1:
                return "(%s,)" % self.lit(v[1][0], t[1][0])
            return "(%s)" % ", ".join(self.lit(x, y) for x, y in zip(v[1], t[1]))
        if k == "a":
            if t[1] == U(3) and len(v[2]) >= 1 and self.rng.random() < 0.3:
                return "0x" + "".join("%02x" % x[2] for x in v[2])
            return "[%s]" % ", ".join(self.lit(x, t[1]) for x in v[2])
        if k == "li":
            return "list![%s]" % ", ".join(self.lit(x, t[1]) for x in v[3])

    def fresh_wit(self, t):
        n = "W%d" % len(self.witnesses)
        self.witnesses.append((n, t))
        self.wit_domain = min(1 << 40, self.wit_domain * domain_size(t))
        self.forms.add("witness")
        return "witness::" + n

    def expr(self, t, scope, depth):
        """an expression of type t; scope: list of (name, ty), newest last"""
        r = self.rng
        self.budget -= 1
        vars_t = [n for (i, (n, ty)) in enumerate(scope) if ty == t and all(m != n for (m, _) in scope[i + 1:])]
        leafy = depth <= 0 or self.budget <= 0
        if leafy:
            c = r.randrange(10)
            if vars_t and c < 6:
                self.forms.add("var")
                return r.choice(vars_t)
            if self.in_main and c < 8 and domain_size(t) * self.wit_domain <= (1 << 12):
                return self.fresh_wit(t)
            if self.in_main and c == 8 and len(self.witnesses) < 8 and t != UNIT:
                return self.fresh_wit(t)
            if self.allow_params and c == 9 and t != UNIT and len(self.params) < 4:
                return self.param(t)
            return self.const(t)
        opts = ["ctor", "ctor", "block", "match", "paren", "dbg", "unwrap", "cast", "leaf", "leaf"]
        if vars_t:
            opts += ["var", "var"]
        if any(f.ret == t and f.kind == "plain" for f in self.fns):
            opts += ["call", "call"]
        if t in self.jets_by_ret:
            opts += ["jet", "jet"]
        if t == BOOL:
            opts += ["is_none"]
        if t == UNIT:
            opts += ["assert", "assert", "unitblock"]
        if any(f.kind == "fold" and f.ret == t for f in self.fns):
            opts += ["fold", "fold"]
        if any(f.kind == "loop" and f.ret == t for f in self.fns):
            opts += ["loop", "loop"]
        if self.focus and self.focus in opts and r.random() < 0.5:
            c = self.focus
        else:
            c = r.choice(opts)
        d = depth - 1
        if c == "leaf":
            return self.expr(t, scope, 0)
        if c == "var":
            self.forms.add("var")
            return r.choice(vars_t)
        if c == "paren":
            self.forms.add("paren")
            return "(%s)" % self.expr(t, scope, d)
        if c == "dbg":
            self.forms.add("dbg")
            return "dbg!(%s)" % self.expr(t, scope, d)
        if c == "ctor":
            return self.ctor(t, scope, d)
        if c == "block":
            return self.block(t, scope, d)
        if c == "unitblock":
            return self.block(UNIT, scope, d, final=False)
        if c == "match":
            return self.match(t, scope, d)
        if c == "unwrap":
            k = r.randrange(3)
            if k == 0:
                self.forms.add("unwrap")
                return "unwrap(%s)" % self.expr(("O", t), scope, d)
            o = self.small_ty(1)
            if k == 1:
                self.forms.add("unwrap_left")
                return "unwrap_left::<%s>(%s)" % (self.ty(o), self.expr(("E", t, o), scope, d))
            self.forms.add("unwrap_right")
            return "unwrap_right::<%s>(%s)" % (self.ty(o), self.expr(("E", o, t), scope, d))
        if c == "cast":
            ps = cast_partners(t)
            if not ps:
                return self.ctor(t, scope, d)
            s = r.choice(ps)
            self.forms.add("cast")
            return "<%s>::into(%s)" % (self.ty(s), self.expr(s, scope, d))
        if c == "call":
            f = r.choice([f for f in self.fns if f.ret == t and f.kind == "plain"])
            self.forms.add("call")
            return "%s(%s)" % (f.name, ", ".join(self.expr(pt, scope, d) for (_, pt) in f.params))
        if c == "jet":
            name = r.choice(self.jets_by_ret[t])
            ps, _ = self.jets[name]
            self.forms.add("jet")
            return "jet::%s(%s)" % (name, ", ".join(self.expr(pt, scope, d) for pt in ps))
        if c == "is_none":
            o = self.small_ty(1)
            self.forms.add("is_none")
            return "is_none::<%s>(%s)" % (self.ty(o), self.expr(("O", o), scope, d))
        if c == "assert":
            self.forms.add("assert")
            return "assert!(%s)" % self.expr(BOOL, scope, d)
        if c == "fold":
            f = r.choice([f for f in self.fns if f.kind == "fold" and f.ret == t])
            k = r.choice([1, 2, 2, 3, 3, 4])
            self.forms.add("fold")
            return "fold::<%s, %d>(%s, %s)" % (f.name, 1 << k, self.expr(("L", f.params[0][1], k), scope, d), self.expr(t, scope, d))
        if c == "loop":
            f = r.choice([f for f in self.fns if f.kind == "loop" and f.ret == t])
            self.forms.add("for_while")
            return "for_while::<%s>(%s, %s)" % (f.name, self.expr(f.params[0][1], scope, d), self.expr(f.params[1][1], scope, d))
        raise AssertionError(c)

    def param(self, t):
        same = [p for p in self.params if p[1] == t]
        if same and self.rng.random() < 0.4:
            self.forms.add("param_reuse")
            return "param::" + self.rng.choice(same)[0]
        n = "P%d" % len(self.params)
        self.params.append((n, t, gen.gen_val(self.rng, t)))
        self.forms.add("param")
        return "param::" + n

    def ctor(self, t, scope, d):
        r = self.rng
        k = t[0]
        if k in ("B", "U"):
            return self.expr(t, scope, 0)
        if k == "E":
            if r.random() < 0.5:
                self.forms.add("left")
                return "Left(%s)" % self.expr(t[1], scope, d)
            self.forms.add("right")
            return "Right(%s)" % self.expr(t[2], scope, d)
        if k == "O":
            if r.random() < 0.3:
                self.forms.add("none")
                return "None"
            self.forms.add("some")
            return "Some(%s)" % self.expr(t[1], scope, d)
        if k == "T":
            self.forms.add("tuple%d" % min(len(t[1]), 4))
            es = [self.expr(x, scope, d) for x in t[1]]
            if len(es) == 1:
                return "(%s,)" % es[0]
            tail = "," if (len(es) >= 2 and r.random() < 0.1) else ""
            return "(%s%s)" % (", ".join(es), tail)
        if k == "A":
            self.forms.add("array%d" % min(t[2], 4))
            es = [self.expr(t[1], scope, d) for _ in range(t[2])]
            return "[%s%s]" % (", ".join(es), "," if es and r.random() < 0.1 else "")
        if k == "L":
            n = r.randrange(0, min(1 << t[2], 6))
            self.forms.add("list")
            es = [self.expr(t[1], scope, d) for _ in range(n)]
            return "list![%s]" % ", ".join(es)

    def pattern(self, t, depth=2):
        """(pattern text, bound [(name, ty)]) with pairwise distinct names"""
        r = self.rng
        used = set()

        def go(t, depth):
            c = r.randrange(10)
            if t[0] == "T" and depth > 0 and c < 6:
                self.forms.add("pat_tuple")
                ps = [go(x, depth - 1) for x in t[1]]
                if len(ps) == 1:
                    return ("(%s,)" % ps[0][0], ps[0][1])
                return ("(%s)" % ", ".join(p[0] for p in ps), sum((p[1] for p in ps), []))
            if t[0] == "A" and depth > 0 and c < 6 and t[2] <= 6:
                self.forms.add("pat_array")
                ps = [go(t[1], depth - 1) for _ in range(t[2])]
                return ("[%s]" % ", ".join(p[0] for p in ps), sum((p[1] for p in ps), []))
            if c == 9 or len(used) >= len(self.names):
                self.forms.add("pat_ignore")
                return ("_", [])
            n = r.choice([x for x in self.names if x not in used])
            used.add(n)
            return (n, [(n, t)])
        return go(t, depth)

    def block(self, t, scope, d, final=True):
        r = self.rng
        self.forms.add("block")
        scope = list(scope)
        out = []
        for _ in range(r.choice([0, 1, 1, 2, 2, 3])):
            if self.budget <= 0:
                break
            if r.random() < 0.75:
                lt = self.small_ty(2) if r.random() < 0.7 else t
                e = self.expr(lt, scope, d)
                p, bound = self.pattern(lt)
                out.append("let %s: %s = %s;" % (p, self.ty(lt), e))
                if any(n in [m for (m, _) in scope] for (n, _) in bound):
                    self.forms.add("shadow")
                scope += bound
            else:
                self.forms.add("stmt_expr")
                out.append("%s;" % self.expr(UNIT, scope, d))
        if t == UNIT and (not final or r.random() < 0.5):
            return "{ %s }" % " ".join(out) if out else "{ }"
        return "{ %s %s }" % (" ".join(out), self.expr(t, scope, d))

    def match(self, t, scope, d):
        r = self.rng
        names = self.names
        c = r.randrange(3)

        def arm_expr(sc):
            if r.random() < 0.4:
                self.forms.add("arm_block")
                return self.block(t, sc, d) + r.choice([",", ""])
            e = self.expr(t, sc, d)
            if e.startswith("{"):
                return e + ","
            return e + ","
        if c == 0:
            self.forms.add("match_bool")
            s = self.expr(BOOL, scope, d)
            arms = ["false => %s" % arm_expr(scope), "true => %s" % arm_expr(scope)]
        elif c == 1:
            a = self.small_ty(1)
            self.forms.add("match_option")
            s = self.expr(("O", a), scope, d)
            x = r.choice(names)
            arms = ["None => %s" % arm_expr(scope), "Some(%s: %s) => %s" % (x, self.ty(a), arm_expr(scope + [(x, a)]))]
        else:
            a, b = self.small_ty(1), self.small_ty(1)
            self.forms.add("match_either")
            s = self.expr(("E", a, b), scope, d)
            x, y = r.choice(names), r.choice(names)
            arms = ["Left(%s: %s) => %s" % (x, self.ty(a), arm_expr(scope + [(x, a)])),
                    "Right(%s: %s) => %s" % (y, self.ty(b), arm_expr(scope + [(y, b)]))]
        if r.random() < 0.3:
            arms.reverse()
            self.forms.add("match_reversed")
        if r.random() < 0.25:
            # a parenthesised scrutinee: `match (x) {` must not be read as a call of something named `match`
            self.forms.add("match_paren_scrutinee")
            s = "(%s)" % s
            if r.random() < 0.5:
                return "match%s { %s %s }" % (s, arms[0], arms[1])
        return "match %s { %s %s }" % (s, arms[0], arms[1])

    # ------------------------------------------------------------ items
    def function(self, idx):
        r = self.rng
        kind = r.choice(["plain", "plain", "fold", "loop"])
        name = r.choice(["f", "g", "helper", "step", "comb"]) + str(idx)
        if kind == "plain":
            params = []
            for i in range(r.choice([0, 1, 1, 2, 2, 3])):
                params.append((self.names[i] if r.random() < 0.7 else "p%d" % i, self.small_ty(1)))
            ret = self.small_ty(1)
        elif kind == "fold":
            e, a = self.small_ty(1), self.small_ty(1)
            params = [("el", e), ("acc", a)]
            ret = a
        else:
            a, c, b = self.small_ty(1), self.small_ty(1), self.small_ty(1)
            params = [("acc", a), ("ctx", c), ("i", U(r.choice([0, 1, 2, 2, 3])))]
            ret = ("E", b, a)
        f = Fn(name, params, ret, kind)
        save = self.budget
        self.budget = min(self.budget, 10)
        self.in_main = False
        body = self.block(ret, list(params), 2)
        self.budget = save - 4
        rets = "" if (ret == UNIT and r.random() < 0.5) else " -> %s" % self.ty(ret)
        f.text = "fn %s(%s)%s %s" % (name, ", ".join("%s: %s" % (n, self.ty(t)) for n, t in params), rets, body)
        return f

    def generate(self, observe=True):
        r = self.rng
        items = []
        for i in range(r.choice([0, 0, 1])):
            t = self.small_ty(2)
            n = r.choice(["Word", "Pair", "Item", "MyT"]) + str(i)
            self.aliases.append((n, t))
        for i in range(r.choice([0, 1, 2, 3])):
            f = self.function(i)
            self.fns.append(f)
            items.append(f.text)
        for (n, t) in self.aliases:
            items.insert(0, "type %s = %s;" % (n, gen.ty_src(t)))
        self.in_main = True
        body = []
        scope = []
        nst = r.choice([1, 2, 2, 3, 4])
        for _ in range(nst):
            if r.random() < 0.7:
                lt = self.small_ty(2)
                e = self.expr(lt, scope, 3)
                p, bound = self.pattern(lt)
                body.append("let %s: %s = %s;" % (p, self.ty(lt), e))
                scope += bound
            else:
                body.append("%s;" % self.expr(UNIT, scope, 3))
        # make sure every defined function is exercised from main
        for f in self.fns:
            if r.random() < 0.8:
                self.budget = max(self.budget, 8)
                v = r.choice(self.names)
                if f.kind == "plain":
                    self.forms.add("call")
                    e = "%s(%s)" % (f.name, ", ".join(self.expr(pt, scope, 2) for (_, pt) in f.params))
                elif f.kind == "fold":
                    k = r.choice([1, 2, 2, 3, 3, 4, 5])
                    self.forms.add("fold")
                    e = "fold::<%s, %d>(%s, %s)" % (f.name, 1 << k, self.expr(("L", f.params[0][1], k), scope, 2), self.expr(f.ret, scope, 2))
                else:
                    self.forms.add("for_while")
                    e = "for_while::<%s>(%s, %s)" % (f.name, self.expr(f.params[0][1], scope, 2), self.expr(f.params[1][1], scope, 2))
                body.append("let %s: %s = %s;" % (v, self.ty(f.ret), e))
                scope.append((v, f.ret))
        self.observe = None
        if observe:
            cands = [(n, t) for (i, (n, t)) in enumerate(scope) if t[0] == "U" and t[1] in EQ_WIDTHS and all(m != n for (m, _) in scope[i + 1:])]
            self.budget = max(self.budget, 10)
            if cands and r.random() < 0.5:
                n, t = r.choice(cands)
                k = t[1]
                e = n
                self.forms.add("observe_var")
            else:
                k = r.choice([0, 3, 3, 3, 4, 5])
                e = self.expr(U(k), scope, 3)
            self.observe = k
            self.witnesses.append(("EXPECT", U(k)))
            body.append("assert!(jet::%s(%s, witness::EXPECT));" % (EQ_WIDTHS[k], e))
        mainret = r.choice(["", "", " -> ()"])
        items.append("fn main()%s { %s }" % (mainret, " ".join(body)))
        self.text = "\n".join(items)
        if r.random() < 0.25:
            self.forms.add("blank_ends")
            self.text = r.choice(["\n", "\n\n", " \n", "// c\n\n", "/* é */\n", "\r\n"]) + self.text + r.choice(["", "\n", "\n\n", "\n// end", " \n\n"])
        return self
