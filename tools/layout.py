"""G-file: layout variants of a program text that do not change its token sequence."""

WS = [" ", "\n", "\n    ", "\t", "\r\n", "  ", "\n\n"]
COMMENTS = ["/* c */", "// note\n", "/* éè \U0001F388 */", "//ü\n", "/* multi\nline */", "//\r\n",
            "/* see https://example.org/x */", "/* a /* b */", "// has /* inside\n", "/* // */", "/***/", "/** doc **/", "// */ x\n", "/*\n// line\n*/"]


def relayout(rng, text, crlf=False, comments=True, final_newline=None, comment_rate=0.15):
    out = []
    i = 0
    n = len(text)
    while i < n:
        c = text[i]
        if c == " " and i > 0 and text[i - 1] in ";{},=" or (c == " " and i + 1 < n and text[i + 1] in "}="):
            w = rng.choice(WS)
            if comments and rng.random() < comment_rate:
                w = w + rng.choice(COMMENTS) + rng.choice(WS)
            out.append(w)
        elif c == "\n":
            out.append("\n" + rng.choice(["", "", "  ", "\t"]))
        else:
            out.append(c)
        i += 1
    s = "".join(out)
    if crlf:
        s = s.replace("\r\n", "\n").replace("\n", "\r\n")
    if final_newline is None:
        final_newline = rng.random() < 0.5
    s = s.rstrip("\n\r \t")
    if final_newline:
        s += "\r\n" if crlf else "\n"
    return s


def rust_lines(s):
    """Rust str::lines(): split at \\n, strip one trailing \\r, no final empty line after a trailing newline"""
    if s == "":
        return []
    parts = s.split("\n")
    if parts[-1] == "":
        parts.pop()
    return [p[:-1] if p.endswith("\r") else p for p in parts]


def break_program(rng, text):
    """a single edit that usually makes the program wrong (used to obtain rejected texts)"""
    import re
    toks = list(re.finditer(r"[A-Za-z_][A-Za-z0-9_]*|[0-9]+|[;{}(),:=<>\[\]]", text))
    if not toks:
        return text + " }"
    m = rng.choice(toks)
    c = rng.randrange(7)
    a, b = m.start(), m.end()
    if c == 0:
        return text[:a] + "undefined_name" + text[b:]
    if c == 1:
        return text[:a] + text[b:]
    if c == 2:
        return text[:a] + m.group(0) + " " + m.group(0) + text[b:]
    if c == 3:
        return text[:a] + "99999999999999999999999" + text[b:]
    if c == 4:
        return text[:a] + "u7" + text[b:]
    if c == 5:
        return text[:b] + " @ " + text[b:]
    return text[:a] + "(" + text[a:]


# ----------------------------------------------------------------------------- blanks wherever the grammar allows them
import re as _re
# the terminals of minimal.pest as the grammar spells them (the multi-character literals are single terminals: no blank inside
# `Left(`, `Either<`, `fold::<`, `>::into`, `list![`, `assert!`, `witness::NAME`, `jet::name`, literals and names)
_TERMINAL = _re.compile(r"""
    (?:witness|param|jet)::[A-Za-z0-9_]+ | (?:unwrap_left|unwrap_right|is_none|fold|for_while)::< | >::into | list!\[ | (?:assert|panic|dbg)!
  | (?:Left|Right|Some)\( | (?:Either|Option|List)< | -> | => | 0x[0-9A-Fa-f_]+ | 0b[01_]+ | [A-Za-z_][A-Za-z0-9_]* | [0-9][0-9_]* | \S
""", _re.X)


def respace(rng, text, rate=0.6, comments=False):
    """the same terminals with blanks (and optionally comments) between ANY two of them — inside `::< .. >`, around `,` `:` `;`
    `(` `)`, between a call name and its argument list ...; only for comment-free texts"""
    toks = _TERMINAL.findall(text)
    out = []
    for i, t in enumerate(toks):
        out.append(t)
        if i + 1 == len(toks):
            break
        nxt = toks[i + 1]
        need = (t[-1].isalnum() or t[-1] == "_") and (nxt[0].isalnum() or nxt[0] == "_")
        if need or rng.random() < rate:
            w = rng.choice([" ", " ", "\n", "\t", "  ", "\n  "])
            if comments and rng.random() < 0.2:
                w += rng.choice(COMMENTS) + " "
            out.append(w)
    return "".join(out)
