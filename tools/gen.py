"""Generators of Simfony types and values (G-ty / G-val of DESIGN.md §4.3) and renderers to
the wire S-expressions and to Simfony source syntax.  All randomness comes from the `random.Random`
handed in, so every case replays from the run's seed."""

# A type is a tuple: ("E",a,b) ("O",a) ("B",) ("U",k) ("T",[..]) ("A",a,n) ("L",a,k)
# A value is a tuple: ("l",v,tr) ("r",tl,v) ("n",t) ("s",v) ("b",bool) ("u",k,int) ("t",[..]) ("a",t,[..]) ("li",t,k,[..])

UNIT = ("T", ())


def ty_sx(t):
    k = t[0]
    if k == "B":
        return "B"
    if k == "U":
        return "(U %d)" % t[1]
    if k == "E":
        return "(E %s %s)" % (ty_sx(t[1]), ty_sx(t[2]))
    if k == "O":
        return "(O %s)" % ty_sx(t[1])
    if k == "T":
        return "(T%s)" % "".join(" " + ty_sx(x) for x in t[1])
    if k == "A":
        return "(A %s %d)" % (ty_sx(t[1]), t[2])
    if k == "L":
        return "(L %s %d)" % (ty_sx(t[1]), t[2])
    raise ValueError(t)


def ty_src(t):
    """Simfony source syntax of a type."""
    k = t[0]
    if k == "B":
        return "bool"
    if k == "U":
        return "u%d" % (1 << t[1])
    if k == "E":
        return "Either<%s, %s>" % (ty_src(t[1]), ty_src(t[2]))
    if k == "O":
        return "Option<%s>" % ty_src(t[1])
    if k == "T":
        if len(t[1]) == 1:
            return "(%s,)" % ty_src(t[1][0])
        return "(%s)" % ", ".join(ty_src(x) for x in t[1])
    if k == "A":
        return "[%s; %d]" % (ty_src(t[1]), t[2])
    if k == "L":
        return "List<%s, %d>" % (ty_src(t[1]), 1 << t[2])
    raise ValueError(t)


def val_sx(v):
    k = v[0]
    if k == "l":
        return "(l %s %s)" % (val_sx(v[1]), ty_sx(v[2]))
    if k == "r":
        return "(r %s %s)" % (ty_sx(v[1]), val_sx(v[2]))
    if k == "n":
        return "(n %s)" % ty_sx(v[1])
    if k == "s":
        return "(s %s)" % val_sx(v[1])
    if k == "b":
        return "(b %d)" % (1 if v[1] else 0)
    if k == "u":
        return "(u %d %x)" % (v[1], v[2])
    if k == "t":
        return "(t%s)" % "".join(" " + val_sx(x) for x in v[1])
    if k == "a":
        return "(a %s%s)" % (ty_sx(v[1]), "".join(" " + val_sx(x) for x in v[2]))
    if k == "li":
        return "(li %s %d%s)" % (ty_sx(v[1]), v[2], "".join(" " + val_sx(x) for x in v[3]))
    raise ValueError(v)


def val_src(v):
    """Simfony source syntax of a value (decimal integers up to u64, hex above — as the language requires
    nothing in particular, this is just one valid spelling)."""
    k = v[0]
    if k == "l":
        return "Left(%s)" % val_src(v[1])
    if k == "r":
        return "Right(%s)" % val_src(v[2])
    if k == "n":
        return "None"
    if k == "s":
        return "Some(%s)" % val_src(v[1])
    if k == "b":
        return "true" if v[1] else "false"
    if k == "u":
        return str(v[2])
    if k == "t":
        if len(v[1]) == 1:
            return "(%s,)" % val_src(v[1][0])
        return "(%s)" % ", ".join(val_src(x) for x in v[1])
    if k == "a":
        return "[%s]" % ", ".join(val_src(x) for x in v[2])
    if k == "li":
        return "list![%s]" % ", ".join(val_src(x) for x in v[3])
    raise ValueError(v)


def type_of(v):
    k = v[0]
    if k == "l":
        return ("E", type_of(v[1]), v[2])
    if k == "r":
        return ("E", v[1], type_of(v[2]))
    if k == "n":
        return ("O", v[1])
    if k == "s":
        return ("O", type_of(v[1]))
    if k == "b":
        return ("B",)
    if k == "u":
        return ("U", v[1])
    if k == "t":
        return ("T", tuple(type_of(x) for x in v[1]))
    if k == "a":
        return ("A", v[1], len(v[2]))
    if k == "li":
        return ("L", v[1], v[2])
    raise ValueError(v)


def ty_size(t):
    """number of bits-ish (node count of the Simplicity type), to keep cases small"""
    k = t[0]
    if k == "B":
        return 1
    if k == "U":
        return 1 << t[1]
    if k == "E":
        return 1 + ty_size(t[1]) + ty_size(t[2])
    if k == "O":
        return 1 + ty_size(t[1])
    if k == "T":
        return 1 + sum(ty_size(x) for x in t[1])
    if k == "A":
        return 1 + ty_size(t[1]) * t[2]
    if k == "L":
        return 1 + ty_size(t[1]) * ((1 << t[2]) - 1)
    raise ValueError(t)


def gen_ty(rng, depth=3, max_size=4096, uint_max=8, arr_max=9, list_kmax=4):
    for _ in range(100):
        t = _gen_ty(rng, depth, uint_max, arr_max, list_kmax)
        if ty_size(t) <= max_size:
            return t
    return ("U", rng.randrange(0, 4))


def _gen_ty(rng, depth, uint_max, arr_max, list_kmax):
    if depth <= 0:
        c = rng.choice(["B", "U", "U", "T0"])
    else:
        c = rng.choice(["B", "U", "U", "E", "O", "T", "T", "A", "L", "T0"])
    if c == "B":
        return ("B",)
    if c == "U":
        return ("U", rng.randrange(0, uint_max + 1))
    if c == "T0":
        return UNIT
    if c == "E":
        return ("E", _gen_ty(rng, depth - 1, uint_max, arr_max, list_kmax), _gen_ty(rng, depth - 1, uint_max, arr_max, list_kmax))
    if c == "O":
        return ("O", _gen_ty(rng, depth - 1, uint_max, arr_max, list_kmax))
    if c == "T":
        n = rng.choice([1, 2, 2, 3, 3, 4, 5, 6, 7])
        return ("T", tuple(_gen_ty(rng, depth - 1, uint_max, arr_max, list_kmax) for _ in range(n)))
    if c == "A":
        return ("A", _gen_ty(rng, depth - 1, uint_max, arr_max, list_kmax), rng.randrange(0, arr_max + 1))
    if c == "L":
        return ("L", _gen_ty(rng, depth - 1, uint_max, arr_max, list_kmax), rng.randrange(1, list_kmax + 1))


def gen_uint(rng, k):
    w = 1 << k
    c = rng.randrange(6)
    if c == 0:
        return 0
    if c == 1:
        return (1 << w) - 1
    if c == 2:
        return 1
    if c == 3:
        return 1 << rng.randrange(w)
    return rng.getrandbits(w)


def gen_val(rng, t):
    k = t[0]
    if k == "B":
        return ("b", rng.random() < 0.5)
    if k == "U":
        return ("u", t[1], gen_uint(rng, t[1]))
    if k == "E":
        if rng.random() < 0.5:
            return ("l", gen_val(rng, t[1]), t[2])
        return ("r", t[1], gen_val(rng, t[2]))
    if k == "O":
        if rng.random() < 0.35:
            return ("n", t[1])
        return ("s", gen_val(rng, t[1]))
    if k == "T":
        return ("t", tuple(gen_val(rng, x) for x in t[1]))
    if k == "A":
        return ("a", t[1], tuple(gen_val(rng, t[1]) for _ in range(t[2])))
    if k == "L":
        bound = 1 << t[2]
        c = rng.randrange(5)
        if c == 0:
            n = 0
        elif c == 1:
            n = bound - 1
        elif c == 2:
            # around a block boundary
            n = min(bound - 1, max(0, (1 << rng.randrange(t[2])) + rng.choice([-1, 0, 1])))
        else:
            n = rng.randrange(bound)
        return ("li", t[1], t[2], tuple(gen_val(rng, t[1]) for _ in range(n)))
    raise ValueError(t)


def small_types(depth, leaves=None, arr_sizes=(0, 1, 2, 3), list_ks=(1, 2), tuple_max=3):
    """Exhaustive enumeration of types up to `depth` over a small leaf set (generator, may be large)."""
    if leaves is None:
        leaves = [("B",), ("U", 0), ("U", 1), ("U", 3), UNIT]
    if depth == 0:
        yield from leaves
        return
    sub = list(small_types(depth - 1, leaves, arr_sizes, list_ks, tuple_max))
    yield from leaves
    for a in sub:
        yield ("O", a)
        for n in arr_sizes:
            yield ("A", a, n)
        for k in list_ks:
            yield ("L", a, k)
        yield ("T", (a,))
    for a in sub:
        for b in sub:
            yield ("E", a, b)
            yield ("T", (a, b))
    if tuple_max >= 3:
        for a in sub[:6]:
            for b in sub[:6]:
                for c in sub[:6]:
                    yield ("T", (a, b, c))


# ---- same-layout type families used by cast / witness-type checks
def layout_family():
    u = lambda k: ("U", k)
    fam = [
        ("B",), u(0), ("E", UNIT, UNIT), ("O", UNIT),
        u(1), ("T", (u(0), u(0))), ("A", u(0), 2), ("T", (("B",), ("B",))), ("A", ("B",), 2),
        u(2), ("T", (u(1), u(1))), ("A", u(1), 2), ("A", u(0), 4), ("T", (u(0), u(0), u(0), u(0))),
        u(3), ("T", (u(2), u(2))), ("A", u(2), 2), ("A", u(0), 8), ("A", u(1), 4),
        u(4), ("T", (u(3), u(3))), ("A", u(3), 2), ("A", u(2), 4),
        u(5), ("A", u(3), 4), ("T", (u(4), u(4))), ("A", u(4), 2), ("T", (u(3), u(3), u(3), u(3))),
        ("O", u(3)), ("E", UNIT, u(3)), ("L", u(3), 1), ("E", ("T", ()), ("A", u(2), 2)),
        ("L", u(3), 2), ("T", (("O", ("A", u(3), 2)), ("O", u(3)))), ("T", (("O", u(4)), ("L", u(3), 1))),
        ("T", (u(3), u(3), u(3))), ("A", u(3), 3), ("T", (u(3), u(4))), ("T", (u(3), ("A", u(3), 2))),
        ("T", (u(4), u(3))),
        UNIT, ("A", u(3), 0), ("A", UNIT, 5), ("T", (UNIT, UNIT)), ("T", (UNIT,)),
        ("T", (u(3),)), ("A", u(3), 1),
        ("E", u(3), u(3)), ("E", ("A", u(1), 4), ("T", (u(2), u(2)))), ("E", u(3), u(4)),
        ("A", ("T", (u(0), u(0))), 3), ("T", (u(1), u(1), u(1))), ("A", u(1), 3),
        ("L", ("B",), 3), ("L", u(0), 3), ("L", u(0), 2), ("T", (("O", ("A", u(0), 4)), ("O", ("A", u(0), 2)), ("O", u(0)))),
    ]
    return fam
