"""Shared pieces of the compiler-core checks (C01 C02 C03 C08 C09 C10 C12 C14 C18): program generation,
term-level correspondence (implementation DAG = model term), run-time comparison."""
import itertools
import random

from framework import *  # noqa
import gen
import gentables
import progen

_tables = None


def tables():
    global _tables
    if _tables is None:
        _tables = gentables.regenerate()
    return _tables


def jet_catalog():
    t = tables()
    progen.ProgGen.BUILTIN_ALIASES = [(n, progen.sx_to_ty(tsx)) for (n, tsx) in t.get("aliases", []) if tsx is not None]
    known = set(int(x) for x in parse_sx(model("core", ["(knownjets)"])[0]))
    rows = []
    for r in t["jets"]:
        idx, name, params, ret = int(r[0]), r[1], r[2], r[3]
        if idx in known and name != "verify":
            rows.append((idx, name, [progen.sx_to_ty(p) for p in params], progen.sx_to_ty(ret)))
    return progen.jet_catalog(rows)


def gen_programs(chk, n, label, size=40, **kw):
    jets = jet_catalog()
    out = []
    for i in range(n):
        rng = chk.sub_rng("%s/%d" % (label, i))
        g = progen.ProgGen(rng, jets, size=size, **kw)
        try:
            g.generate()
        except RecursionError:
            continue
        g.label = "%s/%d" % (label, i)
        out.append(g)
    return out


def bindings_sx(pairs):
    return "(" + " ".join("(%s %s)" % (n, gen.val_sx(v)) for n, v in pairs) + ")"


def _weight(t):
    """upper bound on the number of nodes of a value of type t"""
    k = t[0]
    if k in ("B", "U"):
        return 1
    if k == "E":
        return 1 + max(_weight(t[1]), _weight(t[2]))
    if k == "O":
        return 1 + _weight(t[1])
    if k == "T":
        return 1 + sum(_weight(x) for x in t[1])
    if k == "A":
        return 1 + t[2] * _weight(t[1])
    if k == "L":
        return 1 + ((1 << t[2]) - 1) * _weight(t[1])
    return 1


def witness_assignments(rng, wits, exhaustive_cap=4096, sample=16):
    """assignments of all witnesses except EXPECT: exhaustive when the joint domain is small"""
    ws = [(n, t) for (n, t) in wits if n != "EXPECT"]
    dom = 1
    for _, t in ws:
        dom = min(1 << 30, dom * progen.domain_size(t))
    # exhaustive only when the enumeration itself stays small (a List<(), 4096> has few values, but long ones)
    if dom <= exhaustive_cap and dom * sum(_weight(t) for _, t in ws) <= 200000:
        vals = [progen.all_values(t) for _, t in ws]
        allc = list(itertools.product(*vals))
        if len(allc) > sample * 4:
            # keep the run time bounded: all corners + a sample; mark as sampled
            picked = [allc[0], allc[-1]] + rng.sample(allc, sample * 4 - 2)
            return [list(zip([n for n, _ in ws], c)) for c in picked], False, dom
        return [list(zip([n for n, _ in ws], c)) for c in allc], True, dom
    out = []
    for _ in range(sample):
        out.append([(n, gen.gen_val(rng, t)) for n, t in ws])
    return out, False, dom


class ProgResult:
    pass


def check_terms(chk, progs, args_of=lambda g: [(n, v) for (n, _, v) in g.params], dbgs=(0, 1), on_reject=None):
    """Gate T for compile: dump the typed AST from the implementation, compile it with the model, compare
    structural hashes of the two terms.  Returns the list of (prog, ast_sexp_text) that were accepted."""
    lines = ["(ast %s)" % quote(g.text) for g in progs]
    asts = impl("core", lines)
    accepted = []
    for g, a in zip(progs, asts):
        if a.startswith("(ok "):
            g.ast = a
            accepted.append(g)
        else:
            g.ast = None
            if on_reject:
                on_reject(g, a)
    # every dumped AST must satisfy the typing judgement the theorems assume (instance of their hypothesis)
    wl = ["(mwt %s %s %s)" % (ast_main(g.ast), bindings_sx(args_of(g)), ast_witnesses(g.ast)) for g in accepted]
    for g, w in zip(accepted, model("core", wl)):
        chk.count("wt." + w[:5])
        if w != "true":
            chk.violation({"class": "ast-not-well-typed", "what": "%s || %s" % (w[:100], g.text[:300])},
                          {"program": g.text, "model_wt": w, "ast": g.ast[:3000],
                           "broken": "the typed AST produced by ast.rs for an accepted program does not satisfy Lang/WT.v (hypothesis of compile_correct / compile_typed): front end accepted an ill-typed program (C03/C04) or WT.v is too strict"})
    for dbg in dbgs:
        tl = ["(term %s %s %d)" % (quote(g.text), bindings_sx(args_of(g)), dbg) for g in accepted]
        ml = ["(mterm %s %s %d)" % (ast_main(g.ast), bindings_sx(args_of(g)), dbg) for g in accepted]
        a = impl("core", tl)
        b = model("core", ml)
        for g, x, y in zip(accepted, a, b):
            chk.count("term.dbg%d" % dbg)
            g.__dict__.setdefault("term", {})[dbg] = (x, y)
            if x != y:
                cls = "compile-term"
                if x.startswith("PANIC") or x.startswith("CRASH"):
                    cls = "compile-panic"
                elif x.startswith("(cerr"):
                    cls = "cannot-compile"
                chk.violation({"class": cls, "what": "%s | %s" % (x[:120], g.text[:300])},
                              {"program": g.text, "arguments": bindings_sx(args_of(g)), "debug_symbols": dbg,
                               "implementation": x, "model": y, "cmd": "core", "line": tl[accepted.index(g)],
                               "broken": "correspondence: Simplicity term emitted by compile.rs vs Comp/Compile.v on the dumped typed AST"})
    return accepted


def ast_main(ast_text):
    """the main-expression part of an `(ok <expr> (params..) (witnesses..))` answer, textually"""
    assert ast_text.startswith("(ok ")
    s = ast_text
    depth = 0
    i = 4
    start = 4
    while i < len(s):
        c = s[i]
        if c == "(":
            depth += 1
        elif c == ")":
            depth -= 1
            if depth == 0:
                return s[start:i + 1]
        i += 1
    raise ValueError(ast_text[:100])


def ast_witnesses(ast_text):
    e = parse_sx(ast_text)
    return sx(e[3][1:])


def classify_impl(x):
    if x.startswith("(ok"):
        return "ok"
    if x.startswith("(fail"):
        return "failed"
    if x.startswith("PANIC") or x.startswith("CRASH"):
        return "panic"
    if x.startswith("(sat"):
        return "sat-error"
    return "other:" + x[:30]


def classify_model(y):
    m = re.match(r"\(sem (\w+)\) \(eval (\w+)\) \(lasteq (\w+)\)", y)
    if not m:
        return ("other:" + y[:40], "?", "none")
    return m.group(1), m.group(2), m.group(3)


def run_matrix(chk, accepted, dbgs=(0, 1), args_of=lambda g: [(n, v) for (n, _, v) in g.params], cmd="run",
               max_assign=None, on_case=None, fixed_witnesses=False, pruned=False, upstream_fixed=None):
    """Gate D for C01: for every accepted program and witness assignment, the implementation (satisfy ->
    encode -> decode -> Bit Machine) succeeds exactly when the model's source semantics returns unit.
    The EXPECT witness is set (a) to the value the source semantics computes for the observed expression
    and (b) to a different value, so that the computed value is pinned exactly."""
    jobs = []  # (g, assignment pairs incl EXPECT, dbg)
    for g in accepted:
        rng = chk.sub_rng("wit/" + g.label)
        if fixed_witnesses:
            assigns, exhaustive, dom = [list(g.fixed)], False, 1
        else:
            assigns, exhaustive, dom = witness_assignments(rng, g.witnesses)
        assigns = [a for a in getattr(g, "extra_assign", []) if a not in assigns] + assigns
        if max_assign:
            assigns = assigns[:max_assign]
        g.exhaustive = exhaustive
        chk.count("witness_space.exhaustive" if exhaustive else "witness_space.sampled")
        has_expect = any(n == "EXPECT" for n, _ in g.witnesses)
        if has_expect:
            k = [t for n, t in g.witnesses if n == "EXPECT"][0][1]
            # phase 1: model with EXPECT = 0 to learn the observed value
            ml = ["(mrun %s %s %s 0)" % (ast_main(g.ast), bindings_sx(args_of(g)), bindings_sx(a + [("EXPECT", ("u", k, 0))])) for a in assigns]
            res = model("core", ml)
            for a, y in zip(assigns, res):
                s, e, obs = classify_model(y)
                if obs != "none":
                    v = int(obs, 16)
                    w = 1 << k
                    other = (v + 1 + rng.randrange((1 << w) - 1)) % (1 << w) if w > 1 else 1 - v
                    if w == 1:
                        other = 1 - v
                    jobs.append((g, a + [("EXPECT", ("u", k, v))], "pin"))
                    jobs.append((g, a + [("EXPECT", ("u", k, other))], "off"))
                else:
                    jobs.append((g, a + [("EXPECT", ("u", k, 0))], "early"))
        else:
            for a in assigns:
                jobs.append((g, a, "plain"))
    n_ok = n_fail = 0
    for dbg in dbgs:
        il = ["(%s %s %s %s %d)" % (cmd, quote(g.text), bindings_sx(args_of(g)), bindings_sx(a), dbg) for (g, a, _) in jobs]
        ml = ["(mrun %s %s %s %d)" % (ast_main(g.ast), bindings_sx(args_of(g)), bindings_sx(a), dbg) for (g, a, _) in jobs]
        ia = impl("core", il)
        mb = model("core", ml)
        for (g, a, kind), x, y, iline in zip(jobs, ia, mb, il):
            ci = classify_impl(x)
            if pruned and ci == "sat-error":
                ci = "failed"   # satisfy_with_env(Some(env)) reports a failing run as Err
            s, e, obs = classify_model(y)
            chk.case(iline, nontrivial=True, sample={"program": g.text[:400], "witness": bindings_sx(a)[:200], "debug": dbg, "implementation": ci, "source_semantics": s})
            chk.count("run.%s.%s" % (kind, ci))
            if on_case:
                on_case(g, a, dbg, x, y)
            n_ok += ci == "ok"
            n_fail += ci == "failed"
            base = {"program": g.text, "arguments": bindings_sx(args_of(g)), "witness": bindings_sx(a), "debug_symbols": dbg,
                    "implementation": x, "model": y, "cmd": "core", "line": iline}
            if y.startswith("(unknown-jet"):
                chk.count("run.unknown_jet")
                continue
            if s == "stuck" or e == "stuck":
                chk.violation({"class": "model-stuck", "what": g.text[:200]}, dict(base, broken="the model got stuck on a program the front end accepted (typing hole or model defect)"))
                continue
            if ci == "panic":
                chk.violation({"class": "run-panic", "what": "%s || %s" % (x[:160], g.text[:200])}, dict(base, broken="satisfy/encode/decode/Bit Machine panicked"))
                continue
            if ci == "sat-error":
                chk.violation({"class": "satisfy-error", "what": "%s || %s" % (x[:160], g.text[:200])}, dict(base, broken="satisfy rejected type-correct witness values"))
                continue
            if pruned and ("DIFF" in x or "decode=ERR" in x) and "depprune=same" in x and "mexec=ok" in x:
                chk.violation({"class": "upstream-prune-encoding", "what": g.text[:300]}, dict(base, broken="the pruned program's encoding does not decode; the dependency's own prune of simfony's healthy unpruned program gives the same bytes (D15)"))
                continue
            if "DIFF" in x or "decode=ERR" in x:
                chk.violation({"class": "redeem-encoding", "what": "%s || %s" % (x[:160], g.text[:200])}, dict(base, broken="redeem program: CMR differs from commit / encoding does not decode"))
                continue
            want = "ok" if s == "ok" else "failed"
            if getattr(g, "expect", None) and ci != g.expect:
                # the program is built so that its outcome is known without any model (e.g. one value written in two notations)
                chk.violation({"class": "behaviour", "what": "built to end %s, impl=%s || %s" % (g.expect, ci, g.text[:200])},
                              dict(base, expected=g.expect, broken="a program whose outcome is fixed by construction (the same constant written in two notations and compared) ends differently"))
                continue
            if ci != want and pruned and "twins=yes" in x and ("mexec=ok" in x) == (want == "ok"):
                chk.violation({"class": "upstream-ihr-twins", "what": g.text[:300]}, dict(base, expected=want,
                              broken="the pruned program behaves as expected in memory but contains assertl / assertr twins with one identity hash; its encoding merges them (D13)"))
                continue
            if ci != want and upstream_fixed is not None:
                # does the failure disappear when only the dependency's known defect (D10) is corrected?
                cf = classify_impl(upstream_fixed(iline))
                if pruned and cf == "sat-error":
                    cf = "failed"
                if cf == want:
                    chk.violation({"class": "upstream-value-prune", "what": g.text[:300]}, dict(base, expected=want, with_corrected_dependency=cf,
                                  broken="pruned program behaves differently only because of simplicity-lang 0.4.0 Value::prune (D10)"))
                    continue
            if ci != want:
                chk.violation({"class": "behaviour", "what": "impl=%s source-semantics=%s || %s" % (ci, s, g.text[:200])},
                              dict(base, expected=want, broken="compiled program does not behave as the source semantics prescribe (theorem C01_compile_correct + correspondence)"))
            if (e == "ok") != (s == "ok"):
                chk.violation({"class": "model-internal", "what": "eval(compile)=%s sem=%s" % (e, s)}, dict(base, broken="model: eval of compiled term disagrees with sem (contradicts compile_correct: model instance outside its hypotheses?)"))
    chk.extra["runs_ok"] = chk.extra.get("runs_ok", 0) + n_ok
    chk.extra["runs_failed"] = chk.extra.get("runs_failed", 0) + n_fail
    return jobs


# ----------------------------------------------------------------------------- partially inspected witnesses
def _pw_type(rng, d):
    leaves = [("U", 0), ("U", 1), ("U", 2), ("U", 3), ("B",), gen.UNIT]
    if d == 0:
        return rng.choice(leaves)
    c = rng.random()
    if c < 0.42:
        return ("E", _pw_type(rng, d - 1), _pw_type(rng, d - 1))
    if c < 0.60:
        return ("O", _pw_type(rng, d - 1))
    if c < 0.85:
        return ("T", tuple(_pw_type(rng, d - 1) for _ in range(rng.choice([1, 2, 2, 3, 4, 5, 6]))))
    if c < 0.90:
        return ("A", _pw_type(rng, d - 1), rng.choice([1, 2, 3]))
    return rng.choice(leaves)


def _pw_inspect(rng, var, t, v, fresh, depth=0):
    """statements that look at part of `var : t`; `v` guides the choices so that most paths succeed"""
    from checks.c13 import assert_eq
    k = t[0]
    src = gen.ty_src
    if k in ("B", "U"):
        if rng.random() < 0.55:
            return assert_eq(var, t, v, fresh)
        return []
    if k == "E":
        a, b = t[1], t[2]
        is_left = v[0] == "l"
        act = rng.choices(["unwrap", "match-one", "match-both", "ignore"], [4, 3, 2, 1])[0]
        if act == "ignore":
            return []
        if act == "unwrap":
            side_left = is_left if rng.random() < 0.9 else not is_left
            n = fresh()
            if side_left:
                pv = v[1] if is_left else gen.gen_val(rng, a)
                return ["let %s: %s = unwrap_left::<%s>(%s);" % (n, src(a), src(b), var)] + _pw_inspect(rng, n, a, pv, fresh, depth + 1)
            pv = v[2] if not is_left else gen.gen_val(rng, b)
            return ["let %s: %s = unwrap_right::<%s>(%s);" % (n, src(b), src(a), var)] + _pw_inspect(rng, n, b, pv, fresh, depth + 1)
        l, r = fresh(), fresh()
        ls = _pw_inspect(rng, l, a, v[1] if is_left else gen.gen_val(rng, a), fresh, depth + 1)
        rs = _pw_inspect(rng, r, b, v[2] if not is_left else gen.gen_val(rng, b), fresh, depth + 1)
        if act == "match-one":
            if (rng.random() < 0.7) == is_left:
                rs = []
            else:
                ls = []
        blk = lambda ss: "{ %s }" % " ".join(ss) if ss else "()"
        return ["match %s { Left(%s: %s) => %s, Right(%s: %s) => %s, };" % (var, l, src(a), blk(ls), r, src(b), blk(rs))]
    if k == "O":
        a = t[1]
        is_some = v[0] == "s"
        act = rng.choices(["unwrap", "match", "is_none", "ignore"], [4, 3, 1, 1])[0]
        if act == "ignore":
            return []
        if act == "is_none":
            return ["assert!(is_none::<%s>(%s));" % (src(a), var)] if not is_some or rng.random() < 0.2 else []
        n = fresh()
        pv = v[1] if is_some else gen.gen_val(rng, a)
        inner = _pw_inspect(rng, n, a, pv, fresh, depth + 1)
        if act == "unwrap":
            if not is_some and rng.random() < 0.9:
                return []
            return ["let %s: %s = unwrap(%s);" % (n, src(a), var)] + inner
        blk = "{ %s }" % " ".join(inner) if inner else "()"
        return ["match %s { None => (), Some(%s: %s) => %s, };" % (var, n, src(a), blk)]
    if k in ("T", "A"):
        comps = list(t[1]) if k == "T" else [t[1]] * t[2]
        vals = list(v[1]) if k == "T" else list(v[2])
        if not comps or rng.random() < 0.1:
            return []
        names = [fresh() if rng.random() < 0.6 else "_" for _ in comps]
        if k == "T":
            pat = "(%s,)" % names[0] if len(names) == 1 else "(%s)" % ", ".join(names)
        else:
            pat = "[%s]" % ", ".join(names)
        out = ["let %s: %s = %s;" % (pat, src(t), var)]
        for n, tt, vv in zip(names, comps, vals):
            if n != "_":
                out += _pw_inspect(rng, n, tt, vv, fresh, depth + 1)
        return out
    return []


def _pw_chain(rng):
    """a chain of nested sums around a small leaf, the other arms of unequal widths: (type, value along the chain)"""
    t = rng.choice([("B",), ("U", 0), ("U", 1), ("U", 2), ("T", (("U", 1), ("B",)))])
    v = gen.gen_val(rng, t)
    for _ in range(rng.choice([2, 2, 3, 4])):
        other = rng.choice([("U", 0), ("U", 1), ("U", 2), ("U", 3), ("U", 4), gen.UNIT, ("B",), ("T", (("U", 3), ("U", 1))), ("O", ("U", 2))])
        c = rng.random()
        if c < 0.4:
            t, v = ("E", t, other), ("l", v, other)
        elif c < 0.8:
            t, v = ("E", other, t), ("r", other, v)
        else:
            t, v = ("O", t), ("s", v)
    return t, v


def partial_witness_programs(chk, n, label):
    """programs that inspect only part of a (nested sum / product) witness: the inferred type of the witness node is then
    smaller than the declared type, which is where satisfy has to re-type (prune) the supplied value"""
    from checks.c08 import Prog
    from checks.c13 import Fresh
    out = []
    for i in range(n):
        rng = chk.sub_rng("%s/%d" % (label, i))
        nw = rng.choice([1, 1, 2])
        fresh = Fresh()
        body, wits, guide = [], [], []
        for j in range(nw):
            c = rng.random()
            if c < 0.4:
                t, v = _pw_chain(rng)
            elif c < 0.55:
                # a wide tuple (4..7 components, possibly inside a sum) of which few components are looked at
                t = ("T", tuple(rng.choice([("U", 3), ("U", 0), ("B",), ("U", 4), gen.UNIT, ("O", ("U", 1))]) for _ in range(rng.choice([4, 4, 5, 6, 7]))))
                if rng.random() < 0.3:
                    t = ("E", t, ("U", 3)) if rng.random() < 0.5 else ("O", t)
                v = gen.gen_val(rng, t)
                if t[0] == "E" and v[0] != "l":
                    v = ("l", gen.gen_val(rng, t[1]), t[2])
                if t[0] == "O" and v[0] != "s":
                    v = ("s", gen.gen_val(rng, t[1]))
            else:
                t = _pw_type(rng, rng.choice([2, 3, 3, 4]))
                v = gen.gen_val(rng, t)
            body.append("let w%d: %s = witness::W%d;" % (j, gen.ty_src(t), j))
            body += _pw_inspect(rng, "w%d" % j, t, v, fresh)
            wits.append(("W%d" % j, t))
            guide.append(("W%d" % j, v))
        p = Prog("fn main() { %s }" % " ".join(body), wits, "%s/%d" % (label, i))
        p.extra_assign = [guide]
        out.append(p)
    return out


# ----------------------------------------------------------------------------- strictness: effects of discarded values
def effect_programs():
    """every initializer is evaluated, also when its value is discarded by the pattern (call by value): fallible expressions
    bound to identifier-free patterns / dropped by statements, in main, nested blocks, match arms and function bodies"""
    from checks.c08 import Prog
    B, U8 = ("B",), ("U", 3)
    fall = [
        ("unwrap(witness::O)", {"O": ("O", U8)}, "u8", ""),
        ("unwrap_left::<u8>(witness::E)", {"E": ("E", B, U8)}, "bool", ""),
        ("unwrap_right::<bool>(witness::E)", {"E": ("E", B, U8)}, "u8", ""),
        ("assert!(witness::B)", {"B": B}, "()", ""),
        ("chk(witness::B)", {"B": B}, "(u8, bool)", "fn chk(b: bool) -> (u8, bool) { assert!(b); (1, b) }\n"),
        ("match witness::B { true => 7, false => panic!(), }", {"B": B}, "u8", ""),
        ("{ assert!(witness::B); 3 }", {"B": B}, "u8", ""),
        ("[unwrap(witness::O), 1]", {"O": ("O", U8)}, "[u8; 2]", ""),
        ("(unwrap(witness::O), assert!(witness::B))", {"O": ("O", U8), "B": B}, "(u8, ())", ""),
        ("dbg!(unwrap(witness::O))", {"O": ("O", U8)}, "u8", ""),
        ("<u8>::into(unwrap(witness::O))", {"O": ("O", U8)}, "u8", ""),
        ("Some(unwrap(witness::O))", {"O": ("O", U8)}, "Option<u8>", ""),
        # the failure sits in the body of a function that a fold / loop / call applies
        ("fold::<fd, 4>(witness::L, 7)", {"L": ("L", B, 2)}, "u8", "fn fd(e: bool, a: u8) -> u8 { assert!(e); a }\n"),
        ("for_while::<lp>(witness::B, ())", {"B": B}, "Either<u8, bool>", "fn lp(a: bool, c: (), i: u2) -> Either<u8, bool> { assert!(a); Right(a) }\n"),
        ("twice(witness::O)", {"O": ("O", U8)}, "u8", "fn once(o: Option<u8>) -> u8 { unwrap(o) }\nfn twice(o: Option<u8>) -> u8 { once(o) }\n"),
    ]
    pats = {"Either<u8, bool>": ["_"], "u8": ["_"], "bool": ["_"], "()": ["_", "()"], "(u8, bool)": ["_", "(_, _)"], "[u8; 2]": ["_", "[_, _]"], "(u8, ())": ["_", "(_, _)", "(_, ())"], "Option<u8>": ["_"]}
    places = [
        ("main", "%(fns)sfn main() { let %(p)s: %(t)s = %(e)s; }"),
        ("main-then", "%(fns)sfn main() { let %(p)s: %(t)s = %(e)s; let k: u8 = 1; assert!(jet::eq_8(k, 1)); }"),
        ("nested-block", "%(fns)sfn main() { { let %(p)s: %(t)s = %(e)s; }; }"),
        ("block-value", "%(fns)sfn main() { let k: u8 = { let %(p)s: %(t)s = %(e)s; 4 }; assert!(jet::eq_8(k, 4)); }"),
        ("match-arm", "%(fns)sfn main() { match true { true => { let %(p)s: %(t)s = %(e)s; }, false => (), }; }"),
        ("function", "%(fns)sfn g() -> u8 { let %(p)s: %(t)s = %(e)s; 9 }\nfn main() { assert!(jet::eq_8(g(), 9)); }"),
    ]
    out = []
    for e, wt, t, fns in fall:
        for p in pats[t]:
            for pl, tmpl in places:
                if pl == "function" and "witness::" in e:
                    continue   # witnesses may only be used in main
                text = tmpl % {"fns": fns, "p": p, "t": t, "e": e}
                out.append(Prog(text, list(wt.items()), "effect/%s/%s/%s" % (pl, p, e[:24])))
    # in functions: the fallible value is passed in
    for p, t, e in [("_", "u8", "unwrap(o)"), ("()", "()", "assert!(is_none::<u8>(o))"), ("(_, _)", "(u8, u8)", "(unwrap(o), 2)")]:
        text = "fn g(o: Option<u8>) -> u8 { let %s: %s = %s; 9 }\nfn main() { assert!(jet::eq_8(g(witness::O), 9)); }" % (p, t, e)
        out.append(Prog(text, [("O", ("O", U8))], "effect/fn/%s/%s" % (p, e[:20])))
    return out


# ----------------------------------------------------------------------------- scope x type family
def scope_type_family():
    """a name re-bound at a DIFFERENT type in a nested scope (block, function body, match arm): well-typed uses ("W", must be
    accepted and behave) and ill-typed uses ("I", must be rejected); plus several plain variables observed at once after a
    destructured name was re-bound.  Lookup mistakes in the typing side and in the code-generation side show differently:
    the former only when the types differ, the latter only when several variables are fetched together."""
    pairs = [("u8", "1", "u16", "300", "eq_8", "eq_16"), ("u16", "7", "u8", "9", "eq_16", "eq_8"), ("u8", "5", "u32", "70000", "eq_8", "eq_32")]
    out = []
    for (t1, v1, t2, v2, e1, e2) in pairs:
        d = dict(t1=t1, v1=v1, t2=t2, v2=v2, e1=e1, e2=e2)
        for tag, tmpl in [
            ("W", "fn main() { let a: %(t1)s = %(v1)s; let b: %(t2)s = { let a: %(t2)s = %(v2)s; a }; assert!(jet::%(e2)s(b, %(v2)s)); assert!(jet::%(e1)s(a, %(v1)s)); }"),
            ("I", "fn main() { let a: %(t1)s = %(v1)s; let b: %(t1)s = { let a: %(t2)s = %(v2)s; a }; assert!(jet::%(e1)s(a, %(v1)s)); }"),
            ("W", "fn main() { let a: %(t1)s = %(v1)s; { let a: %(t2)s = %(v2)s; assert!(jet::%(e2)s(a, %(v2)s)); }; assert!(jet::%(e1)s(a, %(v1)s)); }"),
            ("I", "fn main() { let a: %(t1)s = %(v1)s; { let a: %(t2)s = %(v2)s; assert!(jet::%(e1)s(a, %(v1)s)); }; }"),
            ("I", "fn main() { let a: %(t1)s = %(v1)s; { let a: %(t2)s = %(v2)s; }; assert!(jet::%(e2)s(a, %(v2)s)); }"),
            ("W", "fn f(a: %(t1)s) -> %(t2)s { let a: %(t2)s = %(v2)s; a }\nfn main() { assert!(jet::%(e2)s(f(%(v1)s), %(v2)s)); }"),
            ("I", "fn f(a: %(t1)s) -> %(t1)s { let a: %(t2)s = %(v2)s; a }\nfn main() { assert!(jet::%(e1)s(f(%(v1)s), %(v1)s)); }"),
            ("W", "fn f(a: %(t1)s) -> %(t1)s { let b: %(t2)s = { let a: %(t2)s = %(v2)s; a }; a }\nfn main() { assert!(jet::%(e1)s(f(%(v1)s), %(v1)s)); }"),
            ("W", "fn main() { let a: %(t1)s = %(v1)s; let e: Either<%(t2)s, ()> = Left(%(v2)s); match e { Left(a: %(t2)s) => assert!(jet::%(e2)s(a, %(v2)s)), Right(u: ()) => assert!(jet::%(e1)s(a, %(v1)s)), }; assert!(jet::%(e1)s(a, %(v1)s)); }"),
            ("I", "fn main() { let a: %(t1)s = %(v1)s; let e: Either<%(t2)s, ()> = Left(%(v2)s); match e { Left(a: %(t2)s) => assert!(jet::%(e1)s(a, %(v1)s)), Right(u: ()) => (), }; }"),
            ("W", "fn main() { let a: %(t1)s = %(v1)s; let o: Option<%(t2)s> = Some(%(v2)s); match o { None => assert!(jet::%(e1)s(a, %(v1)s)), Some(a: %(t2)s) => assert!(jet::%(e2)s(a, %(v2)s)), }; }"),
            ("W", "fn f(b: %(t2)s) -> %(t2)s { b }\nfn main() { let a: %(t1)s = %(v1)s; assert!(jet::%(e2)s(f(%(v2)s), %(v2)s)); assert!(jet::%(e1)s(a, %(v1)s)); }"),
            ("I", "fn f(b: %(t2)s) -> %(t1)s { a }\nfn main() { let a: %(t1)s = %(v1)s; assert!(jet::%(e1)s(f(%(v2)s), %(v1)s)); }"),
        ]:
            out.append((tag, tmpl % d))
    # three levels: the name is bound in two enclosing scopes and read from a third, deeper one
    for (t1, v1, t2, v2, e1, e2) in pairs:
        d = dict(t1=t1, v1=v1, t2=t2, v2=v2, e1=e1, e2=e2)
        for tag, tmpl in [
            ("W", "fn main() { let x: %(t1)s = %(v1)s; { let x: %(t2)s = %(v2)s; { assert!(jet::%(e2)s(x, %(v2)s)); }; }; assert!(jet::%(e1)s(x, %(v1)s)); }"),
            ("I", "fn main() { let x: %(t1)s = %(v1)s; { let x: %(t2)s = %(v2)s; { assert!(jet::%(e1)s(x, %(v1)s)); }; }; }"),
            ("W", "fn main() { let x: %(t1)s = %(v1)s; { let x: %(t2)s = %(v2)s; match true { true => assert!(jet::%(e2)s(x, %(v2)s)), false => (), }; }; }"),
            ("W", "fn f(x: %(t1)s) -> %(t2)s { let x: %(t2)s = %(v2)s; match true { true => { x }, false => { let y: %(t2)s = x; y }, } }\nfn main() { assert!(jet::%(e2)s(f(%(v1)s), %(v2)s)); }"),
            ("I", "fn f(x: %(t1)s) -> %(t1)s { let x: %(t2)s = %(v2)s; match true { true => { x }, false => { x }, } }\nfn main() { assert!(jet::%(e1)s(f(%(v1)s), %(v1)s)); }"),
            ("W", "fn main() { let x: %(t1)s = %(v1)s; let y: %(t2)s = { let x: %(t2)s = %(v2)s; { let z: %(t2)s = { x }; z } }; assert!(jet::%(e2)s(y, %(v2)s)); assert!(jet::%(e1)s(x, %(v1)s)); }"),
            ("W", "fn main() { let x: %(t1)s = %(v1)s; match Some(%(v2)s) { None => (), Some(x: %(t2)s) => { { assert!(jet::%(e2)s(x, %(v2)s)); }; }, }; assert!(jet::%(e1)s(x, %(v1)s)); }"),
        ]:
            out.append((tag, tmpl % d))
    out.append(("W", "fn main() { let (a, b): (u8, u8) = (1, 2); let c: u8 = 3; let a: u8 = 4; let t: (u8, u8) = (a, c); assert!(jet::eq_16(<(u8, u8)>::into(t), 1027)); let s: (u8, u8) = (b, a); assert!(jet::eq_16(<(u8, u8)>::into(s), 516)); }"))
    out.append(("W", "fn g(x: u8, y: u8) -> u16 { <(u8, u8)>::into((x, y)) }\nfn f(a: u8, b: u8) -> u16 { let a: u8 = 9; g(a, b) }\nfn main() { assert!(jet::eq_16(f(1, 2), 2306)); }"))
    out.append(("W", "fn main() { let [a, b]: [u8; 2] = [1, 2]; let a: u8 = 7; let (x, y): (u8, u8) = (a, b); assert!(jet::eq_8(x, 7)); assert!(jet::eq_8(y, 2)); let arr: [u8; 2] = [b, a]; let [p, q]: [u8; 2] = arr; assert!(jet::eq_8(p, 2)); assert!(jet::eq_8(q, 7)); }"))
    out.append(("W", "fn h(a: u8, b: u8, c: u8) -> (u8, u8, u8) { let b: u8 = 8; let (c, a): (u8, u8) = (a, c); (a, b, c) }\nfn main() { let (x, y, z): (u8, u8, u8) = h(1, 2, 3); assert!(jet::eq_8(x, 3)); assert!(jet::eq_8(y, 8)); assert!(jet::eq_8(z, 1)); }"))
    return out


# ----------------------------------------------------------------------------- literal notations
def literal_programs(chk):
    """an integer constant written in each legal notation at each width, compared leaf by leaf (eq jets on halves) with the same
    value written in decimal: byte order and digit handling of the hex / binary forms are observable in the compiled program"""
    from checks.c08 import Prog
    from checks.c13 import assert_eq, Fresh
    rng = chk.sub_rng("literals")
    out = []
    for k in range(0, 9):
        w = 1 << k
        for _ in range(2):
            v = rng.getrandbits(w) | (1 << (w - 1) if w > 8 else 0)
            forms = [("dec", str(v))]
            if w >= 8:
                forms.append(("hex", "0x%0*x" % (w // 4, v)))
            if w <= 64 or True:
                forms.append(("bin", "0b" + format(v, "0%db" % w)))
            for nm, lit in forms:
                fresh = Fresh()
                body = ["let x: u%d = %s;" % (w, lit)] + assert_eq("x", ("U", k), ("u", k, v), fresh)
                p = Prog("fn main() { %s }" % " ".join(body), [], "literal/%d/%s/%x" % (w, nm, v))
                p.expect = "ok"
                out.append(p)
    # byte arrays in hex notation
    for n in (1, 2, 5, 16, 32):
        bs = [rng.getrandbits(8) for _ in range(n)]
        fresh = Fresh()
        body = ["let x: [u8; %d] = 0x%s;" % (n, "".join("%02x" % b for b in bs))] + assert_eq("x", ("A", ("U", 3), n), ("a", ("U", 3), tuple(("u", 3, b) for b in bs)), fresh) if n <= 4 else \
               ["let x: [u8; %d] = 0x%s; let y: [u8; %d] = [%s]; let a: u8 = %s;" % (n, "".join("%02x" % b for b in bs), n, ", ".join(str(b) for b in bs), "1")]
        out.append(Prog("fn main() { %s }" % " ".join(body), [], "literal/bytes/%d" % n))
    return out


# ----------------------------------------------------------------------------- long scopes
def long_scope_programs(chk):
    """many live bindings between a binding and its use (the environment is a nested product; the selector of a variable has
    one step per binding that came after it): straight-line lets, with a block and a function in between"""
    from checks.c08 import Prog
    rng = chk.sub_rng("longscope")
    out = []
    for n in (10, 31, 32, 33, 62, 63, 64, 65, 70, 127, 128, 129, 200):
        vals = [rng.randrange(256) for _ in range(n)]
        lets = " ".join("let v%d: u8 = %d;" % (i, vals[i]) for i in range(n))
        for j in sorted({0, 1, n // 2, max(n - 64, 0), max(n - 63, 0), n - 2, n - 1}):
            p = Prog("fn main() { %s assert!(jet::eq_8(v%d, %d)); }" % (lets, j, vals[j]), [], "longscope/%d/%d" % (n, j))
            p.expect = "ok"
            p.fixed = []
            out.append(p)
        # the same inside a function whose parameters are the oldest bindings, and with a nested block in the middle
        j = rng.randrange(n)
        p = Prog("fn f(p0: u8, p1: u8) -> u8 { %s let r: u8 = jet::xor_8(jet::xor_8(p0, jet::left_rotate_8(1, p1)), v%d); r }\nfn main() { assert!(jet::eq_8(f(%d, %d), %d)); }"
                 % (lets, j, 5, 9, 5 ^ 18 ^ vals[j]), [], "longscope-fn/%d" % n)
        p.expect = "ok"
        p.fixed = []
        out.append(p)
        h = n // 2
        lets2 = " ".join("let v%d: u8 = %d;" % (i, vals[i]) for i in range(h)) + " let w: u8 = { " + " ".join("let v%d: u8 = %d;" % (i, vals[i]) for i in range(h, n)) + " jet::xor_8(v0, v%d) };" % (n - 1)
        p = Prog("fn main() { %s assert!(jet::eq_8(w, %d)); assert!(jet::eq_8(v0, %d)); }" % (lets2, vals[0] ^ vals[n - 1], vals[0]), [], "longscope-block/%d" % n)
        p.expect = "ok"
        p.fixed = []
        out.append(p)
    return out


# ----------------------------------------------------------------------------- variables bound together, one shadowed, used together again
def shadow_product_programs():
    """several variables bound by ONE pattern (tuple / array pattern, parameter list), one of them re-bound afterwards (same type;
    in the same block, in a nested block, by a nested pattern), then all of them used together in their original order as a tuple,
    an array or an argument list: every use denotes the newest binding.  Outcome fixed by construction."""
    from checks.c08 import Prog
    out = []
    binds = [
        ("tuple", "let (a, b): (u8, u8) = (1, 2);"),
        ("array", "let [a, b]: [u8; 2] = [1, 2];"),
        ("nested", "let ((a, b), c): ((u8, u8), u8) = ((1, 2), 3);"),
        ("triple", "let (a, b, c): (u8, u8, u8) = (1, 2, 3);"),
    ]
    shadows = [
        ("first", "let a: u8 = 7;", (7, 2)),
        ("second", "let b: u8 = 9;", (1, 9)),
        ("both-swapped", "let (b, a): (u8, u8) = (a, b);", (2, 1)),
        ("nested-pattern", "let ((a, k), m): ((u8, u8), u8) = ((7, 0), 0);", (7, 2)),
        ("self", "let a: u8 = jet::xor_8(a, 4);", (5, 2)),
    ]
    uses = [
        ("tuple", "let (x, y): (u8, u8) = (a, b);"),
        ("array", "let [x, y]: [u8; 2] = [a, b];"),
        ("call", "let (x, y): (u8, u8) = pair(a, b);"),
        ("jet", "let x: u8 = jet::xor_8(a, b); let y: u8 = jet::xor_8(x, a);"),
        ("in-block", "let (x, y): (u8, u8) = { (a, b) };"),
    ]
    for bn, b in binds:
        for sn, sh, (va, vb) in shadows:
            for un, u in uses:
                if un == "jet":
                    ex, ey = va ^ vb, vb
                else:
                    ex, ey = va, vb
                for place in ("same", "inner"):
                    if place == "same":
                        body = "%s %s %s assert!(jet::eq_8(x, %d)); assert!(jet::eq_8(y, %d));" % (b, sh, u, ex, ey)
                    else:
                        # the shadowing binding lives in a nested block; after the block the outer bindings count again
                        body = ("%s { %s %s assert!(jet::eq_8(x, %d)); assert!(jet::eq_8(y, %d)); }; let (p, q): (u8, u8) = (a, b); assert!(jet::eq_8(p, 1)); assert!(jet::eq_8(q, 2));"
                                % (b, sh, u, ex, ey))
                    p = Prog("fn pair(a: u8, b: u8) -> (u8, u8) { (a, b) }\nfn main() { %s }" % body, [], "shadow-product/%s/%s/%s/%s" % (bn, sn, un, place))
                    p.expect = "ok"
                    p.fixed = []
                    out.append(p)
    # parameters of a function bound together, one shadowed in the body
    for sn, sh, (va, vb) in shadows[:3] + shadows[4:]:
        p = Prog("fn pair(a: u8, b: u8) -> (u8, u8) { (a, b) }\nfn g(a: u8, b: u8) -> (u8, u8) { %s pair(a, b) }\nfn main() { let (x, y): (u8, u8) = g(1, 2); assert!(jet::eq_8(x, %d)); assert!(jet::eq_8(y, %d)); }"
                 % (sh, va, vb), [], "shadow-product/params/%s" % sn)
        p.expect = "ok"
        p.fixed = []
        out.append(p)
    return out
