#!/usr/bin/env python3
"""Seeded-change bookkeeping.
   seeded.py confirm <worktree> <name>     : re-verify a sub-agent's change in its scratch worktree and store it under seeded/<name>/
   seeded.py run <name> <check id>...      : apply seeded/<name>/patch.diff to /repo, run the checks (quick), undo, report
"""
import json
import os
import shutil
import subprocess
import sys

VERIF = os.path.dirname(os.path.dirname(os.path.abspath(__file__)))
REPO = "/repo"


def sh(cmd, cwd=None, timeout=3600):
    p = subprocess.run(cmd, cwd=cwd, shell=True, stdout=subprocess.PIPE, stderr=subprocess.STDOUT, text=True, timeout=timeout)
    return p.returncode, p.stdout


def confirm(wt, name):
    d = os.path.join(VERIF, "seeded", name)
    os.makedirs(d, exist_ok=True)
    patch = os.path.join(wt, "mutant.diff")
    # the tree must hold exactly the patch
    rc, cur = sh("git diff -- src", cwd=wt)
    if cur.strip() != open(patch).read().strip():
        print("tree differs from mutant.diff: resetting")
        sh("git checkout -- src && git apply mutant.diff", cwd=wt)
    log = {}
    demo_tests = [f for f in os.listdir(os.path.join(wt, "tests"))] if os.path.isdir(os.path.join(wt, "tests")) else []
    rc, out = sh("cargo build --offline 2>&1 | tail -3", cwd=wt)
    log["build"] = out.strip()[-200:]
    rc1, out = sh("cargo test --workspace --offline --lib --bins 2>&1 | grep -E '^test result|FAILED|failed' | head", cwd=wt)
    log["existing_suite_with_change"] = out.strip()
    rc2, out = sh("cargo test --offline --test demo_mutant 2>&1 | grep -E '^test |^test result' | head -20", cwd=wt)
    log["demo_with_change"] = out.strip()
    sh("git apply -R mutant.diff", cwd=wt)
    rc3, out = sh("cargo test --offline --test demo_mutant 2>&1 | grep -E '^test |^test result' | head -20", cwd=wt)
    log["demo_without_change"] = out.strip()
    sh("git apply mutant.diff", cwd=wt)
    ok = ("FAILED" not in log["existing_suite_with_change"] and "failed" in log["demo_with_change"] and "FAILED" not in log["demo_without_change"] and "ok" in log["demo_without_change"])
    shutil.copy(patch, os.path.join(d, "patch.diff"))
    for f in os.listdir(os.path.join(wt, "demo")):
        shutil.copy(os.path.join(wt, "demo", f), os.path.join(d, f))
    meta = json.load(open(os.path.join(wt, "meta.json"))) if os.path.exists(os.path.join(wt, "meta.json")) else {}
    meta["confirmed_by_main"] = log
    meta["confirmed"] = ok
    # the patch must apply to /repo as it is now
    rc, out = sh("git apply --check %s" % os.path.join(d, "patch.diff"), cwd=REPO)
    meta["applies_to_repo_head"] = rc == 0
    json.dump(meta, open(os.path.join(d, "meta.json"), "w"), indent=1)
    print(json.dumps(log, indent=1))
    print("CONFIRMED" if ok else "NOT CONFIRMED", "applies:", rc == 0)
    return ok


def run(name, checks):
    d = os.path.join(VERIF, "seeded", name)
    rc, out = sh("git status --porcelain", cwd=REPO)
    if out.strip():
        print("refusing: /repo is dirty:\n" + out)
        return 2
    rc, out = sh("git apply %s" % os.path.join(d, "patch.diff"), cwd=REPO)
    if rc != 0:
        print("patch does not apply:", out)
        return 2
    results = {}
    try:
        for c in checks:
            rc, out = sh("./check %s --tier quick" % c, cwd=VERIF, timeout=3600)
            lines = [l for l in out.split("\n") if l.startswith("VIOLATION") or l.startswith("KNOWN")]
            results[c] = {"exit": rc, "lines": lines[:6], "concrete": sum(1 for l in lines if l.startswith("VIOLATION") and not l.endswith("no-failing-input-found")), "no_input": sum(1 for l in lines if l.endswith("no-failing-input-found"))}
            vio = [l for l in lines if l.startswith("VIOLATION")]
            print("%s exit=%d violations=%d known=%d" % (c, rc, len(vio), len(lines) - len(vio)), *vio[:3], sep="\n  ")
    finally:
        sh("git checkout -- .", cwd=REPO)
        # the generated Coq files were regenerated from the changed tree: bring them back to the real one
        sh("python3 -c \"import sys; sys.path.insert(0,'tools'); from svlib import *; build_harness(); import gentables; gentables.regenerate()\"", cwd=VERIF)
    meta_p = os.path.join(d, "meta.json")
    meta = json.load(open(meta_p)) if os.path.exists(meta_p) else {}
    meta.setdefault("check_results", {}).update(results)
    json.dump(meta, open(meta_p, "w"), indent=1)
    # restore evidence of the unchanged tree
    for c in checks:
        rc, out = sh("./check %s --tier quick" % c, cwd=VERIF, timeout=3600)
        print("clean re-run", c, "exit", rc)
    return 0


if __name__ == "__main__":
    if sys.argv[1] == "confirm":
        sys.exit(0 if confirm(sys.argv[2], sys.argv[3]) else 1)
    if sys.argv[1] == "run":
        sys.exit(run(sys.argv[2], sys.argv[3:]))
