"""Regenerates coq/Gen/*.v from /repo's current source on every run (the translator side of the tie):
   JetTable.v  — every Elements jet with the parameter/result types simfony::jet returns now and
                 simplicity-lang's own source/target types;
   Aliases.v   — BuiltinAlias::resolve for every alias literal of the grammar;
   Grammar.v   — src/minimal.pest through pest_meta's parser, printed as a value of Text/Peg.v's datatype."""
import os
import re

from svlib import *  # noqa

GEN = os.path.join(COQ, "Gen")


def write_if_changed(path, text):
    if os.path.exists(path) and open(path).read() == text:
        return False
    with open(path, "w") as f:
        f.write(text)
    return True


def coq_ty(t):
    if t == "B":
        return "TBool"
    tag = t[0]
    if tag == "U":
        return "(TUInt %s)" % t[1]
    if tag == "E":
        return "(TEither %s %s)" % (coq_ty(t[1]), coq_ty(t[2]))
    if tag == "O":
        return "(TOption %s)" % coq_ty(t[1])
    if tag == "T":
        return "(TTuple [%s])" % "; ".join(coq_ty(x) for x in t[1:])
    if tag == "A":
        return "(TArray %s %s)" % (coq_ty(t[1]), t[2])
    if tag == "L":
        return "(TList %s %s)" % (coq_ty(t[1]), t[2])
    raise ValueError(t)


def coq_sty(t):
    if t == "1":
        return "SUnit"
    if t[0] == "W":
        return "(two_two_n %s)" % t[1]
    if t[0] == "+":
        return "(SSum %s %s)" % (coq_sty(t[1]), coq_sty(t[2]))
    if t[0] == "*":
        return "(SProd %s %s)" % (coq_sty(t[1]), coq_sty(t[2]))
    raise ValueError(t)


def coq_string(s):
    # Coq string literal; only printable ASCII is expected in names
    return '"' + s.replace('"', '""') + '"'


def gen_jets():
    out = impl("tables", ["(jets)"])[0]
    rows = parse_sx(out)
    lines = []
    for r in rows:
        idx, name, params, ret, src, tgt = r
        lines.append("  (%s%%N, %s, [%s], %s, %s, %s)" % (idx, coq_string(name), "; ".join(coq_ty(p) for p in params), coq_ty(ret), coq_sty(src), coq_sty(tgt)))
    text = ("(* GENERATED on every run by tools/gentables.py from simfony::jet::{source_type,target_type} and\n"
            "   simplicity-lang's Jet::{source_ty,target_ty} for every member of Elements::ALL.  Do not edit. *)\n"
            "From Coq Require Import List NArith String.\nImport ListNotations.\n"
            "Require Import SV.Simp.Core SV.Layout.Ty.\nOpen Scope string_scope.\n\n"
            "Definition jet_rows : list (N * string * list ty * ty * sty * sty) := [\n" + ";\n".join(lines) + "\n].\n")
    write_if_changed(os.path.join(GEN, "JetTable.v"), text)
    return rows


def grammar_rules():
    out = impl("tables", ["(grammar %s)" % quote(os.path.join(REPO, "src", "minimal.pest"))])[0]
    if out.startswith("ERR") or out.startswith("PANIC"):
        raise BuildError("cannot translate the grammar: " + out)
    return parse_sx(out)


def literals_of(expr):
    if isinstance(expr, list):
        if expr[0] == "str":
            yield expr[1]
        else:
            for x in expr[1:]:
                yield from literals_of(x)


def gen_aliases(rules):
    names = []
    for r in rules:
        if r[1] == "builtin_alias":
            names = list(literals_of(r[3]))
    res = impl("tables", ["(alias %s)" % n for n in names])
    lines = []
    for n, t in zip(names, res):
        if t == "none":
            lines.append("  (%s, None)" % coq_string(n))
        else:
            lines.append("  (%s, Some %s)" % (coq_string(n), coq_ty(parse_sx(t))))
    text = ("(* GENERATED on every run by tools/gentables.py: BuiltinAlias::from_str(..).resolve() for every literal of the\n"
            "   grammar rule builtin_alias.  Do not edit. *)\n"
            "From Coq Require Import List NArith String.\nImport ListNotations.\n"
            "Require Import SV.Layout.Ty.\nOpen Scope string_scope.\n\n"
            "Definition builtin_aliases : list (string * option ty) := [\n" + ";\n".join(lines) + "\n].\n")
    write_if_changed(os.path.join(GEN, "Aliases.v"), text)
    return [(n, None if t == "none" else parse_sx(t)) for n, t in zip(names, res)]


def coq_peg(e):
    tag = e[0]
    if tag == "str":
        return "(PStr %s)" % coq_bytes(e[1])
    if tag == "insens":
        return "(PInsens %s)" % coq_bytes(e[1])
    if tag == "range":
        return "(PRange %d%%N %d%%N)" % (ord(e[1][0]), ord(e[2][0]))
    if tag == "id":
        return "(PId %s)" % coq_string(e[1])
    if tag in ("pos", "neg", "opt", "rep", "rep1"):
        return "(%s %s)" % ({"pos": "PPos", "neg": "PNeg", "opt": "POpt", "rep": "PRep", "rep1": "PRep1"}[tag], coq_peg(e[1]))
    if tag == "seq":
        return "(PSeq %s %s)" % (coq_peg(e[1]), coq_peg(e[2]))
    if tag == "alt":
        return "(PAlt %s %s)" % (coq_peg(e[1]), coq_peg(e[2]))
    if tag == "repn":
        return "(PRepN %s %s)" % (coq_peg(e[1]), e[2])
    raise BuildError("grammar uses a PEG operator the model does not cover: %r" % (e,))


def coq_bytes(s):
    return "[" + "; ".join("%d%%N" % b for b in s.encode("utf-8")) + "]"


def gen_grammar(rules):
    lines = []
    for r in rules:
        _, name, kind, expr = r
        k = {"normal": "RNormal", "silent": "RSilent", "atomic": "RAtomic", "compound": "RCompound", "nonatomic": "RNonAtomic"}[kind]
        lines.append("  (%s, %s, %s)" % (coq_string(name), k, coq_peg(expr)))
    text = ("(* GENERATED on every run by tools/gentables.py from /repo/src/minimal.pest through pest_meta::parser.  Do not edit. *)\n"
            "From Coq Require Import List NArith String.\nImport ListNotations.\n"
            "Require Import SV.Text.Peg.\nOpen Scope string_scope.\n\n"
            "Definition grammar : list (string * rkind * peg) := [\n" + ";\n".join(lines) + "\n].\n")
    write_if_changed(os.path.join(GEN, "Grammar.v"), text)


def regenerate(grammar=True):
    """Needs the harness to be built.  Returns the parsed tables for the caller's own use."""
    os.makedirs(GEN, exist_ok=True)
    with Lock("gen"):
        rows = gen_jets()
        rules = grammar_rules()
        aliases = gen_aliases(rules)
        if grammar and os.path.exists(os.path.join(COQ, "Text", "Peg.v")):
            gen_grammar(rules)
    return {"jets": rows, "rules": rules, "aliases": aliases}
