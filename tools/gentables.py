"""Regenerates coq/Gen/*.v from /repo's current source (grammar, jet table, aliases)."""
import os
from svlib import *  # noqa


def regenerate():
    os.makedirs(os.path.join(COQ, "Gen"), exist_ok=True)
    return True
