"""Shared machinery of the simfony verification checks: build steps, the two executors
(Rust harness = implementation, OCaml driver = extracted Coq model), S-expressions, evidence."""
import fcntl
import hashlib
import json
import os
import re
import subprocess
import sys
import time

VERIF = os.path.dirname(os.path.dirname(os.path.abspath(__file__)))
REPO = os.environ.get("SIMFONY_REPO", "/repo")
BUILD = os.path.join(VERIF, ".build")
COQ = os.path.join(VERIF, "coq")
HARNESS = os.path.join(VERIF, "harness")
DRIVER_SRC = os.path.join(VERIF, "driver")
CARGO_TARGET = os.path.join(BUILD, "cargo")
SVH = os.path.join(CARGO_TARGET, "debug", "svh")
SVH_REL = os.path.join(CARGO_TARGET, "release", "svh")
SVD = os.path.join(BUILD, "driver", "svd")
NPROC = min(16, os.cpu_count() or 1)

ENV = dict(os.environ)
ENV.update({"CARGO_NET_OFFLINE": "true", "RUST_BACKTRACE": "0", "RUSTFLAGS": "--cfg simfony_verif",
            "CARGO_TARGET_DIR": CARGO_TARGET})


def log(*a):
    print(*a, file=sys.stderr, flush=True)


# ----------------------------------------------------------------------------- S-expressions
def sx(x):
    """Render nested python lists/atoms as an S-expression."""
    if isinstance(x, (list, tuple)):
        return "(" + " ".join(sx(y) for y in x) + ")"
    return str(x)


def parse_sx(s):
    stack = [[]]
    i, n = 0, len(s)
    while i < n:
        c = s[i]
        if c in " \t\r\n":
            i += 1
        elif c == "(":
            stack.append([])
            i += 1
        elif c == ")":
            top = stack.pop()
            stack[-1].append(top)
            i += 1
        elif c == '"':
            j = i + 1
            buf = bytearray()
            while s[j] != '"':
                if s[j] == "\\":
                    buf.append(int(s[j + 1:j + 3], 16))
                    j += 3
                else:
                    buf.append(ord(s[j]))
                    j += 1
            stack[-1].append(buf.decode("utf-8", "replace"))
            i = j + 1
        else:
            j = i
            while j < n and s[j] not in " \t\r\n()":
                j += 1
            stack[-1].append(s[i:j])
            i = j
    assert len(stack) == 1 and len(stack[0]) == 1, s[:200]
    return stack[0][0]


def quote(s):
    out = ['"']
    for c in s.encode("utf-8"):
        ch = chr(c)
        if ch.isalnum() and c < 128 or ch in "_-+*/.,:;<>=!?[]{}#@&|^~ ":
            out.append(ch)
        else:
            out.append("\\%02x" % c)
    out.append('"')
    return "".join(out)


# ----------------------------------------------------------------------------- builds
class Lock:
    def __init__(self, name):
        os.makedirs(BUILD, exist_ok=True)
        self.path = os.path.join(BUILD, name + ".lock")

    def __enter__(self):
        self.f = open(self.path, "w")
        fcntl.flock(self.f, fcntl.LOCK_EX)
        return self

    def __exit__(self, *a):
        fcntl.flock(self.f, fcntl.LOCK_UN)
        self.f.close()


def run(cmd, cwd=None, timeout=1800, env=None, check=True, input=None):
    p = subprocess.run(cmd, cwd=cwd, env=env or ENV, stdout=subprocess.PIPE, stderr=subprocess.STDOUT,
                       timeout=timeout, input=input, text=True, shell=isinstance(cmd, str))
    if check and p.returncode != 0:
        raise BuildError("command failed: %s\n%s" % (cmd, p.stdout[-4000:]))
    return p


class BuildError(Exception):
    pass


def build_harness(release=False):
    """cargo build of the harness against /repo's current working tree (hooks on)."""
    with Lock("cargo"):
        lock_src = os.path.join(REPO, "Cargo.lock")
        lock_dst = os.path.join(HARNESS, "Cargo.lock")
        if os.path.exists(lock_src) and not os.path.exists(lock_dst):
            import shutil
            shutil.copy(lock_src, lock_dst)
        cmd = ["cargo", "build", "--offline", "-q"] + (["--release"] if release else [])
        t = time.time()
        p = run(cmd, cwd=HARNESS, check=False, timeout=3000)
        if p.returncode != 0:
            raise BuildError("harness does not build against /repo:\n" + p.stdout[-6000:])
        return time.time() - t


UPSTREAM_OLD = """        } else {
            // ...and if we are inserting a 0 we don't even need to allocate a new [u8]
            (Arc::clone(inner), bit_offset - 1)
        }"""
UPSTREAM_NEW = """        } else {
            // [verif] the buffer may be shared with an older encoding: the bit in front must be cleared
            let new_bit_offset = bit_offset - 1;
            let mut bx: Box<[u8]> = inner.as_ref().into();
            bx[new_bit_offset / 8] &= !(1 << (7 - new_bit_offset % 8));
            (bx.into(), new_bit_offset)
        }"""
SVH_FIXED = os.path.join(BUILD, "cargo-fixed", "debug", "svh")


def build_harness_fixed():
    """A second build of the same harness against /repo, with ONE change in the dependency simplicity-lang 0.4.0
    (value.rs right_shift_1 clears the bit it claims to insert).  Used only to attribute a failure to that upstream
    defect (known finding D10): a failure that persists with the corrected dependency is simfony's."""
    import glob
    import shutil
    with Lock("cargo-fixed"):
        src = sorted(glob.glob(os.path.expanduser("~/.cargo/registry/src/*/simplicity-lang-0.4.0")))
        if not src:
            raise BuildError("simplicity-lang 0.4.0 sources not found in the cargo registry")
        dep = os.path.join(BUILD, "simplicity-lang-fixed")
        if not os.path.exists(os.path.join(dep, "patched.stamp")):
            shutil.rmtree(dep, ignore_errors=True)
            shutil.copytree(src[0], dep)
            vp = os.path.join(dep, "src", "value.rs")
            v = open(vp).read()
            if UPSTREAM_OLD not in v:
                raise BuildError("simplicity-lang value.rs does not contain the expected right_shift_1 branch")
            open(vp, "w").write(v.replace(UPSTREAM_OLD, UPSTREAM_NEW))
            for f in ("Cargo.lock", "Cargo-recent.lock", ".cargo-ok", ".cargo_vcs_info.json"):
                try:
                    os.remove(os.path.join(dep, f))
                except OSError:
                    pass
            open(os.path.join(dep, "patched.stamp"), "w").write("ok")
        hd = os.path.join(BUILD, "harness-fixed")
        os.makedirs(os.path.join(hd, ".cargo"), exist_ok=True)
        toml = open(os.path.join(HARNESS, "Cargo.toml")).read()
        toml += '\n[patch.crates-io]\nsimplicity-lang = { path = "%s" }\n' % dep
        write_if_changed(os.path.join(hd, "Cargo.toml"), toml)
        write_if_changed(os.path.join(hd, ".cargo", "config.toml"), '[net]\noffline = true\n[build]\ntarget-dir = "%s"\n' % os.path.join(BUILD, "cargo-fixed"))
        link = os.path.join(hd, "src")
        if not os.path.islink(link):
            os.symlink(os.path.join(HARNESS, "src"), link)
        if not os.path.exists(os.path.join(hd, "Cargo.lock")):
            shutil.copy(os.path.join(REPO, "Cargo.lock"), os.path.join(hd, "Cargo.lock"))
        env = dict(ENV)
        env["CARGO_TARGET_DIR"] = os.path.join(BUILD, "cargo-fixed")
        p = run(["cargo", "build", "--offline", "-q"], cwd=hd, check=False, timeout=3000, env=env)
        if p.returncode != 0:
            raise BuildError("harness (corrected dependency) does not build:\n" + p.stdout[-6000:])


def write_if_changed(path, text):
    if not os.path.exists(path) or open(path).read() != text:
        open(path, "w").write(text)


def coq_make(targets):
    """Full .vo build of the given targets (never -vos)."""
    with Lock("coq"):
        if not os.path.exists(os.path.join(COQ, "Makefile")) or \
                os.path.getmtime(os.path.join(COQ, "Makefile")) < os.path.getmtime(os.path.join(COQ, "_CoqProject")):
            run(["coq_makefile", "-f", "_CoqProject", "-o", "Makefile"], cwd=COQ)
        p = run(["timeout", "3000", "make", "-j%d" % NPROC] + targets, cwd=COQ, check=False, timeout=3100)
        return p.returncode == 0, p.stdout


def build_driver():
    """Extract the models to OCaml and build the driver."""
    with Lock("driver"):
        ok, out = coq_make(["Extract/Extract.vo"])
        if not ok:
            raise BuildError("extraction failed:\n" + out[-4000:])
        d = os.path.join(BUILD, "driver")
        os.makedirs(d, exist_ok=True)
        srcs = ["sexp.ml", "conv.ml", "main.ml"] + [f for f in os.listdir(DRIVER_SRC) if f.endswith(".ml") and f not in
                                                     ("sexp.ml", "conv.ml", "main.ml", "model.ml")]
        stamp = hashlib.sha256()
        for f in ["model.ml", "model.mli"]:
            stamp.update(open(os.path.join(COQ, f), "rb").read())
        for f in srcs:
            stamp.update(open(os.path.join(DRIVER_SRC, f), "rb").read())
        sp = os.path.join(d, "stamp")
        if os.path.exists(sp) and open(sp).read() == stamp.hexdigest() and os.path.exists(SVD):
            return
        import shutil
        for f in ["model.ml", "model.mli"]:
            shutil.copy(os.path.join(COQ, f), d)
        for f in srcs:
            shutil.copy(os.path.join(DRIVER_SRC, f), d)
        rest = sorted([f for f in srcs if f not in ("sexp.ml", "conv.ml", "main.ml")], key=lambda f: ({"litcmd.ml": 0, "corecmd.ml": 1, "frontcmd.ml": 3}.get(f, 2), f))
        order = ["model.mli", "model.ml", "sexp.ml", "conv.ml"] + rest + ["main.ml"]
        p = run(["ocamlfind", "ocamlopt", "-O3", "-w", "-a", "-package", "str"] + order + ["-o", "svd"], cwd=d, check=False)
        if p.returncode != 0:
            raise BuildError("driver does not build:\n" + p.stdout[-4000:])
        open(sp, "w").write(stamp.hexdigest())


# ----------------------------------------------------------------------------- executors
def _run_lines(binary, cmd, lines, timeout=1800, shards=NPROC, ulimit_v=None, stack_kb=None):
    """Feed `lines` to `binary cmd` over several processes, keep order."""
    if not lines:
        return []
    shards = max(1, min(shards, len(lines) // 8 or 1))
    chunks = [lines[i::shards] for i in range(shards)]
    import threading
    outs = [None] * shards
    # every process is memory-limited: a runaway allocation must end as a CRASH of that one case, not take the machine down
    pre = "ulimit -s %s 2>/dev/null; ulimit -v %d; " % (stack_kb or "unlimited", ulimit_v or 12000000)

    def work(i):
        pending = list(chunks[i])
        res = []
        while pending:
            p = subprocess.Popen(["bash", "-c", pre + "exec \"$0\" \"$1\"", binary, cmd], stdin=subprocess.PIPE, stdout=subprocess.PIPE,
                                 stderr=subprocess.PIPE, env=ENV)
            try:
                o, e = p.communicate(("\n".join(pending) + "\n").encode(), timeout=timeout)
            except subprocess.TimeoutExpired:
                p.kill()
                o, e = p.communicate()
                e = b"TIMEOUT " + e
            got = o.decode("utf-8", "replace").split("\n")
            if got and got[-1] == "":
                got.pop()
            got = got[:len(pending)]
            res += got
            if len(got) == len(pending):
                break
            # the process died (abort / stack overflow / timeout) on the next case: mark it and go on with the rest
            res.append("CRASH exit=%s %s" % (p.returncode, e.decode("utf-8", "replace")[-300:].replace("\n", " ")))
            pending = pending[len(got) + 1:]
        outs[i] = res
    ths = [threading.Thread(target=work, args=(i,)) for i in range(shards)]
    for t in ths:
        t.start()
    for t in ths:
        t.join()
    result = [None] * len(lines)
    for i in range(shards):
        for k, r in enumerate(outs[i]):
            result[i + k * shards] = r
    return result


def impl(cmd, lines, release=False, **kw):
    return _run_lines(SVH_REL if release else SVH, cmd, lines, **kw)


def model(cmd, lines, **kw):
    return _run_lines(SVD, cmd, lines, **kw)


# ----------------------------------------------------------------------------- proof gate
FORBIDDEN = re.compile(r"\b(Admitted|admit|Axiom|Axioms|Parameter|Parameters|Conjecture|Conjectures|Hypothesis|Hypotheses|Variable|Variables)\b|Unset\s+Guard|bypass_check|Admit Obligations|-type-in-type|Unset Universe Checking|Unset Positivity")


def strip_comments(src):
    out, depth, i = [], 0, 0
    while i < len(src):
        if src.startswith("(*", i):
            depth += 1
            i += 2
        elif src.startswith("*)", i) and depth > 0:
            depth -= 1
            i += 2
        else:
            if depth == 0:
                out.append(src[i])
            i += 1
    return "".join(out)


def scan_forbidden(files):
    """No axioms / admits / disabled checks anywhere in the development.  Variable/Hypothesis
    are only allowed inside a Section."""
    bad = []
    for f in files:
        src = strip_comments(open(f).read())
        depth = 0
        for ln, line in enumerate(src.split("\n"), 1):
            if re.match(r"\s*Section\b", line):
                depth += 1
            if re.match(r"\s*End\b", line) and depth > 0:
                depth -= 1
            for m in FORBIDDEN.finditer(line):
                w = m.group(0)
                if w.split()[0] in ("Variable", "Variables", "Hypothesis", "Hypotheses") and depth > 0:
                    continue
                if w in ("Variable", "Variables", "Hypothesis", "Hypotheses") and re.search(r"Context|Section", line):
                    continue
                bad.append("%s:%d: %s" % (os.path.relpath(f, VERIF), ln, line.strip()[:120]))
    return bad


ALLOWED_AXIOMS = set()  # names of stdlib axioms the development may depend on (none so far)


def proof_gate(prop_file, deps_hint=None):
    """Compile Properties/<id>.v (and everything it depends on) and read back Print Assumptions.
    Returns dict(ok, theorems=[(name, assumptions)], log)."""
    target = prop_file[:-2] + ".vo"
    # force re-check of the property file itself so that its output is captured
    vo = os.path.join(COQ, target)
    with Lock("coqprop"):
        if os.path.exists(vo):
            os.remove(vo)
        ok, out = coq_make([target])
    theorems = []
    cur = None
    for line in out.split("\n"):
        m = re.match(r"^([A-Za-z0-9_.']+)\s*$", line)
        if line.startswith("Closed under the global context"):
            theorems.append(("?", []))
        elif line.startswith("Axioms:"):
            cur = []
            theorems.append(("?", cur))
        elif cur is not None and re.match(r"^[A-Za-z_][A-Za-z0-9_.']*\s*:", line):
            cur.append(line.split(":")[0].strip())
        elif cur is not None and not line.startswith(" "):
            cur = None
    return {"ok": ok, "assumptions": theorems, "log": out}


def all_v_files():
    res = []
    for root, _, files in os.walk(COQ):
        for f in files:
            if f.endswith(".v"):
                res.append(os.path.join(root, f))
    return sorted(res)


# ----------------------------------------------------------------------------- evidence / verdicts
def write_json(path, obj):
    os.makedirs(os.path.dirname(path), exist_ok=True)
    tmp = path + ".tmp"
    with open(tmp, "w") as f:
        json.dump(obj, f, indent=1, sort_keys=True)
    os.replace(tmp, path)


def load_known_findings():
    p = os.path.join(VERIF, "known_findings.json")
    if not os.path.exists(p):
        return {"findings": [], "fixed": []}
    return json.load(open(p))
