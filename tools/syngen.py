"""Random *syntactic* programs over the whole grammar of minimal.pest (not necessarily well-typed): input family of the
printer / parser checks (C16) and of the totality gate (C06).  Every optional piece of concrete syntax is exercised:
trailing commas, 0/1/n-tuples, parenthesisation, block vs single match arms, both arm orders, `-> T`, modules, aliases,
separators inside literals, comments and odd whitespace."""

IDENTS = ["a", "b", "x1", "acc", "val", "Foo", "z_9", "matchx", "fnx", "true1", "u8x", "Leftover", "into_it", "selfie", "R", "i"]
FUNS = ["f", "g", "helper", "check_it", "loop_body", "folder1", "Main2", "unwrapper", "assert_ok"]
ALIASES = ["Pair", "T1", "MyList", "boolean", "u8_pair", "Eitherish", "Optional"]
BUILTIN_ALIASES = ["Ctx8", "Pubkey", "Message64", "Message", "Signature", "Scalar", "Fe", "Gej", "Ge", "Point", "Height", "Time", "Distance", "Duration",
                   "Lock", "Outpoint", "Confidential1", "ExplicitAsset", "Asset1", "ExplicitAmount", "Amount1", "ExplicitNonce", "Nonce", "TokenAmount1"]
JETS = ["add_8", "eq_32", "verify", "sha_256_ctx_8_init", "bip_0340_verify", "le_16", "current_index", "xor_xor_64", "full_multiply_32", "some_1"]
WITS = ["A", "B", "sig", "SIG_1", "x", "Key9"]
WS = [" ", " ", " ", "\n", "  ", "\t", "\r\n", " /* c */ ", " // k\n"]


class SynGen:
    def __init__(self, rng, layout=True, max_depth=4):
        self.r = rng
        self.layout = layout
        self.max_depth = max_depth

    # ---- whitespace between tokens (w: optional, W: mandatory where two words would fuse)
    def w(self):
        if not self.layout:
            return ""
        return self.r.choice(["", "", "", " ", "\n", " /*.*/ "])

    def W(self):
        if not self.layout:
            return " "
        return self.r.choice(WS)

    def sep(self, items, open_, close, trailing=True, allow_one_tuple=False):
        r = self.r
        body = (self.w() + "," + self.W()).join(items)
        if items and trailing and r.random() < 0.3:
            body += self.w() + ","
        return open_ + self.w() + body + self.w() + close

    # ---- types
    def ty(self, d=0):
        r = self.r
        c = r.random()
        if d >= 3 or c < 0.35:
            return r.choice(["u1", "u2", "u4", "u8", "u16", "u32", "u64", "u128", "u256", "bool", "()"] + ALIASES[:3] + BUILTIN_ALIASES[:6])
        if c < 0.45:
            return r.choice(ALIASES + BUILTIN_ALIASES)
        if c < 0.58:
            return "Either<" + self.w() + self.ty(d + 1) + self.w() + "," + self.w() + self.ty(d + 1) + self.w() + ">"
        if c < 0.68:
            return "Option<" + self.w() + self.ty(d + 1) + self.w() + ">"
        if c < 0.82:
            n = r.choice([0, 1, 2, 3])
            items = [self.ty(d + 1) for _ in range(n)]
            if n == 0:
                return "(" + self.w() + ")"
            if n == 1:
                return "(" + self.w() + items[0] + self.w() + "," + self.w() + ")"
            return self.sep(items, "(", ")")
        if c < 0.92:
            return "[" + self.w() + self.ty(d + 1) + self.w() + ";" + self.w() + str(r.choice([0, 1, 2, 3, 7, 16, 100])) + self.w() + "]"
        return "List<" + self.w() + self.ty(d + 1) + self.w() + "," + self.w() + str(1 << r.choice([1, 2, 3, 4, 8, 16])) + self.w() + ">"

    # ---- patterns
    def pat(self, d=0):
        r = self.r
        c = r.random()
        if d >= 3 or c < 0.5:
            return r.choice(IDENTS + ["_", "_"])
        if c < 0.8:
            n = r.choice([0, 1, 2, 3])
            items = [self.pat(d + 1) for _ in range(n)]
            if n == 0:
                return "(" + self.w() + ")"
            if n == 1:
                return "(" + self.w() + items[0] + self.w() + "," + self.w() + ")"
            return self.sep(items, "(", ")")
        return self.sep([self.pat(d + 1) for _ in range(r.choice([0, 1, 2, 3]))], "[", "]")

    # ---- literals
    def literal(self):
        r = self.r
        kind = r.choice(["dec", "dec", "bin", "hex"])
        digits = {"dec": "0123456789", "bin": "01", "hex": "0123456789abcdefABCDEF"}[kind]
        n = r.choice([1, 1, 2, 3, 8, 20])
        s = "".join(r.choice(digits) for _ in range(n))
        if r.random() < 0.3:
            # separators anywhere (leading ones too), at least one digit stays
            cs = list(s)
            for _ in range(r.randrange(1, 4)):
                cs.insert(r.randrange(len(cs) + 1), "_")
            s = "".join(cs)
        return {"dec": "", "bin": "0b", "hex": "0x"}[kind] + s

    # ---- expressions
    def expr(self, d=0):
        if self.r.random() < (0.25 if d < self.max_depth else 0.0):
            return self.block(d + 1)
        return self.single(d)

    def block(self, d):
        r = self.r
        stmts = []
        for _ in range(r.choice([0, 0, 1, 2, 3]) if d <= self.max_depth else 0):
            if r.random() < 0.6:
                stmts.append("let" + self.W() + self.pat() + self.w() + ":" + self.w() + self.ty() + self.w() + "=" + self.w() + self.expr(d + 1))
            else:
                stmts.append(self.expr(d + 1))
        body = "".join(self.w() + s + self.w() + ";" for s in stmts)
        if r.random() < 0.5:
            body += self.w() + self.expr(d + 1)
        return "{" + body + self.w() + "}"

    def call_name(self):
        r = self.r
        c = r.randrange(12)
        if c == 0:
            return "jet::" + r.choice(JETS)
        if c == 1:
            return "unwrap_left::<" + self.w() + self.ty(1) + self.w() + ">"
        if c == 2:
            return "unwrap_right::<" + self.w() + self.ty(1) + self.w() + ">"
        if c == 3:
            return "is_none::<" + self.w() + self.ty(1) + self.w() + ">"
        if c == 4:
            return "unwrap"
        if c == 5:
            return "assert!"
        if c == 6:
            return "panic!"
        if c == 7:
            return "<" + self.w() + self.ty(1) + self.w() + ">::into"
        if c == 8:
            return "dbg!"
        if c == 9:
            return "fold::<" + self.w() + r.choice(FUNS) + self.w() + "," + self.w() + str(1 << r.choice([1, 2, 4, 8])) + self.w() + ">"
        if c == 10:
            return "for_while::<" + self.w() + r.choice(FUNS) + self.w() + ">"
        return r.choice(FUNS)

    def arm(self, pat, d):
        r = self.r
        if r.random() < 0.5:
            return pat + self.w() + "=>" + self.w() + self.single(d + 1) + self.w() + ","
        return pat + self.w() + "=>" + self.w() + self.block(d + 1) + (self.w() + "," if r.random() < 0.5 else "")

    def single(self, d):
        r = self.r
        deep = d >= self.max_depth
        c = r.random()
        if deep or c < 0.30:
            k = r.randrange(8)
            if k == 0:
                return self.literal()
            if k == 1:
                return r.choice(["true", "false", "None"])
            if k == 2:
                return "witness::" + r.choice(WITS)
            if k == 3:
                return "param::" + r.choice(WITS)
            if k == 4:
                return "()"
            return r.choice(IDENTS)
        if c < 0.40:
            return r.choice(["Left(", "Right(", "Some("]) + self.w() + self.expr(d + 1) + self.w() + ")"
        if c < 0.62:
            n = r.choice([0, 1, 1, 2, 3])
            args = [self.expr(d + 1) for _ in range(n)]
            return self.call_name() + self.w() + self.sep(args, "(", ")", trailing=False)
        if c < 0.74:
            kind = r.choice(["either", "option", "bool"])
            if kind == "either":
                pats = ["Left(" + self.w() + r.choice(IDENTS) + self.w() + ":" + self.w() + self.ty(1) + self.w() + ")",
                        "Right(" + self.w() + r.choice(IDENTS) + self.w() + ":" + self.w() + self.ty(1) + self.w() + ")"]
            elif kind == "option":
                pats = ["None", "Some(" + self.w() + r.choice(IDENTS) + self.w() + ":" + self.w() + self.ty(1) + self.w() + ")"]
            else:
                pats = ["false", "true"]
            if r.random() < 0.5:
                pats.reverse()
            scrut = self.expr(d + 1) if r.random() < 0.8 else r.choice(IDENTS)
            return "match" + self.W() + scrut + self.w() + "{" + self.w() + self.arm(pats[0], d) + self.w() + self.arm(pats[1], d) + self.w() + "}"
        if c < 0.84:
            n = r.choice([0, 1, 2, 3])
            items = [self.expr(d + 1) for _ in range(n)]
            if n == 0:
                return "(" + self.w() + ")"
            if n == 1:
                return "(" + self.w() + items[0] + self.w() + "," + self.w() + ")"
            return self.sep(items, "(", ")")
        if c < 0.90:
            return self.sep([self.expr(d + 1) for _ in range(r.choice([0, 1, 2, 3]))], "[", "]")
        if c < 0.95:
            return self.sep([self.expr(d + 1) for _ in range(r.choice([0, 1, 2, 3]))], "list![", "]")
        return "(" + self.w() + self.expr(d + 1) + self.w() + ")"

    # ---- items
    def item(self, name=None):
        r = self.r
        c = r.random()
        if name is None and c < 0.2:
            return "type" + self.W() + r.choice(ALIASES) + self.w() + "=" + self.w() + self.ty() + self.w() + ";"
        if name is None and c < 0.3:
            assigns = "".join(self.w() + "const" + self.W() + r.choice(WITS) + self.w() + ":" + self.w() + self.ty(1) + self.w() + "=" + self.w() + self.expr(3) + self.w() + ";"
                              for _ in range(r.choice([0, 1, 2])))
            return "mod" + self.W() + r.choice(["witness", "param"]) + self.w() + "{" + assigns + self.w() + "}"
        params = [r.choice(IDENTS) + self.w() + ":" + self.w() + self.ty(1) for _ in range(r.choice([0, 0, 1, 2, 3]))]
        ret = (self.w() + "->" + self.w() + self.ty(1)) if r.random() < 0.5 else ""
        return "fn" + self.W() + (name or r.choice(FUNS)) + self.w() + self.sep(params, "(", ")", trailing=False) + ret + self.w() + self.block(1)

    def program(self):
        r = self.r
        items = [self.item() for _ in range(r.choice([0, 1, 2, 3]))]
        items.insert(r.randrange(len(items) + 1), self.item(name="main"))
        lead = self.w() if self.layout else ""
        return lead + (self.W() if self.layout else "\n").join(items) + (self.r.choice(["", "\n", " // end"]) if self.layout else "\n")
