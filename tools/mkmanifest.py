#!/usr/bin/env python3
"""Writes MANIFEST.json from the table below (kept in one place so that claimed / not-claimed stays consistent)."""
import json
import os

VERIF = os.path.dirname(os.path.dirname(os.path.abspath(__file__)))
props = [json.loads(l) for l in open(os.path.join(VERIF, "properties.jsonl"))]

CLAIMS = {
 "C01": ("Coq theorem C01_compile_correct / C01_program_correct: for every well-typed AST (Lang/WT.v), every scope, every input, both debug flags, the term emitted by the model of compile.rs evaluates (denotational Simplicity semantics) to what the source semantics (Lang/Sem.v) prescribes, and the value inhabits the type's layout. Tie: per generated program the model's term and the implementation's DAG have equal structural hashes (so the theorem speaks about the implementation's term for all witnesses), the dumped AST satisfies WT, and satisfy→encode→decode→Bit Machine agrees with the source semantics on every witness assignment, with the observed value pinned exactly.",
         "Coq kernel; Simplicity semantics, jets (closed forms), Bit Machine are modelled and validated differentially; tie bounded by the program generator", "Coq proof (induction over the typed AST) + term-hash correspondence + differential execution"),
 "C03": ("Coq theorems C03_compile_total / C03_program_total: code generation never returns Err or Panic on a well-typed AST. Tie + direct gate: every accepted text (examples, edge corpus, generated family) instantiates to Ok, commit() is 1->1, its dumped AST satisfies WT and compiles to the same term in the model. Typability of the emitted term (declarative Simplicity typing) is not yet a theorem: partial.",
         "as C01; principal-type inference of simplicity-lang trusted", "Coq proof (totality) + correspondence"),
 "C07": ("Layout equations, cast admissibility as an equivalence, structural-value typing and reconstruct∘structural = id are Coq theorems over Layout/{Ty,Value}.v for all sizes, nestings and bounds; tied to StructuralType::from, StructuralValue::from, Value::reconstruct and cast acceptance by running the extracted model and the implementation on the same generated types/values/pairs.",
         "Coq kernel; extraction (ExtrOcamlBasic only); differential tie bounded by the generators", "Coq proof + extracted-model correspondence"),
 "C08": ("Coq theorem C08_list_fold_correct: for every bound 2^k, every length below it, every function term, the doubling construction evaluates to the strict left-to-right fold (C08_fold_spec), independent of how the list value arose (C08_list_values_canonical). Tie: term hashes for every bound 2..256 (512 thorough) and pinned run-time results for all lengths, order-sensitive and panicking functions, literal/witness/computed lists.",
         "as C01", "Coq proof (induction on the doubling) + correspondence"),
 "C09": ("Coq theorems C09_task_stack (the split_at_mut/copy_from_slice stack equals its recursive description), C09_for_while_exact (unconditional: what the emitted code computes, for every counter width 2^n) and C09_for_while_correct (it is the specified loop when produced results are sums, which typing gives). Tie: term hashes for widths 1..8 (16 thorough), pinned run-time results for every exit iteration incl. none and for bodies panicking after the exit.",
         "as C01", "Coq proof + correspondence"),
 "C10": ("Coq theorems C10_get_correct (first pre-order occurrence, no side condition), C10_pattern_components, C10_newest_first; scoping of blocks/arms/function bodies is the lexical threading of the environment in Lang/Sem.v, which C01 proves the generated code to follow. Tie: exhaustive binding structures over two names (pattern shapes up to three leaves, nested to depth 3), each asserting which constant a variable holds.",
         "as C01", "Coq proof + correspondence (exhaustive small binding structures)"),
 "C11": ("Coq theorems C11_decimal / C11_binary / C11_hex_uint / C11_hex_narrow / C11_hex_bytes / C11_u256_from_str / C11_u256_display / C11_display_parse / C11_no_panic over byte-level models of value.rs and num.rs (per-width decimal parse incl. Rust's str::parse, binary with padding, hex for integers and byte arrays, the 32-byte multiply/divide-by-10 loops), for all strings. Tie: the extracted models vs UIntValue::parse_decimal/parse_binary, Value::parse_hexadecimal, U256 FromStr/Display, integer Display on boundary/random/over-long/empty strings for every width, and text-level acceptance + denoted constant of `let x: uN = LIT;` with separator placements.",
         "Coq kernel; Rust std's integer parsing is modelled (rust_parse_uint) and tied differentially", "Coq proof (loop invariants on byte arithmetic) + extracted-model correspondence"),
 "C20": ("Coq theorems C20_line_col_agree (pest's two line/column algorithms agree on every offset of every valid UTF-8 file), C20_render_quotes (the rendered message quotes exactly the lines a..min(b,|lines|) verbatim with consecutive existing numbers, then underline and message), C20_render_no_panic, over a byte-level model of error.rs / pest line_col / str::lines. Tie: model vs RichError Display and Span::to_slice on all boundary offset pairs of small files; direct gate: real error messages of broken, re-laid-out programs are parsed back against the file.",
         "Coq kernel; pest's Position::line_col / LineIndex and str::lines are modelled from their sources and tied differentially (Span from a pest Pair itself is not reachable from outside: synthetic spans + real messages)", "Coq proof + extracted-model correspondence + direct message check"),
 "C14": ("Part (a): Coq theorems C14_wrapper_neutral and C14_debug_neutral (debug and plain builds evaluate alike on every input); tie: both builds executed on the Bit Machine for generated programs x witnesses. Part (b) (markers resolve to the right call) is not yet decided by this check: partial.",
         "as C01", "Coq proof + differential execution"),
}

checks = []
for p in props:
    if p["id"] in CLAIMS:
        t, n, tech = CLAIMS[p["id"]]
        checks.append({"property_id": p["id"], "quick_cmd": "./check %s --tier quick" % p["id"], "thorough_cmd": "./check %s --tier thorough" % p["id"],
                       "evidence_file": "evidence/%s.json" % p["id"], "replay_cmd_template": "./check %s --replay {path}" % p["id"],
                       "engine": "coq+corr", "level_claimed": {"category": "proof", "text": t, "design_ref": "DESIGN.md §6 " + p["id"]},
                       "level_note": n, "technique": tech})
na = [{"property_id": p["id"], "reason": "check under construction; not claimed yet (DESIGN.md §6 has the plan for this property)"} for p in props if p["id"] not in CLAIMS]
m = {"version": 1, "setup_cmd": "bash tools/setup.sh",
     "hooks": {"guard": "simfony_verif", "enable": "RUSTFLAGS=\"--cfg simfony_verif\" (set by tools/svlib.py for every cargo build of /verif/harness, which path-depends on /repo); no hook commit was needed so far: the harness uses only the public API",
               "baseline_off_cmd": "cd /repo && cargo test --workspace --no-fail-fast --offline", "source_commits": [], "add_only": True},
     "engines": [{"name": "coq+corr", "path": "check", "serves_properties": sorted(CLAIMS), "kind_free_text": "Coq 8.16.1 theorems over executable models (coq/), extracted to OCaml (driver/) and compared with /repo through a Rust harness (harness/) by a Python orchestrator (tools/)"}],
     "checks": checks, "not_applicable": na,
     "notes": "Every check rebuilds the harness against /repo's working tree, regenerates coq/Gen/*.v from the source, re-checks its Coq theorems (full .vo, Print Assumptions read back, forbidden-vernacular scan), runs the correspondence and direct gates, and writes evidence/<id>.json. Repairs of genuine defects are 'fix:' commits in /repo, listed in known_findings.json."}
json.dump(m, open(os.path.join(VERIF, "MANIFEST.json"), "w"), indent=1)
print("claimed:", sorted(CLAIMS))
