(* Source semantics of the typed AST: a strict, call-by-value big-step evaluator written from the
   language rules of the book.  It evaluates directly into the Simplicity value domain using the
   documented layout (Layout/), so a cast is the identity on values.  This is the oracle of C01/C08/C09/C10;
   it is meant to be read in minutes. *)
From Coq Require Import List Arith NArith Bool.
Import ListNotations.
Require Import SV.Base.Util SV.Base.BT SV.Simp.Core SV.Layout.Ty SV.Layout.Value SV.Lang.Ast SV.Comp.Select.

Definition env := list (N * sval).       (* newest binding first; lookup takes the first match *)

(* destructure a value along a (base) pattern; components bind left to right *)
Fixpoint bindp (p:bpat) (v:sval) : option env :=
  match p, v with
  | BIgn, _ => Some []
  | BId x, _ => Some [(x,v)]
  | BProd l r, VP a b => match bindp l a, bindp r b with Some e1, Some e2 => Some (e1 ++ e2) | _,_ => None end
  | BProd _ _, _ => None
  end.

(* evaluate a list of expressions left to right, stop at the first failure *)
Section MapO.
Context {A:Type} (F : A -> out).
Fixpoint mapo (l:list A) (k:list sval -> out) : out :=
  match l with [] => k [] | a::l' => bind (F a) (fun v => mapo l' (fun vs => k (v::vs))) end.
End MapO.

(* for_while: call G acc i for i = start, start+1, ...; stop at the first Left; at most k iterations *)
Fixpoint loop (G:sval->nat->out) (k:nat) (i:nat) (a:sval) : out :=
  match k with
  | 0 => Val (VR a)
  | S k' => match G a i with
            | Val (VL b) => Val (VL b)
            | Val (VR a') => loop G k' (S i) a'
            | Val _ => Stuck | Failed => Failed | Stuck => Stuck end
  end.

Definition bind_params (ps:list (N*ty)) (vs:list sval) : option env :=
  if Nat.eqb (length ps) (length vs) then Some (combine (map fst ps) vs) else None.

Section Sem.
Variable jet : N -> sval -> option sval.     (* None: the jet fails *)
Variable wit : N -> option sval.
Variable args : N -> option value.

Definition sem_builtin (b:builtin) (vs:list sval) : out :=
  match b, vs with
  | BJet j, _ => match jet j (bt VP VU vs) with Some v => Val v | None => Failed end
  | BUnwrapLeft, [VL x] => Val x
  | BUnwrapLeft, [VR _] => Failed
  | BUnwrapRight, [VR x] | BUnwrap, [VR x] => Val x
  | BUnwrapRight, [VL _] | BUnwrap, [VL _] => Failed
  | BIsNone, [VL _] => Val (VR VU)
  | BIsNone, [VR _] => Val (VL VU)
  | BAssert, [VR _] => Val VU
  | BAssert, [VL _] => Failed
  | BPanic, _ => Failed
  | BDebug, [v] => Val v
  | BCast _, [v] => Val v
  | _, _ => Stuck
  end.

Fixpoint sem (r:env) (e:expr) {struct e} : out :=
  match e with
  | EBlock _ stmts last =>
      (fix blk (ss:list (option pat * expr)) (r:env) {struct ss} : out :=
         match ss with
         | [] => match last with Some e' => sem r e' | None => Val VU end
         | (Some p, e') :: ss' =>
             bind (sem r e') (fun v => match bindp (of_pat p) v with Some b => blk ss' (b ++ r) | None => Stuck end)
         | (None, e') :: ss' => bind (sem r e') (fun _ => blk ss' r)
         end) stmts r
  | EConst _ v => Val (structural v)
  | EWitness _ n => match wit n with Some v => Val v | None => Stuck end
  | EParam _ n => match args n with Some v => Val (structural v) | None => Stuck end
  | EVar _ x => match lookupN r x with Some v => Val v | None => Stuck end
  | EParen e' => sem r e'
  | ETuple _ es | EArray _ es => mapo (fun e0 => sem r e0) es (fun vs => Val (bt VP VU vs))
  | EList t es => mapo (fun e0 => sem r e0) es (fun vs =>
      match t with TList _ k => Val (part_fold sval_block VP (k-1) vs) | _ => Stuck end)
  | ENone _ => Val (VL VU)
  | ELeft _ e' => bind (sem r e') (fun v => Val (VL v))
  | ERight _ e' | ESome _ e' => bind (sem r e') (fun v => Val (VR v))
  | ECall _ b es => mapo (fun e0 => sem r e0) es (sem_builtin b)
  | EFn _ k ps body es =>
      let call (vs:list sval) : out :=
        match bind_params ps vs with Some b => sem b body | None => Stuck end in
      mapo (fun e0 => sem r e0) es (fun vs =>
        match k, vs with
        | KCustom, _ => call vs
        | KFold kk, [lv; a0] =>
            match as_list (kk-1) lv with
            | Some els => fold_left (fun acc el => bind acc (fun a => call [el; a])) els (Val a0)
            | None => Stuck end
        | KFor w, [a0; c] => loop (fun a i => call [a; c; uint_sval w (N.of_nat i)]) (2^(2^w)) 0 a0
        | _, _ => Stuck
        end)
  | EMatch _ s xl el xr er =>
      bind (sem r s) (fun v =>
        match v with
        | VL a => sem (match xl with Some x => (x,a)::r | None => r end) el
        | VR b => sem (match xr with Some x => (x,b)::r | None => r end) er
        | _ => Stuck end)
  end.

(* whole program: main runs in the empty environment *)
Definition sem_program (main:expr) : out := sem [] main.
End Sem.
