(* The typed AST produced by /repo/src/ast.rs (function bodies inlined at their calls).
   Every node records the type ast.rs assigned to it. *)
From Coq Require Import List NArith.
Import ListNotations.
Require Import SV.Layout.Ty SV.Layout.Value.

Inductive pat := PId (x:N) | PIgn | PTup (ps:list pat) | PArr (ps:list pat).

(* builtin calls (ast::CallName minus the function-carrying variants) *)
Inductive builtin :=
| BJet (j:N) | BUnwrapLeft | BUnwrapRight | BUnwrap | BIsNone | BAssert | BPanic | BDebug | BCast (src:ty).

(* calls that carry a custom function: plain call, fold with bound 2^k, for_while with a 2^w-bit counter *)
Inductive fkind := KCustom | KFold (k:nat) | KFor (w:nat).

Inductive expr :=
| EBlock (t:ty) (stmts:list (option pat * expr)) (last:option expr)   (* Some p = let p = e; None = e; *)
| EConst (t:ty) (v:value)
| EWitness (t:ty) (n:N)
| EParam (t:ty) (n:N)
| EVar (t:ty) (x:N)
| EParen (e:expr)
| ETuple (t:ty) (es:list expr)
| EArray (t:ty) (es:list expr)
| EList (t:ty) (es:list expr)
| ELeft (t:ty) (e:expr)
| ERight (t:ty) (e:expr)
| ENone (t:ty)
| ESome (t:ty) (e:expr)
| ECall (t:ty) (b:builtin) (args:list expr)
| EFn (t:ty) (k:fkind) (params:list (N*ty)) (body:expr) (args:list expr)
| EMatch (t:ty) (scrut:expr) (xl:option N) (el:expr) (xr:option N) (er:expr).

Fixpoint ty_of (e:expr) : ty :=
  match e with
  | EBlock t _ _ | EConst t _ | EWitness t _ | EParam t _ | EVar t _
  | ETuple t _ | EArray t _ | EList t _ | ELeft t _ | ERight t _ | ENone t | ESome t _
  | ECall t _ _ | EFn t _ _ _ _ | EMatch t _ _ _ _ _ => t
  | EParen e => ty_of e
  end.

(* which builtin calls ast.rs tracks for debug symbols *)
Definition tracked (b:builtin) : bool :=
  match b with BJet _ | BUnwrapLeft | BUnwrapRight | BUnwrap | BAssert | BPanic | BDebug => true
             | BIsNone | BCast _ => false end.

Definition arm_pat (x:option N) : pat := match x with Some i => PId i | None => PIgn end.
