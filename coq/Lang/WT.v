(* Well-typedness of typed ASTs, as a boolean judgement: what the back-end theorems assume of the
   front end's output and what the correspondence check evaluates on every dumped AST.
   Contexts are association lists, newest first, first match wins — the discipline of code generation. *)
From Coq Require Import List Arith NArith Bool.
Import ListNotations.
Require Import SV.Base.Util SV.Base.BT SV.Simp.Core SV.Layout.Ty SV.Layout.Value SV.Lang.Ast.

Definition ctx := list (N * ty).

(* the variables a pattern binds at a type, left to right; sizes must match exactly *)
Fixpoint pat_ctx (p:pat) (T:ty) {struct p} : option ctx :=
  match p with
  | PId x => Some [(x,T)]
  | PIgn => Some []
  | PTup ps => match T with
      | TTuple ts => (fix go (ps:list pat) (ts:list ty) : option ctx :=
           match ps, ts with
           | [], [] => Some []
           | p'::ps', t::ts' => match pat_ctx p' t, go ps' ts' with Some c1, Some c2 => Some (c1 ++ c2) | _,_ => None end
           | _, _ => None end) ps ts
      | _ => None end
  | PArr ps => match T with
      | TArray a n => if Nat.eqb (length ps) n then
          (fix go (ps:list pat) : option ctx :=
             match ps with
             | [] => Some []
             | p'::ps' => match pat_ctx p' a, go ps' with Some c1, Some c2 => Some (c1 ++ c2) | _,_ => None end
             end) ps
          else None
      | _ => None end
  end.

Fixpoint tys_eqb (a b:list ty) : bool :=
  match a, b with [], [] => true | x::a', y::b' => ty_eqb x y && tys_eqb a' b' | _, _ => false end.

Definition is_unit (t:ty) : bool := match t with TTuple [] => true | _ => false end.

Section WT.
Variable jsig : N -> option (list ty * ty).   (* jet signatures (regenerated table) *)
Variable W : N -> option ty.                  (* declared witness types *)
Variable args : N -> option value.            (* arguments *)

Definition wt_builtin (b:builtin) (ats:list ty) (t:ty) : bool :=
  match b, ats with
  | BJet j, _ => match jsig j with Some (ps, r) => tys_eqb ats ps && ty_eqb t r | None => false end
  | BUnwrapLeft, [TEither a _] => ty_eqb a t
  | BUnwrapRight, [TEither _ b] => ty_eqb b t
  | BUnwrap, [TOption a] => ty_eqb a t
  | BIsNone, [TOption _] => ty_eqb t TBool
  | BAssert, [TBool] => is_unit t
  | BPanic, [] => true
  | BDebug, [a] => ty_eqb a t
  | BCast src, [a] => ty_eqb a src && cast_ok src t
  | _, _ => false
  end.

Definition arm_ctx (x:option N) (a:ty) (G:ctx) : ctx := match x with Some i => (i,a)::G | None => G end.

Fixpoint wt (G:ctx) (e:expr) {struct e} : bool :=
  match e with
  | EBlock t stmts last =>
      (fix blk (ss:list (option pat * expr)) (G:ctx) {struct ss} : bool :=
         match ss with
         | [] => match last with Some e' => wt G e' && ty_eqb (ty_of e') t | None => is_unit t end
         | (Some p, e') :: ss' => wt G e' && match pat_ctx p (ty_of e') with Some c => blk ss' (c ++ G) | None => false end
         | (None, e') :: ss' => wt G e' && is_unit (ty_of e') && blk ss' G
         end) stmts G
  | EConst t v => value_wf v && ty_eqb (type_of v) t
  | EWitness t n => match W n with Some t' => ty_eqb t' t | None => false end
  | EParam t n => match args n with Some v => value_wf v && ty_eqb (type_of v) t | None => false end
  | EVar t x => match lookupN G x with Some t' => ty_eqb t' t | None => false end
  | EParen e' => wt G e'
  | ETuple t es => ty_eqb t (TTuple (map ty_of es)) && forallb (fun e0 => wt G e0) es
  | EArray t es => match t with
      | TArray a n => Nat.eqb n (length es) && forallb (fun e0 => wt G e0 && ty_eqb (ty_of e0) a) es
      | _ => false end
  | EList t es => match t with
      | TList a k => Nat.leb 1 k && Nat.ltb (length es) (2^k) && forallb (fun e0 => wt G e0 && ty_eqb (ty_of e0) a) es
      | _ => false end
  | ENone t => match t with TOption _ => true | _ => false end
  | ELeft t e' => match t with TEither a _ => wt G e' && ty_eqb (ty_of e') a | _ => false end
  | ERight t e' => match t with TEither _ b => wt G e' && ty_eqb (ty_of e') b | _ => false end
  | ESome t e' => match t with TOption a => wt G e' && ty_eqb (ty_of e') a | _ => false end
  | ECall t b es => forallb (fun e0 => wt G e0) es && wt_builtin b (map ty_of es) t
  | EFn t k ps body es =>
      forallb (fun e0 => wt G e0) es && wt ps body &&
      match k with
      | KCustom => tys_eqb (map ty_of es) (map snd ps) && ty_eqb (ty_of body) t
      | KFold kk => match ps with
          | [(_,E); (_,A)] => Nat.leb 1 kk && tys_eqb (map ty_of es) [TList E kk; A] && ty_eqb (ty_of body) A && ty_eqb t A
          | _ => false end
      | KFor w => match ps, t with
          | [(_,A); (_,C); (_,TUInt w')], TEither B A' =>
              Nat.eqb w w' && ty_eqb A A' && tys_eqb (map ty_of es) [A; C] && ty_eqb (ty_of body) t
          | _, _ => false end
      end
  | EMatch t s xl el xr er =>
      wt G s &&
      match ty_of s with
      | TEither a b => wt (arm_ctx xl a G) el && wt (arm_ctx xr b G) er
      | TOption a => match xl with None => wt G el && wt (arm_ctx xr a G) er | Some _ => false end
      | TBool => match xl, xr with None, None => wt G el && wt G er | _, _ => false end
      | _ => false end
      && ty_eqb (ty_of el) t && ty_eqb (ty_of er) t
  end.

(* a whole program: main is a unit-typed expression in the empty context *)
Definition wt_program (main:expr) : bool := wt [] main && is_unit (ty_of main).
End WT.
