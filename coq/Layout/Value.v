(* Simfony values, their Simplicity form, and reconstruction —
   mirrors /repo/src/value.rs 900-1052 (StructuralValue), 730-782 + 1094-1230 (reconstruct / destruct)
   and array.rs (Unfolder, Combiner). *)
From Coq Require Import List Arith NArith Lia Bool.
Import ListNotations.
Require Import SV.Base.Util SV.Base.BT SV.Simp.Core SV.Layout.Ty.

Inductive value :=
| ALeft (v:value) (tr:ty) | ARight (tl:ty) (v:value)
| ANone (t:ty) | ASome (v:value)
| ABool (b:bool) | AUInt (k:nat) (n:N)
| ATuple (vs:list value) | AArray (vs:list value) (t:ty) | AList (vs:list value) (t:ty) (k:nat).

Fixpoint type_of (v:value) : ty :=
  match v with
  | ALeft v tr => TEither (type_of v) tr
  | ARight tl v => TEither tl (type_of v)
  | ANone t => TOption t
  | ASome v => TOption (type_of v)
  | ABool _ => TBool
  | AUInt k _ => TUInt k
  | ATuple vs => TTuple (map type_of vs)
  | AArray vs t => TArray t (length vs)
  | AList vs t k => TList t k
  end.

Definition sbit (b:bool) : sval := if b then VR VU else VL VU.

(* the 2^k-bit integer n as nested pairs of halves, most significant half first *)
Fixpoint uint_sval (k:nat) (n:N) : sval :=
  match k with
  | 0 => sbit (N.odd n)
  | S k' => let w := N.of_nat (2^k') in
            VP (uint_sval k' (N.shiftr n w)) (uint_sval k' (N.land n (N.ones w)))
  end.

Definition sval_block (block:list sval) (size:nat) : sval :=
  match block with [] => VL VU | _ => VR (bt VP VU block) end.

Fixpoint structural (v:value) : sval :=
  match v with
  | ALeft v _ => VL (structural v)
  | ARight _ v => VR (structural v)
  | ANone _ => VL VU
  | ASome v => VR (structural v)
  | ABool b => sbit b
  | AUInt k n => uint_sval k n
  | ATuple vs => bt VP VU (map structural vs)
  | AArray vs _ => bt VP VU (map structural vs)
  | AList vs _ k => part_fold sval_block VP (k-1) (map structural vs)
  end.

(* ---- destructors (value.rs mod destruct) ---- *)
Definition as_product (v:sval) : option (sval*sval) := match v with VP a b => Some (a,b) | _ => None end.
Definition as_bit (v:sval) : option bool :=
  match v with VL VU => Some false | VR VU => Some true | _ => None end.
Definition as_option (v:sval) : option (option sval) :=
  match v with VL VU => Some None | VR x => Some (Some x) | _ => None end.

(* collect_bits: big-endian number of a bit list *)
Definition bits_to_N (bs:list bool) : N := fold_left (fun acc (b:bool) => (2*acc + (if b then 1 else 0))%N) bs 0%N.
Fixpoint filter_bits (l:list sval) : list bool :=
  match l with [] => [] | v::l' => match as_bit v with Some b => b :: filter_bits l' | None => filter_bits l' end end.

Definition as_integer (v:sval) (k:nat) : option N :=
  match bt_unfold as_product (2^k) v with
  | None => None
  | Some leaves => let bs := filter_bits leaves in
                   if Nat.eqb (length bs) (2^k) then Some (bits_to_N bs) else None
  end.

Definition as_block (v:sval) (size:nat) : option (list sval) :=
  match as_option v with
  | Some (Some folded) => bt_unfold as_product size folded
  | Some None => Some []
  | None => None end.

(* Combiner::unfold for bound 2^(S j) *)
Fixpoint as_list (j:nat) (v:sval) : option (list sval) :=
  match j with
  | 0 => as_block v 1
  | S j' => match as_product v with
      | None => None
      | Some (block, rest) =>
          match as_block block (2^j) with
          | None => None
          | Some els => option_map (app els) (as_list j' rest) end
      end
  end.

(* Value::reconstruct *)
Fixpoint reconstruct (t:ty) (v:sval) {struct t} : option value :=
  match t with
  | TBool => option_map ABool (as_bit v)
  | TUInt k => option_map (AUInt k) (as_integer v k)
  | TEither a b =>
      match v with
      | VL x => option_map (fun y => ALeft y b) (reconstruct a x)
      | VR x => option_map (fun y => ARight a y) (reconstruct b x)
      | _ => None end
  | TOption a =>
      match as_option v with
      | Some None => Some (ANone a)
      | Some (Some x) => option_map ASome (reconstruct a x)
      | None => None end
  | TTuple ts =>
      match bt_unfold as_product (length ts) v with
      | None => None
      | Some leaves =>
          option_map ATuple
            ((fix go (ts:list ty) (ls:list sval) : option (list value) :=
               match ts, ls with
               | [], _ => Some []
               | t'::ts', l::ls' => match reconstruct t' l, go ts' ls' with
                                    | Some x, Some xs => Some (x::xs) | _, _ => None end
               | _::_, [] => None end) ts leaves)
      end
  | TArray a n =>
      match bt_unfold as_product n v with
      | None => None
      | Some leaves => option_map (fun xs => AArray xs a) (mapM (reconstruct a) leaves) end
  | TList a k =>
      match as_list (k-1) v with
      | None => None
      | Some leaves => option_map (fun xs => AList xs a k) (mapM (reconstruct a) leaves) end
  end.

(* well-formed value (what the public constructors guarantee) *)
Fixpoint value_wf (v:value) : bool :=
  match v with
  | ALeft v _ | ARight _ v | ASome v => value_wf v
  | ANone _ | ABool _ => true
  | AUInt k n => (N.ltb n (2 ^ N.of_nat (2^k)))%N
  | ATuple vs => forallb value_wf vs
  | AArray vs t => forallb (fun x => value_wf x && ty_eqb (type_of x) t) vs
  | AList vs t k => forallb (fun x => value_wf x && ty_eqb (type_of x) t) vs
                    && Nat.ltb (length vs) (2^k) && Nat.leb 1 k
  end.
