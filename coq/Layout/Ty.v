(* Simfony types and their Simplicity layout — mirrors /repo/src/types.rs 960-1064
   (StructuralType::from(&ResolvedType), TypeConstructible for StructuralType) and array.rs Partition. *)
From Coq Require Import List Arith NArith Lia Bool.
Import ListNotations.
Require Import SV.Base.BT SV.Simp.Core.

(* UInt k is the 2^k-bit integer (k = 0..8); List a k has bound 2^k (k >= 1). *)
Inductive ty :=
| TEither (a b:ty) | TOption (a:ty) | TBool | TUInt (k:nat)
| TTuple (ts:list ty) | TArray (a:ty) (n:nat) | TList (a:ty) (k:nat).

Definition TUnit := TTuple [].

(* Final::two_two_n *)
Fixpoint two_two_n (k:nat) : sty :=
  match k with 0 => SSum SUnit SUnit | S k' => SProd (two_two_n k') (two_two_n k') end.

(* Partition::fold for a slice of fewer than 2^(S j) elements:
   [f block size] builds a block, [g] joins a block with the rest. *)
Section Part.
Context {A B:Type} (f : list A -> nat -> B) (g : B -> B -> B).
Fixpoint part_fold (j:nat) (l:list A) : B :=
  match j with
  | 0 => f l 1
  | S j' => let sb := 2^j in
      if length l <? sb then g (f [] sb) (part_fold j' l)
      else g (f (firstn sb l) sb) (part_fold j' (skipn sb l))
  end.
End Part.

Definition sty_block (block:list sty) (size:nat) : sty := SSum SUnit (bt SProd SUnit block).

Fixpoint struct_ty (t:ty) : sty :=
  match t with
  | TEither a b => SSum (struct_ty a) (struct_ty b)
  | TOption a => SSum SUnit (struct_ty a)
  | TBool => SSum SUnit SUnit
  | TUInt k => two_two_n k
  | TTuple ts => bt SProd SUnit (map struct_ty ts)
  | TArray a n => bt SProd SUnit (repeat (struct_ty a) n)
  | TList a k => part_fold sty_block SProd (k-1) (repeat (struct_ty a) (2^k - 1))
  end.

Fixpoint ty_eqb (a b:ty) {struct a} : bool :=
  match a, b with
  | TEither a1 a2, TEither b1 b2 => ty_eqb a1 b1 && ty_eqb a2 b2
  | TOption a1, TOption b1 => ty_eqb a1 b1
  | TBool, TBool => true
  | TUInt k, TUInt k' => Nat.eqb k k'
  | TTuple ts, TTuple us =>
      (fix go (ts us:list ty) : bool := match ts, us with
         | [], [] => true | t::ts', u::us' => ty_eqb t u && go ts' us' | _, _ => false end) ts us
  | TArray a1 n, TArray b1 m => ty_eqb a1 b1 && Nat.eqb n m
  | TList a1 k, TList b1 k' => ty_eqb a1 b1 && Nat.eqb k k'
  | _, _ => false end.

(* admissibility of <S>::into at target T  (ast.rs 1149-1152) *)
Definition cast_ok (s t:ty) : bool := sty_eqb (struct_ty s) (struct_ty t).
