(* Model of the witness / parameter module printer:
     /repo/src/witness.rs 76-87   Display for WitnessValues (macro impl_name_value_map; Arguments alike)

       writeln!(f, "mod {} {{", $module_name)?;
       for name in self.0.keys().sorted_unstable() {
           let value = self.0.get(name).unwrap();
           writeln!(f, "    const {name}: {} = {value};", value.ty())?;
       }
       write!(f, "}}")

   The map is a HashMap: its iteration order is arbitrary, so the model takes the entries in ARBITRARY
   order and sorts them.  WitnessName derives Ord from Arc<str>: byte-wise lexicographic order
   ([lex_leb]).  The keys of a map are pairwise distinct, so an unstable sort is deterministic.
   Model only; theorems are in Proofs/PrintCorrect.v. *)
From Coq Require Import List Arith NArith Bool.
Import ListNotations.
Require Import SV.Layout.Ty SV.Layout.Value SV.Text.TyPrint SV.Text.ValPrint.
Local Open Scope N_scope.

Definition s_mod : list N := [109;111;100;32].                       (* "mod " *)
Definition s_open : list N := [32;123;10].                           (* " {\n" *)
Definition s_const : list N := [32;32;32;32;99;111;110;115;116;32].  (* "    const " *)
Definition s_colon : list N := [58;32].                              (* ": " *)
Definition s_eq : list N := [32;61;32].                              (* " = " *)
Definition s_semi : list N := [59;10].                               (* ";\n" *)
Definition s_witness : list N := [119;105;116;110;101;115;115].      (* "witness" *)
Definition s_param : list N := [112;97;114;97;109].                  (* "param" *)

(* <str as Ord>::cmp(a, b) != Greater : byte-wise lexicographic, a proper prefix is smaller *)
Fixpoint lex_leb (a b : list N) : bool :=
  match a, b with
  | [], _ => true
  | _ :: _, [] => false
  | x :: a', y :: b' => if x <? y then true else if y <? x then false else lex_leb a' b'
  end.

Definition entry : Type := (list N * value)%type.

(* sorted (insertion sort on the names) *)
Fixpoint mod_insert (e : entry) (l : list entry) : list entry :=
  match l with
  | [] => [e]
  | h :: t => if lex_leb (fst e) (fst h) then e :: l else h :: mod_insert e t
  end.

Fixpoint mod_sort (l : list entry) : list entry :=
  match l with
  | [] => []
  | e :: t => mod_insert e (mod_sort t)
  end.

(* writeln!(f, "    const {name}: {} = {value};", value.ty()) *)
Definition mod_line (e : entry) : list N :=
  let '(name, value) := e in
  s_const ++ name ++ s_colon ++ ty_pp (type_of value) ++ s_eq ++ val_pp value ++ s_semi.

Definition mod_print (modname : list N) (entries : list entry) : list N :=
  s_mod ++ modname ++ s_open ++ flat_map mod_line (mod_sort entries) ++ [125].   (* "}" *)
