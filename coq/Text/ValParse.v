(* Recursive-descent parsers for the PRINTED syntax of types and of constant values.
   They are NOT a model of the pest grammar; they are direct, type-directed readers for the sublanguage
     /repo/src/minimal.pest   ty, sum_type, option_type, boolean_type, unsigned_type, tuple_type,
                              array_type, list_type (no aliases)
                              left_expr, right_expr, none_expr, some_expr, false_expr, true_expr,
                              tuple_expr, array_expr, list_expr, hex_literal, dec_literal, WHITESPACE
   with the typing of /repo/src/ast.rs 891-1040 (SingleExpression::analyze at a given type) and the
   value construction of /repo/src/value.rs 624-724 (parse_hexadecimal, from_const_expr):
     - an integer at type uN is a decimal literal (Literal.parse_decimal) or, for u8..u256, a 0x literal
       with exactly 2^k/4 digits (Literal.parse_hex_uint);
     - a 0x literal at type [u8; n] with exactly 2n digits is the byte array (Literal.parse_hex_bytes);
     - a tuple expression has exactly as many components as the type; `(e)` is not a 1-tuple, `(e,)` is;
     - an array expression has exactly n elements; a list has fewer than 2^k elements;
     - whitespace (space, tab, newline, carriage return) is skipped before every token.
   Not covered: comments, binary literals, parenthesised / block expressions, type aliases, and the
   `!ident_char` look-ahead after `true`, `false`, `None` (a keyword followed by an identifier character
   is read as the keyword; the next token then fails).
   The result is the parsed object and the REST of the input.  Theorems are in Proofs/PrintCorrect.v. *)
From Coq Require Import List Arith NArith Bool.
Import ListNotations.
Require Import SV.Base.Res SV.Layout.Ty SV.Layout.Value SV.Text.Literal SV.Text.TyPrint SV.Text.ValPrint.
Local Open Scope N_scope.

(** * Characters and tokens *)
Definition is_ws (c : N) : bool := (c =? 32) || (c =? 9) || (c =? 10) || (c =? 13).
Definition is_digit (c : N) : bool := (48 <=? c) && (c <=? 57).
Definition is_hex_digit (c : N) : bool :=
  is_digit c || ((97 <=? c) && (c <=? 102)) || ((65 <=? c) && (c <=? 70)).
Definition is_alpha (c : N) : bool := ((97 <=? c) && (c <=? 122)) || ((65 <=? c) && (c <=? 90)).
(* ident_char = ASCII_ALPHANUMERIC | "_" *)
Definition is_ident_char (c : N) : bool := is_digit c || is_alpha c || (c =? 95).
Definition is_dec_body (c : N) : bool := is_digit c || (c =? 95).
Definition is_hex_body (c : N) : bool := is_hex_digit c || (c =? 95).

Fixpoint skip_ws (s : list N) : list N :=
  match s with
  | c :: r => if is_ws c then skip_ws r else s
  | [] => []
  end.

(* [strip_prefix p s = Some r] iff s = p ++ r *)
Fixpoint strip_prefix (p s : list N) : option (list N) :=
  match p with
  | [] => Some s
  | c :: p' =>
      match s with
      | d :: s' => if c =? d then strip_prefix p' s' else None
      | [] => None
      end
  end.

(* the longest prefix of characters satisfying f, and the rest *)
Fixpoint span (f : N -> bool) (s : list N) : list N * list N :=
  match s with
  | c :: r => if f c then let '(a, b) := span f r in (c :: a, b) else ([], s)
  | [] => ([], [])
  end.

(* value of a digit string *)
Fixpoint dec_acc (acc : N) (s : list N) : N :=
  match s with
  | [] => acc
  | c :: r => dec_acc (acc * 10 + (c - 48)) r
  end.

(* array_size / list_bound = ASCII_DIGIT+ *)
Definition parse_number (s : list N) : option (N * list N) :=
  let '(ds, r) := span is_digit s in
  match ds with
  | [] => None
  | _ :: _ => Some (dec_acc 0 ds, r)
  end.

(* what may follow a token without being glued to it: the end of the input or a character that cannot
   continue an identifier or a number *)
Definition follow_ok (rest : list N) : bool :=
  match rest with
  | [] => true
  | c :: _ => negb (is_ident_char c)
  end.

(** * Comma-separated sequences:  ( elem ("," elem)* ","? )? close
    The input is positioned after the opening bracket.  Result: the elements, whether the closing
    bracket came directly after the opening bracket or a comma, and the rest. *)
Section Elems.
  Context {A : Type}.
  Variable p : list N -> option (A * list N).
  Variable close : N.
  Fixpoint parse_elems (fuel : nat) (s : list N) : option (list A * bool * list N) :=
    match fuel with
    | O => None
    | S f =>
        match skip_ws s with
        | [] => None
        | c :: r =>
            if c =? close then Some ([], true, r)
            else
              match p (c :: r) with
              | None => None
              | Some (x, r1) =>
                  match skip_ws r1 with
                  | [] => None
                  | d :: r2 =>
                      if d =? 44 then
                        match parse_elems f r2 with
                        | Some (xs, tc, r3) => Some (x :: xs, tc, r3)
                        | None => None
                        end
                      else if d =? close then Some ([x], false, r2)
                      else None
                  end
              end
        end
    end.
End Elems.

(** * Types *)

(* NonZeroPow2Usize::new(bound): a power of two greater than 1; the result is its exponent *)
Definition list_bound_exp (b : N) : option nat :=
  let k := N.log2 b in
  if (2 ^ k =? b) && (1 <? b) then Some (N.to_nat k) else None.

Fixpoint tparse (fuel : nat) (s : list N) : option (ty * list N) :=
  match fuel with
  | O => None
  | S f =>
      let s := skip_ws s in
      match strip_prefix s_Either s with
      | Some r =>                                             (* "Either<" ty "," ty ">" *)
          match tparse f r with
          | None => None
          | Some (a, r) =>
              match strip_prefix [44] (skip_ws r) with
              | None => None
              | Some r =>
                  match tparse f r with
                  | None => None
                  | Some (b, r) =>
                      match strip_prefix [62] (skip_ws r) with
                      | None => None
                      | Some r => Some (TEither a b, r)
                      end
                  end
              end
          end
      | None =>
      match strip_prefix s_Option s with
      | Some r =>                                             (* "Option<" ty ">" *)
          match tparse f r with
          | None => None
          | Some (a, r) =>
              match strip_prefix [62] (skip_ws r) with
              | None => None
              | Some r => Some (TOption a, r)
              end
          end
      | None =>
      match strip_prefix s_bool s with
      | Some r => Some (TBool, r)
      | None =>
      match strip_prefix s_List s with
      | Some r =>                                             (* "List<" ty "," bound ">" *)
          match tparse f r with
          | None => None
          | Some (a, r) =>
              match strip_prefix [44] (skip_ws r) with
              | None => None
              | Some r =>
                  match parse_number (skip_ws r) with
                  | None => None
                  | Some (b, r) =>
                      match list_bound_exp b with
                      | None => None
                      | Some k =>
                          match strip_prefix [62] (skip_ws r) with
                          | None => None
                          | Some r => Some (TList a k, r)
                          end
                      end
                  end
              end
          end
      | None =>
      match s with
      | 117 :: r =>                                           (* "u" width *)
          match parse_number r with
          | None => None
          | Some (w, r) =>
              match from_bit_width w with
              | Some k => Some (TUInt k, r)
              | None => None
              end
          end
      | 40 :: r =>                                            (* "(" ((ty ",")+ ty?)? ")" *)
          match parse_elems (tparse f) 41 f r with
          | None => None
          | Some (ts, tc, r) =>
              if Nat.eqb (length ts) 1%nat && negb tc then None   (* "(A)" is not a type *)
              else Some (TTuple ts, r)
          end
      | 91 :: r =>                                            (* "[" ty ";" size "]" *)
          match tparse f r with
          | None => None
          | Some (a, r) =>
              match strip_prefix [59] (skip_ws r) with
              | None => None
              | Some r =>
                  match parse_number (skip_ws r) with
                  | None => None
                  | Some (n, r) =>
                      match strip_prefix [93] (skip_ws r) with
                      | None => None
                      | Some r => Some (TArray a (N.to_nat n), r)
                      end
                  end
              end
          end
      | _ => None
      end end end end end
  end.

(* enough fuel for any input: every recursive call happens after at least one character was consumed *)
Definition tparse_top (s : list N) : option (ty * list N) := tparse (S (length s)) s.

(** * Values *)

Definition starts_0x (s : list N) : bool :=
  match s with
  | 48 :: 120 :: _ => true
  | _ => false
  end.

(* hex_literal = "0x" "_"* HEX (HEX | "_")*   then   Hexadecimal::parse strips "0x" and '_' *)
Definition lex_hex (s : list N) : option (list N * list N) :=
  if starts_0x s then
    let '(body, rest) := span is_hex_body (skipn 2 s) in
    match strip_underscores body with
    | [] => None
    | d :: ds => Some (d :: ds, rest)
    end
  else None.

(* dec_literal = "_"* DIGIT (DIGIT | "_")*   then   Decimal::parse strips '_' *)
Definition lex_dec (s : list N) : option (list N * list N) :=
  let '(body, rest) := span is_dec_body s in
  match strip_underscores body with
  | [] => None
  | d :: ds => Some (d :: ds, rest)
  end.

(* an integer literal at type uN *)
Definition parse_uint_lit (k : nat) (s : list N) : option (value * list N) :=
  if starts_0x s then
    match lex_hex s with
    | None => None
    | Some (digits, rest) =>
        match parse_hex_uint k digits with
        | Ok n => Some (AUInt k n, rest)
        | _ => None
        end
    end
  else
    match lex_dec s with
    | None => None
    | Some (digits, rest) =>
        match parse_decimal k digits with
        | Ok n => Some (AUInt k n, rest)
        | _ => None
        end
    end.

(* a 0x literal at type [u8; n]: Value::byte_array(bytes) *)
Definition parse_byte_array_lit (n : nat) (s : list N) : option (value * list N) :=
  match lex_hex s with
  | None => None
  | Some (digits, rest) =>
      match parse_hex_bytes n digits with
      | Ok bytes => Some (AArray (map (AUInt 3%nat) bytes) (TUInt 3%nat), rest)
      | _ => None
      end
  end.

(* tuple components: each at its own type.  The input is positioned after "(" or after a ",".
   [single]: the tuple type has exactly one component, which then needs its trailing comma. *)
Section TupleElems.
  Variable p : ty -> list N -> option (value * list N).
  Variable single : bool.
  Fixpoint parse_tuple_elems (ts : list ty) (s : list N) : option (list value * list N) :=
    match ts with
    | [] =>
        match skip_ws s with
        | 41 :: r => Some ([], r)
        | _ => None
        end
    | t :: ts' =>
        match p t s with
        | None => None
        | Some (x, r1) =>
            match skip_ws r1 with
            | 44 :: r2 =>
                match parse_tuple_elems ts' r2 with
                | Some (xs, r3) => Some (x :: xs, r3)
                | None => None
                end
            | 41 :: r2 =>
                match ts' with
                | [] => if single then None else Some ([x], r2)
                | _ :: _ => None
                end
            | _ => None
            end
        end
    end.
End TupleElems.

Fixpoint vparse (fuel : nat) (t : ty) (s : list N) : option (value * list N) :=
  match fuel with
  | O => None
  | S f =>
      let s := skip_ws s in
      match t with
      | TBool =>
          match strip_prefix s_true s with
          | Some r => Some (ABool true, r)
          | None =>
              match strip_prefix s_false s with
              | Some r => Some (ABool false, r)
              | None => None
              end
          end
      | TUInt k => parse_uint_lit k s
      | TOption a =>
          match strip_prefix s_None s with
          | Some r => Some (ANone a, r)
          | None =>
              match strip_prefix s_Some s with
              | None => None
              | Some r =>
                  match vparse f a r with
                  | None => None
                  | Some (x, r) =>
                      match strip_prefix [41] (skip_ws r) with
                      | None => None
                      | Some r => Some (ASome x, r)
                      end
                  end
              end
          end
      | TEither a b =>
          match strip_prefix s_Left s with
          | Some r =>
              match vparse f a r with
              | None => None
              | Some (x, r) =>
                  match strip_prefix [41] (skip_ws r) with
                  | None => None
                  | Some r => Some (ALeft x b, r)
                  end
              end
          | None =>
              match strip_prefix s_Right s with
              | None => None
              | Some r =>
                  match vparse f b r with
                  | None => None
                  | Some (x, r) =>
                      match strip_prefix [41] (skip_ws r) with
                      | None => None
                      | Some r => Some (ARight a x, r)
                      end
                  end
              end
          end
      | TTuple ts =>
          match s with
          | 40 :: r =>
              match parse_tuple_elems (vparse f) (Nat.eqb (length ts) 1%nat) ts r with
              | Some (xs, r) => Some (ATuple xs, r)
              | None => None
              end
          | _ => None
          end
      | TArray a n =>
          if ty_eqb a (TUInt 3%nat) && starts_0x s then parse_byte_array_lit n s
          else
            match s with
            | 91 :: r =>
                match parse_elems (vparse f a) 93 f r with
                | Some (xs, _, r) => if Nat.eqb (length xs) n then Some (AArray xs a, r) else None
                | None => None
                end
            | _ => None
            end
      | TList a k =>
          match strip_prefix s_list s with
          | None => None
          | Some r =>
              match parse_elems (vparse f a) 93 f r with
              | Some (xs, _, r) =>
                  if N.of_nat (length xs) <? 2 ^ N.of_nat k then Some (AList xs a k, r) else None
              | None => None
              end
          end
      end
  end.

Definition vparse_top (t : ty) (s : list N) : option (value * list N) := vparse (S (length s)) t s.
