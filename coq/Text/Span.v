(* Text/Span.v — executable model of source locations and error rendering.

   Mirrors, function by function:
     /repo/src/error.rs   Position::new, Span::new, Span::is_multiline, Span::to_slice,
                          From<&Pair> for Span, From<&str> for Span,
                          From<pest::error::Error> for RichError (the Pos case),
                          Display for RichError
     /repo/src/debug.rs   remove_excess_whitespace, DebugSymbols::insert (text extraction)
     pest 2.7.3           Position::line_col (position.rs), LineIndex::{new,line_col}
                          (iterators/line_index.rs)
     Rust std             str::lines, str::is_char_boundary, str::strip_prefix/suffix,
                          integer formatting `{:w$}`, string padding `{:w$}`, `{:^<w$}`

   A file is a `list N` of bytes (UTF-8).  Characters: a byte b is a continuation
   byte iff 128 <= b < 192; a character starts at every other byte.  `str::chars()`
   / `char_indices()` are modelled by walking the bytes and treating continuation
   bytes as part of the character started by the previous lead byte; `c.len_utf8()`
   is the length of that chunk (`char_len`).  `c == '\n'`, `'\r'`, `' '` are tests
   on the lead byte (these characters are single ASCII bytes).

   Rust panics (assert!, expect, slicing out of range / off a char boundary, usize
   underflow in debug builds, unreachable!) are `Panic`; `Option::None` is `Err`.

   No proofs here except the unit tests of error.rs replayed as Examples. *)
From Coq Require Import String Ascii.
From Coq Require Import List Arith NArith Bool.
Require Import SV.Base.Res.
Import ListNotations.
Local Open Scope nat_scope.

(* ------------------------------------------------------------------ bytes *)
Definition LF : N := 10%N.
Definition CR : N := 13%N.
Definition SP : N := 32%N.
Definition CARET : N := 94%N.
Definition BAR : N := 124%N.

Definition is_cont (b : N) : bool := ((128 <=? b)%N && (b <? 192)%N)%bool.

(* Length announced by a lead byte (0 = not a lead byte). *)
Definition lead_len (b : N) : nat :=
  if (b <? 128)%N then 1
  else if (b <? 192)%N then 0
  else if (b <? 224)%N then 2
  else if (b <? 240)%N then 3
  else if (b <? 248)%N then 4
  else 0.

(* Structural validity of UTF-8: every lead byte is followed by exactly the announced
   number of continuation bytes (overlong forms / surrogates are not excluded; nothing
   below depends on them). *)
Fixpoint valid_utf8_aux (l : list N) (pending : nat) : bool :=
  match l with
  | [] => pending =? 0
  | b :: r =>
      match pending with
      | 0 => match lead_len b with
             | 0 => false
             | S k => valid_utf8_aux r k
             end
      | S k => is_cont b && valid_utf8_aux r k
      end
  end.
Definition valid_utf8 (l : list N) : bool := valid_utf8_aux l 0.

(* str::is_char_boundary *)
Definition is_boundary (file : list N) (o : nat) : bool :=
  if o =? 0 then true
  else match nth_error file o with
       | Some b => negb (is_cont b)
       | None => o =? length file
       end.

(* number of continuation bytes at the head of l *)
Fixpoint cont_run (l : list N) : nat :=
  match l with
  | b :: r => if is_cont b then S (cont_run r) else 0
  | [] => 0
  end.
(* len_utf8 of the first character of l (l starts at a lead byte) *)
Definition char_len (l : list N) : nat :=
  match l with [] => 0 | _ :: r => S (cont_run r) end.
(* str[..].chars().count() *)
Fixpoint count_chars (l : list N) : nat :=
  match l with
  | [] => 0
  | b :: r => if is_cont b then count_chars r else S (count_chars r)
  end.

(* &s[a..b] : panics if a > b, b > len, or an end is not a char boundary *)
Definition slice (file : list N) (a b : nat) : res (list N) :=
  if (b <? a) || (length file <? b) || negb (is_boundary file a) || negb (is_boundary file b)
  then Panic
  else Ok (firstn (b - a) (skipn a file)).

(* ---------------------------------------------- pest Position::line_col *)
(* `chars` is the peekable iterator over input[..pos] (remaining bytes), `pos` the
   countdown of the Rust loop.  fuel >= pos suffices (pos strictly decreases). *)
Fixpoint lcp_loop (fuel : nat) (chars : list N) (pos line col : nat) : res (nat * nat) :=
  if pos =? 0 then Ok (line, col)
  else
    match fuel with
    | 0 => Panic
    | S fuel' =>
        match chars with
        | [] => Panic                                   (* None => unreachable!() *)
        | b :: _ =>
            let rest := skipn (char_len chars) chars in   (* after chars.next() *)
            if (b =? CR)%N then
              if match rest with b2 :: _ => (b2 =? LF)%N | [] => false end   (* peek *)
              then
                let rest2 := skipn (char_len rest) rest in                   (* chars.next() *)
                let pos' := if pos =? 1 then pos - 1 else pos - 2 in
                lcp_loop fuel' rest2 pos' (line + 1) 1
              else lcp_loop fuel' rest (pos - 1) line (col + 1)
            else if (b =? LF)%N then lcp_loop fuel' rest (pos - 1) (line + 1) 1
            else
              if pos <? char_len chars then Panic         (* pos -= c.len_utf8() underflow *)
              else lcp_loop fuel' rest (pos - char_len chars) line (col + 1)
        end
    end.

Definition line_col_position (file : list N) (o : nat) : res (nat * nat) :=
  if length file <? o then Panic                         (* "position out of bounds" *)
  else if negb (is_boundary file o) then Panic           (* &self.input[..pos] *)
  else lcp_loop o (firstn o file) o 1 1.

(* -------------------------------------------------------- pest LineIndex *)
(* LineIndex::new: for c in text.chars() { offset += c.len_utf8(); if c=='\n' {push(offset)} }
   returns the pushed offsets in order (the leading 0 is added by `line_offsets`). *)
Fixpoint li_loop (fuel : nat) (text : list N) (offset : nat) : list nat :=
  match fuel with
  | 0 => []
  | S fuel' =>
      match text with
      | [] => []
      | b :: _ =>
          let offset' := offset + char_len text in
          let rest := li_loop fuel' (skipn (char_len text) text) offset' in
          if (b =? LF)%N then offset' :: rest else rest
      end
  end.
Definition line_offsets (file : list N) : list nat := 0 :: li_loop (length file) file 0.

(* slice::partition_point on a partitioned slice = index of the first element failing p *)
Fixpoint partition_point (p : nat -> bool) (l : list nat) : nat :=
  match l with
  | [] => 0
  | x :: r => if p x then S (partition_point p r) else 0
  end.

Definition line_col_index (file : list N) (pos : nat) : res (nat * nat) :=
  let offs := line_offsets file in
  let pp := partition_point (fun it => it <=? pos) offs in
  if pp =? 0 then Panic                                  (* usize underflow of `- 1` *)
  else
    let line := pp - 1 in
    match nth_error offs line with
    | None => Panic                                      (* self.line_offsets[line] *)
    | Some first_offset =>
        rbind (slice file first_offset pos)              (* &input[first_offset..pos] *)
          (fun line_str => Ok (line + 1, count_chars line_str + 1))
    end.

(* --------------------------------------------------------- Rust str::lines *)
(* split_inclusive('\n') *)
Fixpoint split_incl (l : list N) : list (list N) :=
  match l with
  | [] => []
  | b :: r =>
      if (b =? LF)%N then [b] :: split_incl r
      else match split_incl r with
           | [] => [[b]]
           | x :: xs => (b :: x) :: xs
           end
  end.
Fixpoint strip_suffix_byte (c : N) (l : list N) : option (list N) :=
  match l with
  | [] => None
  | b :: r =>
      match r with
      | [] => if (b =? c)%N then Some [] else None
      | _ :: _ => option_map (cons b) (strip_suffix_byte c r)
      end
  end.
(* the closure of `lines`: strip one "\n", then (only if a "\n" was there) one "\r" *)
Definition lines_map (line : list N) : list N :=
  match strip_suffix_byte LF line with
  | None => line
  | Some l1 => match strip_suffix_byte CR l1 with
               | None => l1
               | Some l2 => l2
               end
  end.
Definition lines (file : list N) : list (list N) := map lines_map (split_incl file).

(* ------------------------------------------------ error.rs Position, Span *)
Record position := mkpos { line : nat; col : nat }.       (* NonZeroUsize fields *)
Record span := mkspan { sp_start : position; sp_end : position }.

Definition position_new (l c : nat) : res position :=
  if l =? 0 then Panic else if c =? 0 then Panic else Ok (mkpos l c).

Definition span_new (s e : position) : res span :=
  if negb (line s <=? line e) then Panic
  else if negb ((line s <? line e) || (col s <=? col e)) then Panic
  else Ok (mkspan s e).

Definition is_multiline (sp : span) : bool := line (sp_start sp) <? line (sp_end sp).

(* From<&Pair> for Span, for a pair covering bytes [s, e):
   start by LineIndex (pair.line_col()), end by Position::line_col. *)
Definition span_of_offsets (file : list N) (s e : nat) : res span :=
  rbind (line_col_index file s) (fun lc1 =>
  rbind (position_new (fst lc1) (snd lc1)) (fun st =>
  rbind (line_col_position file e) (fun lc2 =>
  rbind (position_new (fst lc2) (snd lc2)) (fun en =>
  span_new st en)))).

(* From<pest::error::Error> for RichError, LineColLocation::Pos case; pest computes the
   (line, col) of a parsing error with Position::line_col at the failure offset. *)
Definition span_of_grammar_pos (file : list N) (o : nat) : res span :=
  rbind (line_col_position file o) (fun lc =>
  rbind (position_new (fst lc) (snd lc)) (fun st =>
  rbind (position_new (fst lc) (snd lc + 1)) (fun en =>
  span_new st en))).

(* From<&str> for Span *)
Definition span_of_str (s : list N) : res span :=
  rbind (position_new 1 1) (fun st =>
  let end_line := Nat.max 1 (length (lines s)) in
  let end_col := Nat.max 1 (length (last (lines s) [])) in      (* .len(): bytes *)
  rbind (position_new end_line end_col) (fun en => span_new st en)).

(* Span::to_slice.  `rest` are the bytes from index i on; continuation bytes are not
   items of char_indices().  Err = None. *)
Fixpoint to_slice_loop (file : list N) (sp : span) (rest : list N) (i : nat)
         (current_line current_col : nat) (start_index : option nat) : res (list N) :=
  match rest with
  | [] => Err
  | c :: r =>
      if is_cont c then to_slice_loop file sp r (S i) current_line current_col start_index
      else
        let start_index :=
            if (current_line =? line (sp_start sp)) && (current_col =? col (sp_start sp))
            then Some i else start_index in
        if (current_line =? line (sp_end sp)) && (current_col =? col (sp_end sp)) then
          match start_index with
          | None => Panic                                  (* expect("start comes before end") *)
          | Some si => slice file si i
          end
        else if (c =? LF)%N
             then to_slice_loop file sp r (S i) (current_line + 1) 1 start_index
             else to_slice_loop file sp r (S i) current_line (current_col + 1) start_index
  end.
Definition to_slice (file : list N) (sp : span) : res (list N) :=
  to_slice_loop file sp file 0 1 1 None.

(* ------------------------------------------------------------ formatting *)
(* usize::to_string *)
Fixpoint dec_aux (fuel n : nat) (acc : list N) : list N :=
  match fuel with
  | 0 => acc
  | S f =>
      let acc' := N.of_nat (48 + n mod 10) :: acc in
      if n / 10 =? 0 then acc' else dec_aux f (n / 10) acc'
  end.
Definition to_decimal (n : nat) : list N := dec_aux (S n) n [].

(* "{:w$}" on " "  : left aligned, padded with spaces to w chars (at least the string) *)
Definition fmt_space (w : nat) : list N := SP :: repeat SP (w - 1).
(* "{n:w$}" on an integer: right aligned *)
Definition fmt_num (n w : nat) : list N :=
  let d := to_decimal n in repeat SP (w - length d) ++ d.
(* "{:^<w$}" on "" : w carets *)
Definition fmt_carets (w : nat) : list N := repeat CARET w.

Definition quote_line (w num : nat) (l : list N) : list N :=
  fmt_num num w ++ [SP; BAR; SP] ++ l ++ [LF].
Fixpoint quote_lines (w num : nat) (ls : list (list N)) : list N :=
  match ls with
  | [] => []
  | l :: r => quote_line w num l ++ quote_lines w (S num) r
  end.

(* Display for RichError { error, span, file = Some(file) }; msg = error.to_string() *)
Definition render (file : list N) (sp : span) (msg : list N) : res (list N) :=
  match file with
  | [] => Ok msg
  | _ :: _ =>
      if line (sp_start sp) =? 0 then Panic             (* not representable: NonZeroUsize *)
      else
      let start_line_index := line (sp_start sp) - 1 in
      if line (sp_end sp) <? start_line_index then Panic (* usize underflow *)
      else
      let n_spanned_lines := line (sp_end sp) - start_line_index in
      let w := length (to_decimal (line (sp_end sp))) in
      let ls := skipn start_line_index (lines file) in
      let start_line_len := match ls with [] => 0 | l :: _ => length l end in   (* bytes *)
      let body := quote_lines w (start_line_index + 1) (firstn n_spanned_lines ls) in
      rbind (if is_multiline sp then Ok (0, start_line_len)
             else if col (sp_end sp) <? col (sp_start sp) then Panic   (* usize underflow *)
             else Ok (col (sp_start sp), col (sp_end sp) - col (sp_start sp)))
        (fun u =>
           Ok (fmt_space w ++ [SP; BAR; LF]
               ++ body
               ++ fmt_space w ++ [SP; BAR]
               ++ fmt_space (fst u)
               ++ fmt_carets (snd u) ++ [SP]
               ++ msg))
  end.

(* ---------------------------------------------------------------- debug.rs *)
(* s.replace(is_excess_whitespace, ""): the predicate is called once per char, in order *)
Fixpoint rew_loop (l : list N) (last_was_space : bool) : list N :=
  match l with
  | [] => []
  | b :: r =>
      if is_cont b then b :: rew_loop r last_was_space
      else if (b =? SP)%N then
             (if last_was_space then rew_loop r true else b :: rew_loop r true)
      else if (b =? LF)%N then rew_loop r last_was_space
      else b :: rew_loop r false
  end.
Definition remove_excess_whitespace (s : list N) : list N := rew_loop s true.

Fixpoint strip_prefix (p l : list N) : option (list N) :=
  match p with
  | [] => Some l
  | a :: p' => match l with
               | b :: l' => if (a =? b)%N then strip_prefix p' l' else None
               | [] => None
               end
  end.

(* DebugSymbols::insert: the text stored for a tracked call *)
Definition tracked_text (file : list N) (sp : span) : res (list N) :=
  rbind (match to_slice file sp with
         | Ok s => Ok s
         | Err => Ok []                                   (* unwrap_or("") *)
         | Panic => Panic
         end)
    (fun s =>
       let text := remove_excess_whitespace s in
       Ok (match strip_prefix [100; 98; 103; 33; 40]%N text with        (* "dbg!(" *)
           | Some t => match strip_suffix_byte 41%N t with              (* ")" *)
                       | Some u => u
                       | None => text
                       end
           | None => text
           end)).

(* ---------------------------------------------------------------- examples *)
Definition bytes (s : string) : list N := map N_of_ascii (list_ascii_of_string s).

Definition nl : string := String (ascii_of_nat 10) EmptyString.
Definition FILE : list N :=
  bytes ("let a1: List<u32, 5> = None;" ++ nl ++
         "let x: u32 = Left(" ++ nl ++
         "    Right(0)" ++ nl ++
         ");")%string.

(* error.rs tests::display_single_line *)
Example display_single_line :
  render FILE (mkspan (mkpos 1 14) (mkpos 1 20))
    (bytes "Expected a power of two greater than one (2, 4, 8, 16, 32, ...) as list bound, found 5")
  = Ok (bytes ("  |" ++ nl ++
               "1 | let a1: List<u32, 5> = None;" ++ nl ++
               "  |              ^^^^^^ Expected a power of two greater than one (2, 4, 8, 16, 32, ...) as list bound, found 5")%string).
Proof. vm_compute. reflexivity. Qed.

(* error.rs tests::display_multi_line *)
Example display_multi_line :
  render FILE (mkspan (mkpos 2 21) (mkpos 4 2))
    (bytes "Cannot parse: Expected value of type `u32`, got `Either<Either<_, u32>, _>`")
  = Ok (bytes ("  |" ++ nl ++
               "2 | let x: u32 = Left(" ++ nl ++
               "3 |     Right(0)" ++ nl ++
               "4 | );" ++ nl ++
               "  | ^^^^^^^^^^^^^^^^^^ Cannot parse: Expected value of type `u32`, got `Either<Either<_, u32>, _>`")%string).
Proof. vm_compute. reflexivity. Qed.

(* error.rs tests::display_entire_file (span from From<&str>) *)
Example span_of_FILE : span_of_str FILE = Ok (mkspan (mkpos 1 1) (mkpos 4 2)).
Proof. vm_compute. reflexivity. Qed.
Example display_entire_file :
  rbind (span_of_str FILE) (fun sp =>
    render FILE sp (bytes "Cannot parse: This span covers the entire file"))
  = Ok (bytes ("  |" ++ nl ++
               "1 | let a1: List<u32, 5> = None;" ++ nl ++
               "2 | let x: u32 = Left(" ++ nl ++
               "3 |     Right(0)" ++ nl ++
               "4 | );" ++ nl ++
               "  | ^^^^^^^^^^^^^^^^^^^^^^^^^^^^ Cannot parse: This span covers the entire file")%string).
Proof. vm_compute. reflexivity. Qed.

(* error.rs tests::display_empty_file *)
Example span_of_empty : span_of_str [] = Ok (mkspan (mkpos 1 1) (mkpos 1 1)).
Proof. vm_compute. reflexivity. Qed.
Example display_empty_file_1 :
  rbind (span_of_str []) (fun sp => render [] sp (bytes "Cannot parse: This error has an empty file"))
  = Ok (bytes "Cannot parse: This error has an empty file").
Proof. vm_compute. reflexivity. Qed.
Example display_empty_file_2 :
  render [] (mkspan (mkpos 1 1) (mkpos 2 2)) (bytes "Cannot parse: This error has an empty file")
  = Ok (bytes "Cannot parse: This error has an empty file").
Proof. vm_compute. reflexivity. Qed.

(* pest position.rs tests::line_col : "a\rb\nc\r\nd嗨" *)
Definition PEST_INPUT : list N := [97; 13; 98; 10; 99; 13; 10; 100; 229; 151; 168]%N.
Example pest_position_line_col :
  map (line_col_position PEST_INPUT) [0; 1; 2; 3; 4; 5; 6; 7; 8; 11]
  = map Ok [(1,1); (1,2); (1,3); (1,4); (2,1); (2,2); (2,3); (3,1); (3,2); (3,3)].
Proof. vm_compute. reflexivity. Qed.
Example pest_position_line_col_inside_char :
  line_col_position PEST_INPUT 9 = Panic /\ line_col_position PEST_INPUT 12 = Panic.
Proof. vm_compute. split; reflexivity. Qed.

(* pest line_index.rs tests::test_line_index : "hello 你好 A🎈C\nworld" *)
Definition PEST_INDEX_INPUT : list N :=
  [104;101;108;108;111;32; 228;189;160; 229;165;189; 32;65; 240;159;142;136; 67;10;
   119;111;114;108;100]%N.
Example pest_line_index :
  map (line_col_index PEST_INDEX_INPUT) [0;1;2;3;4;5;6;9;12;13;14;18;19;20;21;22;23;24]
  = map Ok [(1,1);(1,2);(1,3);(1,4);(1,5);(1,6);(1,7);(1,8);(1,9);(1,10);(1,11);(1,12);(1,13);
            (2,1);(2,2);(2,3);(2,4);(2,5)].
Proof. vm_compute. reflexivity. Qed.
Example pest_line_offsets : line_offsets (bytes "hello" ++ [10]%N ++ bytes "world") = [0; 6].
Proof. vm_compute. reflexivity. Qed.
