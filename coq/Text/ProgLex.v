(* A LEXER for the token language of /repo/src/minimal.pest, producing the tokens [ProgPrint.tok] that the
   token-level parser [ProgPrint.parse_token_list] reads, and the text-level reader

       parse_text s  :=  lex s  >>=  parse_token_list.

   This file contains only definitions (plain, total, computable Gallina; extractable with ExtrOcamlBasic).
   Theorems are in Proofs/ProgLexCorrect.v.

   pest grammars are scannerless: there is no lexer in the implementation.  What is modelled here is the
   LEXICAL part of minimal.pest:
     - WHITESPACE = " " | "\t" | "\n" | "\r" and COMMENT = "/*" (!"*/" ANY)* "*/" | "//" (!"\n" ANY)* are skipped
       between tokens ([skip_trivia]); an unterminated block comment is an error;
     - a WORD is the longest run  ASCII_ALPHA (ASCII_ALPHANUMERIC | "_")*  (identifier / witness_name); taking
       the longest run is what the `~ !ident_char` look-aheads of the keyword rules (fn_keyword, let_keyword,
       match_keyword, type_keyword, mod_keyword, const_keyword, none_*, false_*, true_*, unwrap, builtin_type,
       builtin_alias, builtin_function) express: `lettuce`, `u8x`, `Nonesuch`, `unwrap_x` are identifiers;
     - the quoted literals that begin with a word and end in punctuation are one token when the punctuation
       follows the word IMMEDIATELY (the literal contains no implicit whitespace):
         Either<  Option<  List<  Left(  Right(  Some(  list![  unwrap_left::<  unwrap_right::<  is_none::<
         assert!  panic!  dbg!  fold::<  for_while::<
       otherwise the word is an ordinary word (`Left (x)` is a call of a function named Left in pest, too);
     - jet = "jet::" (ALNUM | "_")+,  witness_expr / param_expr = "witness::" / "param::" witness_name (the
       rules are atomic / compound-atomic: no whitespace inside);
     - numbers: bin_literal "0b" "_"* BIN (BIN | "_")*, hex_literal "0x" "_"* HEX (HEX | "_")*, dec_literal
       "_"* DIGIT (DIGIT | "_")*, tried in this order (single_expression); the token holds the digits with
       the prefix and the underscores removed (Binary / Hexadecimal / Decimal :: parse);
     - punctuation  ( ) { } [ ] , ; : = < > _  and  ->  =>  >::into  by longest match.

   CONTEXT DEPENDENCE.  Three distinctions made by [tok] cannot be decided from the characters of the lexeme:
     (1) a run of digits is [TNum] (array_size / list_bound, ASCII_DIGIT+) inside a type or `fold::<f, N>`,
         and [TDec] (dec_literal) inside an expression;
     (2) the words `witness` / `param` are [TModName] after `mod` and identifiers elsewhere;
     (3) every keyword is also an identifier in pest wherever the keyword is not tried first
         (`let let: u8 = 1;` is accepted).
   The lexer is therefore split into two phases, both total functions:
     [scan]     characters -> raw tokens [rtok]; context free.  A raw token is a [tok], or the bare word
                witness / param ([RWordWP]), or a run of digits without underscores ([RDigits]);
     [resolve]  raw tokens -> tokens, looking at the PREVIOUS token and the NEXT raw token only:
                  RWordWP w       is  TModName w   after TMod,   and the identifier otherwise;
                  RDigits s       is  TNum         between `;` and `]`  or between `,` and `>`,
                                  and TDec s       otherwise.
                In a program of the grammar a decimal literal is never in one of these two windows (`]`
                closes a comma-separated list, `>` only follows types, function names and bounds) and an
                array size / list bound always is, so on grammatical input the rule is exact.
   (3) is NOT modelled: the words
         fn type mod const let match bool u1 .. u256 None false true unwrap  and the builtin alias names
       are always keyword tokens; the words of the punctuated literals above are identifiers unless the
       punctuation follows (as in pest).  The round-trip theorem correspondingly asks ([names_ok]) that the
       identifiers of the tree are not among [reserved_words] = these keywords and Left, Right, Some (the
       printer writes a call of a function f as `f(`); nothing else is asked of names: `witness`, `param`,
       `list`, `fold`, `jet`, `Either`, .. are allowed as identifiers.

   Names: [tok] carries interned ids.  The lexer is parameterised by [intern : list N -> N]; the theorems ask
   [intern (ns n) = n] for the names n that occur ([name_ok]). *)
From Coq Require Import List Arith NArith Bool.
Import ListNotations.
Require Import SV.Text.Literal SV.Text.TyPrint SV.Text.ValParse SV.Front.PTree SV.Text.ProgPrint.
Local Open Scope N_scope.

(** * 1. Words *)

Fixpoint leqb (a b : list N) : bool :=
  match a, b with
  | [], [] => true
  | x :: a', y :: b' => (x =? y) && leqb a' b'
  | _, _ => false
  end.

Definition mem (w : list N) (l : list (list N)) : bool := existsb (leqb w) l.

Definition w_jet : list N := [106;101;116].  (* "jet" *)
Definition w_Either : list N := [69;105;116;104;101;114].  (* "Either" *)
Definition w_Option : list N := [79;112;116;105;111;110].  (* "Option" *)
Definition w_List : list N := [76;105;115;116].  (* "List" *)
Definition w_Left : list N := [76;101;102;116].  (* "Left" *)
Definition w_Right : list N := [82;105;103;104;116].  (* "Right" *)
Definition w_Some : list N := [83;111;109;101].  (* "Some" *)
Definition w_list : list N := [108;105;115;116].  (* "list" *)
Definition w_unwrap_left : list N := [117;110;119;114;97;112;95;108;101;102;116].  (* "unwrap_left" *)
Definition w_unwrap_right : list N := [117;110;119;114;97;112;95;114;105;103;104;116].  (* "unwrap_right" *)
Definition w_is_none : list N := [105;115;95;110;111;110;101].  (* "is_none" *)
Definition w_assert : list N := [97;115;115;101;114;116].  (* "assert" *)
Definition w_panic : list N := [112;97;110;105;99].  (* "panic" *)
Definition w_dbg : list N := [100;98;103].  (* "dbg" *)
Definition w_fold : list N := [102;111;108;100].  (* "fold" *)
Definition w_for_while : list N := [102;111;114;95;119;104;105;108;101].  (* "for_while" *)

Definition s_cc : list N := [58;58].  (* "::" *)
Definition s_cclt : list N := [58;58;60].  (* "::<" *)
Definition s_lt : list N := [60].  (* "<" *)
Definition s_lp : list N := [40].  (* "(" *)
Definition s_bang : list N := [33].  (* "!" *)
Definition s_bangbr : list N := [33;91].  (* "![" *)
Definition s_ccinto : list N := [58;58;105;110;116;111].  (* "::into" *)

(* the literals of the rule builtin_alias (tied to Gen/Aliases.v in Proofs/ProgLexCorrect.v) *)
Definition builtin_alias_names : list (list N) := [
  [67;116;120;56]  (* Ctx8 *);
  [80;117;98;107;101;121]  (* Pubkey *);
  [77;101;115;115;97;103;101;54;52]  (* Message64 *);
  [77;101;115;115;97;103;101]  (* Message *);
  [83;105;103;110;97;116;117;114;101]  (* Signature *);
  [83;99;97;108;97;114]  (* Scalar *);
  [70;101]  (* Fe *);
  [71;101;106]  (* Gej *);
  [71;101]  (* Ge *);
  [80;111;105;110;116]  (* Point *);
  [72;101;105;103;104;116]  (* Height *);
  [84;105;109;101]  (* Time *);
  [68;105;115;116;97;110;99;101]  (* Distance *);
  [68;117;114;97;116;105;111;110]  (* Duration *);
  [76;111;99;107]  (* Lock *);
  [79;117;116;112;111;105;110;116]  (* Outpoint *);
  [67;111;110;102;105;100;101;110;116;105;97;108;49]  (* Confidential1 *);
  [69;120;112;108;105;99;105;116;65;115;115;101;116]  (* ExplicitAsset *);
  [65;115;115;101;116;49]  (* Asset1 *);
  [69;120;112;108;105;99;105;116;65;109;111;117;110;116]  (* ExplicitAmount *);
  [65;109;111;117;110;116;49]  (* Amount1 *);
  [69;120;112;108;105;99;105;116;78;111;110;99;101]  (* ExplicitNonce *);
  [78;111;110;99;101]  (* Nonce *);
  [84;111;107;101;110;65;109;111;117;110;116;49]  (* TokenAmount1 *)
].

(* word, the punctuation that must follow it immediately, the token of the two together *)
Definition suffix_table : list (list N * list N * tok) := [
  (w_Either, s_lt, TEitherLt); (w_Option, s_lt, TOptionLt); (w_List, s_lt, TListLt);
  (w_Left, s_lp, TLeftP); (w_Right, s_lp, TRightP); (w_Some, s_lp, TSomeP);
  (w_list, s_bangbr, TListBang);
  (w_unwrap_left, s_cclt, TUnwrapLeft); (w_unwrap_right, s_cclt, TUnwrapRight); (w_is_none, s_cclt, TIsNone);
  (w_assert, s_bang, TAssert); (w_panic, s_bang, TPanic); (w_dbg, s_bang, TDbg);
  (w_fold, s_cclt, TFold); (w_for_while, s_cclt, TForWhile)
].

(* the words that are a token by themselves; "u1" .. "u256" are [uint_type_name 0 .. 8] *)
Definition kw_table : list (list N * tok) :=
  [ (k_fn, TFn); (k_type, TTypeK); (k_mod, TMod); (k_const, TConst); (k_let, TLet); (k_match, TMatch);
    (k_bool, TBoolTy); (k_None, TNone); (k_false, TFalse); (k_true, TTrue); (k_unwrap, TUnwrap) ]
  ++ map (fun k => (uint_type_name k, TUIntTy k)) (seq 0 9).

(* the words that the lexer does not read as an identifier in a printed program: the keywords, the builtin
   alias names, and Left / Right / Some, which the printer would follow directly by `(` if they were the
   name of a called function.  The words of the other punctuated literals (jet witness param Either Option
   List list unwrap_left unwrap_right is_none assert panic dbg fold for_while) ARE identifiers unless their
   punctuation follows, and are not reserved. *)
Definition reserved_words : list (list N) :=
  [w_Left; w_Right; w_Some] ++ map fst kw_table ++ builtin_alias_names.

Definition reserved (w : list N) : bool := mem w reserved_words.

(** * 2. Raw tokens and the scanner *)

Inductive rtok :=
| RT (t : tok)                 (* a token that does not depend on the context *)
| RWordWP (w : bool)           (* the bare word `witness` (true) / `param` (false) *)
| RDigits (s : list N).        (* ASCII_DIGIT+ : array_size, list_bound or a dec_literal without `_` *)

(* WHITESPACE and COMMENT *)
Inductive tmode := TNorm | TBlock | TLine.

(* skip whitespace and comments; [None]: a block comment is not closed *)
Fixpoint skip_trivia (m : tmode) (s : list N) {struct s} : option (list N) :=
  match s with
  | [] => match m with TBlock => None | _ => Some [] end
  | c :: r =>
      match m with
      | TNorm =>
          if is_ws c then skip_trivia TNorm r
          else if c =? 47 then
            match r with
            | d :: r' =>
                if d =? 42 then skip_trivia TBlock r'              (* "/*" *)
                else if d =? 47 then skip_trivia TLine r'          (* "//" *)
                else Some s
            | [] => Some s
            end
          else Some s
      | TBlock =>
          if c =? 42 then
            match r with
            | d :: r' => if d =? 47 then skip_trivia TNorm r' else skip_trivia TBlock r     (* "*/" *)
            | [] => None
            end
          else skip_trivia TBlock r
      | TLine => if c =? 10 then skip_trivia TNorm r else skip_trivia TLine r
      end
  end.

Definition strip_us (s : list N) : list N := filter (fun c => negb (c =? 95)) s.
Definition has_us (s : list N) : bool := existsb (fun c => c =? 95) s.
Definition is_bin_body (c : N) : bool := is_bin_digit c || (c =? 95).
Definition is_us (c : N) : bool := c =? 95.

(* dec_literal / array_size / list_bound that starts with the digit c *)
Definition scan_dec (c : N) (r : list N) : rtok * list N :=
  let '(body, r2) := span is_dec_body r in
  (if has_us body then RT (TDec (strip_us (c :: body))) else RDigits (c :: body), r2).

(* a number that starts with the digit c: bin_literal, hex_literal, dec_literal in this order *)
Definition scan_number (c : N) (r : list N) : rtok * list N :=
  if c =? 48 then
    match r with
    | d :: r1 =>
        if d =? 98 then                                            (* "0b" *)
          let '(body, r2) := span is_bin_body r1 in
          match strip_us body with [] => scan_dec c r | ds => (RT (TBin ds), r2) end
        else if d =? 120 then                                      (* "0x" *)
          let '(body, r2) := span is_hex_body r1 in
          match strip_us body with [] => scan_dec c r | ds => (RT (THex ds), r2) end
        else scan_dec c r
    | [] => scan_dec c r
    end
  else scan_dec c r.

(* after an underscore: "_"* DIGIT (DIGIT | "_")* is a dec_literal, anything else leaves the one `_` *)
Definition scan_underscore (r : list N) : rtok * list N :=
  let '(_, r1) := span is_us r in
  match r1 with
  | d :: _ =>
      if is_digit d then let '(body, r2) := span is_dec_body r1 in (RT (TDec (strip_us body)), r2)
      else (RT TUnderscore, r)
  | [] => (RT TUnderscore, r)
  end.

Fixpoint find_suffix (w r : list N) (tbl : list (list N * list N * tok)) : option (tok * list N) :=
  match tbl with
  | [] => None
  | (w', suf, t) :: tbl' =>
      if leqb w w' then
        match strip_prefix suf r with
        | Some r' => Some (t, r')
        | None => find_suffix w r tbl'
        end
      else find_suffix w r tbl'
  end.

Fixpoint assoc_word (w : list N) (tbl : list (list N * tok)) : option tok :=
  match tbl with
  | [] => None
  | (w', t) :: tbl' => if leqb w w' then Some t else assoc_word w tbl'
  end.

Section Lex.
  Variable intern : list N -> N.          (* the id of a spelling *)

  (* the plain classification of a word: keyword, builtin alias or identifier *)
  Definition plain_word (w : list N) : tok :=
    match assoc_word w kw_table with
    | Some t => t
    | None => if mem w builtin_alias_names then TBuiltin (intern w) else TIdent (intern w)
    end.

  (* "witness::" / "param::" witness_name, after the word; [r] is the text after the word *)
  Definition scoped_name (mk : N -> tok) (wp : bool) (r : list N) : rtok * list N :=
    match strip_prefix s_cc r with
    | Some (c :: r1) =>
        if is_alpha c then let '(nm, r2) := span is_ident_char r1 in (RT (mk (intern (c :: nm))), r2)
        else (RWordWP wp, r)
    | _ => (RWordWP wp, r)
    end.

  (* the token that begins with the word w; r is the text after the word (it does not begin with an
     identifier character) *)
  Definition word_tok (w r : list N) : rtok * list N :=
    if leqb w w_jet then
      match strip_prefix s_cc r with
      | Some r1 =>
          let '(nm, r2) := span is_ident_char r1 in
          match nm with
          | [] => (RT (plain_word w), r)
          | _ :: _ => (RT (TJet (intern nm)), r2)
          end
      | None => (RT (plain_word w), r)
      end
    else if leqb w k_witness then scoped_name TWitness true r
    else if leqb w k_param then scoped_name TParam false r
    else
      match find_suffix w r suffix_table with
      | Some (t, r') => (RT t, r')
      | None => (RT (plain_word w), r)
      end.

  (* one token; c is the first character, r the text after it *)
  Definition scan1 (c : N) (r : list N) : option (rtok * list N) :=
    if is_alpha c then let '(w, r1) := span is_ident_char r in Some (word_tok (c :: w) r1)
    else if is_digit c then Some (scan_number c r)
    else if c =? 95 then Some (scan_underscore r)
    else if c =? 40 then Some (RT TLParen, r)
    else if c =? 41 then Some (RT TRParen, r)
    else if c =? 123 then Some (RT TLBrace, r)
    else if c =? 125 then Some (RT TRBrace, r)
    else if c =? 91 then Some (RT TLBrack, r)
    else if c =? 93 then Some (RT TRBrack, r)
    else if c =? 44 then Some (RT TComma, r)
    else if c =? 59 then Some (RT TSemi, r)
    else if c =? 58 then Some (RT TColon, r)
    else if c =? 60 then Some (RT TLt, r)
    else if c =? 61 then                                           (* "=>" before "=" *)
      match r with
      | d :: r' => if d =? 62 then Some (RT TFatArrow, r') else Some (RT TEq, r)
      | [] => Some (RT TEq, r)
      end
    else if c =? 45 then                                           (* "->" *)
      match r with
      | d :: r' => if d =? 62 then Some (RT TArrow, r') else None
      | [] => None
      end
    else if c =? 62 then                                           (* ">::into" before ">" *)
      match strip_prefix s_ccinto r with
      | Some r' => Some (RT TGtInto, r')
      | None => Some (RT TGt, r)
      end
    else None.

  (* every token consumes at least one character: the length of the text (+1) is enough fuel *)
  Fixpoint scan (fuel : nat) (s : list N) : option (list rtok) :=
    match fuel with
    | O => None
    | S f =>
        match skip_trivia TNorm s with
        | None => None
        | Some [] => Some []
        | Some (c :: r) =>
            match scan1 c r with
            | Some (t, r') =>
                match scan f r' with
                | Some ts => Some (t :: ts)
                | None => None
                end
            | None => None
            end
        end
    end.

  Definition scan_text (s : list N) : option (list rtok) := scan (S (length s)) s.

  (** * 3. Resolution of the context-dependent raw tokens *)

  Definition peek (rs : list rtok) : option tok :=
    match rs with RT t :: _ => Some t | _ => None end.

  (* the two windows in which a run of digits is an array size / a list bound *)
  Definition num_ctx (prev next : option tok) : bool :=
    match prev, next with
    | Some TSemi, Some TRBrack => true                             (* [T; N] *)
    | Some TComma, Some TGt => true                                (* List<T, N>   fold::<f, N> *)
    | _, _ => false
    end.

  Definition is_mod (prev : option tok) : bool := match prev with Some TMod => true | _ => false end.

  Fixpoint resolve (prev : option tok) (rs : list rtok) : list tok :=
    match rs with
    | [] => []
    | r :: rest =>
        let t :=
          match r with
          | RT t => t
          | RWordWP w => if is_mod prev then TModName w else TIdent (intern (if w then k_witness else k_param))
          | RDigits s => if num_ctx prev (peek rest) then TNum (dec_acc 0 s) else TDec s
          end in
        t :: resolve (Some t) rest
    end.

  Definition lex (s : list N) : option (list tok) :=
    match scan_text s with
    | Some rs => Some (resolve None rs)
    | None => None
    end.

  (* the text-level reader *)
  Definition parse_text (s : list N) : option pprogram :=
    match lex s with
    | Some ts => parse_token_list ts
    | None => None
    end.
End Lex.

(** * 4. When does a layout lex back to its tokens?  (the hypotheses of Proofs/ProgLexCorrect.v) *)

(** ** 4.1 separability: no two adjacent tokens fuse *)

(* how the spelling of a token ends *)
Inductive tail_kind := KW | KEq | KGt | KColon | KP.
(* how it begins *)
Inductive head_kind := HW | HGt | HColon | HLt | HP.

Definition tok_tail (t : tok) : tail_kind :=
  match t with
  | TFn | TTypeK | TMod | TConst | TLet | TMatch | TModName _ | TUnderscore | TBoolTy | TUIntTy _ | TBuiltin _
  | TNone | TFalse | TTrue | TUnwrap | TJet _ | TWitness _ | TParam _
  | TDec _ | TBin _ | THex _ | TIdent _ | TNum _ => KW       (* ends with an identifier character *)
  | TEq => KEq                                                (* `>` must not follow *)
  | TGt => KGt                                                (* `::into` must not follow *)
  | TColon => KColon                                          (* `:` must not follow: `word::` *)
  | _ => KP                                                   (* ends with punctuation; anything may follow *)
  end.

Definition tok_head (t : tok) : head_kind :=
  match t with
  | TLParen | TRParen | TLBrace | TRBrace | TLBrack | TRBrack | TComma | TSemi | TEq | TArrow | TFatArrow
      => HP                                                   (* one of ( ) { } [ ] , ; = - *)
  | TGt | TGtInto => HGt
  | TColon => HColon
  | TLt => HLt
  | _ => HW                                                   (* begins with a letter, a digit or `_` *)
  end.

(* may b follow a without anything in between?  (a sufficient condition) *)
Definition adj_ok (a b : tok) : bool :=
  match tok_tail a, tok_head b with
  | KW, HW => false                    (* two words / numbers would be one *)
  | KW, HLt => false                   (* `Either` `<` would be `Either<` *)
  | KEq, HGt => false                  (* `=` `>` would be `=>` *)
  | KGt, HColon => false               (* `>` `:` `:` `into` would be `>::into` *)
  | KColon, HColon => false            (* `fold` `:` `:` `<` would be `fold::<`, `jet` `:` `:` `x` .. `jet::x` *)
  | _, _ => true
  end.

(* [prev] is the token directly before the layout, if any (None: the start of the text or whitespace) *)
Fixpoint sep_from (prev : option tok) (l : list litem) : bool :=
  match l with
  | [] => true
  | LT b :: r => match prev with Some a => adj_ok a b | None => true end && sep_from (Some b) r
  | LW w :: r => nonempty w && forallb is_ws w && sep_from None r
  end.

(* every whitespace item is a non-empty run of WHITESPACE characters, and adjacent tokens do not fuse *)
Definition sep_ok (l : list litem) : bool := sep_from None l.

(* the token directly before what follows the layout *)
Definition last_tok (prev : option tok) (l : list litem) : option tok :=
  fold_left (fun st i => match i with LT t => Some t | LW _ => None end) l prev.

(** ** 4.2 names *)

(* identifier = witness_name = ASCII_ALPHA (ASCII_ALPHANUMERIC | "_")* *)
Definition ident_ok (w : list N) : bool :=
  match w with c :: r => is_alpha c && forallb is_ident_char r | [] => false end.
(* the name of a jet: (ASCII_ALPHANUMERIC | "_")+ *)
Definition jetname_ok (w : list N) : bool := nonempty w && forallb is_ident_char w.

Section Names.
  Variable ns : N -> list N.
  Variable intern : list N -> N.

  Definition name_ok (t : tok) : bool :=
    match t with
    | TIdent n => ident_ok (ns n) && negb (reserved (ns n)) && (intern (ns n) =? n)
    | TBuiltin n => mem (ns n) builtin_alias_names && (intern (ns n) =? n)
    | TJet n => jetname_ok (ns n) && (intern (ns n) =? n)
    | TWitness n | TParam n => ident_ok (ns n) && (intern (ns n) =? n)
    | _ => true
    end.

  (* the names of a layout *)
  Definition names_ok (l : list litem) : bool := forallb name_ok (toks_of l).

  (* the names of a program: the names of the tokens its printer emits *)
  Definition prog_names_ok (p : pprogram) : bool := forallb name_ok (tokens_program p).
End Names.

(** ** 4.3 literals, and numbers in their context *)

Definition lit_ok (t : tok) : bool :=
  match t with
  | TDec s => dec_ok s
  | TBin s => bin_ok s
  | THex s => hex_ok s
  | TUIntTy k => Nat.leb k 8
  | _ => true
  end.

(* t between prev and next *)
Definition tok_ctx (prev : option tok) (t : tok) (next : option tok) : bool :=
  match t with
  | TNum _ => num_ctx prev next
  | TDec s => dec_ok s && negb (num_ctx prev next)
  | TModName _ => is_mod prev
  | TMod => match next with Some (TModName _) => true | _ => false end
  | _ => lit_ok t
  end.

Definition hd_opt (ts : list tok) (next : option tok) : option tok :=
  match ts with t :: _ => Some t | [] => next end.

(* literals are digit strings of their class, u-types are u1 .. u256, an array size / list bound stands
   between `;` `]` or `,` `>`, a decimal literal does not, a module name follows `mod` and only a module name does *)
Fixpoint ctx_from (prev : option tok) (ts : list tok) (next : option tok) : bool :=
  match ts with
  | [] => true
  | t :: r => tok_ctx prev t (hd_opt r next) && ctx_from (Some t) r next
  end.

Definition ctx_ok (ts : list tok) : bool := ctx_from None ts None.
