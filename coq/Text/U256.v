(* Model of the 256-bit integer text conversions of /repo/src/num.rs:
     impl fmt::Display for U256   (lines 290-320)
     impl FromStr for U256        (lines 322-348)
   Text is a list of byte values (ASCII codes); a U256 is the list of its 32 bytes in
   big-endian order.  Model only: the theorems are in Proofs/U256Correct.v.

   Conventions.
   - All Rust error kinds (InvalidDigit / PosOverflow) are collapsed into [Err].
   - The Rust works on `char`s of a `&str`; the model works on bytes.  For ASCII input
     the two coincide.  A non-ASCII character is not a decimal digit, and none of its
     UTF-8 bytes (all >= 128) is one either, so both sides answer [Err] on such input
     (the only difference would be the error kind, which is collapsed). *)
From Coq Require Import List NArith Bool.
Require Import SV.Base.Res.
Import ListNotations.
Local Open Scope N_scope.

(* Big-endian value of a byte string (Horner scheme, most significant byte first). *)
Fixpoint bytes_value_acc (acc : N) (bs : list N) : N :=
  match bs with
  | [] => acc
  | b :: r => bytes_value_acc (acc * 256 + b) r
  end.
Definition bytes_value (bs : list N) : N := bytes_value_acc 0 bs.

(* '0' .. '9' *)
Definition is_dec_digit (c : N) : bool := (48 <=? c) && (c <=? 57).
(* char::to_digit(10) *)
Definition to_digit10 (c : N) : option N :=
  if is_dec_digit c then Some (c - 48) else None.

(* s.trim_start_matches('0') *)
Fixpoint trim_zeros (s : list N) : list N :=
  match s with
  | [] => []
  | c :: r => if c =? 48 then trim_zeros r else s
  end.

(* The inner loop of from_str:
       for byte in bytes.iter_mut().rev() {
           let value = u32::from( *byte) * 10 + carry;
           *byte = (value % 256) as u8;
           carry = value / 256;
       }
   The iteration goes from the LAST (least significant) byte to the first; the structural
   recursion below reaches the last byte first and threads the carry back towards the
   head, which is the same data flow.  Returns the new bytes and the final carry.
   (value <= 255*10+9 fits a u32, so the u32 arithmetic never overflows.) *)
Fixpoint mul10_add (bs : list N) (carry : N) : list N * N :=
  match bs with
  | [] => ([], carry)
  | b :: r =>
      let '(r', c) := mul10_add r carry in
      let value := b * 10 + c in
      ((value mod 256) :: r', value / 256)
  end.

(* The outer loop of from_str:
       for ch in decimal.chars() {
           let mut carry = ch.to_digit(10).ok_or(InvalidDigit)?;
           <inner loop>
           if 0 < carry { return Err(PosOverflow); }
       }
       Ok(Self(bytes)) *)
Fixpoint from_str_loop (s : list N) (bytes : list N) : res (list N) :=
  match s with
  | [] => Ok bytes
  | ch :: r =>
      match to_digit10 ch with
      | None => Err
      | Some d =>
          let '(bytes', carry) := mul10_add bytes d in
          if 0 <? carry then Err else from_str_loop r bytes'
      end
  end.

Definition MAX_DIGITS : N := 78.

(* U256::from_str.  Note: no emptiness check, so "" (and "000") give Ok(0). *)
Definition u256_from_str (s : list N) : res (list N) :=
  let decimal := trim_zeros s in
  if MAX_DIGITS <? N.of_nat (length decimal) then Err
  else from_str_loop decimal (repeat 0 32).

(* The inner loop of Display:
       for byte in &mut bytes {
           let value = carry * 256 + u32::from( *byte);
           *byte = (value / 10) as u8;
           carry = value % 10;
           if *byte != 0 { is_zero = false; }
       }
   Most significant byte first.  Returns (new bytes, final carry, is_zero). *)
Fixpoint div10_loop (bs : list N) (carry : N) (is_zero : bool) : list N * N * bool :=
  match bs with
  | [] => ([], carry, is_zero)
  | b :: r =>
      let value := carry * 256 + b in
      let b' := (value / 10) mod 256 in          (* `as u8` *)
      let '(r', c', z') := div10_loop r (value mod 10) (if b' =? 0 then is_zero else false) in
      (b' :: r', c', z')
  end.

(* The outer loop of Display:
       while !is_zero { carry = 0; is_zero = true; <inner loop>; digits.push(carry as u8); }
   It is a do-while loop (is_zero starts as false).  `digits` is pushed least significant
   digit first and printed in reverse; the model conses, so its list is already in printing
   order.  The Rust loop has no bound; the model uses fuel, and MAX_DIGITS = 78 iterations
   are enough for 32 bytes because 2^256 < 10^78 (proved in U256Correct.v: the fuel never
   runs out on 32-byte input). *)
Fixpoint display_loop (fuel : nat) (bytes : list N) (digits : list N) : list N :=
  match fuel with
  | O => digits
  | S f =>
      let '(bytes', carry, is_zero) := div10_loop bytes 0 true in
      let digits' := carry :: digits in
      if is_zero then digits' else display_loop f bytes' digits'
  end.

(* `write!(f, "{}", digit)` with digit: u8 in 0..=9 prints the single char '0'+digit. *)
Definition u256_display (bytes : list N) : list N :=
  map (fun d => 48 + d) (display_loop 78 bytes []).
