(* Model of the type printer:
     /repo/src/types.rs   33-89    TypeInner::display(f, n_children_yielded)
     /repo/src/types.rs  180-194   Display for UIntType
     /repo/src/types.rs  405-429   TreeLike for &ResolvedType, Display for ResolvedType
     /repo/src/num.rs     21-25    Display for NonZeroPow2Usize (the decimal usize)
     miniscript-12.3.1/src/iter/tree.rs 232-315  VerbosePreOrderIter / PreOrderIterItem
   Model only; theorems are in Proofs/PrintCorrect.v.

   Text is a list of byte values (as in Text/Literal.v).

   The Rust printers are `for data in self.verbose_pre_order_iter() { .. }` loops: the iterator is a
   stack machine that yields every node once before its first child and once more after each child,
   together with `n_children_yielded` and `is_complete`.  [vpo_run] is that stack machine (generic in
   the tree), [ty_print_machine] is the loop of Display for ResolvedType over its output.
   [ty_pp] is the obvious structural printer; Proofs/PrintCorrect.v shows that they agree. *)
From Coq Require Import List Arith NArith Bool.
Import ListNotations.
Require Import SV.Layout.Ty SV.Text.Literal.

(** * Decimal text of an unbounded natural number (Display for usize) *)
(* Literal.dec_loop with enough fuel: a number has at most as many decimal digits as bits (+1 for 0). *)
Definition dec_N (n : N) : list N := dec_loop (S (N.size_nat n)) n [].

(** * The verbose pre-order iterator (generic) *)
Section VPO.
  Context {T : Type}.
  Variable children : T -> list T.          (* TreeLike::as_node, as the list of children *)

  (* PreOrderIterItem: (node, n_children_yielded, is_complete); parent and index are not used
     by any of the printers and are left out. *)
  Local Notation vpo_item := (T * nat * bool)%type.

  (* PreOrderIterItem::initial:  is_complete: node.n_children() == 0, n_children_yielded: 0 *)
  Definition vpo_initial (node : T) : vpo_item :=
    (node, 0, Nat.eqb (length (children node)) 0).

  (* PreOrderIterItem::increment(self, n_children) *)
  Definition vpo_increment (it : vpo_item) (n_children : nat) : vpo_item :=
    let '(node, n, _) := it in (node, S n, Nat.eqb (S n) n_children).

  (* VerbosePreOrderIter::next, iterated; the head of the list is the top of the Rust Vec stack.
       let mut top = self.stack.pop()?;
       let n_children = top.node.n_children();
       if top.n_children_yielded < n_children {
           self.stack.push(top.clone().increment(n_children));
           let child = top.node.nth_child(top.n_children_yielded).unwrap();
           self.stack.push(PreOrderIterItem::initial(child, Some(top.node.clone())));
       }
       Some(top)
     The result is the list of all yielded items.  [fuel] bounds the number of `next` calls. *)
  Fixpoint vpo_run (fuel : nat) (stack : list vpo_item) : list vpo_item :=
    match fuel with
    | O => []
    | S f =>
        match stack with
        | [] => []
        | top :: st =>
            let '(node, n, _) := top in
            let n_children := length (children node) in
            let st' :=
              if Nat.ltb n n_children then
                match nth_error (children node) n with
                | Some child => vpo_initial child :: vpo_increment top n_children :: st
                | None => st                      (* nth_child(..).unwrap(): unreachable *)
                end
              else st in
            top :: vpo_run f st'
        end
    end.
End VPO.
Notation vpo_item T := (T * nat * bool)%type (only parsing).

(** * Types *)
Local Open Scope N_scope.

Definition s_Either : list N := [69;105;116;104;101;114;60].  (* "Either<" *)
Definition s_Option : list N := [79;112;116;105;111;110;60].  (* "Option<" *)
Definition s_bool : list N := [98;111;111;108].               (* "bool" *)
Definition s_List : list N := [76;105;115;116;60].            (* "List<" *)

(* TreeLike for &ResolvedType *)
Definition ty_children (t : ty) : list ty :=
  match t with
  | TBool | TUInt _ => []
  | TOption a | TArray a _ | TList a _ => [a]
  | TEither a b => [a; b]
  | TTuple ts => ts
  end.

(* Display for UIntType: "u1" .. "u256", i.e. 'u' followed by the bit width 2^k *)
Definition uint_type_name (k : nat) : list N := 117 :: dec_N (2 ^ N.of_nat k).

(* TypeInner::display(f, n_children_yielded) *)
Definition ty_display (t : ty) (n : nat) : list N :=
  match t with
  | TEither _ _ =>
      match n with
      | O => s_Either
      | S O => [44]                                 (* "," *)
      | _ => [62]                                   (* ">" *)
      end
  | TOption _ =>
      match n with
      | O => s_Option
      | _ => [62]
      end
  | TBool => s_bool
  | TUInt k => uint_type_name k
  | TTuple elements =>
      match n with
      | O => 40 :: (match elements with [] => [41] | _ => [] end)        (* "(" and ")" if empty *)
      | _ =>
          if Nat.eqb n (length elements)
          then (if Nat.eqb n 1%nat then [44] else []) ++ [41]                  (* "," if n == 1; ")" *)
          else [44; 32]                                                    (* ", " *)
      end
  | TArray _ size =>
      match n with
      | O => [91]                                                          (* "[" *)
      | _ => [59; 32] ++ dec_N (N.of_nat size) ++ [93]                     (* "; {size}]" *)
      end
  | TList _ k =>
      match n with
      | O => s_List
      | _ => [44; 32] ++ dec_N (2 ^ N.of_nat k) ++ [62]                    (* ", {bound}>" *)
      end
  end.

(* the exact number of items the iterator yields for t: every node once, plus once per child *)
Fixpoint ty_nev (t : ty) : nat :=
  match t with
  | TBool | TUInt _ => 1%nat
  | TOption a | TArray a _ | TList a _ => S (S (ty_nev a))
  | TEither a b => S (S (S (ty_nev a + ty_nev b)))%nat
  | TTuple ts => S (list_sum (map (fun a => S (ty_nev a)) ts))
  end.

(* Display for ResolvedType:
     for data in self.verbose_pre_order_iter() { data.node.0.display(f, data.n_children_yielded)?; } *)
Definition ty_print_machine (t : ty) : list N :=
  flat_map (fun it : vpo_item ty => let '(node, n, _) := it in ty_display node n)
           (vpo_run ty_children (ty_nev t) [vpo_initial ty_children t]).

(** * The obvious printer *)

(* x1 ++ sep ++ x2 ++ sep ++ .. ++ xn *)
Fixpoint sep_by (sep : list N) (xs : list (list N)) : list N :=
  match xs with
  | [] => []
  | x :: xs' =>
      match xs' with
      | [] => x
      | _ :: _ => x ++ sep ++ sep_by sep xs'
      end
  end.

Fixpoint ty_pp (t : ty) : list N :=
  match t with
  | TEither a b => s_Either ++ ty_pp a ++ [44] ++ ty_pp b ++ [62]          (* Either<A,B> *)
  | TOption a => s_Option ++ ty_pp a ++ [62]                               (* Option<A> *)
  | TBool => s_bool
  | TUInt k => uint_type_name k
  | TTuple ts =>
      match ts with
      | [] => [40; 41]                                                     (* () *)
      | [a] => [40] ++ ty_pp a ++ [44; 41]                                 (* (A,) *)
      | _ => [40] ++ sep_by [44; 32] (map ty_pp ts) ++ [41]                (* (A, B, C) *)
      end
  | TArray a n => [91] ++ ty_pp a ++ [59; 32] ++ dec_N (N.of_nat n) ++ [93]        (* [A; n] *)
  | TList a k => s_List ++ ty_pp a ++ [44; 32] ++ dec_N (2 ^ N.of_nat k) ++ [62]   (* List<A, 2^k> *)
  end.
