(* Model of the value printer:
     /repo/src/value.rs   50-64    Display for UIntValue          (Literal.uint_display)
     /repo/src/value.rs  398-412   TreeLike for &Value
     /repo/src/value.rs  420-511   Display for Value
     hex-conservative DisplayHex::as_hex                          (Literal.hex_of_bytes)
   Model only; theorems are in Proofs/PrintCorrect.v.

   Display for Value is a loop over `self.verbose_pre_order_iter()` (TyPrint.vpo_run) that carries one
   mutable Boolean, `print_hex_byte_array`: a NON-EMPTY array all of whose elements are u8 integers is
   written as one hexadecimal literal when the array is first yielded; the Boolean then suppresses the
   elements (which the iterator still yields) and the later yields of the array itself, and is cleared
   when the array is yielded for the last time.
   [val_print_machine] is that loop; [val_pp] is the obvious structural printer. *)
From Coq Require Import List Arith NArith Bool.
Import ListNotations.
Require Import SV.Layout.Ty SV.Layout.Value SV.Text.Literal SV.Text.TyPrint.
Local Open Scope N_scope.

Definition s_Left : list N := [76;101;102;116;40].        (* "Left(" *)
Definition s_Right : list N := [82;105;103;104;116;40].   (* "Right(" *)
Definition s_None : list N := [78;111;110;101].           (* "None" *)
Definition s_Some : list N := [83;111;109;101;40].        (* "Some(" *)
Definition s_true : list N := [116;114;117;101].          (* "true" *)
Definition s_false : list N := [102;97;108;115;101].      (* "false" *)
Definition s_list : list N := [108;105;115;116;33;91].    (* "list![" *)

(* TreeLike for &Value *)
Definition val_children (v : value) : list value :=
  match v with
  | ANone _ | ABool _ | AUInt _ _ => []
  | ALeft x _ | ARight _ x | ASome x => [x]
  | ATuple vs | AArray vs _ | AList vs _ _ => vs
  end.

(*  array.iter().map(|element| match element.inner() {
        ValueInner::UInt(UIntValue::U8(byte)) => Some( *byte), _ => None })
      .collect::<Option<Vec<u8>>>()                                             *)
Fixpoint maybe_bytes (vs : list value) : option (list N) :=
  match vs with
  | [] => Some []
  | AUInt 3%nat byte :: vs' =>
      match maybe_bytes vs' with
      | Some bytes => Some (byte :: bytes)
      | None => None
      end
  | _ :: _ => None
  end.

(* `write!(f, "0x{}", bytes.as_hex())` *)
Definition hex_literal (bytes : list N) : list N := 48 :: 120 :: hex_of_bytes bytes.

(* write!(f, "{bit}") *)
Definition bool_display (b : bool) : list N := if b then s_true else s_false.

(* One iteration of the loop body of Display for Value.
   State: print_hex_byte_array.  Result: the new state and the text written. *)
Definition val_step (print_hex_byte_array : bool) (data : vpo_item value) : bool * list N :=
  let '(node, n_children_yielded, is_complete) := data in
  match node with
  | ALeft _ _ =>
      (print_hex_byte_array, match n_children_yielded with O => s_Left | _ => [41] end)
  | ARight _ _ =>
      (print_hex_byte_array, match n_children_yielded with O => s_Right | _ => [41] end)
  | ANone _ =>
      (print_hex_byte_array, match n_children_yielded with O => s_None | _ => [41] end)
  | ASome _ =>
      (print_hex_byte_array, match n_children_yielded with O => s_Some | _ => [41] end)
  | ABool bit => (print_hex_byte_array, bool_display bit)
  | AUInt k n =>
      (print_hex_byte_array, if print_hex_byte_array then [] else uint_display k n)
  | ATuple tuple =>
      (print_hex_byte_array,
       (if Nat.eqb n_children_yielded 0%nat then [40]                                    (* "(" *)
        else if negb is_complete || Nat.eqb (length tuple) 1%nat then [44; 32]           (* ", " *)
        else [])
       ++ (if is_complete then [41] else []))                                        (* ")" *)
  | AArray array _ =>
      if print_hex_byte_array && Nat.ltb 0%nat n_children_yielded then
        (* skip; `if data.is_complete { print_hex_byte_array = false; } continue;` *)
        (if is_complete then false else print_hex_byte_array, [])
      else
        match maybe_bytes array with
        | Some (b :: bytes) =>                         (* Some(bytes) if !bytes.is_empty() *)
            (true, hex_literal (b :: bytes))
        | _ =>
            (print_hex_byte_array,
             (if Nat.eqb n_children_yielded 0%nat then [91]                              (* "[" *)
              else if negb is_complete then [44; 32]                                 (* ", " *)
              else [])
             ++ (if is_complete then [93] else []))                                  (* "]" *)
        end
  | AList _ _ _ =>
      (print_hex_byte_array,
       (if Nat.eqb n_children_yielded 0%nat then s_list                                  (* "list![" *)
        else if negb is_complete then [44; 32]
        else [])
       ++ (if is_complete then [93] else []))
  end.

(* the `for data in ..` loop *)
Fixpoint val_loop (print_hex_byte_array : bool) (items : list (vpo_item value)) : list N :=
  match items with
  | [] => []
  | data :: rest =>
      let '(flag', out) := val_step print_hex_byte_array data in
      out ++ val_loop flag' rest
  end.

(* the exact number of items the iterator yields for v *)
Fixpoint val_nev (v : value) : nat :=
  match v with
  | ANone _ | ABool _ | AUInt _ _ => 1%nat
  | ALeft x _ | ARight _ x | ASome x => S (S (val_nev x))
  | ATuple vs | AArray vs _ | AList vs _ _ => S (list_sum (map (fun x => S (val_nev x)) vs))
  end.

(* Display for Value *)
Definition val_print_machine (v : value) : list N :=
  val_loop false (vpo_run val_children (val_nev v) [vpo_initial val_children v]).

(** * The obvious printer *)
Fixpoint val_pp (v : value) : list N :=
  match v with
  | ALeft x _ => s_Left ++ val_pp x ++ [41]
  | ARight _ x => s_Right ++ val_pp x ++ [41]
  | ANone _ => s_None
  | ASome x => s_Some ++ val_pp x ++ [41]
  | ABool b => bool_display b
  | AUInt k n => uint_display k n
  | ATuple vs =>
      match vs with
      | [] => [40; 41]                                                   (* () *)
      | [x] => [40] ++ val_pp x ++ [44; 32; 41]                          (* (x, )  -- with a space *)
      | _ => [40] ++ sep_by [44; 32] (map val_pp vs) ++ [41]             (* (x, y, z) *)
      end
  | AArray vs _ =>
      match maybe_bytes vs with
      | Some (b :: bytes) => hex_literal (b :: bytes)                    (* 0xdeadbeef *)
      | _ => [91] ++ sep_by [44; 32] (map val_pp vs) ++ [93]             (* [x, y, z] *)
      end
  | AList vs _ _ => s_list ++ sep_by [44; 32] (map val_pp vs) ++ [93]    (* list![x, y, z] *)
  end.
