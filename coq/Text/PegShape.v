(* Text/PegShape.v — decidable shape checks on a grammar (data of Text/Peg.v).

   The checks are boolean functions; Proofs/PegCorrect.v proves what each of them implies about
   the interpreter [ev], and evaluates them on the regenerated Gen/Grammar.v by vm_compute, so
   they are re-checked against /repo's current minimal.pest on every run.

   KEYWORD RULES.  A "keyword rule" is an atomic rule
        r = @{ (lit_1 | lit_2 | ... | lit_n) ~ !ident_char }
   (n >= 1; an alternative may also be the name of an atomic/silent rule whose body is itself a
   pure alternation of literals, e.g. unsigned_type inside builtin_type), where ident_char is the
   silent rule  ASCII_ALPHANUMERIC | "_".   Ordered choice commits to the FIRST literal that is
   a prefix of the input; the boundary !ident_char is tested after that one only; if it fails,
   the whole rule fails (the alternation is inside the sequence: no other literal is tried).
   Hence, writing e for an earlier and l for a later literal:
     (A) if e is a proper prefix of l, with c = the byte of l just after e:
           whenever l matches, e matches first and is followed by c.  If c is an identifier byte
           the boundary fails and l can NEVER be recognised ("u1" | "u16": u16 is unparseable).
           Harmless iff c is not an identifier byte (then e itself is followed by a boundary).
     (B) if l is a proper prefix of e, with c = the byte of e just after l:
           when e matches, the rule's fate is decided after e.  If c is not an identifier byte,
           then "l followed by a boundary" occurs in the input, but the rule may fail after e.
           Harmless iff c is an identifier byte (then l is not followed by a boundary there).
   [order_ok] demands (A)-harmless and (B)-harmless for every pair; it is exactly what makes
        "rule matches at p  <->  some literal occurs at p followed by a non-identifier byte or
         the end of input"
   true (PegCorrect.keyword_rule_spec).  If moreover all literals consist of identifier bytes
   only ([ident_only], true for every keyword rule of simfony) then (B) is automatic, (A) means
   "no earlier literal is a proper prefix of a later one", and the rule matches iff the MAXIMAL
   run of identifier bytes at p is one of the literals (PegCorrect.keyword_rule_run_spec). *)

From Coq Require Import List Arith NArith Lia Bool String Ascii.
Import ListNotations.
Require Import SV.Text.Peg.
Open Scope string_scope.

(* ---------- byte classes ---------- *)

Definition is_alpha_byte (b : N) : bool := in_range 97 122 b || in_range 65 90 b.
Definition is_digit_byte (b : N) : bool := in_range 48 57 b.
(* the bytes accepted by ident_char = ASCII_ALPHANUMERIC | "_" *)
Definition is_ident_byte (b : N) : bool :=
  in_range 97 122 b || in_range 65 90 b || in_range 48 57 b || N.eqb b 95.

(* "the next byte cannot continue an identifier": end of input or a non-identifier byte *)
Definition boundary (rest : list N) : bool :=
  match rest with [] => true | b :: _ => negb (is_ident_byte b) end.

(* maximal run of identifier bytes at the head of the input, and what follows it *)
Fixpoint ident_run (rest : list N) : list N :=
  match rest with
  | b :: r => if is_ident_byte b then b :: ident_run r else []
  | [] => []
  end.
Fixpoint after_run (rest : list N) : list N :=
  match rest with
  | b :: r => if is_ident_byte b then after_run r else rest
  | [] => []
  end.

Fixpoint bytes_eqb (x y : list N) : bool :=
  match x, y with
  | [], [] => true
  | a :: x', b :: y' => N.eqb a b && bytes_eqb x' y'
  | _, _ => false
  end.

Definition mem_bytes (s : list N) (ls : list (list N)) : bool := existsb (bytes_eqb s) ls.

(* ---------- syntactic equality of expressions ---------- *)

Fixpoint peg_eqb (x y : peg) : bool :=
  match x, y with
  | PStr s, PStr t => bytes_eqb s t
  | PInsens s, PInsens t => bytes_eqb s t
  | PRange a b, PRange c d => N.eqb a c && N.eqb b d
  | PId n, PId m => n =? m
  | PPos a, PPos b => peg_eqb a b
  | PNeg a, PNeg b => peg_eqb a b
  | POpt a, POpt b => peg_eqb a b
  | PRep a, PRep b => peg_eqb a b
  | PRep1 a, PRep1 b => peg_eqb a b
  | PSeq a b, PSeq c d => peg_eqb a c && peg_eqb b d
  | PAlt a b, PAlt c d => peg_eqb a c && peg_eqb b d
  | PRepN a n, PRepN b m => peg_eqb a b && Nat.eqb n m
  | _, _ => false
  end.

Definition rkind_eqb (x y : rkind) : bool :=
  match x, y with
  | RNormal, RNormal | RSilent, RSilent | RAtomic, RAtomic
  | RCompound, RCompound | RNonAtomic, RNonAtomic => true
  | _, _ => false
  end.

(* rule [name] is defined exactly as (k, e) *)
Definition rule_is (g : grammar_t) (name : string) (k : rkind) (e : peg) : bool :=
  match lookup g name with
  | Some (k', e') => rkind_eqb k k' && peg_eqb e e'
  | None => false
  end.

(* ---------- identifiers used by the grammar ---------- *)

Definition builtin_names : list string :=
  ["ANY"; "SOI"; "EOI"; "NEWLINE"; "ASCII_DIGIT"; "ASCII_NONZERO_DIGIT"; "ASCII_BIN_DIGIT";
   "ASCII_OCT_DIGIT"; "ASCII_HEX_DIGIT"; "ASCII_ALPHA_LOWER"; "ASCII_ALPHA_UPPER"; "ASCII_ALPHA";
   "ASCII_ALPHANUMERIC"; "ASCII"].

Fixpoint ids_of (e : peg) : list string :=
  match e with
  | PStr _ | PInsens _ | PRange _ _ => []
  | PId n => [n]
  | PPos a | PNeg a | POpt a | PRep a | PRep1 a | PRepN a _ => ids_of a
  | PSeq a b | PAlt a b => (ids_of a ++ ids_of b)%list
  end.

(* every identifier is a rule of the grammar or a builtin that Peg.v models, and no rule
   redefines a builtin *)
Definition ids_known (g : grammar_t) : bool :=
  forallb (fun r => match r with (n, _, e) =>
     negb (existsb (String.eqb n) builtin_names) &&
     forallb (fun i => has_rule g i || existsb (String.eqb i) builtin_names) (ids_of e) end) g.

(* ---------- ident_char ---------- *)

Definition ident_char_body : peg := PAlt (PId "ASCII_ALPHANUMERIC") (PStr [95%N]).

Definition ident_char_ok (g : grammar_t) : bool :=
  rule_is g "ident_char" RSilent ident_char_body
  && negb (has_rule g "ASCII_ALPHANUMERIC") && negb (has_rule g "ASCII_ALPHA").

(* ---------- pure alternations of literals ---------- *)

(* [lits_of g d e] = Some (literals in choice order, fuel sufficient to evaluate e) if e is an
   alternation of literals, possibly through at most d-1 levels of atomic/silent rule names. *)
Fixpoint lits_of (g : grammar_t) (d : nat) {struct d} : peg -> option (list (list N) * nat) :=
  match d with
  | 0 => fun _ => None
  | S d' =>
    fix go (e : peg) : option (list (list N) * nat) :=
      match e with
      | PStr s => Some ([s], 1)
      | PAlt a b =>
        match go a, go b with
        | Some (x, n), Some (y, m) => Some ((x ++ y)%list, S (Nat.max n m))
        | _, _ => None
        end
      | PId name =>
        match lookup g name with
        | Some (RAtomic, body) | Some (RSilent, body) =>
          match lits_of g d' body with
          | Some (x, n) => Some (x, S n)
          | None => None
          end
        | _ => None
        end
      | _ => None
      end
  end.

(* first literal (in choice order) that is a prefix of the input, with the remaining input *)
Fixpoint first_match (ls : list (list N)) (rest : list N) : option (list N * list N) :=
  match ls with
  | [] => None
  | l :: ls' => match strip_prefix l rest with
                | Some r => Some (l, r)
                | None => first_match ls' rest
                end
  end.

(* e earlier, l later in the choice; see (A) and (B) above *)
Definition pair_ok (e l : list N) : bool :=
  match strip_prefix e l with Some (c :: _) => negb (is_ident_byte c) | _ => true end
  && match strip_prefix l e with Some (c :: _) => is_ident_byte c | _ => true end.

Fixpoint order_ok (ls : list (list N)) : bool :=
  match ls with
  | [] => true
  | l :: ls' => forallb (pair_ok l) ls' && order_ok ls'
  end.

Definition ident_only (ls : list (list N)) : bool := forallb (forallb is_ident_byte) ls.

(* the literals of keyword rule [name] (and the fuel its alternation needs), if it has the shape
   @{ alternation-of-literals ~ !ident_char } *)
Definition kw_lits (g : grammar_t) (name : string) : option (list (list N) * nat) :=
  match lookup g name with
  | Some (RAtomic, PSeq e (PNeg (PId ic))) => if ic =? "ident_char" then lits_of g 2 e else None
  | _ => None
  end.

Definition kw_rule_ok (g : grammar_t) (name : string) : bool :=
  match kw_lits g name with
  | Some (ls, _) => order_ok ls && ident_only ls
  | None => false
  end.

(* The reserved words / builtin names / literal atoms of simfony's grammar. *)
Definition keyword_rules : list string :=
  ["builtin_type"; "builtin_function"; "builtin_alias";
   "fn_keyword"; "let_keyword"; "type_keyword"; "match_keyword"; "mod_keyword"; "const_keyword";
   "none_expr"; "true_expr"; "false_expr"; "none_pattern"; "true_pattern"; "false_pattern";
   "unwrap"].

(* Atomic rules that are a bare word (alternation of identifier-byte-only literals) WITHOUT a
   boundary.  Allowed only where a following identifier byte is harmless:
     boolean_type / unsigned_type: in `ty` the alternative alias_name comes first and takes any
       longer identifier (it only refuses exact builtin names);
     module_name: followed by "{";   ignore_pattern "_": identifiers cannot start with "_". *)
Definition bare_word_rules : list string :=
  ["boolean_type"; "unsigned_type"; "module_name"; "ignore_pattern"].

Definition is_bare_word_rule (g : grammar_t) (k : rkind) (e : peg) : bool :=
  match k with
  | RAtomic => match lits_of g 1 e with
               | Some (ls, _) => ident_only ls
               | None => false
               end
  | _ => false
  end.

(* every bare-word atomic rule is one of the allowed ones: a NEW keyword rule must have the
   boundary and then must be listed in [keyword_rules] (else keyword_shape_ok fails). *)
Definition no_unbounded_words (g : grammar_t) : bool :=
  forallb (fun r => match r with (n, k, e) =>
     negb (is_bare_word_rule g k e) || existsb (String.eqb n) bare_word_rules end) g.

(* every atomic rule ending in !ident_char is a listed keyword rule *)
Definition all_bounded_listed (g : grammar_t) : bool :=
  forallb (fun r => match r with (n, k, e) =>
     match k, e with
     | RAtomic, PSeq _ (PNeg (PId ic)) =>
       negb (ic =? "ident_char") || existsb (String.eqb n) keyword_rules
     | _, _ => true
     end end) g.

Definition keyword_shape_ok (g : grammar_t) : bool :=
  ident_char_ok g
  && forallb (kw_rule_ok g) keyword_rules
  && no_unbounded_words g
  && all_bounded_listed g.

(* ---------- identifiers and names ---------- *)

Definition identifier_body : peg :=
  PSeq (PId "ASCII_ALPHA") (PRep (PAlt (PId "ASCII_ALPHANUMERIC") (PStr [95%N]))).

(* rule [name] is  @{ ASCII_ALPHA ~ (ASCII_ALPHANUMERIC | "_")* }  *)
Definition identifier_shape_ok (g : grammar_t) (name : string) : bool :=
  rule_is g name RAtomic identifier_body
  && negb (has_rule g "ASCII_ALPHANUMERIC") && negb (has_rule g "ASCII_ALPHA").

(* [head_ok P rest]: the input is empty or starts with a byte of class P *)
Definition head_ok (P : N -> bool) (rest : list N) : bool :=
  match rest with [] => true | b :: _ => P b end.

(* Sound static test: [fails_at P g d e = Some n] implies that [e] FAILS (with any fuel >= n) on
   every input that is empty or starts with a byte of class P. *)
Fixpoint fails_at (P : N -> bool) (g : grammar_t) (d : nat) {struct d} : peg -> option nat :=
  match d with
  | 0 => fun _ => None
  | S d' =>
    fix go (e : peg) : option nat :=
      match e with
      | PStr (c :: _) => if P c then None else Some 1
      | PSeq a _ => match go a with Some n => Some (S n) | None => None end
      | PAlt a b => match go a, go b with
                    | Some n, Some m => Some (S (Nat.max n m))
                    | _, _ => None
                    end
      | PId name => match lookup g name with
                    | Some (_, body) => match fails_at P g d' body with
                                        | Some n => Some (S n)
                                        | None => None
                                        end
                    | None => None
                    end
      | _ => None
      end
  end.

(* The implicit skip is the identity at the end of input and in front of a byte of class P:
   both WHITESPACE and COMMENT exist and fail there.  [skip_fuel_at P g = Some n]: fuel n
   suffices to see that. *)
Definition skip_fuel_at (P : N -> bool) (g : grammar_t) : option nat :=
  if has_rule g "WHITESPACE" && has_rule g "COMMENT" then
    match fails_at P g 3 (PId "WHITESPACE"), fails_at P g 3 (PId "COMMENT") with
    | Some n, Some m => Some (Nat.max n m + 3)
    | _, _ => None
    end
  else None.

(* ... in front of an identifier byte *)
Definition skip_fuel (g : grammar_t) : option nat := skip_fuel_at is_ident_byte g.

Definition skip_ok (g : grammar_t) : bool :=
  match skip_fuel g with Some _ => true | None => false end.

(* function_name = { !builtin_function ~ identifier } *)
Definition function_name_ok (g : grammar_t) : bool :=
  rule_is g "function_name" RNormal (PSeq (PNeg (PId "builtin_function")) (PId "identifier"))
  && identifier_shape_ok g "identifier" && kw_rule_ok g "builtin_function"
  && ident_char_ok g && skip_ok g.

(* alias_name = { !builtin_type ~ !builtin_alias ~ identifier } *)
Definition alias_name_ok (g : grammar_t) : bool :=
  rule_is g "alias_name" RNormal
          (PSeq (PSeq (PNeg (PId "builtin_type")) (PNeg (PId "builtin_alias"))) (PId "identifier"))
  && identifier_shape_ok g "identifier" && kw_rule_ok g "builtin_type"
  && kw_rule_ok g "builtin_alias" && ident_char_ok g && skip_ok g.

(* ---------- word positions (variable names in expressions and patterns) ---------- *)

(* A small sound abstract interpreter for inputs of the form  s ++ tail  where
      s    is a word [A-Za-z][A-Za-z0-9_]*            (PegCorrect.ident_word)
      tail is empty or starts with a byte of class T  (a "terminator" class; every T byte must
           be a non-identifier byte)
   For an expression e it computes up to three facts, each of the form (W, n): "for every such
   input with s NOT in the word list W and fuel >= n + |s| ...":
      aF : e FAILS;
      aX : e fails OR succeeds consuming exactly s (the remaining input is tail);
      aZ : e succeeds consuming nothing and producing no node.
   Soundness: PegCorrect.ana_sound.  It is used to show that all alternatives tried BEFORE the
   plain-identifier alternative of single_expression / pattern fail on a word that is not
   reserved, so the word is parsed as a variable. *)

Definition ares := option (list (list N) * nat).

Record ana_res := mk_ana { aF : ares; aX : ares; aZ : ares }.

Definition ana_none : ana_res := mk_ana None None None.
Definition ana_fail (f : ares) : ana_res := mk_ana f f None.

(* a literal l fails on s ++ tail unless ... *)
Definition lit_fails (T : N -> bool) (l : list N) : ares :=
  match l with
  | [] => None
  | c :: _ =>
    if is_alpha_byte c then
      match after_run l with
      | [] => None                       (* a pure word: may well be a prefix of s *)
      | p :: _ => if T p then Some ([ident_run l], 1)   (* matches only if s = ident_run l *)
                  else Some ([], 1)      (* needs the non-terminator p right after a word *)
      end
    else Some ([], 1)                    (* s starts with a letter, l does not *)
  end.

Definition comb (x y : ares) : ares :=
  match x, y with
  | Some (W1, n1), Some (W2, n2) => Some ((W1 ++ W2)%list, S (Nat.max n1 n2))
  | _, _ => None
  end.

Definition bump (x : ares) : ares :=
  match x with Some (W, n) => Some (W, S n) | None => None end.

Fixpoint ana (T : N -> bool) (g : grammar_t) (d : nat) {struct d} : peg -> ana_res :=
  match d with
  | 0 => fun _ => ana_none
  | S d' =>
    fix go (e : peg) : ana_res :=
      match e with
      | PStr l => ana_fail (lit_fails T l)
      | PAlt a b =>
        let ra := go a in let rb := go b in
        mk_ana (comb (aF ra) (aF rb)) (comb (aX ra) (aX rb)) None
      | PRep x => mk_ana None None (bump (aF (go x)))
      | PSeq a b =>
        let ra := go a in
        match aF ra with
        | Some (W, n) => ana_fail (Some (W, S n))
        | None =>
          match aZ ra with
          | Some (W1, n1) =>
            (* a consumes nothing; the skip in front of the word s is the identity; b fails *)
            match aF (go b), skip_fuel g with
            | Some (W2, n2), Some sf =>
              ana_fail (Some ((W1 ++ W2)%list, S (Nat.max n1 (Nat.max n2 sf))))
            | _, _ => ana_none
            end
          | None =>
            (* a takes exactly s; the skip at tail is the identity; b fails at tail *)
            match aX ra, fails_at T g 4 b, skip_fuel_at T g with
            | Some (W, n), Some m, Some sf => ana_fail (Some (W, S (Nat.max n (Nat.max m sf))))
            | _, _, _ => ana_none
            end
          end
        end
      | PId name =>
        match lookup g name with
        | Some (k, body) =>
          if kw_rule_ok g name then
            match kw_lits g name with
            | Some (ls, n) => mk_ana (Some (ls, n + 6)) (Some ([], n + 6)) None
            | None => ana_none
            end
          else if (name =? "function_name") && function_name_ok g then
            match kw_lits g "builtin_function", skip_fuel g with
            | Some (_, n), Some sf => mk_ana None (Some ([], n + sf + 12)) None
            | _, _ => ana_none
            end
          else let r := ana T g d' body in mk_ana (bump (aF r)) (bump (aX r)) None
        | None =>
          if name =? "ASCII_DIGIT" then ana_fail (Some ([], 1)) else ana_none
        end
      | _ => ana_none
      end
  end.

(* position of alternative [PId inner] in a left-nested choice: the choice of everything tried
   before it, and its nesting depth *)
Fixpoint alt_pre (inner : string) (e : peg) : option (peg * nat) :=
  match e with
  | PAlt x y =>
    let deeper := match alt_pre inner x with
                  | Some (pre, k) => Some (pre, S k)
                  | None => None
                  end in
    match y with
    | PId v => if v =? inner then Some (x, 0) else deeper
    | _ => deeper
    end
  | _ => None
  end.

(* Rule [outer] is a normal rule whose body is a choice with the alternative [inner], where
   inner = { identifier }; everything tried before [inner] fails on non-reserved words.
   Result: the reserved words W and a fuel constant. *)
Definition word_position (T : N -> bool) (g : grammar_t) (outer inner : string) : ares :=
  match lookup g outer with
  | Some (RNormal, body) =>
    match alt_pre inner body with
    | Some (pre, k) =>
      if rule_is g inner RNormal (PId "identifier") && identifier_shape_ok g "identifier"
         && ident_char_ok g && negb (special outer) && negb (special inner)
      then match aF (ana T g 6 pre) with
           | Some (W, n) => Some (W, n + k + 10)
           | None => None
           end
      else None
    | None => None
    end
  | _ => None
  end.

(* bytes that may follow a variable in an expression for the theorem to apply: not an identifier
   byte, not blank, not "/" (comment), not "(" (call), not ":" (jet::, witness::), not "!"
   (macro-like builtins) *)
Definition is_expr_terminator (c : N) : bool :=
  negb (is_ident_byte c) && negb (existsb (N.eqb c) [32; 9; 10; 13; 47; 40; 58; 33]%N).

(* after a variable pattern anything but an identifier byte may follow *)
Definition is_nonident (c : N) : bool := negb (is_ident_byte c).
