(* Model of integer-literal parsing and printing:
     /repo/src/parse.rs  1187-1215  (Decimal / Binary / Hexadecimal :: parse: strip prefix and '_')
     /repo/src/value.rs    50-64    (Display for UIntValue)
     /repo/src/value.rs    92-178   (UIntValue::u1/u2/u4, parse_decimal, parse_binary)
     /repo/src/value.rs   241-255   (TryFrom<&[u8]> for UIntValue)
     /repo/src/value.rs   624-646   (Value::parse_hexadecimal)
     /repo/src/types.rs   133-171   (UIntType::bit_width / from_bit_width / byte_width)
     core::num  <uN>::from_str_radix(_, 10)   (behind `str::parse::<uN>()`)
     hex-conservative 0.2.1  Vec::<u8>::from_hex, DisplayHex::as_hex
   Model only; theorems are in Proofs/LiteralCorrect.v.

   An integer type is given by k = log2 of its bit width:
     u1=0 u2=1 u4=2 u8=3 u16=4 u32=5 u64=6 u128=7 u256=8.   k > 8 is not a type; the
   functions answer [Err] for it (there is no Rust behaviour to mirror).
   Text is a list of byte values.  `str::len()` is the byte length, which is what the
   model's [length] measures.  All Rust error values are collapsed into [Err]; every
   `unwrap` / `expect` / index that can fail is a [Panic]. *)
From Coq Require Import List NArith Bool.
Require Import SV.Base.Res SV.Text.U256.
Import ListNotations.
Local Open Scope N_scope.

(* pair.as_str().replace('_', "") *)
Definition strip_underscores (s : list N) : list N :=
  filter (fun c => negb (c =? 95)) s.

(* UIntType::bit_width *)
Definition bit_width (k : nat) : N := 2 ^ N.of_nat k.
(* UIntType::byte_width = bit_width / 8: 0 for u1, u2, u4 *)
Definition byte_width (k : nat) : N := bit_width k / 8.

(** * Decimal *)

(* core::num: <uN>::from_str_radix(src, 10) for an unsigned type of `bits` bits
   (bits = 8 * size_of::<uN>()).

     if src.is_empty() { return Err(Empty) }
     let digits = match src {
         [b'+' | b'-'] => return Err(InvalidDigit),
         [b'+', rest @ ..] => rest,
         _ => src,                       // '-' is not stripped for unsigned types
     };
     let mut result = 0;
     if can_not_overflow(radix, false, digits) {       // radix <= 16 && digits.len() <= size_of::<uN>() * 2
         for c in digits { result = result * 10; x = to_digit(c).ok_or(InvalidDigit)?; result = result + x }
     } else {
         for c in digits { let mul = result.checked_mul(10); x = to_digit(c).ok_or(InvalidDigit)?;
                           result = mul.ok_or(PosOverflow)?; result = result.checked_add(x).ok_or(PosOverflow)? }
     }
     Ok(result)                                                                              *)

(* the unchecked loop: at most 2*size_of digits, each < 10 <= 16, so result < 16^(2*size_of) = 2^bits
   and the plain machine arithmetic cannot wrap; modelled with unbounded arithmetic. *)
Fixpoint parse_uint_unchecked (s : list N) (result : N) : res N :=
  match s with
  | [] => Ok result
  | c :: r =>
      let result := result * 10 in
      match to_digit10 c with
      | None => Err
      | Some x => parse_uint_unchecked r (result + x)
      end
  end.

(* the checked loop *)
Fixpoint parse_uint_checked (max : N) (s : list N) (result : N) : res N :=
  match s with
  | [] => Ok result
  | c :: r =>
      let mul := result * 10 in                     (* checked_mul: None iff max < mul *)
      match to_digit10 c with
      | None => Err
      | Some x =>
          if max <? mul then Err
          else let sum := mul + x in                (* checked_add *)
               if max <? sum then Err else parse_uint_checked max r sum
      end
  end.

Definition rust_parse_uint (bits : N) (src : list N) : res N :=
  match src with
  | [] => Err
  | c :: rest =>
      let single_sign := match rest with [] => (c =? 43) || (c =? 45) | _ => false end in
      if single_sign then Err
      else
        let digits := if c =? 43 then rest else src in
        if N.of_nat (length digits) <=? (bits / 8) * 2
        then parse_uint_unchecked digits 0
        else parse_uint_checked (2 ^ bits - 1) digits 0
  end.

(* UIntValue::parse_decimal; the result is the numeric value of the UIntValue.
     U1 => s.parse::<u8>().and_then(Self::u1)    u1: match value { 0 | 1 => Ok, _ => Err }
     U2, U4 likewise with 0..=3, 0..=15
     U8..U128 => s.parse::<uN>()
     U256 => s.parse::<U256>()                                                            *)
Definition parse_decimal (k : nat) (s : list N) : res N :=
  match k with
  | 0%nat => rbind (rust_parse_uint 8 s) (fun v => if v <? 2 then Ok v else Err)
  | 1%nat => rbind (rust_parse_uint 8 s) (fun v => if v <? 4 then Ok v else Err)
  | 2%nat => rbind (rust_parse_uint 8 s) (fun v => if v <? 16 then Ok v else Err)
  | 3%nat => rust_parse_uint 8 s
  | 4%nat => rust_parse_uint 16 s
  | 5%nat => rust_parse_uint 32 s
  | 6%nat => rust_parse_uint 64 s
  | 7%nat => rust_parse_uint 128 s
  | 8%nat => rmap bytes_value (u256_from_str s)
  | _ => Err
  end.

(** * Conversion from bytes *)

(* TryFrom<&[u8]> for UIntValue: the byte length selects the variant (1,2,4,8,16,32 bytes),
   the value is from_be_bytes; any other length is Err("Too many bytes") -- here None.
   The first component is the k of the variant. *)
Definition uint_try_from (bytes : list N) : option (nat * N) :=
  let v := bytes_value bytes in
  match length bytes with
  | 1%nat => Some (3%nat, v)
  | 2%nat => Some (4%nat, v)
  | 4%nat => Some (5%nat, v)
  | 8%nat => Some (6%nat, v)
  | 16%nat => Some (7%nat, v)
  | 32%nat => Some (8%nat, v)
  | _ => None
  end.

(** * Binary *)

(* usize::is_power_of_two: exactly one bit set *)
Fixpoint pos_is_pow2 (p : positive) : bool :=
  match p with
  | xH => true
  | xO q => pos_is_pow2 q
  | xI _ => false
  end.
Definition is_pow2 (n : N) : bool :=
  match n with N0 => false | Npos p => pos_is_pow2 p end.

(* UIntType::from_bit_width *)
Definition from_bit_width (n : N) : option nat :=
  if n =? 1 then Some 0%nat else
  if n =? 2 then Some 1%nat else
  if n =? 4 then Some 2%nat else
  if n =? 8 then Some 3%nat else
  if n =? 16 then Some 4%nat else
  if n =? 32 then Some 5%nat else
  if n =? 64 then Some 6%nat else
  if n =? 128 then Some 7%nat else
  if n =? 256 then Some 8%nat else None.

(*  let mut byte = 0u8;
    for _ in 0..8 { let bit = padded_bits.next().unwrap(); byte = (byte << 1) | u8::from(bit == '1'); }
    Returns the byte and the remaining iterator.  Any character other than '1' counts as 0. *)
Fixpoint take_byte (n : nat) (bits : list N) (byte : N) : res (N * list N) :=
  match n with
  | O => Ok (byte, bits)
  | S n' =>
      match bits with
      | [] => Panic                                            (* next().unwrap() *)
      | bit :: rest =>
          take_byte n' rest (N.lor ((byte * 2) mod 256) (if bit =? 49 then 1 else 0))
      end
  end.

(*  for _ in 0..byte_len { <take_byte>; bytes.push(byte); } *)
Fixpoint collect_bytes (n : nat) (bits : list N) : res (list N) :=
  match n with
  | O => Ok []
  | S n' =>
      match take_byte 8 bits 0 with
      | Ok (b, rest) => rmap (cons b) (collect_bytes n' rest)
      | Err => Err
      | Panic => Panic
      end
  end.

(* UIntValue::parse_binary *)
Definition parse_binary (k : nat) (s : list N) : res N :=
  let len := N.of_nat (length s) in
  if negb (is_pow2 len) then Err else                          (* Pow2Usize::new(s.len()).ok_or(..)? *)
  match from_bit_width len with
  | None => Err                                                (* from_bit_width(..).ok_or(..)? *)
  | Some kb =>
      if negb (Nat.eqb k kb) then Err else                     (* ty != bit_ty *)
      let byte_len := N.to_nat ((len + 7) / 8) in              (* div_ceil(8) *)
      let padding_len := N.to_nat (8 - len) in                 (* 8usize.saturating_sub(bit_len) *)
      let padded_bits := repeat 48 padding_len ++ s in
      match collect_bytes byte_len padded_bits with
      | Ok bytes =>
          match k with
          | 0%nat | 1%nat | 2%nat =>
              match bytes with
              | b0 :: _ => Ok b0                               (* bytes[0]; the debug_assert holds, see proofs *)
              | [] => Panic
              end
          | _ =>
              match uint_try_from bytes with                   (* .expect("Enough bytes") *)
              | Some (_, v) => Ok v
              | None => Panic
              end
          end
      | Err => Err
      | Panic => Panic
      end
  end.

(** * Hexadecimal *)

(* char::to_digit(16) *)
Definition to_digit16 (c : N) : option N :=
  if (48 <=? c) && (c <=? 57) then Some (c - 48)
  else if (97 <=? c) && (c <=? 102) then Some (c - 87)
  else if (65 <=? c) && (c <=? 70) then Some (c - 55)
  else None.

(* hex-conservative: the pair iterator of Vec::<u8>::from_hex on an even-length string;
   hex_chars_to_byte(hi, lo) = ((hih << 4) + loh) as u8; the first invalid char is an Err. *)
Fixpoint from_hex_pairs (s : list N) : res (list N) :=
  match s with
  | hi :: lo :: r =>
      match to_digit16 hi with
      | None => Err
      | Some hih =>
          match to_digit16 lo with
          | None => Err
          | Some loh => rmap (cons ((hih * 16 + loh) mod 256)) (from_hex_pairs r)
          end
      end
  | _ => Ok []                   (* [] ; a single trailing char cannot occur on even length *)
  end.

(* Vec::<u8>::from_hex: odd length is an Err *)
Definition from_hex (s : list N) : res (list N) :=
  if negb (N.of_nat (length s) mod 2 =? 0) then Err else from_hex_pairs s.

(* The common part of Value::parse_hexadecimal:
     if s.len() % 2 != 0 || s.len() != expected_byte_len * 2 { return Err(..) }
     let bytes = Vec::<u8>::from_hex(s).expect("valid chars and valid length");        *)
Definition parse_hex_common (expected_byte_len : N) (s : list N) : res (list N) :=
  let len := N.of_nat (length s) in
  if negb (len mod 2 =? 0) || negb (len =? expected_byte_len * 2) then Err
  else match from_hex s with
       | Ok bytes => Ok bytes
       | _ => Panic
       end.

(* Value::parse_hexadecimal at ty = UInt(k):
     expected_byte_len = int.byte_width()                       (0 for u1, u2, u4 !)
     Self::from(UIntValue::try_from(bytes.as_ref()).expect("valid length"))            *)
Definition parse_hex_uint (k : nat) (s : list N) : res N :=
  if Nat.ltb 8 k then Err else
  match parse_hex_common (byte_width k) s with
  | Ok bytes =>
      match uint_try_from bytes with
      | Some (_, v) => Ok v
      | None => Panic
      end
  | Err => Err
  | Panic => Panic
  end.

(* Value::parse_hexadecimal at ty = [u8; n]:  expected_byte_len = n;  Self::byte_array(bytes)
   (byte_array -> Value::array asserts that every element has type u8, which holds by construction) *)
Definition parse_hex_bytes (n : nat) (s : list N) : res (list N) :=
  parse_hex_common (N.of_nat n) s.

(** * Printing *)

(* <u8/u16/u32/u64 as Display>::fmt: the canonical decimal representation.
   Do-while loop producing digits from the least significant one; 20 digits are enough for u64. *)
Fixpoint dec_loop (fuel : nat) (n : N) (acc : list N) : list N :=
  match fuel with
  | O => acc
  | S f =>
      let acc' := (48 + n mod 10) :: acc in
      if n / 10 =? 0 then acc' else dec_loop f (n / 10) acc'
  end.
Definition dec_of_N (n : N) : list N := dec_loop 20 n [].

(* uN::to_be_bytes with `len` bytes *)
Fixpoint to_le_bytes (len : nat) (n : N) : list N :=
  match len with
  | O => []
  | S l => (n mod 256) :: to_le_bytes l (n / 256)
  end.
Definition to_be_bytes (len : nat) (n : N) : list N := rev (to_le_bytes len n).

(* DisplayHex::as_hex (lower case) *)
Definition hex_char (d : N) : N := if d <? 10 then 48 + d else 87 + d.
Fixpoint hex_of_bytes (bs : list N) : list N :=
  match bs with
  | [] => []
  | b :: r => hex_char (b / 16) :: hex_char (b mod 16) :: hex_of_bytes r
  end.

(* Display for UIntValue: U1..U64 decimal; U128/U256: "0x" ++ hex of the big-endian bytes *)
Definition uint_display (k : nat) (n : N) : list N :=
  match k with
  | 7%nat => 48 :: 120 :: hex_of_bytes (to_be_bytes 16 n)
  | 8%nat => 48 :: 120 :: hex_of_bytes (to_be_bytes 32 n)
  | _ => dec_of_N n
  end.
