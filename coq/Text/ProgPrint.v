(* Model of the PROGRAM PRINTER: the Display implementations of the parse tree.
     /repo/src/parse.rs   485-492   Display for Program      (writeln per item)
     /repo/src/parse.rs   494-505   Display for Item         (Module prints `mod witness {}`)
     /repo/src/parse.rs   507-534   Display for TypeAlias / Function / FunctionParam
     /repo/src/parse.rs   536-597   ExprTree, TreeLike for ExprTree
     /repo/src/parse.rs   599-714   Display for ExprTree     (the verbose_pre_order_iter state machine)
     /repo/src/parse.rs   746-782   Display for CallName / MatchPattern
     /repo/src/pattern.rs  86-117   Display for Pattern      (state machine)
     /repo/src/types.rs    33-89    TypeInner::display(f, n_children_yielded)
     /repo/src/types.rs   702-734   TreeLike for &AliasedType, Display for AliasedType (state machine)
     /repo/src/num.rs      21-25    Display for NonZeroPow2Usize
     miniscript-12.3.1/src/iter/tree.rs  VerbosePreOrderIter (modelled by TyPrint.vpo_run)
   and of a TOKEN-LEVEL reader of the language of /repo/src/minimal.pest with the tree construction of
   /repo/src/parse.rs 832-1439 (PestParse for Program .. NonZeroPow2Usize).

   This file contains only definitions (plain, total, computable Gallina); theorems are in
   Proofs/ProgPrintCorrect.v.

   Text is a list of byte values.  Names are interned ids [N]; their spelling is the parameter
   [ns : N -> list N] (`name_str`); every name (jet, function, alias, builtin alias, identifier,
   witness / parameter name) is printed through [ns] and nothing else is known about it.

   Contents
     1. tokens [tok], their spelling [spell], layout items [litem] = token | whitespace, [render]
     2. the structural printers as layouts: [lay_aty] [lay_pat] [lay_expr] .. [lay_program]
        and [print_program ns p := render ns (lay_program p)]
     3. the same printers as token lists without whitespace: [tokens_aty] .. [tokens_program]
     4. the Rust state machines: [aty_print_machine] [pat_print_machine] [expr_print_machine]
        [print_program_machine]   (Proofs/ProgPrintCorrect.v: they print what 2. prints)
     5. the token-level parser [parse_ty] [parse_pat] [parse_expr] [parse_item] [parse_tokens]
     6. what the parser guarantees of its output: [aty_wf] [expr_wf] [prog_wf]; span erasure [erase_program] *)
From Coq Require Import List Arith NArith Bool.
Import ListNotations.
Require Import SV.Layout.Ty SV.Text.Literal SV.Text.TyPrint SV.Text.ValParse SV.Lang.Ast SV.Front.PTree.
Local Open Scope N_scope.

(** * 1. Tokens *)

(* One token per atomic piece of minimal.pest: keywords (`fn_keyword`, ..), quoted literals of the rules
   (`"Left("`, `"unwrap_left::<"`, `">::into"`, `"list!["`, ..), atomic / compound-atomic rules
   (jet, witness_expr, param_expr, the three literal kinds, unsigned_type, builtin_alias, identifier,
   array_size / list_bound). *)
Inductive tok :=
| TFn | TTypeK | TMod | TConst | TLet | TMatch
| TModName (w : bool)                      (* module_name: true = `witness`, false = `param` *)
| TLParen | TRParen | TLBrace | TRBrace | TLBrack | TRBrack
| TComma | TSemi | TColon | TEq | TArrow | TFatArrow | TLt | TGt | TGtInto | TUnderscore
| TEitherLt | TOptionLt | TBoolTy | TUIntTy (k : nat) | TListLt | TBuiltin (n : N)
| TLeftP | TRightP | TSomeP | TNone | TFalse | TTrue | TListBang
| TUnwrapLeft | TUnwrapRight | TIsNone | TUnwrap | TAssert | TPanic | TDbg | TFold | TForWhile
| TJet (n : N) | TWitness (n : N) | TParam (n : N)
| TDec (s : list N) | TBin (s : list N) | THex (s : list N)
| TIdent (n : N)                           (* identifier / function_name / alias_name / witness_name *)
| TNum (n : N).                            (* array_size / list_bound: ASCII_DIGIT+ *)

Definition k_fn : list N := [102;110].  (* "fn" *)
Definition k_type : list N := [116;121;112;101].  (* "type" *)
Definition k_mod : list N := [109;111;100].  (* "mod" *)
Definition k_const : list N := [99;111;110;115;116].  (* "const" *)
Definition k_let : list N := [108;101;116].  (* "let" *)
Definition k_match : list N := [109;97;116;99;104].  (* "match" *)
Definition k_witness : list N := [119;105;116;110;101;115;115].  (* "witness" *)
Definition k_param : list N := [112;97;114;97;109].  (* "param" *)
Definition k_arrow : list N := [45;62].  (* "->" *)
Definition k_fatarrow : list N := [61;62].  (* "=>" *)
Definition k_gtinto : list N := [62;58;58;105;110;116;111].  (* ">::into" *)
Definition k_Either : list N := [69;105;116;104;101;114;60].  (* "Either<" *)
Definition k_Option : list N := [79;112;116;105;111;110;60].  (* "Option<" *)
Definition k_bool : list N := [98;111;111;108].  (* "bool" *)
Definition k_List : list N := [76;105;115;116;60].  (* "List<" *)
Definition k_Left : list N := [76;101;102;116;40].  (* "Left(" *)
Definition k_Right : list N := [82;105;103;104;116;40].  (* "Right(" *)
Definition k_Some : list N := [83;111;109;101;40].  (* "Some(" *)
Definition k_None : list N := [78;111;110;101].  (* "None" *)
Definition k_false : list N := [102;97;108;115;101].  (* "false" *)
Definition k_true : list N := [116;114;117;101].  (* "true" *)
Definition k_listbang : list N := [108;105;115;116;33;91].  (* "list![" *)
Definition k_unwrap_left : list N := [117;110;119;114;97;112;95;108;101;102;116;58;58;60].  (* "unwrap_left::<" *)
Definition k_unwrap_right : list N := [117;110;119;114;97;112;95;114;105;103;104;116;58;58;60].  (* "unwrap_right::<" *)
Definition k_is_none : list N := [105;115;95;110;111;110;101;58;58;60].  (* "is_none::<" *)
Definition k_unwrap : list N := [117;110;119;114;97;112].  (* "unwrap" *)
Definition k_assert : list N := [97;115;115;101;114;116;33].  (* "assert!" *)
Definition k_panic : list N := [112;97;110;105;99;33].  (* "panic!" *)
Definition k_dbg : list N := [100;98;103;33].  (* "dbg!" *)
Definition k_fold : list N := [102;111;108;100;58;58;60].  (* "fold::<" *)
Definition k_for_while : list N := [102;111;114;95;119;104;105;108;101;58;58;60].  (* "for_while::<" *)
Definition k_jet : list N := [106;101;116;58;58].  (* "jet::" *)
Definition k_witness_cc : list N := [119;105;116;110;101;115;115;58;58].  (* "witness::" *)
Definition k_param_cc : list N := [112;97;114;97;109;58;58].  (* "param::" *)
Definition k_0b : list N := [48;98].  (* "0b" *)
Definition k_0x : list N := [48;120].  (* "0x" *)

(* Display for NonZeroPow2Usize / usize of the bound 2^k *)
Definition pow2N (k : nat) : N := 2 ^ N.of_nat k.

(* layout item: a token or a run of whitespace *)
Inductive litem := LT (t : tok) | LW (w : list N).

Definition toks_of (l : list litem) : list tok :=
  flat_map (fun i => match i with LT t => [t] | LW _ => [] end) l.

(* the bytes of a layout item that is whitespace are spaces and newlines only *)
Definition litem_ws_ok (i : litem) : bool :=
  match i with LT _ => true | LW w => forallb (fun c => (c =? 32) || (c =? 10)) w end.

(* x1 ++ sep ++ x2 ++ sep ++ .. ++ xn  (TyPrint.sep_by for any element type) *)
Fixpoint sepl {A : Type} (sep : list A) (xs : list (list A)) : list A :=
  match xs with
  | [] => []
  | x :: xs' =>
      match xs' with
      | [] => x
      | _ :: _ => x ++ sep ++ sepl sep xs'
      end
  end.

Definition one {A : Type} (l : list A) : bool := match l with [_] => true | _ => false end.

Section Spell.
  Variable ns : N -> list N.              (* the spelling of a name *)

  Definition spell (t : tok) : list N :=
    match t with
    | TFn => k_fn | TTypeK => k_type | TMod => k_mod | TConst => k_const | TLet => k_let | TMatch => k_match
    | TModName w => if w then k_witness else k_param
    | TLParen => [40] | TRParen => [41] | TLBrace => [123] | TRBrace => [125] | TLBrack => [91] | TRBrack => [93]
    | TComma => [44] | TSemi => [59] | TColon => [58] | TEq => [61] | TArrow => k_arrow | TFatArrow => k_fatarrow
    | TLt => [60] | TGt => [62] | TGtInto => k_gtinto | TUnderscore => [95]
    | TEitherLt => k_Either | TOptionLt => k_Option | TBoolTy => k_bool | TUIntTy k => uint_type_name k
    | TListLt => k_List | TBuiltin n => ns n
    | TLeftP => k_Left | TRightP => k_Right | TSomeP => k_Some | TNone => k_None | TFalse => k_false
    | TTrue => k_true | TListBang => k_listbang
    | TUnwrapLeft => k_unwrap_left | TUnwrapRight => k_unwrap_right | TIsNone => k_is_none | TUnwrap => k_unwrap
    | TAssert => k_assert | TPanic => k_panic | TDbg => k_dbg | TFold => k_fold | TForWhile => k_for_while
    | TJet n => k_jet ++ ns n | TWitness n => k_witness_cc ++ ns n | TParam n => k_param_cc ++ ns n
    | TDec s => s | TBin s => k_0b ++ s | THex s => k_0x ++ s
    | TIdent n => ns n
    | TNum n => dec_N n
    end.

  Definition render_item (i : litem) : list N := match i with LT t => spell t | LW w => w end.

  (* the text of a layout: the spellings of the tokens and the whitespace, concatenated *)
  Definition render (l : list litem) : list N := flat_map render_item l.
End Spell.

(** * 2. The structural printers, as layouts *)

Definition sp : litem := LW [32].                   (* " " *)
Definition nl : litem := LW [10].                   (* "\n" *)
Definition ind : litem := LW [32;32;32;32].         (* "    " *)
Definition csp : list litem := [LT TComma; sp].     (* ", " *)

(* Display for AliasedType *)
Fixpoint lay_aty (t : aty) : list litem :=
  match t with
  | AAlias n => [LT (TIdent n)]
  | ABuiltin n => [LT (TBuiltin n)]
  | AEither a b => LT TEitherLt :: lay_aty a ++ LT TComma :: lay_aty b ++ [LT TGt]        (* Either<A,B> *)
  | AOption a => LT TOptionLt :: lay_aty a ++ [LT TGt]
  | ABool => [LT TBoolTy]
  | AUInt k => [LT (TUIntTy k)]
  | ATuple ts =>                                                                          (* () (A,) (A, B) *)
      LT TLParen :: sepl csp (map lay_aty ts) ++ (if one ts then [LT TComma] else []) ++ [LT TRParen]
  | AArray a n => LT TLBrack :: lay_aty a ++ [LT TSemi; sp; LT (TNum (N.of_nat n)); LT TRBrack]
  | AList a k => LT TListLt :: lay_aty a ++ [LT TComma; sp; LT (TNum (pow2N k)); LT TGt]
  end.

(* Display for Pattern *)
Fixpoint lay_pat (p : pat) : list litem :=
  match p with
  | PId x => [LT (TIdent x)]
  | PIgn => [LT TUnderscore]
  | PTup ps =>                                                                            (* () (a, ) (a, b) *)
      LT TLParen :: sepl csp (map lay_pat ps) ++ (if one ps then csp else []) ++ [LT TRParen]
  | PArr ps => LT TLBrack :: sepl csp (map lay_pat ps) ++ [LT TRBrack]
  end.

(* Display for MatchPattern *)
Definition lay_mpat (m : mpat) : list litem :=
  match m with
  | MLeft x t => LT TLeftP :: LT (TIdent x) :: LT TColon :: sp :: lay_aty t ++ [LT TRParen]
  | MRight x t => LT TRightP :: LT (TIdent x) :: LT TColon :: sp :: lay_aty t ++ [LT TRParen]
  | MNone => [LT TNone]
  | MSome x t => LT TSomeP :: LT (TIdent x) :: LT TColon :: sp :: lay_aty t ++ [LT TRParen]
  | MFalse => [LT TFalse]
  | MTrue => [LT TTrue]
  end.

(* Display for CallName *)
Definition lay_callname (c : pcallname) : list litem :=
  match c with
  | PJet n => [LT (TJet n)]
  | PUnwrapLeft t => LT TUnwrapLeft :: lay_aty t ++ [LT TGt]
  | PUnwrapRight t => LT TUnwrapRight :: lay_aty t ++ [LT TGt]
  | PIsNone t => LT TIsNone :: lay_aty t ++ [LT TGt]
  | PUnwrap => [LT TUnwrap]
  | PAssert => [LT TAssert]
  | PPanic => [LT TPanic]
  | PDebug => [LT TDbg]
  | PCast t => LT TLt :: lay_aty t ++ [LT TGtInto]
  | PCustom f => [LT (TIdent f)]
  | PFold f k => [LT TFold; LT (TIdent f); LT TComma; sp; LT (TNum (pow2N k)); LT TGt]
  | PForWhile f => [LT TForWhile; LT (TIdent f); LT TGt]
  end.

Definition lit_tok (l : lit) : tok :=
  match l with LDec s => TDec s | LBin s => TBin s | LHex s => THex s end.

Definition lay_let (p : pat) (t : aty) : list litem :=
  LT TLet :: sp :: lay_pat p ++ [LT TColon; sp] ++ lay_aty t ++ [sp; LT TEq; sp].   (* "let {p}: {t} = " *)

(* Display for Expression (what the ExprTree state machine prints, as a structural recursion) *)
Fixpoint lay_expr (e : pexpr) : list litem :=
  match e with
  | PBlock ss l =>
      (* "{\n" child ("    " child)* "}\n"; a statement child is followed by ";\n" *)
      LT TLBrace :: nl ::
      sepl [ind] (map (fun s : option (ppat * aty) * pexpr =>
                         match s with
                         | (Some (p, t), e1) => lay_let p t ++ lay_expr e1 ++ [LT TSemi; nl]
                         | (None, e1) => lay_expr e1 ++ [LT TSemi; nl]
                         end) ss
                  ++ match l with Some e1 => [lay_expr e1] | None => [] end)
      ++ [LT TRBrace; nl]
  | PBool b => [LT (if b then TTrue else TFalse)]
  | PLit l => [LT (lit_tok l)]
  | PWitness n => [LT (TWitness n)]
  | PParam n => [LT (TParam n)]
  | PVar x => [LT (TIdent x)]
  | PParen e1 => LT TLParen :: lay_expr e1 ++ [LT TRParen]
  | PTuple es => LT TLParen :: sepl csp (map lay_expr es) ++ (if one es then csp else []) ++ [LT TRParen]
  | PArray es => LT TLBrack :: sepl csp (map lay_expr es) ++ [LT TRBrack]
  | PList es => LT TListBang :: sepl csp (map lay_expr es) ++ [LT TRBrack]
  | PLeft e1 => LT TLeftP :: lay_expr e1 ++ [LT TRParen]
  | PRight e1 => LT TRightP :: lay_expr e1 ++ [LT TRParen]
  | PNone => [LT TNone]
  | PSome e1 => LT TSomeP :: lay_expr e1 ++ [LT TRParen]
  | PCall _ name args => lay_callname name ++ LT TLParen :: sepl csp (map lay_expr args) ++ [LT TRParen]
  | PMatch s lp el rp er =>
      (* "match {s}{\n{lp} => {el},\n{rp} => {er},\n}" *)
      LT TMatch :: sp :: lay_expr s ++ [LT TLBrace; nl]
      ++ lay_mpat lp ++ [sp; LT TFatArrow; sp] ++ lay_expr el ++ [LT TComma; nl]
      ++ lay_mpat rp ++ [sp; LT TFatArrow; sp] ++ lay_expr er ++ [LT TComma; nl; LT TRBrace]
  end.

(* Display for FunctionParam *)
Definition lay_param (p : N * aty) : list litem := LT (TIdent (fst p)) :: LT TColon :: sp :: lay_aty (snd p).

(* Display for Item *)
Definition lay_item (i : pitem) : list litem :=
  match i with
  | ITypeAlias n t => LT TTypeK :: sp :: LT (TIdent n) :: sp :: LT TEq :: sp :: lay_aty t ++ [LT TSemi]
  | IFunction name params ret body =>
      LT TFn :: sp :: LT (TIdent name) :: LT TLParen :: sepl csp (map lay_param params) ++ [LT TRParen]
      ++ match ret with Some t => sp :: LT TArrow :: sp :: lay_aty t | None => [] end
      ++ sp :: lay_expr body
  | IModule => [LT TMod; sp; LT (TModName true); sp; LT TLBrace; LT TRBrace]                (* "mod witness {}" *)
  end.

(* Display for Program: writeln!(f, "{item}") for every item *)
Definition lay_program (p : pprogram) : list litem := flat_map (fun i => lay_item i ++ [nl]) p.

Definition print_aty (ns : N -> list N) (t : aty) : list N := render ns (lay_aty t).
Definition print_pat (ns : N -> list N) (p : pat) : list N := render ns (lay_pat p).
Definition print_expr (ns : N -> list N) (e : pexpr) : list N := render ns (lay_expr e).
Definition print_program (ns : N -> list N) (p : pprogram) : list N := render ns (lay_program p).

(** * 3. The printers as token lists (no whitespace) *)

Fixpoint tokens_aty (t : aty) : list tok :=
  match t with
  | AAlias n => [TIdent n]
  | ABuiltin n => [TBuiltin n]
  | AEither a b => TEitherLt :: tokens_aty a ++ TComma :: tokens_aty b ++ [TGt]
  | AOption a => TOptionLt :: tokens_aty a ++ [TGt]
  | ABool => [TBoolTy]
  | AUInt k => [TUIntTy k]
  | ATuple ts => TLParen :: sepl [TComma] (map tokens_aty ts) ++ (if one ts then [TComma] else []) ++ [TRParen]
  | AArray a n => TLBrack :: tokens_aty a ++ [TSemi; TNum (N.of_nat n); TRBrack]
  | AList a k => TListLt :: tokens_aty a ++ [TComma; TNum (pow2N k); TGt]
  end.

Fixpoint tokens_pat (p : pat) : list tok :=
  match p with
  | PId x => [TIdent x]
  | PIgn => [TUnderscore]
  | PTup ps => TLParen :: sepl [TComma] (map tokens_pat ps) ++ (if one ps then [TComma] else []) ++ [TRParen]
  | PArr ps => TLBrack :: sepl [TComma] (map tokens_pat ps) ++ [TRBrack]
  end.

Definition tokens_mpat (m : mpat) : list tok :=
  match m with
  | MLeft x t => TLeftP :: TIdent x :: TColon :: tokens_aty t ++ [TRParen]
  | MRight x t => TRightP :: TIdent x :: TColon :: tokens_aty t ++ [TRParen]
  | MNone => [TNone]
  | MSome x t => TSomeP :: TIdent x :: TColon :: tokens_aty t ++ [TRParen]
  | MFalse => [TFalse]
  | MTrue => [TTrue]
  end.

Definition tokens_callname (c : pcallname) : list tok :=
  match c with
  | PJet n => [TJet n]
  | PUnwrapLeft t => TUnwrapLeft :: tokens_aty t ++ [TGt]
  | PUnwrapRight t => TUnwrapRight :: tokens_aty t ++ [TGt]
  | PIsNone t => TIsNone :: tokens_aty t ++ [TGt]
  | PUnwrap => [TUnwrap]
  | PAssert => [TAssert]
  | PPanic => [TPanic]
  | PDebug => [TDbg]
  | PCast t => TLt :: tokens_aty t ++ [TGtInto]
  | PCustom f => [TIdent f]
  | PFold f k => [TFold; TIdent f; TComma; TNum (pow2N k); TGt]
  | PForWhile f => [TForWhile; TIdent f; TGt]
  end.

Definition tokens_let (p : pat) (t : aty) : list tok :=
  TLet :: tokens_pat p ++ [TColon] ++ tokens_aty t ++ [TEq].

Fixpoint tokens_expr (e : pexpr) : list tok :=
  match e with
  | PBlock ss l =>
      TLBrace ::
      flat_map (fun s : option (ppat * aty) * pexpr =>
                  match s with
                  | (Some (p, t), e1) => tokens_let p t ++ tokens_expr e1 ++ [TSemi]
                  | (None, e1) => tokens_expr e1 ++ [TSemi]
                  end) ss
      ++ match l with Some e1 => tokens_expr e1 | None => [] end
      ++ [TRBrace]
  | PBool b => [if b then TTrue else TFalse]
  | PLit l => [lit_tok l]
  | PWitness n => [TWitness n]
  | PParam n => [TParam n]
  | PVar x => [TIdent x]
  | PParen e1 => TLParen :: tokens_expr e1 ++ [TRParen]
  | PTuple es => TLParen :: sepl [TComma] (map tokens_expr es) ++ (if one es then [TComma] else []) ++ [TRParen]
  | PArray es => TLBrack :: sepl [TComma] (map tokens_expr es) ++ [TRBrack]
  | PList es => TListBang :: sepl [TComma] (map tokens_expr es) ++ [TRBrack]
  | PLeft e1 => TLeftP :: tokens_expr e1 ++ [TRParen]
  | PRight e1 => TRightP :: tokens_expr e1 ++ [TRParen]
  | PNone => [TNone]
  | PSome e1 => TSomeP :: tokens_expr e1 ++ [TRParen]
  | PCall _ name args => tokens_callname name ++ TLParen :: sepl [TComma] (map tokens_expr args) ++ [TRParen]
  | PMatch s lp el rp er =>
      TMatch :: tokens_expr s ++ [TLBrace]
      ++ tokens_mpat lp ++ [TFatArrow] ++ tokens_expr el ++ [TComma]
      ++ tokens_mpat rp ++ [TFatArrow] ++ tokens_expr er ++ [TComma; TRBrace]
  end.

Definition tokens_param (p : N * aty) : list tok := TIdent (fst p) :: TColon :: tokens_aty (snd p).

Definition tokens_item (i : pitem) : list tok :=
  match i with
  | ITypeAlias n t => TTypeK :: TIdent n :: TEq :: tokens_aty t ++ [TSemi]
  | IFunction name params ret body =>
      TFn :: TIdent name :: TLParen :: sepl [TComma] (map tokens_param params) ++ [TRParen]
      ++ match ret with Some t => TArrow :: tokens_aty t | None => [] end
      ++ tokens_expr body
  | IModule => [TMod; TModName true; TLBrace; TRBrace]
  end.

Definition tokens_program (p : pprogram) : list tok := flat_map tokens_item p.

(** * 4. The Rust state machines *)

(* fuel for [vpo_run]: a tree with c nodes yields 2c - 1 items (every node once, and once per child) *)

(** ** 4.1 Display for AliasedType *)
Definition aty_children (t : aty) : list aty :=
  match t with
  | AAlias _ | ABuiltin _ | ABool | AUInt _ => []
  | AOption a | AArray a _ | AList a _ => [a]
  | AEither a b => [a; b]
  | ATuple ts => ts
  end.

Fixpoint aty_count (t : aty) : nat :=
  match t with
  | AAlias _ | ABuiltin _ | ABool | AUInt _ => 1%nat
  | AOption a | AArray a _ | AList a _ => S (aty_count a)
  | AEither a b => S (aty_count a + aty_count b)
  | ATuple ts => S (list_sum (map aty_count ts))
  end.

Section Machines.
  Variable ns : N -> list N.

  (* AliasedInner::Alias / Builtin: write!(f, "{alias}"); Inner(inner): inner.display(f, n_children_yielded) *)
  Definition aty_display (t : aty) (n : nat) : list N :=
    match t with
    | AAlias a => ns a
    | ABuiltin b => ns b
    | AEither _ _ =>
        match n with
        | O => k_Either
        | S O => [44]
        | _ => [62]
        end
    | AOption _ =>
        match n with
        | O => k_Option
        | _ => [62]
        end
    | ABool => k_bool
    | AUInt k => uint_type_name k
    | ATuple elements =>
        match n with
        | O => 40 :: (match elements with [] => [41] | _ => [] end)
        | _ =>
            if Nat.eqb n (length elements)
            then (if Nat.eqb n 1%nat then [44] else []) ++ [41]
            else [44; 32]
        end
    | AArray _ size =>
        match n with
        | O => [91]
        | _ => [59; 32] ++ dec_N (N.of_nat size) ++ [93]
        end
    | AList _ k =>
        match n with
        | O => k_List
        | _ => [44; 32] ++ dec_N (pow2N k) ++ [62]
        end
    end.

  Definition aty_print_machine (t : aty) : list N :=
    flat_map (fun it : vpo_item aty => let '(node, n, _) := it in aty_display node n)
             (vpo_run aty_children (2 * aty_count t) [vpo_initial aty_children t]).

  (** ** 4.2 Display for Pattern *)
  Definition pat_children (p : pat) : list pat :=
    match p with PId _ | PIgn => [] | PTup ps | PArr ps => ps end.

  Fixpoint pat_count (p : pat) : nat :=
    match p with
    | PId _ | PIgn => 1%nat
    | PTup ps | PArr ps => S (list_sum (map pat_count ps))
    end.

  (* the common shape
       if data.n_children_yielded == 0 { open } else if !data.is_complete [|| extra] { ", " }
       if data.is_complete { close } *)
  Definition seq_display (open close : list N) (extra : bool) (n : nat) (complete : bool) : list N :=
    (match n with
     | O => open
     | _ => if negb complete || extra then [44; 32] else []
     end) ++ (if complete then close else []).

  Definition pat_display (it : vpo_item pat) : list N :=
    let '(node, n, complete) := it in
    match node with
    | PId i => ns i
    | PIgn => [95]
    | PTup tuple => seq_display [40] [41] (Nat.eqb (length tuple) 1) n complete
    | PArr _ => seq_display [91] [93] false n complete
    end.

  Definition pat_print_machine (p : pat) : list N :=
    flat_map pat_display (vpo_run pat_children (2 * pat_count p) [vpo_initial pat_children p]).

  (** ** 4.3 Display for MatchPattern and CallName (they call Display for AliasedType) *)
  Definition mpat_machine (m : mpat) : list N :=
    match m with
    | MLeft i t => k_Left ++ ns i ++ [58; 32] ++ aty_print_machine t ++ [41]
    | MRight i t => k_Right ++ ns i ++ [58; 32] ++ aty_print_machine t ++ [41]
    | MNone => k_None
    | MSome i t => k_Some ++ ns i ++ [58; 32] ++ aty_print_machine t ++ [41]
    | MFalse => k_false
    | MTrue => k_true
    end.

  Definition callname_machine (c : pcallname) : list N :=
    match c with
    | PJet j => k_jet ++ ns j
    | PUnwrapLeft t => k_unwrap_left ++ aty_print_machine t ++ [62]
    | PUnwrapRight t => k_unwrap_right ++ aty_print_machine t ++ [62]
    | PUnwrap => k_unwrap
    | PIsNone t => k_is_none ++ aty_print_machine t ++ [62]
    | PAssert => k_assert
    | PPanic => k_panic
    | PDebug => k_dbg
    | PCast t => [60] ++ aty_print_machine t ++ k_gtinto
    | PCustom f => ns f
    | PFold f k => k_fold ++ ns f ++ [44; 32] ++ dec_N (pow2N k) ++ [62]
    | PForWhile f => k_for_while ++ ns f ++ [62]
    end.

  (** ** 4.4 ExprTree and Display for ExprTree *)
  (* parse.rs has Expression {Single | Block}; PTree merges them, so [NExpr (PBlock ..)] is an
     Expression whose inner is a Block and [NExpr e] for any other e is an Expression whose inner is
     Single.  [NSingle (PBlock ..)] does not occur. *)
  Inductive enode :=
  | NExpr (e : pexpr)
  | NBlock (ss : list (option (ppat * aty) * pexpr)) (l : option pexpr)
  | NStmt (s : option (ppat * aty) * pexpr)
  | NAssign (p : ppat) (t : aty) (e : pexpr)
  | NSingle (e : pexpr)
  | NCall (name : pcallname) (args : list pexpr)
  | NMatch (s : pexpr) (lp : mpat) (el : pexpr) (rp : mpat) (er : pexpr).

  (* TreeLike for ExprTree: as_node *)
  Definition en_children (t : enode) : list enode :=
    match t with
    | NExpr (PBlock ss l) => [NBlock ss l]
    | NExpr e => [NSingle e]
    | NBlock ss l => map NStmt ss ++ match l with Some e => [NExpr e] | None => [] end
    | NStmt (Some (p, t), e) => [NAssign p t e]
    | NStmt (None, e) => [NExpr e]
    | NAssign _ _ e => [NExpr e]
    | NSingle e =>
        match e with
        | PBool _ | PLit _ | PVar _ | PWitness _ | PParam _ | PNone => []
        | PSome l | PLeft l | PRight l | PParen l => [NExpr l]
        | PCall _ name args => [NCall name args]
        | PMatch s lp el rp er => [NMatch s lp el rp er]
        | PTuple es | PArray es | PList es => map NExpr es
        | PBlock _ _ => []
        end
    | NCall _ args => map NExpr args
    | NMatch s _ el _ er => [NExpr s; NExpr el; NExpr er]
    end.

  (* number of ExprTree nodes below (and including) ExprTree::Expression(e) *)
  Fixpoint ex_count (e : pexpr) : nat :=
    match e with
    | PBlock ss l =>
        S (S (list_sum (map (fun s : option (ppat * aty) * pexpr =>
                               match s with
                               | (Some _, e1) => S (S (ex_count e1))
                               | (None, e1) => S (ex_count e1)
                               end) ss)
              + match l with Some e1 => ex_count e1 | None => O end))
    | PBool _ | PLit _ | PVar _ | PWitness _ | PParam _ | PNone => 2%nat
    | PSome e1 | PLeft e1 | PRight e1 | PParen e1 => S (S (ex_count e1))
    | PTuple es | PArray es | PList es => S (S (list_sum (map ex_count es)))
    | PCall _ _ args => S (S (S (list_sum (map ex_count args))))
    | PMatch s _ el _ er => S (S (S (ex_count s + ex_count el + ex_count er)))
    end.

  Definition stmt_count (s : option (ppat * aty) * pexpr) : nat :=
    match s with
    | (Some _, e) => S (S (ex_count e))
    | (None, e) => S (ex_count e)
    end.

  Definition en_count (t : enode) : nat :=
    match t with
    | NExpr e => ex_count e
    | NBlock ss l => S (list_sum (map stmt_count ss) + match l with Some e => ex_count e | None => O end)
    | NStmt s => stmt_count s
    | NAssign _ _ e => S (ex_count e)
    | NSingle e =>
        match e with
        | PBlock _ _ => 1%nat
        | _ => pred (ex_count e)
        end
    | NCall _ args => S (list_sum (map ex_count args))
    | NMatch s _ el _ er => S (ex_count s + ex_count el + ex_count er)
    end.

  Definition wrap_display (open : list N) (n : nat) : list N :=
    match n with O => open | _ => [41] end.                         (* 0 => open, n => ")" *)

  (* the body of `for data in self.verbose_pre_order_iter()` *)
  Definition en_display (it : vpo_item enode) : list N :=
    let '(node, n, complete) := it in
    match node with
    | NStmt _ => if complete then [59; 10] else []                  (* writeln!(f, ";") *)
    | NExpr _ => []
    | NBlock _ _ =>
        (match n with
         | O => [123; 10]                                           (* writeln!(f, "{{") *)
         | _ => if negb complete then [32;32;32;32] else []
         end) ++ (if complete then [125; 10] else [])               (* writeln!(f, "}}") *)
    | NAssign p t _ =>
        match n with
        | O => k_let ++ [32] ++ pat_print_machine p ++ [58; 32] ++ aty_print_machine t ++ [32; 61; 32]
        | _ => []
        end
    | NSingle e =>
        match e with
        | PBool b => if b then k_true else k_false                  (* write!(f, "{bit}") *)
        | PLit (LBin s) => k_0b ++ s
        | PLit (LDec s) => s
        | PLit (LHex s) => k_0x ++ s
        | PVar x => ns x
        | PWitness x => k_witness_cc ++ ns x
        | PParam x => k_param_cc ++ ns x
        | PNone => k_None
        | PSome _ => wrap_display k_Some n
        | PLeft _ => wrap_display k_Left n
        | PRight _ => wrap_display k_Right n
        | PParen _ => wrap_display [40] n
        | PCall _ _ _ | PMatch _ _ _ _ _ => []
        | PTuple tuple => seq_display [40] [41] (Nat.eqb (length tuple) 1) n complete
        | PArray _ => seq_display [91] [93] false n complete
        | PList _ => seq_display k_listbang [93] false n complete
        | PBlock _ _ => []
        end
    | NCall name _ => seq_display (callname_machine name ++ [40]) [41] false n complete
    | NMatch _ lp _ rp _ =>
        match n with
        | O => k_match ++ [32]                                      (* "match " *)
        | 1%nat => [123; 10] ++ mpat_machine lp ++ [32; 61; 62; 32]     (* "{\n{} => " *)
        | 2%nat => [44; 10] ++ mpat_machine rp ++ [32; 61; 62; 32]      (* ",\n{} => " *)
        | _ => [44; 10; 125]                                        (* ",\n}" *)
        end
    end.

  Definition en_print_machine (t : enode) : list N :=
    flat_map en_display (vpo_run en_children (2 * en_count t) [vpo_initial en_children t]).

  (* Display for Expression: write!(f, "{}", ExprTree::Expression(self)) *)
  Definition expr_print_machine (e : pexpr) : list N := en_print_machine (NExpr e).

  (** ** 4.5 Items and programs *)
  Fixpoint params_machine (i : nat) (ps : list (N * aty)) : list N :=
    match ps with
    | [] => []
    | p :: ps' =>
        (if Nat.ltb 0 i then [44; 32] else [])                      (* if 0 < i { write!(f, ", ") } *)
        ++ ns (fst p) ++ [58; 32] ++ aty_print_machine (snd p)      (* "{}: {}" *)
        ++ params_machine (S i) ps'
    end.

  Definition item_machine (i : pitem) : list N :=
    match i with
    | ITypeAlias n t => k_type ++ [32] ++ ns n ++ [32; 61; 32] ++ aty_print_machine t ++ [59]
    | IFunction name params ret body =>
        k_fn ++ [32] ++ ns name ++ [40]
        ++ params_machine 0 params
        ++ [41]
        ++ match ret with Some t => [32] ++ k_arrow ++ [32] ++ aty_print_machine t | None => [] end
        ++ [32] ++ expr_print_machine body
    | IModule => k_mod ++ [32] ++ k_witness ++ [32; 123; 125]        (* "mod witness {}" *)
    end.

  Definition print_program_machine (p : pprogram) : list N :=
    flat_map (fun i => item_machine i ++ [10]) p.
End Machines.

(** * 5. The token-level parser *)

Notation "'do' p <- a ; b" := (match a with Some p => b | _ => None end)
  (at level 200, p pattern, a at level 100, b at level 200, only parsing).

Definition is_rparen (t : tok) : bool := match t with TRParen => true | _ => false end.
Definition is_lparen (t : tok) : bool := match t with TLParen => true | _ => false end.
Definition is_rbrack (t : tok) : bool := match t with TRBrack => true | _ => false end.
Definition is_rbrace (t : tok) : bool := match t with TRBrace => true | _ => false end.
Definition is_lbrace (t : tok) : bool := match t with TLBrace => true | _ => false end.
Definition is_comma (t : tok) : bool := match t with TComma => true | _ => false end.
Definition is_semi (t : tok) : bool := match t with TSemi => true | _ => false end.
Definition is_colon (t : tok) : bool := match t with TColon => true | _ => false end.
Definition is_eq (t : tok) : bool := match t with TEq => true | _ => false end.
Definition is_gt (t : tok) : bool := match t with TGt => true | _ => false end.
Definition is_gtinto (t : tok) : bool := match t with TGtInto => true | _ => false end.
Definition is_fatarrow (t : tok) : bool := match t with TFatArrow => true | _ => false end.
Definition is_let (t : tok) : bool := match t with TLet => true | _ => false end.

Definition expect (p : tok -> bool) (ts : list tok) : option (list tok) :=
  match ts with
  | t :: r => if p t then Some r else None
  | [] => None
  end.

(* the closing token of a sequence: `)` (paren = true) or `]` *)
Definition is_close (paren : bool) (t : tok) : bool := if paren then is_rparen t else is_rbrack t.

Section Loops.
  Context {A : Type}.
  Variable pe : list tok -> option (A * list tok).       (* the element parser *)

  (* zero or more [, x] and then [)]  -- after the first element of call_args / function_params
     (no trailing comma) *)
  Fixpoint args_tail (n : nat) (ts : list tok) : option (list A * list tok) :=
    match n with
    | O => None
    | S n' =>
        match ts with
        | [] => None
        | t :: r =>
            if is_rparen t then Some ([], r)
            else if is_comma t then
              do (x, r1) <- pe r;
              do (xs, r2) <- args_tail n' r1;
              Some (x :: xs, r2)
            else None
        end
    end.

  (* call_args / function_params after the opening parenthesis: nothing or [x , x , .. x], then [)] *)
  Definition args_list (n : nat) (ts : list tok) : option (list A * list tok) :=
    match ts with
    | [] => None
    | t :: r =>
        if is_rparen t then Some ([], r)
        else
          do (x, r1) <- pe ts;
          do (xs, r2) <- args_tail n r1;
          Some (x :: xs, r2)
    end.

  (* nothing or [x , x , .. x] with an optional trailing comma, then the closing token
     -- array_expr, list_expr, array_pattern after the opening token;
     also the part of a tuple after its first comma *)
  Fixpoint seq_list (paren : bool) (n : nat) (ts : list tok) : option (list A * list tok) :=
    match n with
    | O => None
    | S n' =>
        match ts with
        | [] => None
        | t :: r =>
            if is_close paren t then Some ([], r)
            else
              do (x, r1) <- pe ts;
              match r1 with
              | [] => None
              | t1 :: r2 =>
                  if is_close paren t1 then Some ([x], r2)
                  else if is_comma t1 then
                    do (xs, r3) <- seq_list paren n' r2;
                    Some (x :: xs, r3)
                  else None
              end
        end
    end.

  (* tuple_expr / tuple_pattern / tuple_type after the opening parenthesis: nothing, or one or more [x ,]
     and an optional last x, then [)].   inl xs = a tuple, inr x = a single x without comma *)
  Definition tuple_list (n : nat) (ts : list tok) : option ((list A + A) * list tok) :=
    match ts with
    | [] => None
    | t :: r =>
        if is_rparen t then Some (inl [], r)
        else
          do (x, r1) <- pe ts;
          match r1 with
          | [] => None
          | t1 :: r2 =>
              if is_rparen t1 then Some (inr x, r2)
              else if is_comma t1 then
                do (xs, r3) <- seq_list true n r2;
                Some (inl (x :: xs), r3)
              else None
          end
    end.
End Loops.

(* usize::from_str succeeds *)
Definition fits_usize (n : N) : bool := n <? 18446744073709551616.

(* NonZeroPow2Usize::parse: str::parse::<usize>, then NonZeroPow2Usize::new *)
Definition parse_bound (n : N) : option nat := if fits_usize n then list_bound_exp n else None.

(* AliasedType::parse *)
Fixpoint parse_ty (fuel : nat) (ts : list tok) : option (aty * list tok) :=
  match fuel with
  | O => None
  | S f =>
      match ts with
      | TIdent n :: r => Some (AAlias n, r)
      | TBuiltin n :: r => Some (ABuiltin n, r)
      | TEitherLt :: r =>
          do (a, r1) <- parse_ty f r;
          do r2 <- expect is_comma r1;
          do (b, r3) <- parse_ty f r2;
          do r4 <- expect is_gt r3;
          Some (AEither a b, r4)
      | TOptionLt :: r =>
          do (a, r1) <- parse_ty f r;
          do r2 <- expect is_gt r1;
          Some (AOption a, r2)
      | TBoolTy :: r => Some (ABool, r)
      | TUIntTy k :: r => if Nat.leb k 8 then Some (AUInt k, r) else None
      | TLParen :: r =>
          match tuple_list (fun ts' => parse_ty f ts') f r with
          | Some (inl ts', r1) => Some (ATuple ts', r1)
          | _ => None                                     (* `(T)` is not a type *)
          end
      | TLBrack :: r =>
          do (a, r1) <- parse_ty f r;
          match r1 with
          | TSemi :: TNum n :: TRBrack :: r2 => if fits_usize n then Some (AArray a (N.to_nat n), r2) else None
          | _ => None
          end
      | TListLt :: r =>
          do (a, r1) <- parse_ty f r;
          match r1 with
          | TComma :: TNum n :: TGt :: r2 => do k <- parse_bound n; Some (AList a k, r2)
          | _ => None
          end
      | _ => None
      end
  end.

(* Pattern::parse *)
Fixpoint parse_pat (fuel : nat) (ts : list tok) : option (pat * list tok) :=
  match fuel with
  | O => None
  | S f =>
      match ts with
      | TUnderscore :: r => Some (PIgn, r)
      | TIdent x :: r => Some (PId x, r)
      | TLParen :: r =>
          match tuple_list (fun ts' => parse_pat f ts') f r with
          | Some (inl ps, r1) => Some (PTup ps, r1)
          | _ => None                                     (* `(p)` is not a pattern *)
          end
      | TLBrack :: r =>
          do (ps, r1) <- seq_list (fun ts' => parse_pat f ts') false f r;
          Some (PArr ps, r1)
      | _ => None
      end
  end.

(* MatchPattern::parse *)
Definition parse_mpat (g : nat) (ts : list tok) : option (mpat * list tok) :=
  let typed (mk : N -> aty -> mpat) (r : list tok) :=
    match r with
    | TIdent x :: TColon :: r1 =>
        do (t, r2) <- parse_ty g r1;
        do r3 <- expect is_rparen r2;
        Some (mk x t, r3)
    | _ => None
    end in
  match ts with
  | TLeftP :: r => typed MLeft r
  | TRightP :: r => typed MRight r
  | TNone :: r => Some (MNone, r)
  | TSomeP :: r => typed MSome r
  | TFalse :: r => Some (MFalse, r)
  | TTrue :: r => Some (MTrue, r)
  | _ => None
  end.

(* Match::parse: the two arms in either order, stored left / none / false first *)
Definition norm_arms (p1 : mpat) (e1 : pexpr) (p2 : mpat) (e2 : pexpr) : option (mpat * pexpr * mpat * pexpr) :=
  match p1, p2 with
  | MLeft _ _, MRight _ _ => Some (p1, e1, p2, e2)
  | MRight _ _, MLeft _ _ => Some (p2, e2, p1, e1)
  | MNone, MSome _ _ => Some (p1, e1, p2, e2)
  | MFalse, MTrue => Some (p1, e1, p2, e2)
  | MSome _ _, MNone => Some (p2, e2, p1, e1)
  | MTrue, MFalse => Some (p2, e2, p1, e1)
  | _, _ => None                                           (* Error::IncompatibleMatchArms *)
  end.

(* the lexical classes of the three literal kinds (what is left after `_` and the prefix are removed) *)
Definition nonempty {A : Type} (l : list A) : bool := match l with [] => false | _ => true end.
Definition is_bin_digit (c : N) : bool := (c =? 48) || (c =? 49).
Definition dec_ok (s : list N) : bool := nonempty s && forallb is_digit s.
Definition bin_ok (s : list N) : bool := nonempty s && forallb is_bin_digit s.
Definition hex_ok (s : list N) : bool := nonempty s && forallb is_hex_digit s.

Section ExprLoops.
  Variable pe : list tok -> option (pexpr * list tok).     (* Expression::parse, with less fuel *)
  Variable g : nat.                                        (* fuel for types and patterns *)

  (* block_expression after the opening brace: statements each followed by [;], an optional expression, [}] *)
  Fixpoint block_body (n : nat) (ts : list tok)
    : option (list (option (ppat * aty) * pexpr) * option pexpr * list tok) :=
    match n with
    | O => None
    | S n' =>
        match ts with
        | [] => None
        | t :: r =>
            if is_rbrace t then Some ([], None, r)
            else if is_let t then
              (* assignment = let_keyword pattern ":" ty "=" expression *)
              do (p, r1) <- parse_pat g r;
              do r2 <- expect is_colon r1;
              do (ty, r3) <- parse_ty g r2;
              do r4 <- expect is_eq r3;
              do (e, r5) <- pe r4;
              do r6 <- expect is_semi r5;
              do (ss, l, r7) <- block_body n' r6;
              Some ((Some (p, ty), e) :: ss, l, r7)
            else
              do (e, r1) <- pe ts;
              match r1 with
              | [] => None
              | t1 :: r2 =>
                  if is_semi t1 then
                    do (ss, l, r3) <- block_body n' r2;
                    Some ((None, e) :: ss, l, r3)
                  else if is_rbrace t1 then Some ([], Some e, r2)
                  else None
              end
        end
    end.

  (* match_arm = match_pattern "=>" (single_expression "," | block_expression ","?) *)
  Definition parse_arm (ts : list tok) : option (mpat * pexpr * list tok) :=
    do (p, r1) <- parse_mpat g ts;
    do r2 <- expect is_fatarrow r1;
    match r2 with
    | [] => None
    | t :: _ =>
        do (e, r3) <- pe r2;
        if is_lbrace t then
          match r3 with
          | t3 :: r4 => if is_comma t3 then Some (p, e, r4) else Some (p, e, r3)
          | [] => Some (p, e, r3)
          end
        else
          do r4 <- expect is_comma r3;
          Some (p, e, r4)
    end.

  (* module after the opening brace: module_assign each followed by [;], then [}], with
     module_assign = const_keyword witness_name COLON ty EQ expression;
     the contents are dropped (Item::parse: `_ => Ok(Self::Module)`) *)
  Fixpoint mod_body (n : nat) (ts : list tok) : option (list tok) :=
    match n with
    | O => None
    | S n' =>
        match ts with
        | TRBrace :: r => Some r
        | TConst :: TIdent _ :: TColon :: r =>
            do (_, r1) <- parse_ty g r;
            do r2 <- expect is_eq r1;
            do (_, r3) <- pe r2;
            do r4 <- expect is_semi r3;
            mod_body n' r4
        | _ => None
        end
    end.
End ExprLoops.

(* Expression::parse / SingleExpression::parse / Call::parse / CallName::parse / Match::parse.
   Every call node gets span id 0: the token list does not carry source positions. *)
Fixpoint parse_expr (fuel : nat) (ts : list tok) {struct fuel} : option (pexpr * list tok) :=
  match fuel with
  | O => None
  | S f =>
      let pe := fun ts' => parse_expr f ts' in
      let wrap (mk : pexpr -> pexpr) (r : list tok) :=
        do (e, r1) <- pe r;
        do r2 <- expect is_rparen r1;
        Some (mk e, r2) in
      let call (name : pcallname) (r : list tok) :=
        match r with
        | TLParen :: r1 =>
            do (args, r2) <- args_list pe f r1;
            Some (PCall 0 name args, r2)
        | _ => None
        end in
      let tcall (mk : aty -> pcallname) (r : list tok) :=
        do (t, r1) <- parse_ty f r;
        do r2 <- expect is_gt r1;
        call (mk t) r2 in
      match ts with
      | TLBrace :: r =>
          do (ss, l, r1) <- block_body pe f f r;
          Some (PBlock ss l, r1)
      | TLeftP :: r => wrap PLeft r
      | TRightP :: r => wrap PRight r
      | TSomeP :: r => wrap PSome r
      | TNone :: r => Some (PNone, r)
      | TFalse :: r => Some (PBool false, r)
      | TTrue :: r => Some (PBool true, r)
      | TDec s :: r => if dec_ok s then Some (PLit (LDec s), r) else None
      | TBin s :: r => if bin_ok s then Some (PLit (LBin s), r) else None
      | THex s :: r => if hex_ok s then Some (PLit (LHex s), r) else None
      | TWitness n :: r => Some (PWitness n, r)
      | TParam n :: r => Some (PParam n, r)
      | TJet n :: r => call (PJet n) r
      | TUnwrapLeft :: r => tcall PUnwrapLeft r
      | TUnwrapRight :: r => tcall PUnwrapRight r
      | TIsNone :: r => tcall PIsNone r
      | TUnwrap :: r => call PUnwrap r
      | TAssert :: r => call PAssert r
      | TPanic :: r => call PPanic r
      | TDbg :: r => call PDebug r
      | TLt :: r =>
          do (t, r1) <- parse_ty f r;
          do r2 <- expect is_gtinto r1;
          call (PCast t) r2
      | TFold :: TIdent fn :: TComma :: TNum b :: TGt :: r =>
          do k <- parse_bound b;
          call (PFold fn k) r
      | TForWhile :: TIdent fn :: TGt :: r => call (PForWhile fn) r
      | TIdent x :: r =>
          (* call_expr is tried before variable_expr: an identifier followed by `(` is a call *)
          match r with
          | t :: _ => if is_lparen t then call (PCustom x) r else Some (PVar x, r)
          | [] => Some (PVar x, r)
          end
      | TMatch :: r =>
          do (s, r1) <- pe r;
          do r2 <- expect is_lbrace r1;
          do (p1, e1, r3) <- parse_arm pe f r2;
          do (p2, e2, r4) <- parse_arm pe f r3;
          do r5 <- expect is_rbrace r4;
          do (lp, el, rp, er) <- norm_arms p1 e1 p2 e2;
          Some (PMatch s lp el rp er, r5)
      | TLParen :: r =>
          (* tuple_expr is tried before "(" expression ")" *)
          match tuple_list pe f r with
          | Some (inl es, r1) => Some (PTuple es, r1)
          | Some (inr e, r1) => Some (PParen e, r1)
          | None => None
          end
      | TLBrack :: r =>
          do (es, r1) <- seq_list pe false f r;
          Some (PArray es, r1)
      | TListBang :: r =>
          do (es, r1) <- seq_list pe false f r;
          Some (PList es, r1)
      | _ => None
      end
  end.

(* FunctionParam::parse: typed_identifier = identifier ":" ty *)
Definition parse_param (g : nat) (ts : list tok) : option (N * aty * list tok) :=
  match ts with
  | TIdent x :: TColon :: r =>
      do (t, r1) <- parse_ty g r;
      Some (x, t, r1)
  | _ => None
  end.

(* Item::parse / TypeAlias::parse / Function::parse *)
Definition parse_item (f : nat) (ts : list tok) : option (pitem * list tok) :=
  match ts with
  | TTypeK :: TIdent n :: TEq :: r =>
      do (t, r1) <- parse_ty f r;
      do r2 <- expect is_semi r1;
      Some (ITypeAlias n t, r2)
  | TFn :: TIdent name :: TLParen :: r =>
      do (ps, r1) <- args_list (parse_param f) f r;
      do (ret, r2) <- match r1 with
                      | TArrow :: r1' => do (t, r') <- parse_ty f r1'; Some (Some t, r')
                      | _ => Some (None, r1)
                      end;
      match r2 with
      | TLBrace :: _ =>                                    (* the body is a block_expression *)
          do (b, r3) <- parse_expr f r2;
          Some (IFunction name ps ret b, r3)
      | _ => None
      end
  | TMod :: TModName _ :: TLBrace :: r =>
      do r1 <- mod_body (parse_expr f) f f r;
      Some (IModule, r1)
  | _ => None
  end.

(* Program::parse: item* EOI *)
Fixpoint parse_items (f n : nat) (ts : list tok) : option pprogram :=
  match n with
  | O => None
  | S n' =>
      match ts with
      | [] => Some []
      | _ :: _ =>
          do (i, r) <- parse_item f ts;
          do is <- parse_items f n' r;
          Some (i :: is)
      end
  end.

Definition parse_tokens (fuel : nat) (ts : list tok) : option pprogram := parse_items fuel fuel ts.

(* enough fuel for every token list: every recursive call consumes at least one token *)
Definition parse_token_list (ts : list tok) : option pprogram := parse_tokens (S (length ts)) ts.

(** * 6. What the parser guarantees of its output *)

(* UIntType has U1..U256; array sizes are usize; list bounds are NonZeroPow2Usize (2^k, k >= 1, usize) *)
Definition bound_ok (k : nat) : bool := Nat.leb 1 k && Nat.leb k 63.

Fixpoint aty_wf (t : aty) : bool :=
  match t with
  | AAlias _ | ABuiltin _ | ABool => true
  | AUInt k => Nat.leb k 8
  | AEither a b => aty_wf a && aty_wf b
  | AOption a => aty_wf a
  | ATuple ts => forallb aty_wf ts
  | AArray a n => aty_wf a && fits_usize (N.of_nat n)
  | AList a k => aty_wf a && bound_ok k
  end.

Definition mpat_wf (m : mpat) : bool :=
  match m with
  | MLeft _ t | MRight _ t | MSome _ t => aty_wf t
  | MNone | MFalse | MTrue => true
  end.

(* Match::parse stores a valid pair of arms *)
Definition arms_ok (lp rp : mpat) : bool :=
  match lp, rp with
  | MLeft _ _, MRight _ _ | MNone, MSome _ _ | MFalse, MTrue => true
  | _, _ => false
  end.

Definition callname_wf (c : pcallname) : bool :=
  match c with
  | PUnwrapLeft t | PUnwrapRight t | PIsNone t | PCast t => aty_wf t
  | PFold _ k => bound_ok k
  | PJet _ | PUnwrap | PAssert | PPanic | PDebug | PCustom _ | PForWhile _ => true
  end.

Definition lit_wf (l : lit) : bool :=
  match l with LDec s => dec_ok s | LBin s => bin_ok s | LHex s => hex_ok s end.

Fixpoint expr_wf (e : pexpr) : bool :=
  match e with
  | PBlock ss l =>
      forallb (fun s : option (ppat * aty) * pexpr =>
                 match s with
                 | (Some (_, t), e1) => aty_wf t && expr_wf e1
                 | (None, e1) => expr_wf e1
                 end) ss
      && match l with Some e1 => expr_wf e1 | None => true end
  | PBool _ | PWitness _ | PParam _ | PVar _ | PNone => true
  | PLit l => lit_wf l
  | PParen e1 | PLeft e1 | PRight e1 | PSome e1 => expr_wf e1
  | PTuple es | PArray es | PList es => forallb expr_wf es
  | PCall _ name args => callname_wf name && forallb expr_wf args
  | PMatch s lp el rp er =>
      expr_wf s && mpat_wf lp && expr_wf el && mpat_wf rp && expr_wf er && arms_ok lp rp
  end.

Definition is_block (e : pexpr) : bool := match e with PBlock _ _ => true | _ => false end.

Definition item_wf (i : pitem) : bool :=
  match i with
  | ITypeAlias _ t => aty_wf t
  | IFunction _ params ret body =>
      forallb (fun p : N * aty => aty_wf (snd p)) params
      && match ret with Some t => aty_wf t | None => true end
      && is_block body && expr_wf body                     (* function = .. block_expression *)
  | IModule => true
  end.

Definition prog_wf (p : pprogram) : bool := forallb item_wf p.

(* The token list carries no source positions: the span id of every call is forgotten.
   (parse.rs: `impl_eq_hash!(Call; name, args)` -- spans do not take part in equality either.) *)
Fixpoint erase_expr (e : pexpr) : pexpr :=
  match e with
  | PBlock ss l =>
      PBlock (map (fun s : option (ppat * aty) * pexpr => match s with (o, e1) => (o, erase_expr e1) end) ss)
             (match l with Some e1 => Some (erase_expr e1) | None => None end)
  | PBool _ | PLit _ | PWitness _ | PParam _ | PVar _ | PNone => e
  | PParen e1 => PParen (erase_expr e1)
  | PTuple es => PTuple (map erase_expr es)
  | PArray es => PArray (map erase_expr es)
  | PList es => PList (map erase_expr es)
  | PLeft e1 => PLeft (erase_expr e1)
  | PRight e1 => PRight (erase_expr e1)
  | PSome e1 => PSome (erase_expr e1)
  | PCall _ name args => PCall 0 name (map erase_expr args)
  | PMatch s lp el rp er => PMatch (erase_expr s) lp (erase_expr el) rp (erase_expr er)
  end.

Definition erase_item (i : pitem) : pitem :=
  match i with
  | IFunction name params ret body => IFunction name params ret (erase_expr body)
  | _ => i
  end.

Definition erase_program (p : pprogram) : pprogram := map erase_item p.
