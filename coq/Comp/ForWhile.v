(* for_while — mirrors /repo/src/compile.rs 499-610, including the task-stack construction *)
From Coq Require Import List Arith.
Import ListNotations.
Require Import SV.Simp.Core.

Inductive task := F0 | Adapt.

Definition set_nth {A} (n:nat) (x:A) (l:list A) : list A := firstn n l ++ x :: skipn (S n) l.
(* one iteration with index = i-1 : copy prefix [0,index) onto [index,2index), set [2index] := Adapt *)
Definition stack_step (index:nat) (st:list task) : list task :=
  let prefix := firstn index st in
  let st1 := firstn index st ++ prefix ++ skipn (2*index) st in
  set_nth (2*index) Adapt st1.
(* while i <= bit_width, i = 2^j starting at j = 1 *)
Fixpoint stack_loop (iters:nat) (j:nat) (st:list task) : list task :=
  match iters with 0 => st | S m => stack_loop m (S j) (stack_step (2^j - 1) st) end.
(* bit_width = 2^n ; max_stack = 2 * bit_width - 1 *)
Definition build_stack (n:nat) : list task := stack_loop n 1 (repeat F0 (2 * 2^n - 1)).

Definition fw0 (f:term) : term :=
  Comp (Pair (Comp (Pair OH (Pair IH bit_false)) f) IH)
       (Case (InjL OH) (Comp (Pair OH (Pair IH bit_true)) f)).
Definition IOOH := Drop (Take (Take Iden)). Definition IOIH := Drop (Take (Drop Iden)).
Definition adapt (f:term) : term := Comp (Pair OH (Pair IOOH (Pair IOIH IIH))) f.

Definition apply_task (t:task) (f:term) := match t with F0 => fw0 f | Adapt => adapt f end.
(* "while let Some(task) = stack.pop()" = fold over the reversed vector *)
Definition apply_stack (st:list task) (f:term) : term := fold_left (fun g t => apply_task t g) (rev st) f.
Definition for_while (n:nat) (f:term) : term := apply_stack (build_stack n) f.
