(* list_fold — mirrors /repo/src/compile.rs 431-497 *)
From Coq Require Import List Arith.
Require Import SV.Simp.Core.

Definition next_f_array (fa:term) : term :=
  Comp (Pair OIH (Comp (Pair OOH IH) fa)) fa.
Definition next_f_fold (fa ff:term) : term :=
  Comp (Pair OOH (Pair OIH IH))
       (Case (Drop ff) (Comp (Pair IOH (Comp (Pair OH IIH) fa)) ff)).

(* the loop "while i < bound": n doublings remaining *)
Fixpoint fold_loop (n:nat) (fa ff:term) : term :=
  match n with 0 => ff | S m => let fa' := next_f_array fa in fold_loop m fa' (next_f_fold fa' ff) end.

(* bound = 2^k, k >= 1 *)
Definition list_fold (k:nat) (f:term) : term := fold_loop (k-1) f (Case IH f).
