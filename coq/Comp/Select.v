(* Base patterns and variable selection — mirrors /repo/src/pattern.rs 160-226, 416-437 and
   named.rs SelectorBuilder. *)
From Coq Require Import List NArith Bool.
Import ListNotations.
Require Import SV.Base.BT SV.Simp.Core SV.Lang.Ast.

Inductive bpat := BIgn | BId (x:N) | BProd (l r:bpat).

(* From<&Pattern> for BasePattern *)
Fixpoint of_pat (p:pat) : bpat :=
  match p with
  | PId x => BId x | PIgn => BIgn
  | PTup ps | PArr ps => bt BProd BIgn (map of_pat ps)
  end.

(* BasePattern::get : path to the first pre-order occurrence (false = take/left, true = drop/right) *)
Fixpoint get (p:bpat) (x:N) : option (list bool) :=
  match p with
  | BIgn => None
  | BId y => if N.eqb x y then Some [] else None
  | BProd l r => match get l x with
                 | Some s => Some (false :: s)
                 | None => option_map (cons true) (get r x) end
  end.

(* SelectorBuilder::h *)
Fixpoint sel (s:list bool) : term :=
  match s with [] => Iden | false :: s' => Take (sel s') | true :: s' => Drop (sel s') end.

(* Scope::get_input_pattern for the flattened stack of scopes, newest pattern first *)
Fixpoint input_pat (sc:list pat) : bpat :=
  match sc with
  | [] => BIgn                      (* unreachable: the stack is never empty *)
  | [p] => of_pat p
  | p :: rest => BProd (of_pat p) (input_pat rest)
  end.
