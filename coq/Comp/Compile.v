(* Code generation — mirrors /repo/src/compile.rs 219-429, 612-641.
   The stack of scopes is modelled by its flattening (newest pattern first): push_scope / pop_scope
   become the lexical structure of this functional definition.  Type unification (compile.rs 340-347)
   produces no code; it is the subject of Simp/Typing.v. *)
From Coq Require Import List Arith NArith Bool.
Import ListNotations.
Require Import SV.Base.Res SV.Base.BT SV.Simp.Core SV.Layout.Ty SV.Layout.Value SV.Lang.Ast
               SV.Comp.Select SV.Comp.Fold SV.Comp.ForWhile.

(* index of `verify` in Elements::ALL — pinned against the regenerated jet table (Properties/C13.v) *)
Definition verify_jet : N := 459%N.

Definition term_block (block:list term) (size:nat) : term :=
  match block with [] => InjL Unit | _ => InjR (bt Pair Unit block) end.

Section Compile.
Variable dbg : bool.                  (* include_debug_symbols *)
Variable args : N -> option value.    (* Arguments *)

(* Scope::with_debug_symbol; the hidden CMR of a marker is abstracted to the token 1 *)
Definition with_debug (tr:bool) (a body:term) : term :=
  if dbg && tr then Comp (Pair bit_false a) (AssertL (Drop body) 1) else Comp a body.

Definition builtin_body (b:builtin) : option term :=
  match b with
  | BJet j => Some (Jet j)
  | BUnwrapLeft => Some (Comp (Pair Iden Unit) (AssertL (Take Iden) 0))
  | BUnwrapRight | BUnwrap => Some (Comp (Pair Iden Unit) (AssertR 0 (Take Iden)))
  | BIsNone => Some (Comp (Pair Iden Unit) (Case bit_true bit_false))
  | BAssert => Some (Jet verify_jet)
  | BPanic => Some Fail
  | BDebug => Some Iden
  | BCast _ => None
  end.

Definition params_pat (ps:list (N*ty)) : pat := PTup (map (fun p => PId (fst p)) ps).

Fixpoint compile (sc:list pat) (e:expr) {struct e} : res term :=
  match e with
  | EBlock _ stmts last =>
      (fix blk (ss:list (option pat * expr)) (sc:list pat) {struct ss} : res term :=
         match ss with
         | [] => match last with Some e' => compile sc e' | None => Ok Unit end
         | (Some p, e') :: ss' =>
             rbind (compile sc e') (fun t1 => rbind (blk ss' (p :: sc)) (fun t2 => Ok (Comp (Pair t1 Iden) t2)))
         | (None, e') :: ss' =>
             rbind (compile sc e') (fun t1 => rbind (blk ss' sc) (fun t2 => Ok (Comp (Pair t1 t2) (Drop Iden))))
         end) stmts sc
  | EConst _ v => Ok (Comp Unit (scribe (structural v)))
  | EWitness _ n => Ok (Wit n)
  | EParam _ n => match args n with Some v => Ok (Comp Unit (scribe (structural v))) | None => Panic end
  | EVar _ x => rmap sel (of_opt (get (input_pat sc) x))
  | EParen e' => compile sc e'
  | ETuple _ es | EArray _ es => rmap (bt Pair Unit) (mapr (fun e0 => compile sc e0) es)
  | EList t es =>
      rbind (mapr (fun e0 => compile sc e0) es) (fun ts =>
        match t with
        | TList _ k => if length ts <? 2^k then Ok (part_fold term_block Pair (k-1) ts) else Panic
        | _ => Panic end)
  | ENone _ => Ok (InjL Unit)
  | ELeft _ e' => rmap InjL (compile sc e')
  | ERight _ e' | ESome _ e' => rmap InjR (compile sc e')
  | ECall _ b es =>
      rbind (rmap (bt Pair Unit) (mapr (fun e0 => compile sc e0) es)) (fun a =>
        match b with
        | BCast _ => Ok a
        | BIsNone => Ok (Comp a (Comp (Pair Iden Unit) (Case bit_true bit_false)))
        | _ => match builtin_body b with Some body => Ok (with_debug (tracked b) a body) | None => Panic end
        end)
  | EFn _ k ps body es =>
      rbind (rmap (bt Pair Unit) (mapr (fun e0 => compile sc e0) es)) (fun a =>
      rbind (compile [params_pat ps] body) (fun tb =>
        match k with
        | KCustom => Ok (Comp a tb)
        | KFold kk => Ok (Comp a (list_fold kk tb))
        | KFor w => Ok (Comp a (for_while w tb))
        end))
  | EMatch _ s xl el xr er =>
      rbind (compile (arm_pat xl :: sc) el) (fun tl =>
      rbind (compile (arm_pat xr :: sc) er) (fun tr =>
      rbind (compile sc s) (fun ts => Ok (Comp (Pair ts Iden) (Case tl tr)))))
  end.

(* Program::compile *)
Definition compile_program (main:expr) : res term := compile [PIgn] main.
End Compile.
