(* Proofs/PegCorrect.v — theorems about the PEG interpreter of Text/Peg.v and about simfony's
   grammar (Gen/Grammar.v, regenerated from /repo/src/minimal.pest on every run). *)

From Coq Require Import List Arith NArith Lia Bool String Ascii.
Import ListNotations.
Require Import SV.Text.Peg SV.Text.PegShape SV.Gen.Grammar.
Open Scope string_scope.

(* ================================================================================ *)
(** * 1. Fuel monotonicity *)

(* information order on results: ROut is "no answer yet" *)
Definition res_le (r r' : res) : Prop := r = ROut \/ r = r'.

Lemma res_le_refl r : res_le r r.
Proof. right; reflexivity. Qed.

Lemma res_le_out r : res_le ROut r.
Proof. left; reflexivity. Qed.

Lemma bind_mono r r' k k' :
  res_le r r' -> (forall p rest, res_le (k p rest) (k' p rest)) ->
  res_le (bind r k) (bind r' k').
Proof.
  intros [-> | ->] Hk; [apply res_le_out|].
  destruct r' as [| |p rest t]; cbn [bind]; try apply res_le_refl.
  destruct (Hk p rest) as [-> | ->]; [apply res_le_out | apply res_le_refl].
Qed.

Lemma rep_loop_mono step step' :
  (forall p r, res_le (step p r) (step' p r)) ->
  forall n n', n <= n' -> forall p r, res_le (rep_loop step n p r) (rep_loop step' n' p r).
Proof.
  intros Hs n; induction n as [|n IHn]; intros n' Hn p r; [apply res_le_out|].
  destruct n' as [|n']; [lia|]. cbn [rep_loop].
  destruct (Hs p r) as [-> | ->]; [apply res_le_out|].
  destruct (step' p r) as [| |p1 r1 t1]; try apply res_le_refl.
  destruct (IHn n' ltac:(lia) p1 r1) as [-> | ->]; [apply res_le_out | apply res_le_refl].
Qed.

Lemma wrap_node_mono b name start r r' :
  res_le r r' -> res_le (wrap_node b name start r) (wrap_node b name start r').
Proof. intros [-> | ->]; [apply res_le_out | apply res_le_refl]. Qed.

Lemma skip_with_mono rec rec' g a p r :
  (forall a e p r, res_le (rec a e p r) (rec' a e p r)) ->
  res_le (skip_with rec g a p r) (skip_with rec' g a p r).
Proof.
  intros H. unfold skip_with. destruct a; try apply res_le_refl.
  destruct (skip_peg g); [apply H | apply res_le_refl].
Qed.

Lemma ev_step_mono rec rec' g f f' a e pos rest :
  (forall a e p r, res_le (rec a e p r) (rec' a e p r)) -> f <= f' ->
  res_le (ev_step rec g f a e pos rest) (ev_step rec' g f' a e pos rest).
Proof.
  intros H Hf. destruct e; cbn [ev_step]; try apply res_le_refl.
  - (* PId *) destruct (lookup g name) as [[k body]|]; [|apply res_le_refl].
    apply wrap_node_mono, H.
  - destruct (H a e pos rest) as [-> | ->]; [apply res_le_out | apply res_le_refl].
  - destruct (H a e pos rest) as [-> | ->]; [apply res_le_out | apply res_le_refl].
  - destruct (H a e pos rest) as [-> | ->]; [apply res_le_out | apply res_le_refl].
  - (* PRep *)
    destruct (H a e pos rest) as [-> | ->]; [apply res_le_out|].
    destruct (rec' a e pos rest) as [| |p1 r1 t1]; try apply res_le_refl.
    apply bind_mono; [apply res_le_refl|]. intros p r.
    apply rep_loop_mono; [|exact Hf]. intros p' r'.
    apply bind_mono; [apply skip_with_mono, H | intros; apply H].
  - apply H.
  - (* PSeq *)
    apply bind_mono; [apply H|]. intros p1 r1.
    apply bind_mono; [apply skip_with_mono, H | intros; apply H].
  - (* PAlt *)
    destruct (H a e1 pos rest) as [-> | ->]; [apply res_le_out|].
    destruct (rec' a e1 pos rest); try apply res_le_refl. apply H.
  - (* PRepN *)
    destruct n as [|[|n]]; [apply res_le_refl | apply H | apply H].
Qed.

Lemma ev_mono g : forall n m, n <= m ->
  forall a e pos rest, res_le (ev g n a e pos rest) (ev g m a e pos rest).
Proof.
  induction n as [|n IHn]; intros m Hm a e pos rest; [apply res_le_out|].
  destruct m as [|m]; [lia|]. cbn [ev].
  apply ev_step_mono; [|lia]. intros. apply IHn. lia.
Qed.

(* If evaluation gives an answer (success or failure) with fuel n, every larger fuel gives the
   same answer. *)
Theorem ev_fuel_mono g n m a e pos rest r :
  ev g n a e pos rest = r -> r <> ROut -> n <= m -> ev g m a e pos rest = r.
Proof.
  intros He Hr Hm. destruct (ev_mono g n m Hm a e pos rest) as [H | H]; congruence.
Qed.
Print Assumptions ev_fuel_mono.

Theorem eval_peg_fuel_mono g n m a e input pos o :
  eval_peg g n a e input pos = o -> o <> OutOfFuel -> n <= m -> eval_peg g m a e input pos = o.
Proof.
  unfold eval_peg. intros He Ho Hm.
  destruct (ev_mono g n m Hm a e pos (skipn pos input)) as [H | H].
  - rewrite H in He. cbn in He. congruence.
  - rewrite <- H. exact He.
Qed.

Theorem parse_fuel_mono g n m rule input o :
  parse g n rule input = o -> o <> OutOfFuel -> n <= m -> parse g m rule input = o.
Proof. unfold parse. apply eval_peg_fuel_mono. Qed.
Print Assumptions parse_fuel_mono.

(* ================================================================================ *)
(** * 2. Primitives *)

Lemma strip_prefix_app s r : strip_prefix s (s ++ r) = Some r.
Proof. induction s as [|c s IH]; cbn; [reflexivity|]. rewrite N.eqb_refl. exact IH. Qed.

Lemma strip_prefix_inv s : forall rest r, strip_prefix s rest = Some r -> rest = (s ++ r)%list.
Proof.
  induction s as [|c s IH]; intros rest r H; cbn in H.
  - injection H as ->. reflexivity.
  - destruct rest as [|b rest]; [discriminate|].
    destruct (N.eqb_spec c b) as [->|]; [|discriminate].
    cbn. f_equal. apply IH. exact H.
Qed.

Lemma strip_prefix_none s rest : strip_prefix s rest = None -> forall r, rest <> (s ++ r)%list.
Proof. intros H r ->. rewrite strip_prefix_app in H. discriminate. Qed.

Lemma cont_bound b c : cont b = Some c -> (c < 64)%N.
Proof.
  unfold cont. destruct (N.leb_spec 128 b), (N.ltb_spec b 192); cbn; intros Hc; try discriminate.
  injection Hc as <-. lia.
Qed.

Lemma decode_ascii b r : (b < 128)%N -> decode_char (b :: r) = Some (b, 1).
Proof. intros H. unfold decode_char. destruct (N.ltb_spec b 128); [reflexivity|lia]. Qed.

(* a char that does not start with an ASCII byte is not an ASCII char *)
Lemma decode_nonascii b r cp n :
  (128 <= b)%N -> decode_char (b :: r) = Some (cp, n) -> (128 <= cp)%N.
Proof.
  intros Hb. unfold decode_char.
  destruct (N.ltb_spec b 128); [lia|].
  destruct (N.ltb_spec b 192); [discriminate|].
  destruct (N.ltb_spec b 224).
  { destruct r as [|b1 r]; [discriminate|]. destruct (cont b1); [|discriminate].
    match goal with |- context [N.ltb ?x 128] => destruct (N.ltb_spec x 128) end; [discriminate|].
    intros H'; injection H' as <- <-. assumption. }
  destruct (N.ltb_spec b 240).
  { destruct r as [|b1 [|b2 r]]; try discriminate.
    destruct (cont b1); [|discriminate]. destruct (cont b2); [|discriminate].
    match goal with |- context [N.ltb ?x 2048] => destruct (N.ltb_spec x 2048) end; [discriminate|].
    match goal with |- context [(?x && ?y)%bool] => destruct (x && y)%bool end; [discriminate|].
    intros H'; injection H' as <- <-. lia. }
  destruct (N.ltb_spec b 248); [|discriminate].
  destruct r as [|b1 [|b2 [|b3 r]]]; try discriminate.
  destruct (cont b1); [|discriminate]. destruct (cont b2); [|discriminate].
  destruct (cont b3); [|discriminate].
  match goal with |- context [N.ltb ?x 65536] => destruct (N.ltb_spec x 65536) end; [discriminate|].
  match goal with |- context [N.ltb 1114111 ?x] => destruct (N.ltb 1114111 x) end; [discriminate|].
  intros H'; injection H' as <- <-. lia.
Qed.

Definition ascii_ranges (rs : list (N * N)) : bool := forallb (fun r => N.ltb (snd r) 128) rs.

Lemma ranges_high_false rs x :
  ascii_ranges rs = true -> (128 <= x)%N ->
  existsb (fun r => in_range (fst r) (snd r) x) rs = false.
Proof.
  induction rs as [|[lo hi] rs IH]; cbn; [reflexivity|].
  intros H Hx. apply andb_true_iff in H as [H1 H2]. apply N.ltb_lt in H1.
  rewrite IH by assumption. unfold in_range.
  destruct (N.leb_spec hi x); [|lia]. destruct (N.leb_spec x hi); [lia|].
  rewrite andb_false_r. reflexivity.
Qed.

(* ASCII classes look at one byte only *)
Lemma match_ranges_ascii rs pos rest :
  ascii_ranges rs = true ->
  match_ranges rs pos rest =
  match rest with
  | [] => RFail
  | b :: r => if existsb (fun x => in_range (fst x) (snd x) b) rs then ROk (pos + 1) r [] else RFail
  end.
Proof.
  intros Hrs. unfold match_ranges. destruct rest as [|b r]; [reflexivity|].
  destruct (N.ltb_spec b 128) as [Hb|Hb].
  - rewrite decode_ascii by assumption. reflexivity.
  - rewrite (ranges_high_false rs b) by assumption.
    destruct (decode_char (b :: r)) as [[cp n]|] eqn:Hd; [|reflexivity].
    rewrite (ranges_high_false rs cp); [reflexivity|assumption|].
    eapply decode_nonascii; eassumption.
Qed.

Lemma bytes_eqb_eq x : forall y, bytes_eqb x y = true <-> x = y.
Proof.
  induction x as [|a x IH]; intros [|b y]; cbn; split; try congruence; try discriminate.
  - intros H. apply andb_true_iff in H as [H1 H2]. apply N.eqb_eq in H1. apply IH in H2. congruence.
  - intros H. injection H as -> ->. rewrite N.eqb_refl. apply IH. reflexivity.
Qed.

Lemma peg_eqb_eq x : forall y, peg_eqb x y = true -> x = y.
Proof.
  induction x; intros y H; destruct y; cbn in H; try discriminate;
    repeat match goal with
           | H : (_ && _)%bool = true |- _ => apply andb_true_iff in H as [? ?]
           end;
    repeat match goal with
           | H : bytes_eqb _ _ = true |- _ => apply bytes_eqb_eq in H
           | H : N.eqb _ _ = true |- _ => apply N.eqb_eq in H
           | H : Nat.eqb _ _ = true |- _ => apply Nat.eqb_eq in H
           | H : String.eqb _ _ = true |- _ => apply String.eqb_eq in H
           | IH : forall y, peg_eqb ?x y = true -> ?x = y, H : peg_eqb ?x _ = true |- _ =>
             apply IH in H
           end; congruence.
Qed.

Lemma rule_is_lookup g name k e : rule_is g name k e = true -> lookup g name = Some (k, e).
Proof.
  unfold rule_is. destruct (lookup g name) as [[k' e']|]; [|discriminate].
  intros H. apply andb_true_iff in H as [Hk He]. apply peg_eqb_eq in He. subst e'.
  destruct k, k'; cbn in Hk; try discriminate; reflexivity.
Qed.

Lemma has_rule_false g name : has_rule g name = false -> lookup g name = None.
Proof. unfold has_rule. destruct (lookup g name); [discriminate|reflexivity]. Qed.

Lemma wrap_node_false name start r : wrap_node false name start r = r.
Proof. destruct r; reflexivity. Qed.

(* ================================================================================ *)
(** * 3. ident_char and the boundary look-ahead *)

(* what ASCII_ALPHANUMERIC | "_" does on one byte *)
Definition one_ident_byte (pos : nat) (rest : list N) : res :=
  match rest with
  | b :: r => if is_ident_byte b then ROk (pos + 1) r [] else RFail
  | [] => RFail
  end.

Lemma ev_ident_class g fuel a pos rest :
  has_rule g "ASCII_ALPHANUMERIC" = false -> 2 <= fuel ->
  ev g fuel a ident_char_body pos rest = one_ident_byte pos rest.
Proof.
  intros Hb Hf. apply has_rule_false in Hb.
  destruct fuel as [|[|fuel]]; try lia.
  cbn [ev ev_step ident_char_body]. rewrite Hb.
  change (builtin "ASCII_ALPHANUMERIC" a pos rest)
    with (match_ranges [(97, 122); (65, 90); (48, 57)]%N pos rest).
  rewrite match_ranges_ascii by reflexivity.
  unfold one_ident_byte, match_str. destruct rest as [|b r]; [reflexivity|].
  unfold is_ident_byte. cbn [existsb fst snd strip_prefix List.length].
  destruct (in_range 97 122 b), (in_range 65 90 b), (in_range 48 57 b); cbn [orb]; try reflexivity.
  rewrite N.eqb_sym. destruct (N.eqb b 95); reflexivity.
Qed.

Lemma ident_char_ok_inv g :
  ident_char_ok g = true ->
  lookup g "ident_char" = Some (RSilent, ident_char_body)
  /\ has_rule g "ASCII_ALPHANUMERIC" = false /\ has_rule g "ASCII_ALPHA" = false.
Proof.
  unfold ident_char_ok. intros H.
  apply andb_true_iff in H as [H H3]. apply andb_true_iff in H as [H1 H2].
  apply rule_is_lookup in H1. apply negb_true_iff in H2, H3. auto.
Qed.

Lemma ev_ident_char g fuel a pos rest :
  ident_char_ok g = true -> 3 <= fuel ->
  ev g fuel a (PId "ident_char") pos rest = one_ident_byte pos rest.
Proof.
  intros Hg Hf. apply ident_char_ok_inv in Hg as (Hl & Hb & _).
  destruct fuel as [|fuel]; [lia|].
  cbn [ev ev_step]. rewrite Hl. cbn [emits]. rewrite wrap_node_false.
  change (inner_mode "ident_char" RSilent a) with a.
  apply ev_ident_class; [assumption|lia].
Qed.

Lemma ev_boundary g fuel a pos rest :
  ident_char_ok g = true -> 4 <= fuel ->
  ev g fuel a (PNeg (PId "ident_char")) pos rest
  = if boundary rest then ROk pos rest [] else RFail.
Proof.
  intros Hg Hf. destruct fuel as [|fuel]; [lia|].
  cbn [ev ev_step]. rewrite ev_ident_char by (assumption || lia).
  unfold one_ident_byte, boundary. destruct rest as [|b r]; [reflexivity|].
  destruct (is_ident_byte b); reflexivity.
Qed.

(* ================================================================================ *)
(** * 4. Keyword rules *)

Lemma lits_of_S g d e :
  lits_of g (S d) e =
  match e with
  | PStr s => Some ([s], 1)
  | PAlt a b =>
    match lits_of g (S d) a, lits_of g (S d) b with
    | Some (x, n), Some (y, m) => Some ((x ++ y)%list, S (Nat.max n m))
    | _, _ => None
    end
  | PId name =>
    match lookup g name with
    | Some (RAtomic, body) | Some (RSilent, body) =>
      match lits_of g d body with
      | Some (x, n) => Some (x, S n)
      | None => None
      end
    | _ => None
    end
  | _ => None
  end.
Proof. destruct e; reflexivity. Qed.

Lemma first_match_app x y rest :
  first_match (x ++ y) rest =
  match first_match x rest with Some r => Some r | None => first_match y rest end.
Proof.
  induction x as [|l x IH]; cbn; [reflexivity|].
  destruct (strip_prefix l rest); [reflexivity|exact IH].
Qed.

Lemma first_match_some ls rest l r :
  first_match ls rest = Some (l, r) -> In l ls /\ rest = (l ++ r)%list.
Proof.
  induction ls as [|l0 ls IH]; cbn; [discriminate|].
  destruct (strip_prefix l0 rest) as [r0|] eqn:Hs.
  - intros H; injection H as <- <-. split; [left; reflexivity|]. apply strip_prefix_inv, Hs.
  - intros H. apply IH in H as [H1 H2]. auto.
Qed.

Lemma first_match_none ls rest :
  first_match ls rest = None -> forall l r, In l ls -> rest <> (l ++ r)%list.
Proof.
  induction ls as [|l0 ls IH]; cbn; [intros _ l r []|].
  destruct (strip_prefix l0 rest) as [r0|] eqn:Hs; [discriminate|].
  intros H l r [<- | Hin]; [apply strip_prefix_none; assumption | apply IH; assumption].
Qed.

(* result of an alternation of literals in atomic mode *)
Definition lits_result (ls : list (list N)) (pos : nat) (rest : list N) : res :=
  match first_match ls rest with
  | Some (l, r) => ROk (pos + List.length l) r []
  | None => RFail
  end.

Lemma lits_ev g : forall d e ls n,
  lits_of g d e = Some (ls, n) ->
  forall fuel, n <= fuel -> forall pos rest,
  ev g fuel Atomic e pos rest = lits_result ls pos rest.
Proof.
  induction d as [|d IHd]; [discriminate|].
  induction e; intros ls n0 Hl fuel Hf pos rest; rewrite lits_of_S in Hl; try discriminate.
  - (* PStr *)
    injection Hl as <- <-. destruct fuel as [|fuel]; [lia|].
    cbn [ev ev_step]. unfold match_str, lits_result. cbn [first_match].
    destruct (strip_prefix s rest); reflexivity.
  - (* PId *)
    destruct (lookup g name) as [[k body]|] eqn:Hlk; [|discriminate].
    assert (Hk : (k = RAtomic \/ k = RSilent) /\
                 match lits_of g d body with Some (x, n) => Some (x, S n) | None => None end
                 = Some (ls, n0)).
    { destruct k; try discriminate; auto. }
    destruct Hk as [Hk Hb]. clear Hl.
    destruct (lits_of g d body) as [[x n]|] eqn:Hbody; [|discriminate].
    injection Hb as <- <-.
    destruct fuel as [|fuel]; [lia|].
    cbn [ev ev_step]. rewrite Hlk.
    assert (Hm : inner_mode name k Atomic = Atomic).
    { destruct Hk as [-> | ->]; cbn; [reflexivity|]. destruct (special name); reflexivity. }
    assert (He : emits k Atomic = false) by (destruct Hk as [-> | ->]; reflexivity).
    rewrite Hm, He, wrap_node_false. eapply IHd; [eassumption|lia].
  - (* PAlt *)
    destruct (lits_of g (S d) e1) as [[x n]|] eqn:H1; [|discriminate].
    destruct (lits_of g (S d) e2) as [[y m]|] eqn:H2; [|discriminate].
    injection Hl as <- <-.
    destruct fuel as [|fuel]; [lia|].
    cbn [ev ev_step].
    rewrite (IHe1 x n eq_refl fuel ltac:(lia)), (IHe2 y m eq_refl fuel ltac:(lia)).
    unfold lits_result. rewrite first_match_app.
    destruct (first_match x rest) as [[l r]|]; reflexivity.
Qed.

Lemma kw_lits_inv g name ls n :
  kw_lits g name = Some (ls, n) ->
  exists e, lookup g name = Some (RAtomic, PSeq e (PNeg (PId "ident_char")))
            /\ lits_of g 2 e = Some (ls, n).
Proof.
  unfold kw_lits. destruct (lookup g name) as [[k body]|]; [|discriminate].
  destruct k; try discriminate. destruct body; try discriminate.
  destruct body2; try discriminate. destruct body2; try discriminate.
  destruct (String.eqb_spec name0 "ident_char") as [->|]; [|discriminate].
  intros H. eexists; split; [reflexivity|exact H].
Qed.

(* the node (if any) produced by an atomic or normal rule *)
Definition node_of (a : atomicity) (name : string) (start stop : nat) : list ptree :=
  if is_atomic a then [] else [PNode name start stop []].

(* What a keyword rule computes: the FIRST literal (in choice order) that is a prefix of the
   input decides; the rule succeeds iff that one is followed by a boundary. *)
Definition kw_result (ls : list (list N)) (a : atomicity) (name : string)
           (pos : nat) (rest : list N) : res :=
  match first_match ls rest with
  | Some (l, r) => if boundary r
                   then ROk (pos + List.length l) r (node_of a name pos (pos + List.length l))
                   else RFail
  | None => RFail
  end.

Lemma kw_ev g name ls n :
  ident_char_ok g = true -> kw_lits g name = Some (ls, n) ->
  forall fuel, n + 6 <= fuel -> forall a pos rest,
  ev g fuel a (PId name) pos rest = kw_result ls a name pos rest.
Proof.
  intros Hic Hkw fuel Hf a pos rest.
  apply kw_lits_inv in Hkw as (e & Hlk & Hl).
  destruct fuel as [|[|fuel]]; try lia.
  cbn [ev ev_step]. rewrite Hlk. cbn [inner_mode emits ev ev_step].
  rewrite (lits_ev g 2 e ls n Hl fuel ltac:(lia)).
  unfold lits_result, kw_result.
  destruct (first_match ls rest) as [[l r]|]; [|reflexivity].
  cbn [bind skip_with]. rewrite ev_boundary by (assumption || lia).
  unfold node_of. destruct (boundary r); [|reflexivity].
  cbn [wrap_node app]. destruct a; reflexivity.
Qed.

Lemma forallb_In {A} (f : A -> bool) l x : forallb f l = true -> In x l -> f x = true.
Proof. intros H. rewrite forallb_forall in H. apply H. Qed.

(* The combinatorial heart: under [order_ok], if SOME literal of the list occurs at the head of
   the input followed by a boundary, then the FIRST matching literal is followed by a boundary
   as well. *)
Lemma order_ok_first ls :
  order_ok ls = true ->
  forall rest l r l' r',
    In l ls -> rest = (l ++ r)%list -> boundary r = true ->
    first_match ls rest = Some (l', r') -> boundary r' = true.
Proof.
  induction ls as [|e ls IH]; intros Hok rest l r l' r' Hin Hrest Hb Hfm; [destruct Hin|].
  cbn in Hok. apply andb_true_iff in Hok as [Hpairs Hok].
  cbn in Hfm. destruct (strip_prefix e rest) as [r0|] eqn:Hs.
  - injection Hfm as <- <-.
    apply strip_prefix_inv in Hs.
    destruct Hin as [<- | Hin].
    + rewrite Hrest in Hs. apply app_inv_head in Hs. subst r0. exact Hb.
    + assert (Hp := forallb_In _ _ _ Hpairs Hin). unfold pair_ok in Hp.
      apply andb_true_iff in Hp as [HA HB].
      rewrite Hrest in Hs. symmetry in Hs.
      (* e ++ r0 = l ++ r : one is a prefix of the other *)
      apply app_eq_app in Hs as [x [[He Hr] | [Hl Hr0]]].
      * (* e = l ++ x : case (B) *)
        subst e r. rewrite strip_prefix_app in HB.
        destruct x as [|c x]; [rewrite app_nil_l in Hb; exact Hb|].
        cbn in Hb. rewrite HB in Hb. discriminate.
      * (* l = e ++ x : case (A) *)
        subst l r0. rewrite strip_prefix_app in HA.
        destruct x as [|c x]; [rewrite app_nil_l; exact Hb|].
        cbn. exact HA.
  - destruct Hin as [<- | Hin].
    + exfalso. eapply strip_prefix_none; eassumption.
    + eapply IH; eassumption.
Qed.

(** ** keyword_rule_spec (generic) *)
(* For a rule  name = @{ (l1 | .. | ln) ~ !ident_char }  whose literals satisfy [order_ok]:
   with enough fuel, evaluation at [rest] SUCCEEDS iff some literal occurs at the head of the
   input followed by a non-identifier byte or the end of input.  It then consumes exactly one
   literal -- the first one in choice order that is a prefix of the input -- and emits exactly
   its own childless node (nothing when called in atomic mode); otherwise it FAILS (it never
   runs out of fuel). *)
Theorem keyword_rule_spec g name ls n :
  ident_char_ok g = true -> kw_lits g name = Some (ls, n) -> order_ok ls = true ->
  forall fuel, n + 6 <= fuel -> forall a pos rest,
    ((exists l r, In l ls /\ rest = (l ++ r)%list /\ boundary r = true) ->
     exists l r, first_match ls rest = Some (l, r) /\ In l ls /\ rest = (l ++ r)%list
                 /\ boundary r = true
                 /\ ev g fuel a (PId name) pos rest
                    = ROk (pos + List.length l) r (node_of a name pos (pos + List.length l)))
    /\
    (~ (exists l r, In l ls /\ rest = (l ++ r)%list /\ boundary r = true) ->
     ev g fuel a (PId name) pos rest = RFail).
Proof.
  intros Hic Hkw Hok fuel Hf a pos rest.
  rewrite (kw_ev g name ls n Hic Hkw fuel Hf). unfold kw_result. split.
  - intros (l & r & Hin & Hrest & Hb).
    destruct (first_match ls rest) as [[l' r']|] eqn:Hfm.
    + pose proof (order_ok_first ls Hok rest l r l' r' Hin Hrest Hb Hfm) as Hb'.
      destruct (first_match_some _ _ _ _ Hfm) as [Hin' Hrest'].
      exists l', r'. rewrite Hb'. auto 6.
    + exfalso. eapply first_match_none; eassumption.
  - intros Hno. destruct (first_match ls rest) as [[l' r']|] eqn:Hfm; [|reflexivity].
    destruct (boundary r') eqn:Hb'; [|reflexivity].
    exfalso. apply Hno. destruct (first_match_some _ _ _ _ Hfm) as [Hin' Hrest'].
    exists l', r'. auto.
Qed.
Print Assumptions keyword_rule_spec.

(** ** keyword rules whose literals are made of identifier bytes only *)

Lemma run_split rest : rest = (ident_run rest ++ after_run rest)%list.
Proof.
  induction rest as [|b r IH]; cbn; [reflexivity|].
  destruct (is_ident_byte b); cbn; [f_equal; exact IH | reflexivity].
Qed.

Lemma boundary_after_run rest : boundary (after_run rest) = true.
Proof.
  induction rest as [|b r IH]; cbn; [reflexivity|].
  destruct (is_ident_byte b) eqn:Hb; [exact IH|]. cbn. rewrite Hb. reflexivity.
Qed.

Lemma ident_run_all rest : forallb is_ident_byte (ident_run rest) = true.
Proof.
  induction rest as [|b r IH]; cbn; [reflexivity|].
  destruct (is_ident_byte b) eqn:Hb; cbn; [rewrite Hb; exact IH | reflexivity].
Qed.

(* the maximal identifier run is the only identifier-byte prefix followed by a boundary *)
Lemma run_unique l r :
  forallb is_ident_byte l = true -> boundary r = true ->
  ident_run (l ++ r) = l /\ after_run (l ++ r) = r.
Proof.
  intros Hl Hr. induction l as [|c l IH]; cbn.
  - destruct r as [|b r]; cbn in *; [auto|].
    apply negb_true_iff in Hr. rewrite Hr. auto.
  - cbn in Hl. apply andb_true_iff in Hl as [Hc Hl]. rewrite Hc.
    destruct (IH Hl) as [-> ->]. auto.
Qed.

Lemma mem_bytes_In s ls : mem_bytes s ls = true <-> In s ls.
Proof.
  unfold mem_bytes. rewrite existsb_exists. split.
  - intros (x & Hin & He). apply bytes_eqb_eq in He. subst. exact Hin.
  - intros Hin. exists s. split; [exact Hin | apply bytes_eqb_eq; reflexivity].
Qed.

Definition kw_run_result (ls : list (list N)) (a : atomicity) (name : string)
           (pos : nat) (rest : list N) : res :=
  let run := ident_run rest in
  if mem_bytes run ls
  then ROk (pos + List.length run) (after_run rest)
           (node_of a name pos (pos + List.length run))
  else RFail.

(* If moreover every literal consists of identifier bytes only, the rule is a function of the
   MAXIMAL identifier run at the current position: it succeeds iff that run is (exactly) one of
   the literals, and consumes it.  In particular a reserved word that is a proper prefix of a
   longer identifier is not recognised there. *)
Theorem keyword_rule_run_spec g name ls n :
  ident_char_ok g = true -> kw_lits g name = Some (ls, n) ->
  order_ok ls = true -> ident_only ls = true ->
  forall fuel, n + 6 <= fuel -> forall a pos rest,
    ev g fuel a (PId name) pos rest = kw_run_result ls a name pos rest.
Proof.
  intros Hic Hkw Hok Hio fuel Hf a pos rest.
  destruct (keyword_rule_spec g name ls n Hic Hkw Hok fuel Hf a pos rest) as [Hyes Hno].
  unfold kw_run_result. destruct (mem_bytes (ident_run rest) ls) eqn:Hm.
  - apply mem_bytes_In in Hm.
    destruct Hyes as (l & r & _ & Hin & Hrest & Hb & Hev).
    { exists (ident_run rest), (after_run rest).
      split; [exact Hm|]. split; [apply run_split | apply boundary_after_run]. }
    assert (Hl : forallb is_ident_byte l = true) by (eapply forallb_In; eassumption).
    destruct (run_unique l r Hl Hb) as [H1 H2]. rewrite <- Hrest in H1, H2.
    rewrite H1, H2. exact Hev.
  - apply Hno. intros (l & r & Hin & Hrest & Hb).
    assert (Hl : forallb is_ident_byte l = true) by (eapply forallb_In; eassumption).
    destruct (run_unique l r Hl Hb) as [H1 _]. rewrite <- Hrest in H1.
    rewrite H1 in Hm. apply mem_bytes_In in Hin. congruence.
Qed.
Print Assumptions keyword_rule_run_spec.

Lemma kw_rule_ok_inv g name :
  kw_rule_ok g name = true ->
  exists ls n, kw_lits g name = Some (ls, n) /\ order_ok ls = true /\ ident_only ls = true.
Proof.
  unfold kw_rule_ok. destruct (kw_lits g name) as [[ls n]|]; [|discriminate].
  intros H. apply andb_true_iff in H as [H1 H2]. eauto.
Qed.

(* ================================================================================ *)
(** * 5. Identifiers *)

Lemma rep_loop_ext step step' :
  (forall p r, step p r = step' p r) ->
  forall n p r, rep_loop step n p r = rep_loop step' n p r.
Proof.
  intros H n. induction n as [|n IH]; intros p r; cbn [rep_loop]; [reflexivity|].
  rewrite H. destruct (step' p r); try reflexivity. rewrite IH. reflexivity.
Qed.

Lemma rep_ident n : forall rest pos,
  List.length (ident_run rest) < n ->
  rep_loop one_ident_byte n pos rest
  = ROk (pos + List.length (ident_run rest)) (after_run rest) [].
Proof.
  induction n as [|n IH]; intros rest pos Hn; [lia|].
  cbn [rep_loop]. destruct rest as [|b r]; cbn [one_ident_byte ident_run after_run].
  - cbn. rewrite Nat.add_0_r. reflexivity.
  - destruct (is_ident_byte b) eqn:Hb.
    + cbn [ident_run] in Hn. rewrite Hb in Hn. cbn in Hn.
      rewrite IH by lia. cbn [List.length app]. f_equal. lia.
    + cbn. rewrite Nat.add_0_r. reflexivity.
Qed.

Lemma bind_ok_nil p r k : bind (ROk p r []) k = k p r.
Proof. cbn. destruct (k p r); reflexivity. Qed.

(* (ASCII_ALPHANUMERIC | "_")* in atomic mode takes the maximal identifier run *)
Lemma ev_rep_ident g fuel pos rest :
  has_rule g "ASCII_ALPHANUMERIC" = false ->
  List.length (ident_run rest) + 3 <= fuel ->
  ev g fuel Atomic (PRep ident_char_body) pos rest
  = ROk (pos + List.length (ident_run rest)) (after_run rest) [].
Proof.
  intros Hb Hf. destruct fuel as [|fuel]; [lia|].
  cbn [ev ev_step]. rewrite ev_ident_class by (assumption || lia).
  destruct rest as [|b r]; cbn [one_ident_byte ident_run after_run].
  - cbn. rewrite Nat.add_0_r. reflexivity.
  - destruct (is_ident_byte b) eqn:Hib.
    + cbn [ident_run] in Hf. rewrite Hib in Hf. cbn [List.length] in Hf.
      rewrite bind_ok_nil.
      rewrite (rep_loop_ext _ one_ident_byte).
      2:{ intros p r0. cbn [skip_with]. rewrite bind_ok_nil.
          apply ev_ident_class; [assumption|lia]. }
      rewrite rep_ident by lia.
      cbn [List.length]. f_equal. lia.
    + cbn. rewrite Nat.add_0_r. reflexivity.
Qed.

Definition starts_alpha (rest : list N) : bool :=
  match rest with b :: _ => is_alpha_byte b | [] => false end.

Lemma alpha_is_ident b : is_alpha_byte b = true -> is_ident_byte b = true.
Proof.
  unfold is_alpha_byte, is_ident_byte. intros H. apply orb_true_iff in H as [-> | ->].
  - reflexivity.
  - rewrite orb_true_r. reflexivity.
Qed.

(* What an identifier-shaped rule computes: it succeeds iff the first byte is an ASCII letter,
   and then consumes the maximal run of [A-Za-z0-9_]; its node has no children. *)
Definition identifier_result (a : atomicity) (name : string) (pos : nat) (rest : list N) : res :=
  if starts_alpha rest
  then ROk (pos + List.length (ident_run rest)) (after_run rest)
           (node_of a name pos (pos + List.length (ident_run rest)))
  else RFail.

Lemma ev_S g f a e pos rest : ev g (S f) a e pos rest = ev_step (ev g f) g f a e pos rest.
Proof. reflexivity. Qed.

Lemma ev_alpha g fuel a pos rest :
  has_rule g "ASCII_ALPHA" = false -> 1 <= fuel ->
  ev g fuel a (PId "ASCII_ALPHA") pos rest
  = match rest with
    | b :: r => if is_alpha_byte b then ROk (pos + 1) r [] else RFail
    | [] => RFail
    end.
Proof.
  intros Hb Hf. apply has_rule_false in Hb. destruct fuel as [|fuel]; [lia|].
  rewrite ev_S. cbn [ev_step]. rewrite Hb.
  change (builtin "ASCII_ALPHA" a pos rest) with (match_ranges [(97, 122); (65, 90)]%N pos rest).
  rewrite match_ranges_ascii by reflexivity.
  destruct rest as [|b r]; [reflexivity|].
  cbn [existsb fst snd]. rewrite orb_false_r. reflexivity.
Qed.

Theorem identifier_rule_spec g name :
  identifier_shape_ok g name = true ->
  forall fuel a pos rest, List.length (ident_run rest) + 6 <= fuel ->
    ev g fuel a (PId name) pos rest = identifier_result a name pos rest.
Proof.
  unfold identifier_shape_ok. intros Hs fuel a pos rest Hf.
  apply andb_true_iff in Hs as [Hs H3]. apply andb_true_iff in Hs as [H1 H2].
  apply rule_is_lookup in H1. apply negb_true_iff in H2, H3.
  destruct fuel as [|[|fuel]]; try lia.
  rewrite ev_S. cbn [ev_step]. rewrite H1. cbn [inner_mode emits].
  rewrite ev_S. unfold identifier_body. cbn [ev_step].
  rewrite ev_alpha by (assumption || lia).
  unfold identifier_result, starts_alpha.
  destruct rest as [|b r]; [reflexivity|].
  destruct (is_alpha_byte b) eqn:Hab; [|reflexivity].
  pose proof (alpha_is_ident b Hab) as Hib.
  cbn [ident_run after_run] in *. rewrite Hib in *. cbn [List.length] in *.
  cbn [bind skip_with].
  change (PAlt (PId "ASCII_ALPHANUMERIC") (PStr [95%N])) with ident_char_body.
  rewrite ev_rep_ident by (assumption || lia).
  cbn [wrap_node app]. unfold node_of.
  replace (pos + 1 + List.length (ident_run r)) with (pos + S (List.length (ident_run r))) by lia.
  destruct a; reflexivity.
Qed.
Print Assumptions identifier_rule_spec.

(* ================================================================================ *)
(** * 6. The implicit skip in front of an identifier *)

Lemma ev_seq g f a e1 e2 pos rest :
  ev g (S f) a (PSeq e1 e2) pos rest
  = bind (ev g f a e1 pos rest) (fun p1 r1 =>
    bind (skip_with (ev g f) g a p1 r1) (fun p2 r2 => ev g f a e2 p2 r2)).
Proof. reflexivity. Qed.

Lemma ev_call g f a name k body pos rest :
  lookup g name = Some (k, body) ->
  ev g (S f) a (PId name) pos rest
  = wrap_node (emits k a) name pos (ev g f (inner_mode name k a) body pos rest).
Proof. intros H. rewrite ev_S. cbn [ev_step]. rewrite H. reflexivity. Qed.

Lemma ev_rep_fail g f a e pos rest :
  ev g f a e pos rest = RFail -> ev g (S f) a (PRep e) pos rest = ROk pos rest [].
Proof. intros H. rewrite ev_S. cbn [ev_step]. rewrite H. reflexivity. Qed.

Lemma fails_at_S P g d e :
  fails_at P g (S d) e =
  match e with
  | PStr (c :: _) => if P c then None else Some 1
  | PSeq a _ => match fails_at P g (S d) a with Some n => Some (S n) | None => None end
  | PAlt a b => match fails_at P g (S d) a, fails_at P g (S d) b with
                | Some n, Some m => Some (S (Nat.max n m))
                | _, _ => None
                end
  | PId name => match lookup g name with
                | Some (_, body) => match fails_at P g d body with
                                    | Some n => Some (S n)
                                    | None => None
                                    end
                | None => None
                end
  | _ => None
  end.
Proof. destruct e; reflexivity. Qed.

Lemma fails_at_sound P g : forall d e n,
  fails_at P g d e = Some n ->
  forall fuel, n <= fuel -> forall a pos rest, head_ok P rest = true ->
  ev g fuel a e pos rest = RFail.
Proof.
  induction d as [|d IHd]; [discriminate|].
  induction e; intros n0 Hn fuel Hf a pos rest Hb; rewrite fails_at_S in Hn;
    try discriminate.
  - (* PStr *)
    destruct s as [|c s]; [discriminate|].
    destruct (P c) eqn:Hc; [discriminate|]. injection Hn as <-.
    destruct fuel as [|fuel]; [lia|]. rewrite ev_S. cbn [ev_step].
    unfold match_str. cbn [strip_prefix]. destruct rest as [|b r]; [reflexivity|].
    cbn [head_ok] in Hb.
    destruct (N.eqb_spec c b) as [->|]; [congruence|reflexivity].
  - (* PId *)
    destruct (lookup g name) as [[k body]|] eqn:Hlk; [|discriminate].
    destruct (fails_at P g d body) as [n|] eqn:Hbody; [|discriminate]. injection Hn as <-.
    destruct fuel as [|fuel]; [lia|].
    rewrite (ev_call _ _ _ _ _ _ _ _ Hlk).
    rewrite (IHd body n Hbody fuel ltac:(lia)) by assumption. reflexivity.
  - (* PSeq *)
    destruct (fails_at P g (S d) e1) as [n|] eqn:H1; [|discriminate]. injection Hn as <-.
    destruct fuel as [|fuel]; [lia|].
    rewrite ev_seq, (IHe1 n eq_refl fuel ltac:(lia)) by assumption. reflexivity.
  - (* PAlt *)
    destruct (fails_at P g (S d) e1) as [n|] eqn:H1; [|discriminate].
    destruct (fails_at P g (S d) e2) as [m|] eqn:H2; [|discriminate]. injection Hn as <-.
    destruct fuel as [|fuel]; [lia|]. rewrite ev_S. cbn [ev_step].
    rewrite (IHe1 n eq_refl fuel ltac:(lia)), (IHe2 m eq_refl fuel ltac:(lia)) by assumption.
    reflexivity.
Qed.

(* WHITESPACE* ~ (COMMENT ~ WHITESPACE* )* consumes nothing at the end of input and in front of
   a byte of class P *)
Lemma skip_at P g sf :
  skip_fuel_at P g = Some sf ->
  forall fuel, sf <= fuel -> forall a pos rest, head_ok P rest = true ->
  skip_with (ev g fuel) g a pos rest = ROk pos rest [].
Proof.
  unfold skip_fuel_at. intros Hs fuel Hf a pos rest Hb.
  destruct (has_rule g "WHITESPACE") eqn:Hw; [|discriminate].
  destruct (has_rule g "COMMENT") eqn:Hc; [|discriminate]. cbn [andb] in Hs.
  destruct (fails_at P g 3 (PId "WHITESPACE")) as [nw|] eqn:Hnw; [|discriminate].
  destruct (fails_at P g 3 (PId "COMMENT")) as [nc|] eqn:Hnc; [|discriminate].
  injection Hs as <-.
  destruct a; try reflexivity. cbn [skip_with]. unfold skip_peg. rewrite Hw, Hc.
  destruct fuel as [|[|[|fuel]]]; try lia.
  rewrite ev_seq.
  rewrite ev_rep_fail by (eapply fails_at_sound; [eassumption|lia|assumption]).
  rewrite bind_ok_nil. cbn [skip_with]. rewrite bind_ok_nil.
  rewrite ev_rep_fail; [reflexivity|].
  rewrite ev_seq.
  erewrite fails_at_sound; [reflexivity|eassumption|lia|assumption].
Qed.

Lemma skip_ident g sf :
  skip_fuel g = Some sf ->
  forall fuel, sf <= fuel -> forall a pos b r, is_ident_byte b = true ->
  skip_with (ev g fuel) g a pos (b :: r) = ROk pos (b :: r) [].
Proof. intros Hs fuel Hf a pos b r Hb. eapply skip_at; eassumption. Qed.

(* ================================================================================ *)
(** * 7. Names: function_name and alias_name *)

Lemma ev_neg_kw g name ls n :
  ident_char_ok g = true -> kw_lits g name = Some (ls, n) ->
  order_ok ls = true -> ident_only ls = true ->
  forall fuel, n + 7 <= fuel -> forall a pos rest,
    ev g fuel a (PNeg (PId name)) pos rest
    = if mem_bytes (ident_run rest) ls then RFail else ROk pos rest [].
Proof.
  intros Hic Hkw Hok Hio fuel Hf a pos rest.
  destruct fuel as [|fuel]; [lia|]. rewrite ev_S. cbn [ev_step].
  rewrite (keyword_rule_run_spec g name ls n Hic Hkw Hok Hio fuel ltac:(lia)).
  unfold kw_run_result. destruct (mem_bytes (ident_run rest) ls); reflexivity.
Qed.

Definition name_nodes (a : atomicity) (outer inner : string) (start stop : nat) : list ptree :=
  if is_atomic a then [] else [PNode outer start stop [PNode inner start stop []]].

Lemma starts_alpha_inv rest :
  starts_alpha rest = true -> exists b r, rest = b :: r /\ is_ident_byte b = true.
Proof.
  destruct rest as [|b r]; [discriminate|]. cbn. intros H.
  exists b, r. split; [reflexivity | apply alpha_is_ident, H].
Qed.

(* function_name = { !builtin_function ~ identifier }: at an ASCII letter, the rule takes the
   whole maximal identifier run unless that run is EXACTLY a builtin function name. *)
Theorem function_name_spec g ls n sf :
  function_name_ok g = true ->
  kw_lits g "builtin_function" = Some (ls, n) -> skip_fuel g = Some sf ->
  forall fuel a pos rest,
    starts_alpha rest = true ->
    List.length (ident_run rest) + n + sf + 12 <= fuel ->
    ev g fuel a (PId "function_name") pos rest
    = if mem_bytes (ident_run rest) ls then RFail
      else ROk (pos + List.length (ident_run rest)) (after_run rest)
               (name_nodes a "function_name" "identifier" pos
                           (pos + List.length (ident_run rest))).
Proof.
  unfold function_name_ok. intros Hg Hkw Hsf fuel a pos rest Hsa Hf.
  repeat match goal with
         | H : (_ && _)%bool = true |- _ => apply andb_true_iff in H as [H ?]
         end.
  apply rule_is_lookup in Hg.
  match goal with H : kw_rule_ok _ _ = true |- _ =>
    apply kw_rule_ok_inv in H as (ls' & n' & Hkw' & Hok & Hio) end.
  rewrite Hkw in Hkw'. injection Hkw' as <- <-.
  destruct fuel as [|[|fuel]]; try lia.
  rewrite (ev_call _ _ _ _ _ _ _ _ Hg).
  change (inner_mode "function_name" RNormal a) with a. cbn [emits].
  rewrite ev_seq.
  rewrite (ev_neg_kw g "builtin_function" ls n) by (assumption || lia).
  destruct (mem_bytes (ident_run rest) ls); [reflexivity|].
  rewrite bind_ok_nil.
  destruct (starts_alpha_inv rest Hsa) as (b & r & -> & Hb).
  rewrite (skip_ident g sf) by (assumption || lia).
  rewrite bind_ok_nil.
  rewrite identifier_rule_spec by (assumption || lia).
  unfold identifier_result. rewrite Hsa.
  cbn [wrap_node]. unfold node_of, name_nodes. destruct a; reflexivity.
Qed.
Print Assumptions function_name_spec.

(* alias_name = { !builtin_type ~ !builtin_alias ~ identifier } *)
Theorem alias_name_spec g lt nt la na sf :
  alias_name_ok g = true ->
  kw_lits g "builtin_type" = Some (lt, nt) -> kw_lits g "builtin_alias" = Some (la, na) ->
  skip_fuel g = Some sf ->
  forall fuel a pos rest,
    starts_alpha rest = true ->
    List.length (ident_run rest) + nt + na + sf + 14 <= fuel ->
    ev g fuel a (PId "alias_name") pos rest
    = if mem_bytes (ident_run rest) lt || mem_bytes (ident_run rest) la then RFail
      else ROk (pos + List.length (ident_run rest)) (after_run rest)
               (name_nodes a "alias_name" "identifier" pos
                           (pos + List.length (ident_run rest))).
Proof.
  unfold alias_name_ok. intros Hg Hkt Hka Hsf fuel a pos rest Hsa Hf.
  repeat match goal with
         | H : (_ && _)%bool = true |- _ => apply andb_true_iff in H as [H ?]
         end.
  apply rule_is_lookup in Hg.
  assert (Hrt : kw_rule_ok g "builtin_type" = true) by assumption.
  assert (Hra : kw_rule_ok g "builtin_alias" = true) by assumption.
  apply kw_rule_ok_inv in Hrt as (lt' & nt' & Hkt' & Hokt & Hiot).
  apply kw_rule_ok_inv in Hra as (la' & na' & Hka' & Hoka & Hioa).
  rewrite Hkt in Hkt'. injection Hkt' as <- <-.
  rewrite Hka in Hka'. injection Hka' as <- <-.
  destruct (starts_alpha_inv rest Hsa) as (b & r & Hrest & Hb).
  destruct fuel as [|[|[|fuel]]]; try lia.
  rewrite (ev_call _ _ _ _ _ _ _ _ Hg).
  change (inner_mode "alias_name" RNormal a) with a. cbn [emits].
  rewrite ev_seq. rewrite ev_seq.
  rewrite (ev_neg_kw g "builtin_type" lt nt) by (assumption || lia).
  destruct (mem_bytes (ident_run rest) lt); [reflexivity|]. cbn [orb].
  rewrite bind_ok_nil.
  rewrite Hrest at 1. rewrite (skip_ident g sf) by (assumption || lia). rewrite <- Hrest.
  rewrite bind_ok_nil.
  rewrite (ev_neg_kw g "builtin_alias" la na) by (assumption || lia).
  destruct (mem_bytes (ident_run rest) la); [reflexivity|].
  rewrite bind_ok_nil.
  rewrite Hrest at 1. rewrite (skip_ident g sf) by (assumption || lia). rewrite <- Hrest.
  rewrite bind_ok_nil.
  rewrite identifier_rule_spec by (assumption || lia).
  unfold identifier_result. rewrite Hsa.
  cbn [wrap_node]. unfold node_of, name_nodes. destruct a; reflexivity.
Qed.
Print Assumptions alias_name_spec.

(* ================================================================================ *)
(** * 8. simfony's grammar (Gen/Grammar.v, regenerated from /repo on every run) *)

(* Every reserved word / builtin name / literal atom rule has the keyword shape with correctly
   ordered literals; no atomic bare-word rule lacks the boundary except the four harmless ones;
   every rule with a boundary is a listed keyword rule. *)
Theorem grammar_keywords_ok : keyword_shape_ok grammar = true.
Proof. vm_compute. reflexivity. Qed.
Print Assumptions grammar_keywords_ok.

(* the grammar only uses rules it defines and builtins that Text/Peg.v models *)
Theorem grammar_ids_known : ids_known grammar = true.
Proof. vm_compute. reflexivity. Qed.

Theorem grammar_names_ok :
  function_name_ok grammar = true /\ alias_name_ok grammar = true
  /\ identifier_shape_ok grammar "identifier" = true
  /\ identifier_shape_ok grammar "witness_name" = true.
Proof. vm_compute. auto. Qed.

(* literals of a keyword rule of the current grammar, and the fuel its alternation needs *)
Definition kw_words (name : string) : list (list N) :=
  match kw_lits grammar name with Some (ls, _) => ls | None => [] end.
Definition kw_need (name : string) : nat :=
  match kw_lits grammar name with Some (_, n) => n | None => 0 end.
(* fuel sufficient for every keyword rule of the current grammar *)
Definition kw_fuel : nat := fold_right Nat.max 0 (map kw_need keyword_rules) + 6.

Lemma fold_max_le (l : list nat) x : In x l -> x <= fold_right Nat.max 0 l.
Proof.
  induction l as [|y l IH]; [intros []|]. cbn. intros [-> | H]; [lia|].
  specialize (IH H). lia.
Qed.

Lemma grammar_ident_char_ok : ident_char_ok grammar = true.
Proof. vm_compute. reflexivity. Qed.

Lemma grammar_kw_rule_ok name : In name keyword_rules -> kw_rule_ok grammar name = true.
Proof.
  intros Hin. pose proof grammar_keywords_ok as H. unfold keyword_shape_ok in H.
  apply andb_true_iff in H as [H _]. apply andb_true_iff in H as [H _].
  apply andb_true_iff in H as [_ H]. eapply forallb_In; eassumption.
Qed.

(* Every keyword rule of simfony (builtin_type, builtin_function, builtin_alias, fn/let/type/
   match/mod/const keywords, None/true/false as expression and as pattern, unwrap) matches at
   a position iff the maximal run of [A-Za-z0-9_] there is exactly one of its words, and then
   consumes exactly that run and emits exactly its own childless node. *)
Theorem keyword_exact name :
  In name keyword_rules ->
  forall fuel a pos rest, kw_fuel <= fuel ->
    ev grammar fuel a (PId name) pos rest = kw_run_result (kw_words name) a name pos rest.
Proof.
  intros Hin fuel a pos rest Hf.
  destruct (kw_rule_ok_inv _ _ (grammar_kw_rule_ok name Hin)) as (ls & n & Hkw & Hok & Hio).
  assert (Hn : n + 6 <= kw_fuel).
  { unfold kw_fuel. apply Nat.add_le_mono_r.
    replace n with (kw_need name) by (unfold kw_need; rewrite Hkw; reflexivity).
    apply fold_max_le, in_map, Hin. }
  unfold kw_words. rewrite Hkw.
  apply (keyword_rule_run_spec grammar name ls n grammar_ident_char_ok Hkw Hok Hio). lia.
Qed.
Print Assumptions keyword_exact.

(* rule "identifier" succeeds iff the byte at the position is an ASCII letter, and consumes
   the maximal run of [A-Za-z0-9_]; similarly "witness_name". *)
Theorem identifier_spec fuel a pos rest :
  List.length (ident_run rest) + 6 <= fuel ->
  ev grammar fuel a (PId "identifier") pos rest = identifier_result a "identifier" pos rest.
Proof. apply identifier_rule_spec. vm_compute. reflexivity. Qed.
Print Assumptions identifier_spec.

Theorem witness_name_spec fuel a pos rest :
  List.length (ident_run rest) + 6 <= fuel ->
  ev grammar fuel a (PId "witness_name") pos rest = identifier_result a "witness_name" pos rest.
Proof. apply identifier_rule_spec. vm_compute. reflexivity. Qed.
Print Assumptions witness_name_spec.

(* the same, through the public interface (byte offsets into the whole input) *)
Corollary identifier_spec_input fuel a input p :
  List.length input + 6 <= fuel ->
  eval_peg grammar fuel a (PId "identifier") input p
  = to_outcome (identifier_result a "identifier" p (skipn p input)).
Proof.
  intros Hf. unfold eval_peg. rewrite identifier_spec; [reflexivity|].
  assert (H : forall l, List.length (ident_run l) <= List.length l).
  { induction l as [|b l IH]; cbn; [lia|]. destruct (is_ident_byte b); cbn; lia. }
  pose proof (H (skipn p input)). rewrite skipn_length in *. lia.
Qed.

(* a word: [A-Za-z][A-Za-z0-9_]* *)
Definition ident_word (s : list N) : bool :=
  match s with b :: s' => is_alpha_byte b && forallb is_ident_byte s' | [] => false end.

Lemma ident_word_run s tail :
  ident_word s = true -> boundary tail = true ->
  starts_alpha (s ++ tail) = true /\ ident_run (s ++ tail) = s /\ after_run (s ++ tail) = tail.
Proof.
  destruct s as [|b s]; [discriminate|]. cbn [ident_word]. intros H Ht.
  apply andb_true_iff in H as [Hb Hs]. split; [exact Hb|].
  apply run_unique; [|exact Ht]. cbn. rewrite (alpha_is_ident b Hb). exact Hs.
Qed.

Definition name_fuel : nat :=
  kw_need "builtin_function" + kw_need "builtin_type" + kw_need "builtin_alias"
  + match skip_fuel grammar with Some n => n | None => 0 end + 14.

(* names_opaque, function position.  For every word s = [A-Za-z][A-Za-z0-9_]* followed by a
   non-identifier byte or the end of input: rule function_name matches s ENTIRELY (and nothing
   more) unless s is EXACTLY one of the literals of builtin_function -- a reserved word being a
   proper prefix of s (into_miles, fold_, dbg_, matchx) does not matter. *)
Theorem names_opaque_function s tail fuel a pos :
  ident_word s = true -> boundary tail = true ->
  List.length s + name_fuel <= fuel ->
  ev grammar fuel a (PId "function_name") pos (s ++ tail)
  = if mem_bytes s (kw_words "builtin_function") then RFail
    else ROk (pos + List.length s) tail
             (name_nodes a "function_name" "identifier" pos (pos + List.length s)).
Proof.
  intros Hs Ht Hf. destruct (ident_word_run s tail Hs Ht) as (Hsa & Hrun & Hafter).
  destruct (kw_lits grammar "builtin_function") as [[ls n]|] eqn:Hkw;
    [|exfalso; revert Hkw; vm_compute; discriminate].
  destruct (skip_fuel grammar) as [sf|] eqn:Hsf;
    [|exfalso; revert Hsf; vm_compute; discriminate].
  pose proof (function_name_spec grammar ls n sf (proj1 grammar_names_ok) Hkw Hsf
                fuel a pos (s ++ tail) Hsa) as H.
  rewrite Hrun, Hafter in H. unfold kw_words. rewrite Hkw. apply H.
  unfold name_fuel, kw_need in Hf. rewrite Hkw, Hsf in Hf. lia.
Qed.
Print Assumptions names_opaque_function.

(* names_opaque, type-alias position: alias_name matches the whole word s unless s is exactly a
   literal of builtin_type (incl. unsigned_type) or builtin_alias. *)
Theorem names_opaque_alias s tail fuel a pos :
  ident_word s = true -> boundary tail = true ->
  List.length s + name_fuel <= fuel ->
  ev grammar fuel a (PId "alias_name") pos (s ++ tail)
  = if mem_bytes s (kw_words "builtin_type") || mem_bytes s (kw_words "builtin_alias") then RFail
    else ROk (pos + List.length s) tail
             (name_nodes a "alias_name" "identifier" pos (pos + List.length s)).
Proof.
  intros Hs Ht Hf. destruct (ident_word_run s tail Hs Ht) as (Hsa & Hrun & Hafter).
  destruct (kw_lits grammar "builtin_type") as [[lt nt]|] eqn:Hkt;
    [|exfalso; revert Hkt; vm_compute; discriminate].
  destruct (kw_lits grammar "builtin_alias") as [[la na]|] eqn:Hka;
    [|exfalso; revert Hka; vm_compute; discriminate].
  destruct (skip_fuel grammar) as [sf|] eqn:Hsf;
    [|exfalso; revert Hsf; vm_compute; discriminate].
  pose proof (alias_name_spec grammar lt nt la na sf (proj1 (proj2 grammar_names_ok)) Hkt Hka Hsf
                fuel a pos (s ++ tail) Hsa) as H.
  rewrite Hrun, Hafter in H. unfold kw_words. rewrite Hkt, Hka. apply H.
  unfold name_fuel, kw_need in Hf. rewrite Hkt, Hka, Hsf in Hf. lia.
Qed.
Print Assumptions names_opaque_alias.

(* whole-input versions through [parse] *)
Corollary function_name_parses s fuel :
  ident_word s = true -> mem_bytes s (kw_words "builtin_function") = false ->
  List.length s + name_fuel <= fuel ->
  parse grammar fuel "function_name" s
  = Succ (List.length s)
         [PNode "function_name" 0 (List.length s) [PNode "identifier" 0 (List.length s) []]].
Proof.
  intros Hs Hm Hf. unfold parse, eval_peg. cbn [skipn].
  pose proof (names_opaque_function s [] fuel NonAtomic 0 Hs eq_refl Hf) as H.
  rewrite app_nil_r in H. rewrite H, Hm. reflexivity.
Qed.

Corollary alias_name_parses s fuel :
  ident_word s = true ->
  mem_bytes s (kw_words "builtin_type") = false -> mem_bytes s (kw_words "builtin_alias") = false ->
  List.length s + name_fuel <= fuel ->
  parse grammar fuel "alias_name" s
  = Succ (List.length s)
         [PNode "alias_name" 0 (List.length s) [PNode "identifier" 0 (List.length s) []]].
Proof.
  intros Hs Hm1 Hm2 Hf. unfold parse, eval_peg. cbn [skipn].
  pose proof (names_opaque_alias s [] fuel NonAtomic 0 Hs eq_refl Hf) as H.
  rewrite app_nil_r in H. rewrite H, Hm1, Hm2. reflexivity.
Qed.

(* Variable position, the minimum: none_expr / true_expr / false_expr (and the patterns) FAIL at
   a word s unless s is exactly None / true / false. *)
Definition bs := bytes_of_string.

Theorem literal_atom_words :
  kw_words "none_expr" = [bs "None"] /\ kw_words "true_expr" = [bs "true"]
  /\ kw_words "false_expr" = [bs "false"] /\ kw_words "none_pattern" = [bs "None"]
  /\ kw_words "true_pattern" = [bs "true"] /\ kw_words "false_pattern" = [bs "false"].
Proof. vm_compute. auto 10. Qed.

Theorem literal_atom_exact name s tail fuel a pos :
  In name ["none_expr"; "true_expr"; "false_expr"; "none_pattern"; "true_pattern"; "false_pattern"] ->
  ident_word s = true -> boundary tail = true -> kw_fuel <= fuel ->
  ev grammar fuel a (PId name) pos (s ++ tail)
  = if mem_bytes s (kw_words name) then
      ROk (pos + List.length s) tail (node_of a name pos (pos + List.length s))
    else RFail.
Proof.
  intros Hin Hs Ht Hf. destruct (ident_word_run s tail Hs Ht) as (_ & Hrun & Hafter).
  rewrite keyword_exact; [|cbn in *; intuition|exact Hf].
  unfold kw_run_result. rewrite Hrun, Hafter. reflexivity.
Qed.
Print Assumptions literal_atom_exact.

(* ================================================================================ *)
(** * 9. Examples on the real grammar (each one was also checked against the real pest parser:
      identical trees).  The trees are what /repo/src/parse.rs consumes: e.g. Function::parse
      takes into_inner() of a `function` pair and expects fn_keyword, function_name,
      function_params, [function_return], block_expression in this order; `program` ends with
      an EOI pair that Program::parse skips. *)

Module RealGrammarExamples.
  Definition nl : string := String (ascii_of_nat 10) "".

  Example ex_program :
    parse grammar 2000 "program" (bs "fn main() { }")
    = Succ 13
        [PNode "program" 0 13
           [PNode "item" 0 13
              [PNode "function" 0 13
                 [PNode "fn_keyword" 0 2 [];
                  PNode "function_name" 3 7 [PNode "identifier" 3 7 []];
                  PNode "function_params" 7 9 [];
                  PNode "block_expression" 10 13 []]];
            PNode "EOI" 13 13 []]].
  Proof. vm_compute. reflexivity. Qed.

  Example ex_identifier :
    parse grammar 2000 "identifier" (bs "abc_1 x") = Succ 5 [PNode "identifier" 0 5 []].
  Proof. vm_compute. reflexivity. Qed.

  Example ex_ty :
    parse grammar 2000 "ty" (bs "(u8, bool)")
    = Succ 10
        [PNode "ty" 0 10
           [PNode "tuple_type" 0 10
              [PNode "ty" 1 3 [PNode "unsigned_type" 1 3 []];
               PNode "ty" 5 9 [PNode "boolean_type" 5 9 []]]]].
  Proof. vm_compute. reflexivity. Qed.

  (* no blanks at all, a line comment before the closing brace *)
  Example ex_comment_tight :
    parse grammar 2000 "program" (bs ("fn main(){let x:u8=1;//c" ++ nl ++ "}"))
    = Succ 26
        [PNode "program" 0 26
           [PNode "item" 0 26
              [PNode "function" 0 26
                 [PNode "fn_keyword" 0 2 [];
                  PNode "function_name" 3 7 [PNode "identifier" 3 7 []];
                  PNode "function_params" 7 9 [];
                  PNode "block_expression" 9 26
                    [PNode "statement" 10 20
                       [PNode "assignment" 10 20
                          [PNode "let_keyword" 10 13 [];
                           PNode "pattern" 14 15
                             [PNode "variable_pattern" 14 15 [PNode "identifier" 14 15 []]];
                           PNode "ty" 16 18 [PNode "unsigned_type" 16 18 []];
                           PNode "expression" 19 20
                             [PNode "single_expression" 19 20 [PNode "dec_literal" 19 20 []]]]]]]];
            PNode "EOI" 26 26 []]].
  Proof. vm_compute. reflexivity. Qed.

  (* leading / trailing blanks and block comments: `program` spans everything, `item` does not *)
  Example ex_comment_around :
    parse grammar 2000 "program" (bs " /* x */ fn /*y*/ main() { } ")
    = Succ 29
        [PNode "program" 0 29
           [PNode "item" 9 28
              [PNode "function" 9 28
                 [PNode "fn_keyword" 9 11 [];
                  PNode "function_name" 18 22 [PNode "identifier" 18 22 []];
                  PNode "function_params" 22 24 [];
                  PNode "block_expression" 25 28 []]];
            PNode "EOI" 29 29 []]].
  Proof. vm_compute. reflexivity. Qed.

  (* compound-atomic: inner witness_name node, no blank allowed after `witness::` *)
  Example ex_witness :
    parse grammar 2000 "single_expression" (bs "witness::A")
    = Succ 10 [PNode "single_expression" 0 10
                 [PNode "witness_expr" 0 10 [PNode "witness_name" 9 10 []]]].
  Proof. vm_compute. reflexivity. Qed.

  Example ex_witness_blank :
    parse grammar 2000 "single_expression" (bs "witness:: A")
    = Succ 7 [PNode "single_expression" 0 7
                [PNode "variable_expr" 0 7 [PNode "identifier" 0 7 []]]].
  Proof. vm_compute. reflexivity. Qed.

  Example ex_witness_program_blank :
    parse grammar 2000 "program" (bs "fn main() { let x: u8 = witness:: A; }") = Fail.
  Proof. vm_compute. reflexivity. Qed.

  Example ex_jet :
    parse grammar 2000 "single_expression" (bs "jet::add_8(a, b)")
    = Succ 16
        [PNode "single_expression" 0 16
           [PNode "call_expr" 0 16
              [PNode "call_name" 0 10 [PNode "jet" 0 10 []];
               PNode "call_args" 10 16
                 [PNode "expression" 11 12
                    [PNode "single_expression" 11 12
                       [PNode "variable_expr" 11 12 [PNode "identifier" 11 12 []]]];
                  PNode "expression" 14 15
                    [PNode "single_expression" 14 15
                       [PNode "variable_expr" 14 15 [PNode "identifier" 14 15 []]]]]]]].
  Proof. vm_compute. reflexivity. Qed.

  (* reserved words as proper prefixes of names (the former defect D7) *)
  Example ex_true_x :
    parse grammar 2000 "single_expression" (bs "true_x")
    = Succ 6 [PNode "single_expression" 0 6
                [PNode "variable_expr" 0 6 [PNode "identifier" 0 6 []]]].
  Proof. vm_compute. reflexivity. Qed.

  Example ex_alias_fee :
    parse grammar 2000 "ty" (bs "Fee")
    = Succ 3 [PNode "ty" 0 3 [PNode "alias_name" 0 3 [PNode "identifier" 0 3 []]]].
  Proof. vm_compute. reflexivity. Qed.

  Example ex_u16_u1 :
    parse grammar 2000 "ty" (bs "u16") = Succ 3 [PNode "ty" 0 3 [PNode "unsigned_type" 0 3 []]]
    /\ parse grammar 2000 "ty" (bs "u1") = Succ 2 [PNode "ty" 0 2 [PNode "unsigned_type" 0 2 []]].
  Proof. vm_compute. auto. Qed.

  Example ex_out_of_fuel : parse grammar 5 "program" (bs "fn main() { }") = OutOfFuel.
  Proof. vm_compute. reflexivity. Qed.
End RealGrammarExamples.

(* ================================================================================ *)
(** * 10. Word positions: variables in expressions and patterns *)

Definition T_ok (T : N -> bool) : Prop := forall c, T c = true -> is_ident_byte c = false.

Lemma head_ok_boundary T tail : T_ok T -> head_ok T tail = true -> boundary tail = true.
Proof.
  intros HT. destruct tail as [|c tail]; cbn; [reflexivity|].
  intros H. rewrite (HT c H). reflexivity.
Qed.

(* meaning of the three facts computed by PegShape.ana *)
Definition sem_fail (T : N -> bool) (g : grammar_t) (e : peg) (W : list (list N)) (n : nat) : Prop :=
  forall s tail, ident_word s = true -> head_ok T tail = true -> mem_bytes s W = false ->
  forall fuel, n + List.length s <= fuel -> forall a pos,
    ev g fuel a e pos (s ++ tail) = RFail.

Definition sem_exact (T : N -> bool) (g : grammar_t) (e : peg) (W : list (list N)) (n : nat) : Prop :=
  forall s tail, ident_word s = true -> head_ok T tail = true -> mem_bytes s W = false ->
  forall fuel, n + List.length s <= fuel -> forall a pos,
    ev g fuel a e pos (s ++ tail) = RFail
    \/ exists t, ev g fuel a e pos (s ++ tail) = ROk (pos + List.length s) tail t.

Definition sem_nop (T : N -> bool) (g : grammar_t) (e : peg) (W : list (list N)) (n : nat) : Prop :=
  forall s tail, ident_word s = true -> head_ok T tail = true -> mem_bytes s W = false ->
  forall fuel, n + List.length s <= fuel -> forall a pos,
    ev g fuel a e pos (s ++ tail) = ROk pos (s ++ tail) [].

Definition ana_ok (T : N -> bool) (g : grammar_t) (e : peg) (r : ana_res) : Prop :=
  (forall W n, aF r = Some (W, n) -> sem_fail T g e W n) /\
  (forall W n, aX r = Some (W, n) -> sem_exact T g e W n) /\
  (forall W n, aZ r = Some (W, n) -> sem_nop T g e W n).

Lemma ana_ok_none T g e : ana_ok T g e ana_none.
Proof. repeat split; cbn; discriminate. Qed.

Lemma sem_fail_exact T g e W n : sem_fail T g e W n -> sem_exact T g e W n.
Proof. intros H s tail Hs Ht Hm fuel Hf a pos. left. apply H; assumption. Qed.

Lemma ana_ok_fail T g e f :
  (forall W n, f = Some (W, n) -> sem_fail T g e W n) -> ana_ok T g e (ana_fail f).
Proof.
  intros H. repeat split; cbn; try discriminate.
  - exact H.
  - intros W n Hf. apply sem_fail_exact, H, Hf.
Qed.

Lemma mem_bytes_app s W1 W2 :
  mem_bytes s (W1 ++ W2) = false -> mem_bytes s W1 = false /\ mem_bytes s W2 = false.
Proof. unfold mem_bytes. rewrite existsb_app. apply orb_false_iff. Qed.

Lemma ana_S T g d e :
  ana T g (S d) e =
  match e with
  | PStr l => ana_fail (lit_fails T l)
  | PAlt a b =>
    let ra := ana T g (S d) a in let rb := ana T g (S d) b in
    mk_ana (comb (aF ra) (aF rb)) (comb (aX ra) (aX rb)) None
  | PRep x => mk_ana None None (bump (aF (ana T g (S d) x)))
  | PSeq a b =>
    let ra := ana T g (S d) a in
    match aF ra with
    | Some (W, n) => ana_fail (Some (W, S n))
    | None =>
      match aZ ra with
      | Some (W1, n1) =>
        match aF (ana T g (S d) b), skip_fuel g with
        | Some (W2, n2), Some sf =>
          ana_fail (Some ((W1 ++ W2)%list, S (Nat.max n1 (Nat.max n2 sf))))
        | _, _ => ana_none
        end
      | None =>
        match aX ra, fails_at T g 4 b, skip_fuel_at T g with
        | Some (W, n), Some m, Some sf => ana_fail (Some (W, S (Nat.max n (Nat.max m sf))))
        | _, _, _ => ana_none
        end
      end
    end
  | PId name =>
    match lookup g name with
    | Some (k, body) =>
      if kw_rule_ok g name then
        match kw_lits g name with
        | Some (ls, n) => mk_ana (Some (ls, n + 6)) (Some ([], n + 6)) None
        | None => ana_none
        end
      else if (name =? "function_name") && function_name_ok g then
        match kw_lits g "builtin_function", skip_fuel g with
        | Some (_, n), Some sf => mk_ana None (Some ([], n + sf + 12)) None
        | _, _ => ana_none
        end
      else let r := ana T g d body in mk_ana (bump (aF r)) (bump (aX r)) None
    | None =>
      if name =? "ASCII_DIGIT" then ana_fail (Some ([], 1)) else ana_none
    end
  | _ => ana_none
  end.
Proof. destruct e; reflexivity. Qed.

Lemma ident_word_cons s : ident_word s = true ->
  exists b s', s = b :: s' /\ is_alpha_byte b = true /\ is_ident_byte b = true.
Proof.
  destruct s as [|b s']; [discriminate|]. cbn. intros H.
  apply andb_true_iff in H as [Hb _]. exists b, s'. auto using alpha_is_ident.
Qed.

Lemma lit_fails_sound T g l W n :
  T_ok T -> lit_fails T l = Some (W, n) -> sem_fail T g (PStr l) W n.
Proof.
  intros HT Hl s tail Hs Ht Hm fuel Hf a pos.
  pose proof (head_ok_boundary T tail HT Ht) as Hbt.
  destruct l as [|c l']; [discriminate|].
  assert (Hn : 1 <= fuel).
  { cbn [lit_fails] in Hl. destruct (is_alpha_byte c); [|injection Hl as <- <-; lia].
    destruct (after_run (c :: l')) as [|p q]; [discriminate|].
    destruct (T p); injection Hl as <- <-; lia. }
  destruct fuel as [|fuel]; [lia|]. rewrite ev_S. cbn [ev_step]. unfold match_str.
  destruct (strip_prefix (c :: l') (s ++ tail)) as [r|] eqn:Hsp; [exfalso|reflexivity].
  apply strip_prefix_inv in Hsp.
  destruct (ident_word_cons s Hs) as (b & s' & Hs' & Hab & _).
  cbn [lit_fails] in Hl. destruct (is_alpha_byte c) eqn:Hc.
  - destruct (after_run (c :: l')) as [|p q] eqn:Hafter; [discriminate|].
    pose proof (boundary_after_run (c :: l')) as Hbp. rewrite Hafter in Hbp.
    pose proof (run_split (c :: l')) as Hsplit. rewrite Hafter in Hsplit.
    rewrite Hsplit, <- app_assoc in Hsp.
    destruct (ident_word_run s tail Hs Hbt) as (_ & Hrun & Hafter_s).
    assert (Hb2 : boundary ((p :: q) ++ r) = true) by exact Hbp.
    destruct (run_unique (ident_run (c :: l')) ((p :: q) ++ r) (ident_run_all _) Hb2) as [Hr1 Hr2].
    rewrite <- Hsp in Hr1, Hr2. rewrite Hrun in Hr1. rewrite Hafter_s in Hr2.
    (* s = ident_run l and tail = p :: .. *)
    subst tail. cbn [head_ok app] in Ht.
    destruct (T p); [|discriminate].
    injection Hl as <- <-. rewrite Hr1 in Hm. cbn in Hm.
    rewrite (proj2 (bytes_eqb_eq _ _) eq_refl) in Hm. discriminate.
  - subst s. cbn in Hsp. injection Hsp as Hcb _. congruence.
Qed.

Lemma alpha_not_digit b : is_alpha_byte b = true -> in_range 48 57 b = false.
Proof.
  unfold is_alpha_byte, in_range. intros H.
  destruct (N.leb_spec 48 b), (N.leb_spec b 57); cbn; try reflexivity.
  destruct (N.leb_spec 97 b), (N.leb_spec b 122), (N.leb_spec 65 b), (N.leb_spec b 90);
    cbn in H; try discriminate; lia.
Qed.

Lemma bump_inv x W n : bump x = Some (W, n) -> exists n', x = Some (W, n') /\ n = S n'.
Proof. destruct x as [[W' n']|]; cbn; [|discriminate]. intros H; injection H as <- <-. eauto. Qed.

Lemma comb_inv x y W n :
  comb x y = Some (W, n) ->
  exists W1 n1 W2 n2, x = Some (W1, n1) /\ y = Some (W2, n2)
                      /\ W = (W1 ++ W2)%list /\ n = S (Nat.max n1 n2).
Proof.
  destruct x as [[W1 n1]|], y as [[W2 n2]|]; cbn; try discriminate.
  intros H; injection H as <- <-. eauto 10.
Qed.

(* soundness of the abstract interpreter *)
Lemma ana_sound T g :
  T_ok T -> ident_char_ok g = true -> forall d e, ana_ok T g e (ana T g d e).
Proof.
  intros HT Hic. induction d as [|d IHd]; [intros; apply ana_ok_none|].
  induction e; rewrite ana_S; try apply ana_ok_none.
  - (* PStr *)
    apply ana_ok_fail. intros W n H. eapply lit_fails_sound; eassumption.
  - (* PId *)
    destruct (lookup g name) as [[k body]|] eqn:Hlk.
    + destruct (kw_rule_ok g name) eqn:Hkw.
      { destruct (kw_rule_ok_inv _ _ Hkw) as (ls & n & Hl & Hok & Hio). rewrite Hl.
        repeat split; cbn [aF aX aZ]; try discriminate.
        - intros W n0 H; injection H as <- <-. intros s tail Hs Ht Hm fuel Hf a pos.
          pose proof (head_ok_boundary T tail HT Ht) as Hbt.
          destruct (ident_word_run s tail Hs Hbt) as (_ & Hrun & Hafter).
          rewrite (keyword_rule_run_spec g name ls n Hic Hl Hok Hio) by lia.
          unfold kw_run_result. rewrite Hrun, Hm. reflexivity.
        - intros W n0 H; injection H as <- <-. intros s tail Hs Ht Hm fuel Hf a pos.
          pose proof (head_ok_boundary T tail HT Ht) as Hbt.
          destruct (ident_word_run s tail Hs Hbt) as (_ & Hrun & Hafter).
          rewrite (keyword_rule_run_spec g name ls n Hic Hl Hok Hio) by lia.
          unfold kw_run_result. rewrite Hrun, Hafter.
          destruct (mem_bytes s ls); [right; eexists; reflexivity | left; reflexivity]. }
      destruct ((name =? "function_name") && function_name_ok g)%bool eqn:Hfn.
      { apply andb_true_iff in Hfn as [Hname Hfok]. apply String.eqb_eq in Hname. subst name.
        destruct (kw_lits g "builtin_function") as [[ls n]|] eqn:Hl; [|apply ana_ok_none].
        destruct (skip_fuel g) as [sf|] eqn:Hsf; [|apply ana_ok_none].
        repeat split; cbn [aF aX aZ]; try discriminate.
        intros W n0 H; injection H as <- <-. intros s tail Hs Ht Hm fuel Hf a pos.
        pose proof (head_ok_boundary T tail HT Ht) as Hbt.
        destruct (ident_word_run s tail Hs Hbt) as (Hsa & Hrun & Hafter).
        rewrite (function_name_spec g ls n sf Hfok Hl Hsf fuel a pos (s ++ tail) Hsa)
          by (rewrite Hrun; lia).
        rewrite Hrun, Hafter.
        destruct (mem_bytes s ls); [left; reflexivity | right; eexists; reflexivity]. }
      destruct (IHd body) as (HF & HX & _).
      repeat split; cbn [aF aX aZ]; try discriminate.
      * intros W n0 H. apply bump_inv in H as (n' & H & ->).
        intros s tail Hs Ht Hm fuel Hf a pos. destruct fuel as [|fuel]; [lia|].
        rewrite (ev_call _ _ _ _ _ _ _ _ Hlk).
        rewrite (HF W n' H s tail Hs Ht Hm fuel) by lia. reflexivity.
      * intros W n0 H. apply bump_inv in H as (n' & H & ->).
        intros s tail Hs Ht Hm fuel Hf a pos. destruct fuel as [|fuel]; [lia|].
        rewrite (ev_call _ _ _ _ _ _ _ _ Hlk).
        destruct (HX W n' H s tail Hs Ht Hm fuel ltac:(lia) (inner_mode name k a) pos)
          as [-> | [t ->]]; [left; reflexivity | right; eexists; reflexivity].
    + destruct (String.eqb_spec name "ASCII_DIGIT") as [->|]; [|apply ana_ok_none].
      apply ana_ok_fail. intros W n H; injection H as <- <-.
      intros s tail Hs Ht Hm fuel Hf a pos. destruct fuel as [|fuel]; [lia|].
      rewrite ev_S. cbn [ev_step]. rewrite Hlk.
      change (builtin "ASCII_DIGIT" a pos (s ++ tail))
        with (match_ranges [(48, 57)]%N pos (s ++ tail)).
      rewrite match_ranges_ascii by reflexivity.
      destruct (ident_word_cons s Hs) as (b & s' & -> & Hab & _).
      cbn [app existsb fst snd]. rewrite (alpha_not_digit b Hab). reflexivity.
  - (* PRep *)
    destruct IHe as (HF & _ & _).
    repeat split; cbn [aF aX aZ]; try discriminate.
    intros W n H. apply bump_inv in H as (n' & H & ->).
    intros s tail Hs Ht Hm fuel Hf a pos. destruct fuel as [|fuel]; [lia|].
    apply ev_rep_fail. apply (HF W n' H); (assumption || lia).
  - (* PSeq *)
    destruct IHe1 as (HF1 & HX1 & HZ1). destruct IHe2 as (HF2 & _ & _).
    cbn zeta.
    destruct (aF (ana T g (S d) e1)) as [[W n]|] eqn:E1.
    { apply ana_ok_fail. intros W0 n0 H; injection H as <- <-.
      intros s tail Hs Ht Hm fuel Hf a pos. destruct fuel as [|fuel]; [lia|].
      rewrite ev_seq. rewrite (HF1 W n eq_refl s tail Hs Ht Hm fuel) by lia. reflexivity. }
    destruct (aZ (ana T g (S d) e1)) as [[W1 n1]|] eqn:EZ.
    { destruct (aF (ana T g (S d) e2)) as [[W2 n2]|] eqn:E2; [|apply ana_ok_none].
      destruct (skip_fuel g) as [sf|] eqn:Hsf; [|apply ana_ok_none].
      apply ana_ok_fail. intros W0 n0 H; injection H as <- <-.
      intros s tail Hs Ht Hm fuel Hf a pos. destruct fuel as [|fuel]; [lia|].
      apply mem_bytes_app in Hm as [Hm1 Hm2].
      rewrite ev_seq. rewrite (HZ1 W1 n1 eq_refl s tail Hs Ht Hm1 fuel) by lia.
      rewrite bind_ok_nil.
      destruct (ident_word_cons s Hs) as (b & s' & Hs' & _ & Hib).
      assert (Hsk : skip_with (ev g fuel) g a pos (s ++ tail) = ROk pos (s ++ tail) []).
      { rewrite Hs'. cbn [app]. apply (skip_ident g sf Hsf); [lia|assumption]. }
      rewrite Hsk, bind_ok_nil.
      apply (HF2 W2 n2 eq_refl); (assumption || lia). }
    destruct (aX (ana T g (S d) e1)) as [[W n]|] eqn:EX; [|apply ana_ok_none].
    destruct (fails_at T g 4 e2) as [m|] eqn:Hm2; [|apply ana_ok_none].
    destruct (skip_fuel_at T g) as [sf|] eqn:Hsf; [|apply ana_ok_none].
    apply ana_ok_fail. intros W0 n0 H; injection H as <- <-.
    intros s tail Hs Ht Hm fuel Hf a pos. destruct fuel as [|fuel]; [lia|].
    rewrite ev_seq.
    destruct (HX1 W n eq_refl s tail Hs Ht Hm fuel ltac:(lia) a pos) as [-> | [t ->]];
      [reflexivity|].
    cbn [bind]. rewrite (skip_at T g sf Hsf) by (assumption || lia). cbn [bind].
    rewrite (fails_at_sound T g 4 e2 m Hm2) by (assumption || lia). reflexivity.
  - (* PAlt *)
    destruct IHe1 as (HF1 & HX1 & _). destruct IHe2 as (HF2 & HX2 & _).
    cbn zeta. repeat split; cbn [aF aX aZ]; try discriminate.
    + intros W n H. apply comb_inv in H as (W1 & n1 & W2 & n2 & H1 & H2 & -> & ->).
      intros s tail Hs Ht Hm fuel Hf a pos. destruct fuel as [|fuel]; [lia|].
      apply mem_bytes_app in Hm as [Hm1 Hm2].
      rewrite ev_S. cbn [ev_step].
      rewrite (HF1 W1 n1 H1 s tail Hs Ht Hm1 fuel) by lia.
      apply (HF2 W2 n2 H2); (assumption || lia).
    + intros W n H. apply comb_inv in H as (W1 & n1 & W2 & n2 & H1 & H2 & -> & ->).
      intros s tail Hs Ht Hm fuel Hf a pos. destruct fuel as [|fuel]; [lia|].
      apply mem_bytes_app in Hm as [Hm1 Hm2].
      rewrite ev_S. cbn [ev_step].
      destruct (HX1 W1 n1 H1 s tail Hs Ht Hm1 fuel ltac:(lia) a pos) as [-> | [t ->]].
      * apply (HX2 W2 n2 H2); (assumption || lia).
      * right. eexists. reflexivity.
Qed.

Lemma alt_pre_ev g inner : forall e pre k,
  alt_pre inner e = Some (pre, k) ->
  forall f a pos rest r,
    ev g f a pre pos rest = RFail ->
    ev g f a (PId inner) pos rest = r ->
    (exists p q t, r = ROk p q t) ->
    ev g (S (k + f)) a e pos rest = r.
Proof.
  induction e; intros pre k H; try discriminate.
  cbn [alt_pre] in H.
  assert (Hcases :
    (exists v, e2 = PId v /\ (v =? inner) = true /\ pre = e1 /\ k = 0)
    \/ (exists k', alt_pre inner e1 = Some (pre, k') /\ k = S k')).
  { destruct (alt_pre inner e1) as [[pre' k']|] eqn:Hd.
    - destruct e2; try (right; injection H as <- <-; eauto).
      destruct (name =? inner) eqn:Hv.
      + left. injection H as <- <-. eauto 6.
      + right. injection H as <- <-. eauto.
    - destruct e2; try discriminate.
      destruct (name =? inner) eqn:Hv; [|discriminate].
      left. injection H as <- <-. eauto 6. }
  intros f a pos rest r Hpre Hin Hok.
  destruct Hcases as [(v & -> & Hv & -> & ->) | (k' & Hd & ->)].
  - apply String.eqb_eq in Hv. subst v. cbn [plus]. rewrite ev_S. cbn [ev_step].
    rewrite Hpre. exact Hin.
  - rewrite ev_S. cbn [ev_step].
    replace (S k' + f) with (S (k' + f)) by lia.
    rewrite (IHe1 pre k' Hd f a pos rest r Hpre Hin Hok).
    destruct Hok as (p & q & t & ->). reflexivity.
Qed.

Definition word_nodes (a : atomicity) (outer inner : string) (start stop : nat) : list ptree :=
  if is_atomic a then []
  else [PNode outer start stop [PNode inner start stop [PNode "identifier" start stop []]]].

(* If rule [outer] is a choice containing the alternative  inner = { identifier }  and the
   abstract interpreter shows that everything tried before it fails on non-reserved words, then
   every word s outside the reserved list W, followed by the end of input or a T byte, is parsed
   by [outer] as  outer(inner(identifier))  spanning exactly s. *)
Theorem word_position_spec T g outer inner W n :
  T_ok T -> word_position T g outer inner = Some (W, n) ->
  forall s tail, ident_word s = true -> head_ok T tail = true -> mem_bytes s W = false ->
  forall fuel, n + List.length s <= fuel -> forall a pos,
    ev g fuel a (PId outer) pos (s ++ tail)
    = ROk (pos + List.length s) tail
          (word_nodes a outer inner pos (pos + List.length s)).
Proof.
  intros HT Hwp s tail Hs Ht Hm fuel Hf a pos.
  unfold word_position in Hwp.
  destruct (lookup g outer) as [[ko body]|] eqn:Hlo; [|discriminate].
  destruct ko; try discriminate.
  destruct (alt_pre inner body) as [[pre k]|] eqn:Hap; [|discriminate].
  match type of Hwp with (if ?c then _ else _) = _ => destruct c eqn:Hc end; [|discriminate].
  repeat match goal with
         | H : (_ && _)%bool = true |- _ => apply andb_true_iff in H as [H ?]
         end.
  destruct (aF (ana T g 6 pre)) as [[W' n']|] eqn:Hana; [|discriminate].
  injection Hwp as <- <-.
  apply rule_is_lookup in Hc.
  match goal with H : negb (special outer) = true |- _ => apply negb_true_iff in H; rename H into Hso end.
  match goal with H : negb (special inner) = true |- _ => apply negb_true_iff in H; rename H into Hsi end.
  assert (Hic : ident_char_ok g = true) by assumption.
  assert (Hid : identifier_shape_ok g "identifier" = true) by assumption.
  pose proof (head_ok_boundary T tail HT Ht) as Hbt.
  destruct (ident_word_run s tail Hs Hbt) as (Hsa & Hrun & Hafter).
  destruct (ana_sound T g HT Hic 6 pre) as (HF & _ & _).
  (* fuel = S (S (k + f)) with f large enough for pre and for inner *)
  assert (Hex : exists f, fuel = S (S (k + f)) /\ n' + List.length s <= f /\ 8 + List.length s <= f).
  { exists (fuel - 2 - k). lia. }
  destruct Hex as (f & -> & Hf1 & Hf2).
  rewrite (ev_call _ _ _ _ _ _ _ _ Hlo).
  assert (Hmode : forall x, special x = false -> inner_mode x RNormal a = a).
  { intros x Hx. unfold inner_mode. rewrite Hx. reflexivity. }
  rewrite (Hmode outer Hso). cbn [emits].
  assert (Hinner : ev g f a (PId inner) pos (s ++ tail)
                   = ROk (pos + List.length s) tail
                         (if is_atomic a then []
                          else [PNode inner pos (pos + List.length s)
                                      [PNode "identifier" pos (pos + List.length s) []]])).
  { destruct f as [|f]; [lia|].
    rewrite (ev_call _ _ _ _ _ _ _ _ Hc). rewrite (Hmode inner Hsi). cbn [emits].
    rewrite identifier_rule_spec by (assumption || rewrite Hrun; lia).
    unfold identifier_result. rewrite Hsa, Hrun, Hafter.
    cbn [wrap_node]. unfold node_of. destruct a; reflexivity. }
  rewrite (alt_pre_ev g inner body pre k Hap f a pos (s ++ tail) _
             (HF W' n' Hana s tail Hs Ht Hm f Hf1 a pos) Hinner) by eauto.
  cbn [wrap_node]. unfold word_nodes. destruct a; reflexivity.
Qed.
Print Assumptions word_position_spec.

Lemma expr_terminator_ok : T_ok is_expr_terminator.
Proof.
  intros c H. unfold is_expr_terminator in H. apply andb_true_iff in H as [H _].
  apply negb_true_iff in H. exact H.
Qed.

Lemma nonident_ok : T_ok is_nonident.
Proof. intros c H. unfold is_nonident in H. apply negb_true_iff in H. exact H. Qed.

(* the words that cannot be used as a variable in an expression, and the fuel constant *)
Definition var_reserved : list (list N) :=
  match word_position is_expr_terminator grammar "single_expression" "variable_expr" with
  | Some (W, _) => W | None => [] end.
Definition var_fuel : nat :=
  match word_position is_expr_terminator grammar "single_expression" "variable_expr" with
  | Some (_, n) => n | None => 0 end.

(* exactly None, false, true and match *)
Theorem var_reserved_words : var_reserved = [bs "None"; bs "false"; bs "true"; bs "match"].
Proof. vm_compute. reflexivity. Qed.

(* VARIABLE POSITION.  In simfony's grammar every word s = [A-Za-z][A-Za-z0-9_]* other than
   None / false / true / match, followed by the end of input or by a byte that is not an
   identifier byte, blank, "/", "(", ":" or "!", is parsed by single_expression as the variable
   s:  single_expression(variable_expr(identifier)) spanning exactly s.  Reserved words that
   are proper prefixes (true_x, falsey, None_, matchx, Left, Some, unwrap, fold_ ...) and even
   the builtin function names themselves do not matter. *)
Theorem variable_expr_opaque s tail fuel a pos :
  ident_word s = true -> head_ok is_expr_terminator tail = true ->
  mem_bytes s var_reserved = false ->
  var_fuel + List.length s <= fuel ->
  ev grammar fuel a (PId "single_expression") pos (s ++ tail)
  = ROk (pos + List.length s) tail
        (word_nodes a "single_expression" "variable_expr" pos (pos + List.length s)).
Proof.
  intros Hs Ht Hm Hf.
  destruct (word_position is_expr_terminator grammar "single_expression" "variable_expr")
    as [[W n]|] eqn:Hwp; [|exfalso; revert Hwp; vm_compute; discriminate].
  unfold var_reserved, var_fuel in *. rewrite Hwp in *.
  eapply word_position_spec; eauto using expr_terminator_ok.
Qed.
Print Assumptions variable_expr_opaque.

(* PATTERN POSITION.  Every word, reserved or not, followed by anything but an identifier byte,
   is parsed by `pattern` as a variable pattern.  (So `let true: bool = ..` and `let match: u8`
   are grammatical: the pattern grammar reserves no words at all.) *)
Theorem variable_pattern_opaque s tail fuel a pos :
  ident_word s = true -> boundary tail = true ->
  match word_position is_nonident grammar "pattern" "variable_pattern" with
  | Some (_, n) => n | None => 0 end + List.length s <= fuel ->
  ev grammar fuel a (PId "pattern") pos (s ++ tail)
  = ROk (pos + List.length s) tail
        (word_nodes a "pattern" "variable_pattern" pos (pos + List.length s)).
Proof.
  intros Hs Ht Hf.
  destruct (word_position is_nonident grammar "pattern" "variable_pattern")
    as [[W n]|] eqn:Hwp; [|exfalso; revert Hwp; vm_compute; discriminate].
  assert (HW : W = []).
  { revert Hwp. vm_compute. intros H; injection H as <- _. reflexivity. }
  subst W.
  assert (Ht' : head_ok is_nonident tail = true).
  { destruct tail as [|c tail]; [reflexivity|]. exact Ht. }
  eapply word_position_spec; eauto using nonident_ok.
Qed.
Print Assumptions variable_pattern_opaque.
