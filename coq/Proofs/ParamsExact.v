(* Property C12, first clause: `parameters()` reports exactly the `param::NAME` occurrences of the program,
   with their types.  Theorems about the model of ast.rs (Front/Analyze.v); occurrence functions are in
   Front/ParamOcc.v.

   Expression level ([analyze_expr_params], readable form [analyze_expr_params_spec]): a successful
   [analyze_expr] on state s with result (e', s')
     (a) keeps every binding of [params s];
     (b) records every [EParam t n] of e' in [params s'] -- relative to the invariant [fenv_params_ok]: the
         bodies of the functions in scope were analysed, and their parameters recorded, when the functions
         were DEFINED; a call only inlines the body;
     (c) every new key of [params s'] is the name of a [PParam] of the source expression AND an [EParam] of e'
         with the recorded type; conversely every [PParam n] of the source expression has a type t with
         [lookupN (params s') n = Some t] and [EParam t n] in e'.  The model drops no visited sub-expression
         from the typed result (all statements, both match arms and all call arguments are kept, and the
         length checks that precede every [map2_st] make the zip total), so (c) holds both against the
         typed result and against the source parse tree;
     (d) keeps the keys pairwise distinct.

   Whole-program level: [parameters_nodup], [parameters_exact_names], [parameters_types_agree],
   [parameters_cover_main], and [parameters_typed_origin] (every reported (n,t) is an [EParam t n] of main
   or of the body of some function item).

   What "the source program" means here, exactly as the model (and ast.rs 679-792) behaves:
     - the body of EVERY function item is analysed, at its definition, before or after main, called or not
       (ast.rs 679-705 collects Item::analyze over all items and fails if any of them fails); so a
       `param::` in a function that is never called is reported, and `Arguments::is_consistent`
       (witness.rs 171) then demands an argument for it: [parameters_only_main_refuted];
     - type aliases hold no expression; parse::Item::Module holds nothing at all ([IModule]), the contents
       of a `mod` are not part of the parsed program. *)
From Coq Require Import List Arith NArith Lia Bool.
Import ListNotations.
Require Import SV.Base.Util SV.Base.Res SV.Layout.Ty SV.Layout.Value SV.Lang.Ast SV.Lang.WT
               SV.Front.PTree SV.Front.Analyze SV.Front.ParamOcc
               SV.Proofs.LayoutRoundtrip SV.Proofs.AnalyzeSound.

(* ---------- association lists ---------- *)
Lemma In_lookupN {A} (l:list (N*A)) x v : NoDup (map fst l) -> In (x,v) l -> lookupN l x = Some v.
Proof.
  induction l as [|[y w] l IH]; cbn [map fst lookupN In]; [tauto|]. intros Hn [H|H].
  - injection H as -> ->. now rewrite N.eqb_refl.
  - inversion Hn as [|? ? Hy Hl]; subst. destruct (N.eqb x y) eqn:E.
    + apply N.eqb_eq in E. subst. exfalso. apply Hy. apply (in_map fst) in H. exact H.
    + auto.
Qed.
Lemma key_iff_lookupN {A} (l:list (N*A)) x : In x (map fst l) <-> exists v, lookupN l x = Some v.
Proof.
  split.
  - intros H. destruct (lookupN l x) eqn:E; [eauto|]. apply lookupN_None_notin in E. contradiction.
  - intros [v H]. apply lookupN_In in H. apply (in_map fst) in H. exact H.
Qed.

(* ---------- the invariant ---------- *)
(* [ps'] extends [ps]; [l]: names of the `param::` of the source visited in between; [E]: the (name, type)
   of the EParam nodes produced in between *)
Definition pext (l:list N) (E:list (N*ty)) (ps ps':ctx) : Prop :=
  (forall n t, lookupN ps n = Some t -> lookupN ps' n = Some t) /\
  (NoDup (map fst ps) -> NoDup (map fst ps')) /\
  (forall n t, lookupN ps' n = Some t -> lookupN ps n = None -> In (n,t) E /\ In n l) /\
  (forall n, In n l -> exists t, lookupN ps' n = Some t /\ In (n,t) E).

Lemma pext_refl ps : pext [] [] ps ps.
Proof.
  split; [auto|]. split; [auto|]. split.
  - intros n t H1 H2. rewrite H1 in H2. discriminate.
  - intros n [].
Qed.
Lemma pext_seq l1 l2 E1 E2 p0 p1 p2 :
  pext l1 E1 p0 p1 -> pext l2 E2 p1 p2 -> pext (l1 ++ l2) (E1 ++ E2) p0 p2.
Proof.
  intros (A1 & B1 & C1 & D1) (A2 & B2 & C2 & D2). split; [auto|]. split; [auto|]. split.
  - intros n t H2 H0. destruct (lookupN p1 n) as [t1|] eqn:E.
    + pose proof (A2 _ _ E) as H. rewrite H2 in H. injection H as ->.
      destruct (C1 _ _ E H0). split; apply in_or_app; auto.
    + destruct (C2 _ _ H2 E). split; apply in_or_app; auto.
  - intros n H. apply in_app_or in H as [H|H].
    + destruct (D1 _ H) as (t & Ht & Hi). exists t. split; [auto|apply in_or_app; auto].
    + destruct (D2 _ H) as (t & Ht & Hi). exists t. split; [auto|apply in_or_app; auto].
Qed.
Lemma pext_mono_E l E E' p p' : incl E E' -> pext l E p p' -> pext l E' p p'.
Proof.
  intros HE (A & B & C & D). split; [auto|]. split; [auto|]. split.
  - intros n t H1 H2. destruct (C _ _ H1 H2). split; [apply HE|]; assumption.
  - intros n H. destruct (D _ H) as (t & Ht & Hi). exists t. split; [auto|now apply HE].
Qed.

(* every occurrence of [E] is recorded in [ps] with its type *)
Definition recorded (E:list (N*ty)) (ps:ctx) : Prop := forall n t, In (n,t) E -> lookupN ps n = Some t.
Lemma recorded_nil ps : recorded [] ps. Proof. intros n t []. Qed.
Lemma recorded_mono E ps ps' :
  (forall n t, lookupN ps n = Some t -> lookupN ps' n = Some t) -> recorded E ps -> recorded E ps'.
Proof. intros H HE n t Hi. auto. Qed.
Lemma recorded_app E1 E2 ps : recorded E1 ps -> recorded E2 ps -> recorded (E1 ++ E2) ps.
Proof. intros H1 H2 n t Hi. apply in_app_or in Hi as [Hi|Hi]; auto. Qed.
Lemma recorded_incl B E ps : incl B E -> recorded E ps -> recorded B ps.
Proof. intros Hi HE n t Hb. apply HE, Hi, Hb. Qed.

(* the parameters of all function bodies in scope are recorded *)
Definition fenv_params_ok (fn:list (N*fdef)) (ps:ctx) : Prop := recorded (fenv_params fn) ps.

Lemma fenv_lookup (fn:list (N*fdef)) f ps body : lookupN fn f = Some (ps, body) -> incl (eparams body) (fenv_params fn).
Proof.
  intros H x Hx. apply lookupN_In in H. unfold fenv_params. apply in_flat_map.
  exists (f, (ps, body)). split; [exact H|exact Hx].
Qed.

Definition pinv (fn:list (N*fdef)) (l:list N) (E:list (N*ty)) (ps ps':ctx) : Prop :=
  pext l E ps ps' /\ (fenv_params_ok fn ps -> recorded E ps').

Lemma pinv_refl fn ps : pinv fn [] [] ps ps.
Proof. split; [apply pext_refl|]. intros _. apply recorded_nil. Qed.
Lemma pinv_seq fn l1 l2 E1 E2 p0 p1 p2 :
  pinv fn l1 E1 p0 p1 -> pinv fn l2 E2 p1 p2 -> pinv fn (l1 ++ l2) (E1 ++ E2) p0 p2.
Proof.
  intros [X1 R1] [X2 R2]. split; [eapply pext_seq; eassumption|]. intros Hf. apply recorded_app.
  - eapply recorded_mono; [apply X2|auto].
  - apply R2. eapply recorded_mono; [apply X1|exact Hf].
Qed.
(* a node that carries an inlined function body *)
Lemma pinv_body fn l B E ps ps' :
  pinv fn l E ps ps' -> (fenv_params_ok fn ps -> recorded B ps) -> pinv fn l (B ++ E) ps ps'.
Proof.
  intros [X R] HB. split; [eapply pext_mono_E; [apply incl_appr, incl_refl|exact X]|].
  intros Hf. apply recorded_app; [|auto]. eapply recorded_mono; [apply X|auto].
Qed.

(* Scope::insert_parameter *)
Lemma insert_parameter_pinv fn n t s s' : insert_parameter n t s = Ok s' ->
  pinv fn [n] [(n,t)] (params s) (params s').
Proof.
  unfold insert_parameter. intros H. destruct (lookupN (params s) n) as [t0|] eqn:El.
  - destruct (ty_eqb t0 t) eqn:Et; [|discriminate]. injection H as <-. apply ty_eqb_eq in Et. subst t0.
    split; [split; [auto|]; split; [auto|]; split|].
    + intros n0 t0 H1 H2. rewrite H1 in H2. discriminate.
    + intros n0 [<-|[]]. exists t. split; [exact El|now left].
    + intros _ n0 t0 [H|[]]. injection H as <- <-. exact El.
  - injection H as <-. cbn [params set_params].
    assert (Hn : lookupN ((n,t) :: params s) n = Some t) by (cbn [lookupN]; now rewrite N.eqb_refl).
    split; [split; [|split; [|split]]|].
    + intros n0 t0 H. cbn [lookupN]. destruct (N.eqb n0 n) eqn:En; [|exact H].
      apply N.eqb_eq in En. subst. congruence.
    + intros Hd. cbn [map fst]. constructor; [now apply lookupN_None_notin|exact Hd].
    + intros n0 t0 H1 H2. cbn [lookupN] in H1. destruct (N.eqb n0 n) eqn:En.
      * apply N.eqb_eq in En. subst n0. injection H1 as <-. split; now left.
      * congruence.
    + intros n0 [<-|[]]. exists t. split; [exact Hn|now left].
    + intros _ n0 t0 [H|[]]. injection H as <- <-. exact Hn.
Qed.

(* literals produce constants *)
Lemma analyze_lit_eparams l t e : analyze_lit l t = Ok e -> eparams e = [].
Proof.
  unfold analyze_lit. intros H.
  destruct l; repeat match type of H with
    | rmap _ ?x = Ok _ => destruct x; cbn [rmap] in H; try discriminate H
    | match ?x with _ => _ end = Ok _ => destruct x; try discriminate H
    end; injection H as <-; reflexivity.
Qed.

Section ParamsExact.
Variable jlook : N -> option N.
Variable jsig : N -> option (list ty * ty).
Variable balias : N -> option ty.
Variable main_name : N.

Section ExprP.
Variable al : list (N*ty).
Variable fn : list (N*fdef).
Variable is_main : bool.
Notation AE := (analyze_expr jlook jsig balias al fn is_main).

Definition par_fn (F : ty -> st -> res (expr*st)) (l:list N) : Prop :=
  forall t s e' s', F t s = Ok (e', s') -> pinv fn l (eparams e') (params s) (params s').

Section ListsP.
Variable F : pexpr -> ty -> st -> res (expr*st).
Lemma map2_par l : Forall (fun e => par_fn (F e) (pparams_src e)) l ->
  forall tys s bs s', map2_st F l tys s = Ok (bs, s') -> length l = length tys ->
    pinv fn (flat_map pparams_src l) (flat_map eparams bs) (params s) (params s').
Proof.
  induction 1 as [|e l He _ IH]; intros tys s bs s' H Hlen.
  - destruct tys; [|discriminate]. cbn in H. injection H as <- <-. apply pinv_refl.
  - destruct tys as [|t tys]; [discriminate|]. cbn [map2_st] in H.
    rb H. destruct a as [b s1]. rb H. destruct a as [bs1 s2]. injection H as <- <-.
    apply He in E. apply IH in E0; [|cbn in Hlen; now injection Hlen].
    cbn [flat_map]. eapply pinv_seq; eassumption.
Qed.
Lemma stmts_par stmts : Forall (fun sm => par_fn (F (snd sm)) (pparams_src (snd sm))) stmts ->
  forall s ss' s2, map_st (stmt_step balias al F) stmts s = Ok (ss', s2) ->
    pinv fn (flat_map (fun sm => pparams_src (snd sm)) stmts) (flat_map (fun sm => eparams (snd sm)) ss')
         (params s) (params s2).
Proof.
  induction 1 as [|sm stmts Hsm _ IH]; intros s ss' s2 H.
  - cbn in H. injection H as <- <-. apply pinv_refl.
  - cbn [map_st] in H. rb H. destruct a as [b s1']. rb H. destruct a as [bs sF]. injection H as <- <-.
    apply IH in E0. cbn [flat_map]. eapply pinv_seq; [|exact E0].
    destruct sm as [[[p a]|] e]; cbn [snd] in *; cbn [stmt_step] in E.
    + rb E. rb E. destruct a1 as [e' s1]. rb E. rb E. injection E as <- <-. apply Hsm in E2. exact E2.
    + rb E. destruct a as [e' s1]. injection E as <- <-. now apply Hsm in E1.
Qed.
Lemma arm_par mp e l : par_fn (F e) l -> par_fn (arm_step balias al F mp e) l.
Proof.
  intros He t s e' s' H. unfold arm_step in H.
  rb H. rename a into s2. rb H. destruct a as [e1 s3]. rb H. injection H as <- <-.
  apply He in E0. cbn [params set_vars].
  assert (Hp : params s2 = params s).
  { destruct (typed_var mp) as [[x a0]|].
    - rb E. rb E. injection E as <-. reflexivity.
    - injection E as <-. reflexivity. }
  rewrite Hp in E0. exact E0.
Qed.
End ListsP.

(* Call::analyze: the node built from the analysed arguments holds the arguments and, for a custom function,
   its body, taken from the function table *)
Lemma call_plan_params name cn t n tys pre post build :
  analyze_callname jlook balias al fn name = Ok cn -> call_plan jsig cn t n = Ok (tys, pre, post, build) ->
  exists B, (forall as', eparams (build as') = B ++ flat_map eparams as') /\ incl B (fenv_params fn).
Proof.
  intros Hcn Hp.
  assert (Hnil : forall b, (forall as', eparams (ECall t b as') = [] ++ flat_map eparams as') /\ incl [] (fenv_params fn)).
  { intros b. split; [reflexivity|intros ? []]. }
  destruct name; cbn [analyze_callname] in Hcn.
  - destruct (jlook n0) as [j|]; [|discriminate]. injection Hcn as <-. cbn [call_plan] in Hp.
    destruct (jsig j) as [[ps r]|]; [|discriminate].
    repeat (apply negb_if_ok in Hp as [_ Hp]). injection Hp as <- <- <- <-. exists []. apply Hnil.
  - rb Hcn. injection Hcn as <-. cbn [call_plan] in Hp.
    repeat (apply negb_if_ok in Hp as [_ Hp]). injection Hp as <- <- <- <-. exists []. apply Hnil.
  - rb Hcn. injection Hcn as <-. cbn [call_plan] in Hp.
    repeat (apply negb_if_ok in Hp as [_ Hp]). injection Hp as <- <- <- <-. exists []. apply Hnil.
  - rb Hcn. injection Hcn as <-. cbn [call_plan] in Hp.
    repeat (apply negb_if_ok in Hp as [_ Hp]). injection Hp as <- <- <- <-. exists []. apply Hnil.
  - injection Hcn as <-. cbn [call_plan] in Hp.
    repeat (apply negb_if_ok in Hp as [_ Hp]). injection Hp as <- <- <- <-. exists []. apply Hnil.
  - injection Hcn as <-. cbn [call_plan] in Hp.
    repeat (apply negb_if_ok in Hp as [_ Hp]). injection Hp as <- <- <- <-. exists []. apply Hnil.
  - injection Hcn as <-. cbn [call_plan] in Hp.
    repeat (apply negb_if_ok in Hp as [_ Hp]). injection Hp as <- <- <- <-. exists []. apply Hnil.
  - injection Hcn as <-. cbn [call_plan] in Hp.
    repeat (apply negb_if_ok in Hp as [_ Hp]). injection Hp as <- <- <- <-. exists []. apply Hnil.
  - rb Hcn. injection Hcn as <-. cbn [call_plan] in Hp.
    repeat (apply negb_if_ok in Hp as [_ Hp]). injection Hp as <- <- <- <-. exists []. apply Hnil.
  - destruct (lookupN fn f) as [[ps body]|] eqn:El; [|discriminate]. injection Hcn as <-. cbn [call_plan] in Hp.
    repeat (apply negb_if_ok in Hp as [_ Hp]). injection Hp as <- <- <- <-.
    exists (eparams body). split; [reflexivity|eapply fenv_lookup; exact El].
  - destruct k as [|k]; [discriminate|].
    destruct (lookupN fn f) as [[ps body]|] eqn:El; [|discriminate].
    destruct ps as [|[x1 e1] [|[x2 a2] [|? ?]]]; try discriminate.
    destruct (ty_eqb a2 (ty_of body)); [|discriminate]. injection Hcn as <-. cbn [call_plan] in Hp.
    repeat (apply negb_if_ok in Hp as [_ Hp]). injection Hp as <- <- <- <-.
    exists (eparams body). split; [reflexivity|eapply fenv_lookup; exact El].
  - destruct (lookupN fn f) as [[ps body]|] eqn:El; [|discriminate].
    destruct ps as [|[x1 a1] [|[x2 c2] [|[x3 c3] [|? ?]]]]; try discriminate.
    destruct (ty_of body) as [b r| | | | | |]; try discriminate.
    destruct (ty_eqb r a1); [|discriminate].
    destruct c3 as [| | |w| | |]; try discriminate. destruct (Nat.leb w 4); [|discriminate].
    injection Hcn as <-. cbn [call_plan] in Hp.
    repeat (apply negb_if_ok in Hp as [_ Hp]). injection Hp as <- <- <- <-.
    exists (eparams body). split; [reflexivity|eapply fenv_lookup; exact El].
Qed.

Theorem analyze_expr_params e : par_fn (AE e) (pparams_src e).
Proof.
  induction e using pexpr_ind'; intros t s e' s' Heq; cbn [analyze_expr] in Heq; cbn [pparams_src].
  - rb Heq. destruct a as [ss' s2]. rb Heq. destruct a as [last' s3]. rb Heq. injection Heq as <- <-.
    apply (stmts_par _ _ H) in E. cbn [params set_vars eparams] in *.
    eapply pinv_seq; [exact E|].
    destruct last as [l|].
    + rbn E0 El. destruct a0 as [l' s3']. injection E0 as <- <-. cbn in H0. now apply H0 in El.
    + destruct (is_unit t); [|discriminate]. injection E0 as <- <-. apply pinv_refl.
  - destruct t; try discriminate. injection Heq as <- <-. apply pinv_refl.
  - rb Heq. injection Heq as <- <-. rewrite (analyze_lit_eparams _ _ _ E). apply pinv_refl.
  - rb Heq. injection Heq as <- <-. unfold insert_witness in E. destruct (negb is_main); [discriminate|].
    destruct (lookupN (wits s) n); [discriminate|]. injection E as <-. apply pinv_refl.
  - rb Heq. injection Heq as <- <-. cbn [eparams]. now apply insert_parameter_pinv.
  - destruct (get_variable (vars s) x); [|discriminate]. destruct (negb (ty_eqb t t0)); [discriminate|].
    rb Heq. injection Heq as <- <-. apply pinv_refl.
  - rb Heq. destruct a as [e1 s1]. injection Heq as <- <-. now apply IHe in E.
  - destruct t as [| | | |tys| |]; try discriminate. apply negb_if_ok in Heq as [Hlen Heq]. apply Nat.eqb_eq in Hlen.
    rb Heq. destruct a as [es' s1]. injection Heq as <- <-. now apply (map2_par _ _ H) in E.
  - destruct t as [| | | | |a n|]; try discriminate. apply negb_if_ok in Heq as [Hlen Heq].
    rb Heq. destruct a0 as [es' s1]. injection Heq as <- <-.
    apply (map2_par _ _ H) in E; [exact E|now rewrite repeat_length].
  - destruct t as [| | | | | |a k]; try discriminate. destruct k as [|k]; [discriminate|].
    destruct (negb (lt_pow2 (S k) (length es))); [discriminate|].
    rb Heq. destruct a0 as [es' s1]. injection Heq as <- <-.
    apply (map2_par _ _ H) in E; [exact E|now rewrite repeat_length].
  - destruct t; try discriminate. rb Heq. destruct a as [e1 s1]. injection Heq as <- <-. now apply IHe in E.
  - destruct t; try discriminate. rb Heq. destruct a as [e1 s1]. injection Heq as <- <-. now apply IHe in E.
  - destruct t; try discriminate. injection Heq as <- <-. apply pinv_refl.
  - destruct t; try discriminate. rb Heq. destruct a as [e1 s1]. injection Heq as <- <-. now apply IHe in E.
  - rb Heq. rename a into cn. rb Heq. destruct a as [[[tys pre] post] build]. cbn zeta in Heq.
    rb Heq. destruct a as [args' s2]. injection Heq as <- <-.
    destruct (call_plan_track jlook jsig balias al fn _ _ _ _ _ _ _ _ E E0) as (Hlen & _).
    destruct (call_plan_params _ _ _ _ _ _ _ _ E E0) as (B & HB & Hincl).
    apply (map2_par _ _ H) in E1; [|now symmetry].
    rewrite HB. rewrite track_opt_params in *.
    apply pinv_body; [exact E1|]. intros Hf. eapply recorded_incl; eassumption.
  - rb Heq. rename a into sa. rb Heq. rename a into sty. rb Heq. destruct a as [sc' s1].
    rb Heq. destruct a as [el' s2]. rb Heq. destruct a as [er' s3]. injection Heq as <- <-.
    apply IHe1 in E1. apply (arm_par _ _ _ _ IHe2) in E2. apply (arm_par _ _ _ _ IHe3) in E3.
    cbn [eparams]. eapply pinv_seq; [exact E1|]. eapply pinv_seq; eassumption.
Qed.

(* the same, spelled out *)
Theorem analyze_expr_params_spec e t s e' s' :
  AE e t s = Ok (e', s') ->
  (* (a) *) (forall n t0, lookupN (params s) n = Some t0 -> lookupN (params s') n = Some t0) /\
  (* (b) *) (fenv_params_ok fn (params s) -> forall n t0, In (n,t0) (eparams e') -> lookupN (params s') n = Some t0) /\
  (* (c) *) (forall n t0, lookupN (params s') n = Some t0 -> lookupN (params s) n = None ->
               In (n,t0) (eparams e') /\ In n (pparams_src e)) /\
            (forall n, In n (pparams_src e) -> exists t0, lookupN (params s') n = Some t0 /\ In (n,t0) (eparams e')) /\
  (* (d) *) (NoDup (map fst (params s)) -> NoDup (map fst (params s'))).
Proof.
  intros H. apply analyze_expr_params in H as ((A & B & C & D) & R).
  split; [exact A|]. split; [exact R|]. split; [exact C|]. split; [exact D|exact B].
Qed.
End ExprP.

(* ---------- items ---------- *)
Definition genv_ok (g:genv) : Prop := fenv_params_ok (g_fn g) (g_params g).
Definition eparams_opt (r:option expr) : list (N*ty) := match r with Some m => eparams m | None => [] end.

Lemma function_params name ps ret body g r g' :
  analyze_function jlook jsig balias main_name name ps ret body g = Ok (r, g') ->
  exists body',
    pinv (g_fn g) (pparams_src body) (eparams body') (g_params g) (g_params g') /\
    ((r = Some body' /\ g_fn g' = g_fn g) \/
     (r = None /\ exists ps', g_fn g' = (name, (ps', body')) :: g_fn g)).
Proof.
  unfold analyze_function. intros H. destruct (negb (N.eqb name main_name)).
  - rb H. rename a into ps'. destruct (negb (nodup_keys ps')); [discriminate|].
    rb H. rename a into rt. cbn zeta in H. rb H. destruct a as [body' s1]. rb H.
    destruct (lookupN (g_fn g) name) eqn:El; [discriminate|]. injection H as <- <-.
    apply analyze_expr_params in E1. exists body'. split; [exact E1|]. right. split; [reflexivity|].
    exists ps'. reflexivity.
  - destruct ps; [|discriminate]. rb H. cbn zeta in H. rb H. destruct a0 as [body' s1]. rb H.
    injection H as <- <-. apply analyze_expr_params in E0. exists body'. split; [exact E0|]. left. split; reflexivity.
Qed.

Lemma item_params it g r g' :
  analyze_item jlook jsig balias main_name it g = Ok (r, g') ->
  pext (pparams_item it) (eparams_opt r ++ fenv_params (g_fn g')) (g_params g) (g_params g') /\
  incl (fenv_params (g_fn g)) (fenv_params (g_fn g')) /\
  (genv_ok g -> genv_ok g' /\ recorded (eparams_opt r) (g_params g')).
Proof.
  destruct it; cbn [analyze_item pparams_item]; intros H.
  - rb H. injection H as <- <-. cbn [g_fn g_params eparams_opt].
    split; [eapply pext_mono_E; [|apply pext_refl]; intros ? []|]. split; [apply incl_refl|].
    intros Hg. split; [exact Hg|apply recorded_nil].
  - apply function_params in H as (body' & [X R] & [[-> Ef]|[-> [ps' Ef]]]); rewrite Ef; cbn [eparams_opt].
    + split; [eapply pext_mono_E; [|exact X]; apply incl_appl, incl_refl|]. split; [apply incl_refl|].
      intros Hg. split; [|exact (R Hg)]. unfold genv_ok. rewrite Ef.
      eapply recorded_mono; [apply X|exact Hg].
    + unfold fenv_params at 1 3. cbn [flat_map snd]. fold (fenv_params (g_fn g)).
      split; [eapply pext_mono_E; [|exact X]; intros x Hx; cbn [app]; apply in_or_app; now left|].
      split; [apply incl_appr, incl_refl|].
      intros Hg. split; [|apply recorded_nil]. unfold genv_ok, fenv_params_ok. rewrite Ef.
      unfold fenv_params. cbn [flat_map snd]. fold (fenv_params (g_fn g)).
      apply recorded_app; [exact (R Hg)|]. eapply recorded_mono; [apply X|exact Hg].
  - injection H as <- <-. cbn [eparams_opt].
    split; [eapply pext_mono_E; [|apply pext_refl]; intros ? []|]. split; [apply incl_refl|].
    intros Hg. split; [exact Hg|apply recorded_nil].
Qed.

Lemma mains_cons r items : flat_map eparams (mains (r :: items)) = eparams_opt r ++ flat_map eparams (mains items).
Proof. destruct r; reflexivity. Qed.

Lemma items_params p : forall g items g',
  map_st (analyze_item jlook jsig balias main_name) p g = Ok (items, g') ->
  pext (pparams_program p) (flat_map eparams (mains items) ++ fenv_params (g_fn g')) (g_params g) (g_params g') /\
  incl (fenv_params (g_fn g)) (fenv_params (g_fn g')) /\
  (genv_ok g -> genv_ok g' /\ recorded (flat_map eparams (mains items)) (g_params g')).
Proof.
  induction p as [|it p IH]; intros g items g' H; cbn [map_st] in H.
  - injection H as <- <-. split; [eapply pext_mono_E; [|apply pext_refl]; intros ? []|]. split; [apply incl_refl|].
    intros Hg. split; [exact Hg|apply recorded_nil].
  - rb H. destruct a as [r g1]. rb H. destruct a as [items1 g2]. injection H as <- <-.
    apply item_params in E as (X1 & I1 & R1). apply IH in E0 as (X2 & I2 & R2).
    rewrite mains_cons. unfold pparams_program. cbn [flat_map]. fold (pparams_program p).
    split; [|split].
    + eapply pext_mono_E; [|eapply pext_seq; [exact X1|exact X2]].
      intros x Hx. repeat rewrite in_app_iff in Hx. repeat rewrite in_app_iff. specialize (I2 x). tauto.
    + eapply incl_tran; eassumption.
    + intros Hg. destruct (R1 Hg) as [Hg1 Hr1]. destruct (R2 Hg1) as [Hg2 Hr2]. split; [exact Hg2|].
      apply recorded_app; [|exact Hr2]. eapply recorded_mono; [apply X2|exact Hr1].
Qed.

(* ---------- the program ---------- *)
Lemma program_params p m ps ws tl :
  analyze_program jlook jsig balias main_name p = Ok (m, ps, ws, tl) ->
  exists items g,
    map_st (analyze_item jlook jsig balias main_name) p genv0 = Ok (items, g) /\ mains items = [m] /\
    pext (pparams_program p) (eparams m ++ fenv_params (g_fn g)) [] ps /\ recorded (eparams m) ps.
Proof.
  unfold analyze_program. intros H. rb H. destruct a as [items g].
  destruct (mains items) as [|m0 [|? ?]] eqn:Em; try discriminate. injection H as <- <- <- <-.
  exists items, g. split; [reflexivity|]. split; [exact Em|].
  apply items_params in E as (X & _ & R). rewrite Em in X, R. cbn [flat_map] in X, R. rewrite app_nil_r in X, R.
  split; [exact X|]. apply R. unfold genv_ok. cbn. apply recorded_nil.
Qed.

(* the reported parameter names are pairwise distinct *)
Theorem parameters_nodup p m ps ws tl :
  analyze_program jlook jsig balias main_name p = Ok (m, ps, ws, tl) -> NoDup (map fst ps).
Proof.
  intros H. apply program_params in H as (items & g & _ & _ & (_ & B & _ & _) & _). apply B. constructor.
Qed.

(* a name is reported iff `param::n` occurs in the body of main or of any other function item of the
   source program (called or not, before or after main) *)
Theorem parameters_exact_names p m ps ws tl :
  analyze_program jlook jsig balias main_name p = Ok (m, ps, ws, tl) ->
  forall n, In n (map fst ps) <-> In n (pparams_program p).
Proof.
  intros H n. apply program_params in H as (items & g & _ & _ & (_ & _ & C & D) & _). rewrite key_iff_lookupN. split.
  - intros [t Ht]. apply (C n t Ht). reflexivity.
  - intros Hn. destruct (D n Hn) as (t & Ht & _). eauto.
Qed.

(* every param:: node of the inlined main (bodies of the called functions included) is reported with its type *)
Theorem parameters_cover_main p m ps ws tl :
  analyze_program jlook jsig balias main_name p = Ok (m, ps, ws, tl) ->
  forall n t, In (n,t) (eparams m) -> In (n,t) ps.
Proof.
  intros H n t Hi. apply program_params in H as (items & g & _ & _ & _ & R). apply lookupN_In, R, Hi.
Qed.

(* one name, one type *)
Theorem parameters_types_agree p m ps ws tl :
  analyze_program jlook jsig balias main_name p = Ok (m, ps, ws, tl) ->
  forall n t t', In (n,t) ps -> In (n,t') (eparams m) -> t' = t.
Proof.
  intros H n t t' Hp Hm. pose proof (parameters_nodup _ _ _ _ _ H) as Hd.
  apply program_params in H as (items & g & _ & _ & _ & R).
  apply R in Hm. apply (In_lookupN _ _ _ Hd) in Hp. congruence.
Qed.

(* every reported (n,t) is the (name, type) of an EParam node of main or of the analysed body of a function
   item; and every `param::n` of the source has such a node, with the reported type *)
Theorem parameters_typed_origin p m ps ws tl :
  analyze_program jlook jsig balias main_name p = Ok (m, ps, ws, tl) ->
  exists items g,
    map_st (analyze_item jlook jsig balias main_name) p genv0 = Ok (items, g) /\ mains items = [m] /\
    (forall n t, In (n,t) ps -> In (n,t) (eparams m ++ fenv_params (g_fn g))) /\
    (forall n, In n (pparams_program p) -> exists t, In (n,t) ps /\ In (n,t) (eparams m ++ fenv_params (g_fn g))).
Proof.
  intros H. pose proof (parameters_nodup _ _ _ _ _ H) as Hd.
  apply program_params in H as (items & g & Hm & Em & (_ & _ & C & D) & _).
  exists items, g. split; [exact Hm|]. split; [exact Em|]. split.
  - intros n t Hi. apply (In_lookupN _ _ _ Hd) in Hi. apply (C n t Hi). reflexivity.
  - intros n Hn. destruct (D n Hn) as (t & Ht & Hi). exists t. split; [now apply lookupN_In|exact Hi].
Qed.
End ParamsExact.

Print Assumptions parameters_exact_names.
Print Assumptions parameters_nodup.
Print Assumptions parameters_types_agree.
Print Assumptions parameters_cover_main.
Print Assumptions parameters_typed_origin.
Print Assumptions analyze_expr_params_spec.

(* ---------- non-vacuity ---------- *)
Module Examples.
Import Analyze.Examples.
Local Open Scope N_scope.

(* fn f() -> u8  { param::p70 }            never called
   fn g() -> u16 { param::p72 }            called by main
   fn main() { let x: u16 = g(); let y: u8 = param::p71; let z: u8 = param::p71; }
   fn h() -> bool { param::p73 }           after main, never called *)
Definition prog_params : pprogram :=
  [ IFunction 8 [] (Some u8) (body (PParam 70));
    IFunction 9 [] (Some u16) (body (PParam 72));
    main_of [ (Some (PId 6, u16), PCall 51 (PCustom 9) []);
              (Some (PId 7, u8), PParam 71);
              (Some (PId 4, u8), PParam 71) ];
    IFunction 3 [] (Some PTree.ABool) (body (PParam 73)) ].

Definition report (p:pprogram) : list (N*ty) * list (N*ty) * list N :=
  match A p with
  | Ok (m, ps, _, _) => (ps, eparams m, pparams_program p)
  | _ => ([], [], [])
  end.

Example ex_params_report :
  report prog_params =
    ( [(73, TBool); (71, TUInt 3); (72, TUInt 4); (70, TUInt 3)],     (* parameters(), newest first *)
      [(72, TUInt 4); (71, TUInt 3); (71, TUInt 3)],                  (* EParam nodes of the inlined main *)
      [70; 72; 71; 71; 73] ).                                         (* param:: in the source, item order *)
Proof. vm_compute. reflexivity. Qed.

(* the theorems apply to it *)
Example ex_params_exact : forall n, In n [73; 71; 72; 70] <-> In n [70; 72; 71; 71; 73].
Proof.
  destruct (A prog_params) as [[[[m ps] ws] tl]| |] eqn:E; [|vm_compute in E; discriminate E..].
  pose proof (parameters_exact_names _ _ _ _ _ _ _ _ _ E) as H.
  vm_compute in E. injection E as <- <- <- <-. exact H.
Qed.

(* The converse of [parameters_cover_main] is FALSE, in the model and in ast.rs alike: a parameter that only
   occurs in functions main never calls (70 in f, 73 in h) is reported -- Function::analyze analyses every
   body at its definition and insert_parameter writes into the one global map -- although the inlined main,
   hence the compiled program, does not contain it.  (Arguments::is_consistent then fails with
   ArgumentMissing unless an argument is supplied for it.) *)
Example parameters_only_main_refuted :
  exists p m ps ws tl n t,
    A p = Ok (m, ps, ws, tl) /\ In (n,t) ps /\ ~ In n (map fst (eparams m)).
Proof.
  destruct (A prog_params) as [[[[m ps] ws] tl]| |] eqn:E; [|vm_compute in E; discriminate E..].
  exists prog_params, m, ps, ws, tl, 70, (TUInt 3). split; [exact E|].
  vm_compute in E. injection E as <- <- <- <-. split.
  - cbn. tauto.
  - cbn. intros [H|[H|[H|[]]]]; discriminate H.
Qed.

(* one name, one type: the same name at two types is refused wherever the two occurrences are *)
Example ex_params_two_types :
  A [ IFunction 8 [] (Some u8) (body (PParam 70));
      main_of [];
      IFunction 9 [] (Some u16) (body (PParam 70)) ] = Err.
Proof. vm_compute. reflexivity. Qed.
End Examples.
