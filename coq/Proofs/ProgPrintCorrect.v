(* Correctness of the program printer model Text/ProgPrint.v.  (The parts are in this order in the file.)

   Part 4  printing loses nothing: the token list of a well-formed tree parses back to that tree
             type_roundtrip  pattern_roundtrip  expr_roundtrip
             print_tokens_roundtrip  tokens_injective            (up to span ids: erase_program)
             print_tokens_roundtrip_sp0  tokens_injective_sp0    (trees whose span ids are all 0)
   Part 1  generic facts about the verbose pre-order iterator TyPrint.vpo_run on any tree with a node count
             vev_machine  vtxt_unfold
   Part 2  the three Rust state machines print exactly what the structural printers print
             aty_print_machine_eq  pat_print_machine_eq  expr_print_machine_eq  print_program_machine_eq
   Part 3  the structural printer is the token list with spaces / newlines in between
             print_program_render  lay_program_tokens  lay_program_ws
   Part 5  examples; the expected texts are the output of the real printer (harness `svh ptree`, pprint)

   What [prog_wf] contains, and why (each conjunct is something Program::parse guarantees; see the
   Examples need_* at the end for the trees outside it):
     - a function body is a block                 (function = .. block_expression)
     - the arms of a match are (Left, Right), (None, Some) or (false, true), in this order   (Match::parse)
     - literal digit strings are non-empty and of their class            (dec_literal, bin_literal, hex_literal)
     - AUInt k has k <= 8 (UIntType), array sizes fit usize, list / fold bounds are 2^k with 1 <= k <= 63
       (NonZeroPow2Usize::new rejects 0 and 1; str::parse::<usize>)
   Nothing is required of tuples (size 0, 1, n), PParen, nested blocks in statement position, blocks as
   match arms or scrutinees, IModule: all of them are printed in a form that is read back. *)
From Coq Require Import List Arith NArith Bool Lia.
From Coq Require String Ascii.
From Coq Require Import ZifyBool ZifyNat ZifyN.
Require Import SV.Layout.Ty SV.Text.Literal SV.Text.TyPrint SV.Text.ValParse SV.Proofs.PrintCorrect.
Require Import SV.Lang.Ast SV.Front.PTree SV.Text.ProgPrint.
Import ListNotations.
Local Open Scope N_scope.

(** * Part 4: the token-level round trip *)

(** ** lists with separators *)

Lemma sepl_cons2 : forall {A} (sep : list A) x y l, sepl sep (x :: y :: l) = x ++ sep ++ sepl sep (y :: l).
Proof. reflexivity. Qed.

Lemma sepl_length_in : forall {A B} (sep : list B) (tk : A -> list B) x xs,
  In x xs -> (length (tk x) <= length (sepl sep (map tk xs)))%nat.
Proof.
  intros A B sep tk x xs. induction xs as [|y [|z xs] IH]; intros Hin.
  - contradiction.
  - destruct Hin as [->|[]]. cbn. lia.
  - cbn [map] in *. rewrite sepl_cons2, !app_length. destruct Hin as [->|Hin]; [lia|].
    specialize (IH Hin). lia.
Qed.

Lemma sepl_length_count : forall {A B} (sep : list B) (tk : A -> list B) xs,
  (forall x, In x xs -> (1 <= length (tk x))%nat) ->
  (length xs <= length (sepl sep (map tk xs)))%nat.
Proof.
  intros A B sep tk xs. induction xs as [|y [|z xs] IH]; intros Hne.
  - cbn. lia.
  - cbn. specialize (Hne y (or_introl eq_refl)). lia.
  - cbn [map] in *. rewrite sepl_cons2, !app_length.
    pose proof (Hne y (or_introl eq_refl)).
    assert (length (z :: xs) <= length (sepl sep (tk z :: map tk xs)))%nat
      by (apply IH; intros x Hx; apply Hne; right; exact Hx).
    cbn [length] in *. lia.
Qed.

(** ** first tokens *)

(* the first token of a printed element is none of the tokens the loops test for *)
Definition starts_ok (l : list tok) : Prop :=
  match l with
  | t :: _ => is_rparen t = false /\ is_rbrack t = false /\ is_rbrace t = false /\ is_let t = false
  | [] => False
  end.

Lemma starts_ok_length : forall l, starts_ok l -> (1 <= length l)%nat.
Proof. intros [|t l] H; [contradiction|cbn; lia]. Qed.

Lemma starts_ok_app : forall l r, starts_ok l -> starts_ok (l ++ r).
Proof. intros [|t l] r H; [contradiction|exact H]. Qed.

Lemma tokens_aty_starts : forall t, starts_ok (tokens_aty t).
Proof. destruct t; cbn; repeat split. Qed.

Lemma tokens_pat_starts : forall p, starts_ok (tokens_pat p).
Proof. destruct p; cbn; repeat split. Qed.

Lemma tokens_mpat_starts : forall m, starts_ok (tokens_mpat m).
Proof. destruct m; cbn; repeat split. Qed.

Lemma tokens_expr_starts : forall e, starts_ok (tokens_expr e).
Proof.
  destruct e as [ss l|b|li| | | | | | | | | | | |sp name args| ];
    try destruct b; try destruct li; try destruct name; cbn; repeat split.
Qed.

Lemma tokens_param_starts : forall p, starts_ok (tokens_param p).
Proof. intros p. cbn. repeat split. Qed.

(* the token after an expression is not `(` : an identifier followed by `(` would be read as a call *)
Definition nolp (rest : list tok) : Prop :=
  match rest with t :: _ => is_lparen t = false | [] => True end.

(** ** the loops *)
Section LoopFacts.
  Context {A : Type}.
  Variable pe : list tok -> option (A * list tok).
  Variable tk : A -> list tok.
  Variable er : A -> A.
  Variable follow : list tok -> Prop.
  Hypothesis follow_comma : forall r, follow (TComma :: r).
  Hypothesis follow_rparen : forall r, follow (TRParen :: r).
  Hypothesis follow_rbrack : forall r, follow (TRBrack :: r).

  Definition elem_ok (x : A) : Prop :=
    starts_ok (tk x) /\ forall rest, follow rest -> pe (tk x ++ rest) = Some (er x, rest).

  Definition close_tok (paren : bool) : tok := if paren then TRParen else TRBrack.

  Lemma is_close_close : forall paren, is_close paren (close_tok paren) = true.
  Proof. destruct paren; reflexivity. Qed.

  Lemma is_close_comma : forall paren, is_close paren TComma = false.
  Proof. destruct paren; reflexivity. Qed.

  Lemma follow_close : forall paren r, follow (close_tok paren :: r).
  Proof. destruct paren; cbn; auto. Qed.

  Lemma starts_not_close : forall paren t l, starts_ok (t :: l) -> is_close paren t = false.
  Proof. intros paren t l (H1 & H2 & _). destruct paren; assumption. Qed.

  Lemma seq_list_step : forall paren n l r,
    starts_ok l ->
    seq_list pe paren (S n) (l ++ r)
    = match pe (l ++ r) with
      | Some (x, r1) =>
          match r1 with
          | [] => None
          | t1 :: r2 =>
              if is_close paren t1 then Some ([x], r2)
              else if is_comma t1 then
                match seq_list pe paren n r2 with
                | Some (xs, r3) => Some (x :: xs, r3)
                | None => None
                end
              else None
          end
      | None => None
      end.
  Proof.
    intros paren n [|t l] r Hs; [contradiction|].
    cbn [seq_list app]. rewrite (starts_not_close paren t l Hs). reflexivity.
  Qed.

  Lemma seq_list_ok : forall paren xs n rest,
    Forall elem_ok xs -> (length xs < n)%nat ->
    seq_list pe paren n (sepl [TComma] (map tk xs) ++ close_tok paren :: rest) = Some (map er xs, rest).
  Proof.
    intros paren xs. induction xs as [|x [|y xs] IH]; intros n rest Hall Hn.
    - destruct n as [|n]; [cbn in Hn; lia|]. cbn [map sepl app seq_list]. rewrite is_close_close. reflexivity.
    - destruct n as [|n]; [cbn in Hn; lia|]. inversion Hall as [|x0 l0 [Hs Hx] _]; subst.
      cbn [map sepl]. rewrite seq_list_step by exact Hs.
      rewrite Hx by apply follow_close. rewrite is_close_close. reflexivity.
    - destruct n as [|n]; [cbn in Hn; lia|]. inversion Hall as [|x0 l0 [Hs Hx] Hrest]; subst.
      cbn [map]. rewrite sepl_cons2. rewrite <- !app_assoc. cbn [app].
      rewrite seq_list_step by exact Hs. rewrite Hx by apply follow_comma.
      rewrite is_close_comma. cbn [is_comma].
      change (tk y :: map tk xs) with (map tk (y :: xs)).
      rewrite IH by (try exact Hrest; cbn [length] in *; lia). reflexivity.
  Qed.

  Lemma tuple_list_step : forall n l r,
    starts_ok l ->
    tuple_list pe n (l ++ r)
    = match pe (l ++ r) with
      | Some (x, r1) =>
          match r1 with
          | [] => None
          | t1 :: r2 =>
              if is_rparen t1 then Some (inr x, r2)
              else if is_comma t1 then
                match seq_list pe true n r2 with
                | Some (xs, r3) => Some (inl (x :: xs), r3)
                | None => None
                end
              else None
          end
      | None => None
      end.
  Proof.
    intros n [|t l] r Hs; [contradiction|].
    cbn [tuple_list app]. destruct Hs as (H1 & _). rewrite H1. reflexivity.
  Qed.

  Lemma tuple_list_ok : forall xs n rest,
    Forall elem_ok xs -> (length xs <= n)%nat ->
    tuple_list pe n (sepl [TComma] (map tk xs) ++ (if one xs then [TComma] else []) ++ TRParen :: rest)
    = Some (inl (map er xs), rest).
  Proof.
    intros xs n rest Hall Hn. destruct xs as [|x [|y xs]].
    - reflexivity.
    - inversion Hall as [|x0 l0 [Hs Hx] _]; subst. cbn [map sepl one app].
      rewrite tuple_list_step by exact Hs. rewrite Hx by apply follow_comma. cbn [is_rparen is_comma].
      destruct n as [|n]; [cbn in Hn; lia|]. reflexivity.
    - inversion Hall as [|x0 l0 [Hs Hx] Hrest]; subst. cbn [map one app]. rewrite sepl_cons2.
      rewrite <- !app_assoc. cbn [app].
      rewrite tuple_list_step by exact Hs. rewrite Hx by apply follow_comma. cbn [is_rparen is_comma].
      change (tk y :: map tk xs) with (map tk (y :: xs)).
      rewrite (seq_list_ok true) by (try exact Hrest; cbn [length] in *; lia). reflexivity.
  Qed.

  Lemma tuple_list_paren : forall x n rest,
    elem_ok x -> tuple_list pe n (tk x ++ TRParen :: rest) = Some (inr (er x), rest).
  Proof.
    intros x n rest [Hs Hx]. rewrite tuple_list_step by exact Hs. rewrite Hx by apply follow_rparen. reflexivity.
  Qed.

  Lemma args_tail_ok : forall xs n rest,
    Forall elem_ok xs -> (length xs < n)%nat ->
    args_tail pe n (flat_map (fun x => TComma :: tk x) xs ++ TRParen :: rest) = Some (map er xs, rest).
  Proof.
    induction xs as [|x xs IH]; intros n rest Hall Hn.
    - destruct n as [|n]; [cbn in Hn; lia|]. reflexivity.
    - destruct n as [|n]; [cbn in Hn; lia|]. inversion Hall as [|x0 l0 [Hs Hx] Hrest]; subst.
      cbn [flat_map map]. rewrite <- !app_assoc. cbn [app args_tail is_rparen is_comma].
      rewrite Hx.
      + rewrite IH by (try exact Hrest; cbn [length] in *; lia). reflexivity.
      + destruct xs; cbn [flat_map app]; auto.
  Qed.

  Lemma sepl_flat : forall x xs,
    sepl [TComma] (map tk (x :: xs)) = tk x ++ flat_map (fun y => TComma :: tk y) xs.
  Proof.
    intros x xs. revert x. induction xs as [|y xs IH]; intros x.
    - cbn. now rewrite app_nil_r.
    - cbn [map]. rewrite sepl_cons2. change (tk y :: map tk xs) with (map tk (y :: xs)). rewrite IH. reflexivity.
  Qed.

  Lemma args_list_step : forall n l r,
    starts_ok l ->
    args_list pe n (l ++ r)
    = match pe (l ++ r) with
      | Some (x, r1) =>
          match args_tail pe n r1 with
          | Some (xs, r2) => Some (x :: xs, r2)
          | None => None
          end
      | None => None
      end.
  Proof.
    intros n [|t l] r Hs; [contradiction|].
    cbn [args_list app]. destruct Hs as (H1 & _). rewrite H1. reflexivity.
  Qed.

  Lemma args_list_ok : forall xs n rest,
    Forall elem_ok xs -> (length xs <= n)%nat ->
    args_list pe n (sepl [TComma] (map tk xs) ++ TRParen :: rest) = Some (map er xs, rest).
  Proof.
    intros xs n rest Hall Hn. destruct xs as [|x xs]; [reflexivity|].
    inversion Hall as [|x0 l0 [Hs Hx] Hrest]; subst.
    rewrite sepl_flat, <- app_assoc. rewrite args_list_step by exact Hs.
    rewrite Hx.
    - rewrite args_tail_ok by (try exact Hrest; cbn [length] in *; lia). reflexivity.
    - destruct xs; cbn [flat_map app]; auto.
  Qed.
End LoopFacts.

Ltac norm_app := repeat (rewrite <- app_assoc || rewrite <- app_comm_cons); cbn [app].
Ltac len_simpl H := cbn [length] in H; repeat (rewrite app_length in H; cbn [length] in H).

(** ** types *)

Lemma fits_usize_pow2 : forall k, (k <= 63)%nat -> fits_usize (pow2N k) = true.
Proof.
  intros k Hk. unfold fits_usize, pow2N. apply N.ltb_lt.
  change 18446744073709551616 with (2 ^ 64). apply N.pow_lt_mono_r; lia.
Qed.

Lemma parse_bound_pow2 : forall k, bound_ok k = true -> parse_bound (pow2N k) = Some k.
Proof.
  intros k Hk. unfold bound_ok in Hk. apply andb_prop in Hk as [H1 H2].
  apply Nat.leb_le in H1. apply Nat.leb_le in H2.
  unfold parse_bound. rewrite fits_usize_pow2 by exact H2. apply list_bound_exp_pow. exact H1.
Qed.

Lemma forallb_In : forall {A} (f : A -> bool) l x, forallb f l = true -> In x l -> f x = true.
Proof. intros A f l x H Hin. rewrite forallb_forall in H. auto. Qed.

Theorem type_roundtrip_fuel : forall t,
  aty_wf t = true ->
  forall f rest, (length (tokens_aty t) <= f)%nat ->
  parse_ty f (tokens_aty t ++ rest) = Some (t, rest).
Proof.
  induction t as [n|n|a b IHa IHb|a IHa| |k|ts IHts|a n IHa|a k IHa] using aty_ind';
    intros Hwf f rest Hf; cbn [aty_wf] in Hwf; cbn [tokens_aty] in *; len_simpl Hf;
    (destruct f as [|f]; [lia|]).
  - reflexivity.
  - reflexivity.
  - apply andb_prop in Hwf as [Ha Hb]. cbn [app parse_ty]. norm_app.
    rewrite (IHa Ha) by lia. cbn [expect is_comma]. rewrite (IHb Hb) by lia. reflexivity.
  - cbn [app parse_ty]. norm_app. rewrite (IHa Hwf) by lia. reflexivity.
  - reflexivity.
  - cbn [app parse_ty]. rewrite Hwf. reflexivity.
  - cbn [app parse_ty]. norm_app.
    rewrite (tuple_list_ok (fun ts' => parse_ty f ts') tokens_aty (fun x => x) (fun _ => True)); auto.
    + rewrite map_id. reflexivity.
    + rewrite Forall_forall in IHts. apply Forall_forall. intros x Hx. split; [apply tokens_aty_starts|].
      intros rest' _. apply IHts; [exact Hx|exact (forallb_In _ _ _ Hwf Hx)|].
      pose proof (sepl_length_in [TComma] tokens_aty x ts Hx). lia.
    + pose proof (sepl_length_count [TComma] tokens_aty ts
                    (fun x _ => starts_ok_length _ (tokens_aty_starts x))). lia.
  - apply andb_prop in Hwf as [Ha Hn]. cbn [app parse_ty]. norm_app.
    rewrite (IHa Ha) by lia. rewrite Hn, Nat2N.id. reflexivity.
  - apply andb_prop in Hwf as [Ha Hk]. cbn [app parse_ty]. norm_app.
    rewrite (IHa Ha) by lia. rewrite (parse_bound_pow2 k Hk). reflexivity.
Qed.

Theorem type_roundtrip : forall t,
  aty_wf t = true -> parse_ty (length (tokens_aty t)) (tokens_aty t) = Some (t, []).
Proof.
  intros t Hwf. rewrite <- (app_nil_r (tokens_aty t)) at 2. apply type_roundtrip_fuel; [exact Hwf|lia].
Qed.
Print Assumptions type_roundtrip.

(** ** patterns *)

Lemma pat_ind' : forall P : pat -> Prop,
  (forall x, P (PId x)) -> P PIgn ->
  (forall ps, Forall P ps -> P (PTup ps)) -> (forall ps, Forall P ps -> P (PArr ps)) ->
  forall p, P p.
Proof.
  intros P HId HIgn HTup HArr. fix IH 1. intros p.
  destruct p as [x| |ps|ps]; [apply HId|apply HIgn|apply HTup|apply HArr];
    (induction ps as [|q ps IHps]; [constructor|constructor; [apply IH|exact IHps]]).
Qed.

Theorem pattern_roundtrip_fuel : forall p f rest,
  (length (tokens_pat p) <= f)%nat ->
  parse_pat f (tokens_pat p ++ rest) = Some (p, rest).
Proof.
  induction p as [x| |ps IHps|ps IHps] using pat_ind'; intros f rest Hf; cbn [tokens_pat] in *; len_simpl Hf;
    (destruct f as [|f]; [lia|]).
  - reflexivity.
  - reflexivity.
  - cbn [app parse_pat]. norm_app.
    rewrite (tuple_list_ok (fun ts' => parse_pat f ts') tokens_pat (fun x => x) (fun _ => True)); auto.
    + rewrite map_id. reflexivity.
    + rewrite Forall_forall in IHps. apply Forall_forall. intros x Hx. split; [apply tokens_pat_starts|].
      intros rest' _. apply IHps; [exact Hx|].
      pose proof (sepl_length_in [TComma] tokens_pat x ps Hx). lia.
    + pose proof (sepl_length_count [TComma] tokens_pat ps
                    (fun x _ => starts_ok_length _ (tokens_pat_starts x))). lia.
  - cbn [app parse_pat]. norm_app.
    rewrite (seq_list_ok (fun ts' => parse_pat f ts') tokens_pat (fun x => x) (fun _ => True) (fun _ => I)
               (fun _ => I) (fun _ => I) false); auto.
    + rewrite map_id. reflexivity.
    + rewrite Forall_forall in IHps. apply Forall_forall. intros x Hx. split; [apply tokens_pat_starts|].
      intros rest' _. apply IHps; [exact Hx|].
      pose proof (sepl_length_in [TComma] tokens_pat x ps Hx). lia.
    + pose proof (sepl_length_count [TComma] tokens_pat ps
                    (fun x _ => starts_ok_length _ (tokens_pat_starts x))). lia.
Qed.

Theorem pattern_roundtrip : forall p,
  parse_pat (length (tokens_pat p)) (tokens_pat p) = Some (p, []).
Proof.
  intros p. rewrite <- (app_nil_r (tokens_pat p)) at 2. apply pattern_roundtrip_fuel. lia.
Qed.
Print Assumptions pattern_roundtrip.

(** ** match patterns and arms *)

Lemma mpat_roundtrip_fuel : forall m g rest,
  mpat_wf m = true -> (length (tokens_mpat m) <= g)%nat ->
  parse_mpat g (tokens_mpat m ++ rest) = Some (m, rest).
Proof.
  intros m g rest Hwf Hg. destruct m as [x t|x t| |x t| | ]; cbn [tokens_mpat mpat_wf] in *; try reflexivity;
    len_simpl Hg; cbn [app parse_mpat]; norm_app; rewrite (type_roundtrip_fuel t Hwf) by lia; reflexivity.
Qed.

Lemma norm_arms_ok : forall lp el rp er,
  arms_ok lp rp = true -> norm_arms lp el rp er = Some (lp, el, rp, er).
Proof. intros lp el rp er H. destruct lp, rp; try discriminate H; reflexivity. Qed.

(* Match::parse accepts the arms in the other order as well and stores them in the same way *)
Lemma norm_arms_swap : forall lp el rp er,
  arms_ok lp rp = true -> norm_arms rp er lp el = Some (lp, el, rp, er).
Proof. intros lp el rp er H. destruct lp, rp; try discriminate H; reflexivity. Qed.

(** ** expressions *)

Definition ex_ok (pe : list tok -> option (pexpr * list tok)) (e : pexpr) : Prop :=
  elem_ok pe tokens_expr erase_expr nolp e.

Lemma parse_arm_ok : forall pe g m e rest,
  mpat_wf m = true -> (length (tokens_mpat m) <= g)%nat -> ex_ok pe e ->
  parse_arm pe g (tokens_mpat m ++ TFatArrow :: tokens_expr e ++ TComma :: rest) = Some (m, erase_expr e, rest).
Proof.
  intros pe g m e rest Hwf Hg [Hs Hx]. unfold parse_arm.
  rewrite mpat_roundtrip_fuel by assumption. cbn [expect is_fatarrow].
  pose proof (Hx (TComma :: rest) eq_refl) as Hp.
  destruct (tokens_expr e) as [|t l]; [contradiction|]. cbn [app] in *. rewrite Hp.
  destruct (is_lbrace t); reflexivity.
Qed.

Definition tokens_stmt (s : option (ppat * aty) * pexpr) : list tok :=
  match s with
  | (Some (p, t), e1) => tokens_let p t ++ tokens_expr e1 ++ [TSemi]
  | (None, e1) => tokens_expr e1 ++ [TSemi]
  end.

Definition erase_stmt (s : option (ppat * aty) * pexpr) : option (ppat * aty) * pexpr :=
  match s with (o, e1) => (o, erase_expr e1) end.

Definition stmt_ok (pe : list tok -> option (pexpr * list tok)) (g : nat) (s : option (ppat * aty) * pexpr) : Prop :=
  ex_ok pe (snd s) /\
  match fst s with
  | Some (p, t) => aty_wf t = true /\ (length (tokens_pat p) <= g)%nat /\ (length (tokens_aty t) <= g)%nat
  | None => True
  end.

Lemma block_body_step : forall pe g n l r,
  starts_ok l ->
  block_body pe g (S n) (l ++ r)
  = match pe (l ++ r) with
    | Some (e, r1) =>
        match r1 with
        | [] => None
        | t1 :: r2 =>
            if is_semi t1 then
              match block_body pe g n r2 with
              | Some (ss, l', r3) => Some ((None, e) :: ss, l', r3)
              | None => None
              end
            else if is_rbrace t1 then Some ([], Some e, r2)
            else None
        end
    | None => None
    end.
Proof.
  intros pe g n [|t l] r Hs; [contradiction|]. destruct Hs as (_ & _ & H3 & H4).
  cbn [block_body app]. rewrite H3, H4. reflexivity.
Qed.

Lemma block_body_ok : forall pe g ss l n rest,
  Forall (stmt_ok pe g) ss ->
  match l with Some e => ex_ok pe e | None => True end ->
  (length ss < n)%nat ->
  block_body pe g n (flat_map tokens_stmt ss ++ match l with Some e => tokens_expr e | None => [] end
                     ++ TRBrace :: rest)
  = Some (map erase_stmt ss, option_map erase_expr l, rest).
Proof.
  intros pe g ss l. induction ss as [|s ss IH]; intros n rest Hss Hl Hn;
    (destruct n as [|n]; [cbn in Hn; lia|]).
  - cbn [flat_map app map]. destruct l as [e|]; [|reflexivity].
    destruct Hl as [Hs Hx]. rewrite block_body_step by exact Hs.
    rewrite Hx by reflexivity. reflexivity.
  - inversion Hss as [|s0 l0 [[Hs Hx] Hpt] Hrest]; subst. cbn [length] in Hn.
    destruct s as [[[p t]|] e]; cbn [fst snd] in *.
    + destruct Hpt as (Ht & Hlp & Hlt).
      cbn [flat_map tokens_stmt map erase_stmt]. unfold tokens_let. norm_app.
      cbn [block_body is_rbrace is_let].
      rewrite pattern_roundtrip_fuel by exact Hlp. cbn [expect is_colon].
      rewrite (type_roundtrip_fuel t Ht) by exact Hlt. cbn [expect is_eq].
      rewrite Hx by reflexivity. cbn [expect is_semi].
      rewrite IH by (try assumption; lia). reflexivity.
    + cbn [flat_map tokens_stmt map erase_stmt]. norm_app.
      rewrite block_body_step by exact Hs. rewrite Hx by reflexivity. cbn [is_semi].
      rewrite IH by (try assumption; lia). reflexivity.
Qed.

Definition expr_rt_at (e : pexpr) : Prop :=
  expr_wf e = true ->
  forall f rest, (length (tokens_expr e) <= f)%nat -> nolp rest ->
  parse_expr f (tokens_expr e ++ rest) = Some (erase_expr e, rest).

Lemma ex_ok_of_rt : forall e f,
  expr_rt_at e -> expr_wf e = true -> (length (tokens_expr e) <= f)%nat ->
  ex_ok (fun ts' => parse_expr f ts') e.
Proof.
  intros e f Hrt Hwf Hf. split; [apply tokens_expr_starts|]. intros rest Hr. apply Hrt; assumption.
Qed.

Lemma ex_elems_ok : forall es f,
  Forall expr_rt_at es -> forallb expr_wf es = true ->
  (length (sepl [TComma] (map tokens_expr es)) <= f)%nat ->
  Forall (ex_ok (fun ts' => parse_expr f ts')) es /\
  (length es <= length (sepl [TComma] (map tokens_expr es)))%nat.
Proof.
  intros es f Hrt Hwf Hf. split.
  - rewrite Forall_forall in *. intros x Hx. apply ex_ok_of_rt; [apply Hrt; exact Hx|exact (forallb_In _ _ _ Hwf Hx)|].
    pose proof (sepl_length_in [TComma] tokens_expr x es Hx). lia.
  - pose proof (sepl_length_count [TComma] tokens_expr es
                  (fun x _ => starts_ok_length _ (tokens_expr_starts x))). exact H.
Qed.

Ltac follow_goals := try (intros; reflexivity).

(* the `call` part of parse_expr *)
Lemma call_args_ok : forall f name args rest,
  Forall expr_rt_at args -> forallb expr_wf args = true ->
  (length (sepl [TComma] (map tokens_expr args)) <= f)%nat ->
  match TLParen :: sepl [TComma] (map tokens_expr args) ++ TRParen :: rest with
  | TLParen :: r1 =>
      match args_list (fun ts' => parse_expr f ts') f r1 with
      | Some (args', r2) => Some (PCall 0 name args', r2)
      | None => None
      end
  | _ => None
  end = Some (PCall 0 name (map erase_expr args), rest).
Proof.
  intros f name args rest Hrt Hwf Hf. destruct (ex_elems_ok args f Hrt Hwf Hf) as [Hall Hlen].
  rewrite (args_list_ok (fun ts' => parse_expr f ts') tokens_expr erase_expr nolp); follow_goals; auto. lia.
Qed.

Theorem expr_roundtrip_fuel : forall e, expr_rt_at e.
Proof.
  induction e as [ss l Hss Hl|b|li|n|n|x|e IHe|es IHes|es IHes|es IHes|e IHe|e IHe| |e IHe
                 |sp name args IHargs|s lp el rp er IHs IHl IHr] using pexpr_ind';
    intros Hwf f rest Hf Hrest; cbn [expr_wf] in Hwf; cbn [tokens_expr] in Hf; len_simpl Hf;
    (destruct f as [|f]; [lia|]).
  - (* PBlock *)
    apply andb_prop in Hwf as [Hwss Hwl].
    change (tokens_expr (PBlock ss l))
      with (TLBrace :: flat_map tokens_stmt ss ++ match l with Some e1 => tokens_expr e1 | None => [] end ++ [TRBrace]).
    change (erase_expr (PBlock ss l)) with (PBlock (map erase_stmt ss) (option_map erase_expr l)).
    change (length (flat_map _ ss)) with (length (flat_map tokens_stmt ss)) in Hf.
    norm_app. cbn [parse_expr].
    rewrite block_body_ok; [reflexivity| | |].
    + rewrite Forall_forall in *. intros s Hs. specialize (Hss s Hs).
      pose proof (forallb_In _ _ _ Hwss Hs) as Hws. cbn beta in Hws.
      assert (Hlen : (length (tokens_stmt s) <= f)%nat).
      { assert (length (tokens_stmt s) <= length (flat_map tokens_stmt ss))%nat; [|lia].
        clear - Hs. induction ss as [|s' ss IH]; [contradiction|]. cbn [flat_map]. rewrite app_length.
        destruct Hs as [->|Hs]; [lia|]. specialize (IH Hs). lia. }
      destruct s as [[[p t]|] e]; unfold stmt_ok; cbn [snd fst tokens_stmt] in *; unfold tokens_let in *; len_simpl Hlen.
      * apply andb_prop in Hws as [Hwt Hwe]. split; [apply ex_ok_of_rt; [exact Hss|exact Hwe|lia]|].
        repeat split; [exact Hwt|lia|lia].
      * split; [apply ex_ok_of_rt; [exact Hss|exact Hws|lia]|exact I].
    + destruct l as [e|]; [|exact I]. cbn [popt_P] in Hl. apply ex_ok_of_rt; [exact Hl|exact Hwl|lia].
    + assert (length ss <= length (flat_map tokens_stmt ss))%nat; [|lia].
      clear. induction ss as [|s ss IH]; [cbn; lia|]. cbn [flat_map length]. rewrite app_length.
      assert (1 <= length (tokens_stmt s))%nat; [|lia].
      destruct s as [[[p t]|] e]; cbn [tokens_stmt]; unfold tokens_let; rewrite ?app_length; cbn [length]; lia.
  - (* PBool *) destruct b; reflexivity.
  - (* PLit *) destruct li; cbn [lit_wf] in Hwf; cbn [tokens_expr lit_tok app parse_expr]; rewrite Hwf; reflexivity.
  - reflexivity.
  - reflexivity.
  - (* PVar *) cbn [tokens_expr app parse_expr]. destruct rest as [|t r]; [reflexivity|].
    cbn [nolp] in Hrest. rewrite Hrest. reflexivity.
  - (* PParen *) cbn [tokens_expr app parse_expr]. norm_app.
    rewrite (tuple_list_paren (fun ts' => parse_expr f ts') tokens_expr erase_expr nolp); follow_goals.
    apply ex_ok_of_rt; [exact IHe|exact Hwf|lia].
  - (* PTuple *) cbn [tokens_expr app parse_expr]. norm_app.
    assert (Hl : (length (sepl [TComma] (map tokens_expr es)) <= f)%nat) by (clear - Hf; lia).
    destruct (ex_elems_ok es f IHes Hwf Hl) as [Hall Hlen].
    rewrite (tuple_list_ok (fun ts' => parse_expr f ts') tokens_expr erase_expr nolp); follow_goals; auto. lia.
  - (* PArray *) cbn [tokens_expr app parse_expr]. norm_app.
    assert (Hl : (length (sepl [TComma] (map tokens_expr es)) <= f)%nat) by (clear - Hf; lia).
    destruct (ex_elems_ok es f IHes Hwf Hl) as [Hall Hlen].
    rewrite (seq_list_ok (fun ts' => parse_expr f ts') tokens_expr erase_expr nolp) with (paren := false);
      follow_goals; auto. clear - Hf Hlen. lia.
  - (* PList *) cbn [tokens_expr app parse_expr]. norm_app.
    assert (Hl : (length (sepl [TComma] (map tokens_expr es)) <= f)%nat) by (clear - Hf; lia).
    destruct (ex_elems_ok es f IHes Hwf Hl) as [Hall Hlen].
    rewrite (seq_list_ok (fun ts' => parse_expr f ts') tokens_expr erase_expr nolp) with (paren := false);
      follow_goals; auto. clear - Hf Hlen. lia.
  - (* PLeft *) cbn [tokens_expr app parse_expr]. norm_app. rewrite (IHe Hwf) by (try reflexivity; lia). reflexivity.
  - (* PRight *) cbn [tokens_expr app parse_expr]. norm_app. rewrite (IHe Hwf) by (try reflexivity; lia). reflexivity.
  - reflexivity.
  - (* PSome *) cbn [tokens_expr app parse_expr]. norm_app. rewrite (IHe Hwf) by (try reflexivity; lia). reflexivity.
  - (* PCall *)
    apply andb_prop in Hwf as [Hwn Hwa]. cbn [erase_expr].
    destruct name as [j|t|t|t| | | | |t|fn|fn k|fn]; cbn [tokens_callname callname_wf] in *; len_simpl Hf;
      cbn [tokens_expr tokens_callname app parse_expr]; norm_app;
      try (rewrite (type_roundtrip_fuel t Hwn) by lia; cbn [expect is_gt is_gtinto]);
      try (rewrite (parse_bound_pow2 k Hwn));
      try (cbn [is_lparen]);
      apply call_args_ok; auto; lia.
  - (* PMatch *)
    repeat (apply andb_prop in Hwf as [Hwf ?]).
    cbn [tokens_expr app parse_expr erase_expr]. norm_app.
    rewrite (IHs Hwf) by (try reflexivity; lia). cbn [expect is_lbrace].
    rewrite parse_arm_ok by first [assumption | (clear - Hf; lia) | (apply ex_ok_of_rt; [assumption|assumption|clear - Hf; lia])].
    rewrite parse_arm_ok by first [assumption | (clear - Hf; lia) | (apply ex_ok_of_rt; [assumption|assumption|clear - Hf; lia])].
    cbn [expect is_rbrace]. rewrite norm_arms_ok by assumption. reflexivity.
Qed.

Theorem expr_roundtrip : forall e,
  expr_wf e = true -> parse_expr (length (tokens_expr e)) (tokens_expr e) = Some (erase_expr e, []).
Proof.
  intros e Hwf. rewrite <- (app_nil_r (tokens_expr e)) at 2. apply expr_roundtrip_fuel; [exact Hwf|lia|exact I].
Qed.
Print Assumptions expr_roundtrip.

(** ** items and programs *)

Lemma param_ok : forall f p,
  aty_wf (snd p) = true -> (length (tokens_param p) <= f)%nat ->
  elem_ok (parse_param f) tokens_param (fun x => x) (fun _ => True) p.
Proof.
  intros f [x t] Hwf Hf. split; [apply tokens_param_starts|]. intros rest _.
  unfold tokens_param in *. cbn [fst snd app parse_param] in *. len_simpl Hf.
  rewrite (type_roundtrip_fuel t Hwf) by lia. reflexivity.
Qed.

Lemma fn_body_ok : forall f name ps ret body rest,
  is_block body = true -> expr_wf body = true -> (length (tokens_expr body) <= f)%nat -> nolp rest ->
  match tokens_expr body ++ rest with
  | TLBrace :: _ =>
      match parse_expr f (tokens_expr body ++ rest) with
      | Some (b, r3) => Some (IFunction name ps ret b, r3)
      | None => None
      end
  | _ => None
  end = Some (IFunction name ps ret (erase_expr body), rest).
Proof.
  intros f name ps ret body rest Hb Hwf Hf Hrest.
  rewrite (expr_roundtrip_fuel body Hwf f rest Hf Hrest).
  destruct body; try discriminate Hb. reflexivity.
Qed.

Lemma item_roundtrip_fuel : forall i f rest,
  item_wf i = true -> (length (tokens_item i) <= f)%nat -> nolp rest ->
  parse_item f (tokens_item i ++ rest) = Some (erase_item i, rest).
Proof.
  intros i f rest Hwf Hf Hrest. destruct i as [n t|name ps ret body| ]; cbn [item_wf tokens_item] in *; len_simpl Hf.
  - cbn [app parse_item erase_item]. norm_app. rewrite (type_roundtrip_fuel t Hwf) by lia. reflexivity.
  - apply andb_prop in Hwf as [Hwf Hwb]. apply andb_prop in Hwf as [Hwf Hbl]. apply andb_prop in Hwf as [Hwp Hwr].
    cbn [app parse_item erase_item]. norm_app.
    rewrite (args_list_ok (parse_param f) tokens_param (fun x => x) (fun _ => True)); auto.
    + rewrite map_id. destruct ret as [t|].
      * cbn [app]. norm_app. len_simpl Hf. rewrite (type_roundtrip_fuel t Hwr) by lia.
        apply fn_body_ok; try assumption. lia.
      * cbn [app]. destruct body as [ss l| | | | | | | | | | | | | | | ]; try discriminate Hbl.
        apply (fn_body_ok f name ps None (PBlock ss l) rest); try assumption. cbn [length] in Hf. lia.
    + apply Forall_forall. intros p Hp. apply param_ok.
      * exact (forallb_In _ _ _ Hwp Hp).
      * pose proof (sepl_length_in [TComma] tokens_param p ps Hp). lia.
    + pose proof (sepl_length_count [TComma] tokens_param ps
                    (fun x _ => starts_ok_length _ (tokens_param_starts x))). lia.
  - do 4 (destruct f as [|f]; [cbn in Hf; lia|]). reflexivity.
Qed.

Lemma nolp_program : forall p, nolp (tokens_program p).
Proof. intros [|i p]; [exact I|]. destruct i; reflexivity. Qed.

Lemma parse_items_step : forall f n i r,
  parse_items f (S n) (tokens_item i ++ r)
  = match parse_item f (tokens_item i ++ r) with
    | Some (i', r') =>
        match parse_items f n r' with
        | Some is => Some (i' :: is)
        | None => None
        end
    | None => None
    end.
Proof. intros f n i r. destruct i; reflexivity. Qed.

Lemma items_roundtrip : forall p f n,
  prog_wf p = true ->
  (forall i, In i p -> (length (tokens_item i) <= f)%nat) -> (length p < n)%nat ->
  parse_items f n (tokens_program p) = Some (erase_program p).
Proof.
  induction p as [|i p IH]; intros f n Hwf Hf Hn; (destruct n as [|n]; [cbn in Hn; lia|]).
  - reflexivity.
  - cbn [prog_wf forallb] in Hwf. apply andb_prop in Hwf as [Hi Hp].
    change (tokens_program (i :: p)) with (tokens_item i ++ tokens_program p).
    rewrite parse_items_step.
    rewrite item_roundtrip_fuel by (try exact Hi; try apply nolp_program; apply Hf; left; reflexivity).
    rewrite IH; [reflexivity|exact Hp| |cbn [length] in Hn; lia].
    intros i' Hi'. apply Hf. right. exact Hi'.
Qed.

Lemma tokens_item_length : forall i, (1 <= length (tokens_item i))%nat.
Proof. destruct i; cbn; lia. Qed.

Lemma tokens_program_bounds : forall p,
  (length p <= length (tokens_program p))%nat /\
  (forall i, In i p -> (length (tokens_item i) <= length (tokens_program p))%nat).
Proof.
  induction p as [|j p [IH1 IH2]]; [split; [cbn; lia|intros i []]|].
  change (tokens_program (j :: p)) with (tokens_item j ++ tokens_program p). rewrite app_length.
  pose proof (tokens_item_length j). split; [cbn [length]; lia|].
  intros i [->|Hi]; [lia|]. specialize (IH2 i Hi). lia.
Qed.

(* MAIN THEOREM: the tokens the printer emits for a parse tree with the properties the parser guarantees
   ([prog_wf]) are read back as the same tree (up to the span ids of calls, which the text does not carry).
   Any fuel above the number of tokens suffices. *)
Theorem print_tokens_roundtrip : forall p fuel,
  prog_wf p = true -> (length (tokens_program p) < fuel)%nat ->
  parse_tokens fuel (tokens_program p) = Some (erase_program p).
Proof.
  intros p fuel Hwf Hfuel. unfold parse_tokens. destruct (tokens_program_bounds p) as [H1 H2].
  apply items_roundtrip; [exact Hwf| |lia].
  intros i Hi. specialize (H2 i Hi). lia.
Qed.
Print Assumptions print_tokens_roundtrip.

Corollary print_tokens_roundtrip_default : forall p,
  prog_wf p = true -> parse_token_list (tokens_program p) = Some (erase_program p).
Proof. intros p Hwf. unfold parse_token_list. apply print_tokens_roundtrip; [exact Hwf|lia]. Qed.

(* printing is injective on well-formed trees, up to span ids *)
Corollary tokens_injective : forall p q,
  tokens_program p = tokens_program q -> prog_wf p = true -> prog_wf q = true ->
  erase_program p = erase_program q.
Proof.
  intros p q Heq Hp Hq.
  pose proof (print_tokens_roundtrip_default p Hp) as H1.
  pose proof (print_tokens_roundtrip_default q Hq) as H2.
  rewrite Heq in H1. rewrite H1 in H2. now inversion H2.
Qed.
Print Assumptions tokens_injective.

(** ** trees without span ids *)

Fixpoint expr_sp0 (e : pexpr) : bool :=
  match e with
  | PBlock ss l =>
      forallb (fun s : option (ppat * aty) * pexpr => expr_sp0 (snd s)) ss
      && match l with Some e1 => expr_sp0 e1 | None => true end
  | PBool _ | PLit _ | PWitness _ | PParam _ | PVar _ | PNone => true
  | PParen e1 | PLeft e1 | PRight e1 | PSome e1 => expr_sp0 e1
  | PTuple es | PArray es | PList es => forallb expr_sp0 es
  | PCall sp _ args => (sp =? 0) && forallb expr_sp0 args
  | PMatch s _ el _ er => expr_sp0 s && expr_sp0 el && expr_sp0 er
  end.

Definition item_sp0 (i : pitem) : bool :=
  match i with IFunction _ _ _ body => expr_sp0 body | _ => true end.

Definition prog_sp0 (p : pprogram) : bool := forallb item_sp0 p.

Lemma map_id_In : forall {A} (f : A -> A) l, (forall x, In x l -> f x = x) -> map f l = l.
Proof.
  intros A f l H. induction l as [|x l IH]; [reflexivity|]. cbn [map].
  rewrite H by (left; reflexivity). rewrite IH; [reflexivity|]. intros y Hy. apply H. right. exact Hy.
Qed.

Lemma erase_expr_sp0 : forall e, expr_sp0 e = true -> erase_expr e = e.
Proof.
  induction e as [ss l Hss Hl|b|li|n|n|x|e IHe|es IHes|es IHes|es IHes|e IHe|e IHe| |e IHe
                 |sp name args IHargs|s lp el rp er IHs IHl IHr] using pexpr_ind';
    intros H0; cbn [expr_sp0 erase_expr] in *; try reflexivity;
    try (rewrite IHe by exact H0; reflexivity);
    try (rewrite map_id_In; [reflexivity|]; rewrite Forall_forall in IHes; intros x Hx; apply IHes;
         [exact Hx|exact (forallb_In _ _ _ H0 Hx)]).
  - apply andb_prop in H0 as [H1 H2]. f_equal.
    + apply map_id_In. rewrite Forall_forall in Hss. intros [o e1] Hx. f_equal.
      apply (Hss _ Hx). exact (forallb_In _ _ _ H1 Hx).
    + destruct l as [e1|]; [|reflexivity]. cbn [popt_P] in Hl. now rewrite Hl.
  - apply andb_prop in H0 as [H1 H2]. apply N.eqb_eq in H1. subst sp. f_equal.
    apply map_id_In. rewrite Forall_forall in IHargs. intros x Hx. apply IHargs; [exact Hx|exact (forallb_In _ _ _ H2 Hx)].
  - apply andb_prop in H0 as [H1 H3]. apply andb_prop in H1 as [H1 H2].
    now rewrite IHs, IHl, IHr.
Qed.

Lemma erase_program_sp0 : forall p, prog_sp0 p = true -> erase_program p = p.
Proof.
  intros p H. apply map_id_In. intros i Hi. pose proof (forallb_In _ _ _ H Hi) as H0.
  destruct i as [| name ps ret body|]; try reflexivity. cbn [item_sp0 erase_item] in *. now rewrite erase_expr_sp0.
Qed.

Corollary print_tokens_roundtrip_sp0 : forall p,
  prog_wf p = true -> prog_sp0 p = true -> parse_token_list (tokens_program p) = Some p.
Proof. intros p Hwf H0. rewrite print_tokens_roundtrip_default by exact Hwf. now rewrite erase_program_sp0. Qed.

Corollary tokens_injective_sp0 : forall p q,
  tokens_program p = tokens_program q -> prog_wf p = true -> prog_wf q = true ->
  prog_sp0 p = true -> prog_sp0 q = true -> p = q.
Proof.
  intros p q Heq Hp Hq Hp0 Hq0. rewrite <- (erase_program_sp0 p Hp0), <- (erase_program_sp0 q Hq0).
  now apply tokens_injective.
Qed.
Print Assumptions tokens_injective_sp0.

(** * Part 1: the verbose pre-order iterator on any tree with a node count *)

Section VPOGen.
  Context {T : Type}.
  Variable children : T -> list T.
  Variable count : T -> nat.
  Hypothesis Hcount : forall t, count t = S (list_sum (map count (children t))).

  (* the items yielded for the subtree t, by recursion on the count *)
  Fixpoint gev (fuel : nat) (t : T) : list (vpo_item T) :=
    match fuel with
    | O => []
    | S f => node_items children (gev f) t
    end.
  Definition vev (t : T) : list (vpo_item T) := gev (count t) t.

  Lemma count_child : forall t c, In c (children t) -> (count c < count t)%nat.
  Proof.
    intros t c Hc. rewrite (Hcount t). pose proof (list_sum_in_le count c (children t) Hc). lia.
  Qed.

  Lemma gev_stable : forall f1 f2 t, (count t <= f1)%nat -> (count t <= f2)%nat -> gev f1 t = gev f2 t.
  Proof.
    induction f1 as [|f1 IH]; intros f2 t H1 H2.
    - pose proof (Hcount t). lia.
    - destruct f2 as [|f2]; [pose proof (Hcount t); lia|]. cbn [gev]. unfold node_items. f_equal. f_equal.
      apply map_ext_in. intros c Hc. pose proof (count_child t c Hc). apply IH; lia.
  Qed.

  Lemma vev_unfold : forall t, vev t = node_items children vev t.
  Proof.
    intros t. unfold vev at 1. pose proof (Hcount t) as H. rewrite H. cbn [gev]. unfold node_items.
    f_equal. f_equal. apply map_ext_in. intros c Hc. unfold vev.
    pose proof (list_sum_in_le count c (children t) Hc). apply gev_stable; lia.
  Qed.

  Lemma vev_good : forall t, vpo_good children vev t.
  Proof.
    assert (H : forall n t, (count t <= n)%nat -> vpo_good children vev t).
    { induction n as [|n IH]; intros t Hn; [pose proof (Hcount t); lia|].
      unfold vpo_good. intros fuel st Hf. rewrite (vev_unfold t) in *.
      apply vpo_node; [|exact Hf]. apply Forall_forall. intros c Hc.
      pose proof (count_child t c Hc). apply IH. lia. }
    intros t. apply (H (count t)). lia.
  Qed.

  Lemma vev_length : forall t, S (length (vev t)) = (2 * count t)%nat.
  Proof.
    assert (H : forall n t, (count t <= n)%nat -> S (length (vev t)) = (2 * count t)%nat).
    { induction n as [|n IH]; intros t Hn; [pose proof (Hcount t); lia|].
      rewrite (vev_unfold t). unfold node_items. cbn [length]. rewrite interleave_length, map_map.
      rewrite (Hcount t).
      assert (Hl : forall l, (forall c, In c l -> In c (children t)) ->
                list_sum (map (fun c => S (length (vev c))) l) = (2 * list_sum (map count l))%nat).
      { induction l as [|c l IHl]; intros Hin; [reflexivity|].
        cbn [map list_sum fold_right].
        fold (list_sum (map (fun c0 => S (length (vev c0))) l)). fold (list_sum (map count l)).
        rewrite IHl by (intros c0 Hc0; apply Hin; right; exact Hc0).
        pose proof (count_child t c (Hin c (or_introl eq_refl))).
        rewrite (IH c) by lia. lia. }
      rewrite Hl by auto. lia. }
    intros t. apply (H (count t)). lia.
  Qed.

  Lemma vpo_run_nil : forall fuel, vpo_run children fuel [] = [].
  Proof. destruct fuel; reflexivity. Qed.

  (* with fuel 2 * count t the iterator yields exactly the items of t *)
  Lemma vev_machine : forall t, vpo_run children (2 * count t) [vpo_initial children t] = vev t.
  Proof.
    intros t. pose proof (vev_length t). rewrite (vev_good t) by lia. rewrite vpo_run_nil. apply app_nil_r.
  Qed.

  Section Disp.
    Variable disp : vpo_item T -> list N.
    Definition vtxt (t : T) : list N := flat_map disp (vev t).

    Lemma vtxt_inter : forall t nc cs i,
      flat_map disp (interleave t nc i (map vev cs))
      = inter_out vtxt (fun j => disp (t, j, Nat.eqb j nc)) i cs.
    Proof.
      intros t nc cs. induction cs as [|c cs IH]; intros i; cbn [map interleave inter_out flat_map]; [reflexivity|].
      rewrite flat_map_app. cbn [flat_map]. rewrite IH. reflexivity.
    Qed.

    (* what is printed for a node: its first visit, then every child followed by the revisit *)
    Lemma vtxt_unfold : forall t,
      vtxt t = disp (vpo_initial children t)
               ++ inter_out vtxt (fun j => disp (t, j, Nat.eqb j (length (children t)))) 0 (children t).
    Proof.
      intros t. unfold vtxt at 1. rewrite (vev_unfold t). unfold node_items. cbn [flat_map].
      rewrite vtxt_inter. reflexivity.
    Qed.
  End Disp.
End VPOGen.

(** * Part 2: the state machines print what the structural printers print *)

Lemma render_app : forall ns a b, render ns (a ++ b) = render ns a ++ render ns b.
Proof. intros. apply flat_map_app. Qed.
Lemma render_cons : forall ns i l, render ns (i :: l) = render_item ns i ++ render ns l.
Proof. reflexivity. Qed.
Lemma render_nil : forall ns, render ns [] = [].
Proof. reflexivity. Qed.

Ltac rnorm :=
  repeat (rewrite render_app || rewrite render_cons || rewrite render_nil);
  cbn [render_item spell nl sp ind]; repeat rewrite <- app_assoc; cbn [app]; rewrite ?app_nil_r.

Lemma render_sepl : forall ns sep xs,
  render ns (sepl sep xs) = sep_by (render ns sep) (map (render ns) xs).
Proof.
  intros ns sep xs. induction xs as [|x [|y xs] IH]; [reflexivity|reflexivity|].
  rewrite sepl_cons2. cbn [map]. rewrite sep_by_cons2. rewrite !render_app, IH. reflexivity.
Qed.

Lemma map_ext_Forall : forall {A B} (f g : A -> B) l, Forall (fun x => f x = g x) l -> map f l = map g l.
Proof. intros A B f g l H. induction H as [|x l Hx _ IH]; [reflexivity|]. cbn [map]. now rewrite Hx, IH. Qed.

(* the common shape of tuples, arrays, lists and call arguments *)
Lemma seq_text : forall {A} (pp : A -> list N) open close extra cs,
  seq_display open close extra 0 (Nat.eqb (length cs) 0)
  ++ inter_out pp (fun j => seq_display open close extra j (Nat.eqb j (length cs))) 0%nat cs
  = open ++ sep_by [44; 32] (map pp cs) ++ (if extra && nonempty cs then [44; 32] else []) ++ close.
Proof.
  intros A pp open close extra cs. destruct cs as [|c cs].
  - cbn [length Nat.eqb seq_display inter_out map sep_by nonempty app]. rewrite andb_false_r. cbn [app]. apply app_nil_r.
  - rewrite (inter_out_sep pp _ [44; 32] ((if extra then [44; 32] else []) ++ close) (length (c :: cs))).
    + cbn [length Nat.eqb nonempty]. unfold seq_display. rewrite andb_true_r, app_nil_r. reflexivity.
    + intros j Hj. destruct j as [|j]; [lia|]. unfold seq_display.
      replace (Nat.eqb (S j) (length (c :: cs))) with false by (symmetry; apply Nat.eqb_neq; lia).
      cbn [negb orb]. apply app_nil_r.
    + unfold seq_display. rewrite Nat.eqb_refl. cbn [length negb orb]. reflexivity.
    + reflexivity.
    + discriminate.
Qed.

Section MachineProofs.
  Variable ns : N -> list N.

  (** ** types *)
  Definition adisp (it : vpo_item aty) : list N := let '(node, n, _) := it in aty_display ns node n.

  Lemma aty_count_eq : forall t, aty_count t = S (list_sum (map aty_count (aty_children t))).
  Proof. destruct t; try reflexivity; cbn [aty_count aty_children map list_sum fold_right]; lia. Qed.

  Local Notation atxt := (vtxt aty_children aty_count adisp).

  Lemma atxt_unfold : forall t,
    atxt t = aty_display ns t 0
             ++ inter_out atxt (fun j => aty_display ns t j) 0%nat (aty_children t).
  Proof. intros t. rewrite (vtxt_unfold aty_children aty_count aty_count_eq adisp t). reflexivity. Qed.

  Lemma aty_txt : forall t, atxt t = render ns (lay_aty t).
  Proof.
    induction t as [n|n|a b IHa IHb|a IHa| |k|ts IHts|a n IHa|a k IHa] using aty_ind';
      rewrite atxt_unfold; cbn [aty_children inter_out aty_display lay_aty].
    - rnorm. reflexivity.
    - rnorm. reflexivity.
    - rewrite IHa, IHb. rnorm. reflexivity.
    - rewrite IHa. rnorm. reflexivity.
    - rnorm. reflexivity.
    - rnorm. reflexivity.
    - destruct ts as [|a [|b ts]].
      + reflexivity.
      + inversion IHts as [|x l Ha _]; subst. cbn [inter_out aty_display length Nat.eqb map sepl one app].
        rewrite Ha. rnorm. reflexivity.
      + rewrite (inter_out_sep atxt _ [44; 32] [41] (length (a :: b :: ts))).
        * rewrite (map_ext_Forall _ _ _ IHts). cbn [one]. rnorm.
          rewrite render_sepl, map_map. reflexivity.
        * intros j Hj. destruct j as [|j]; [lia|]. cbn beta.
          replace (Nat.eqb (S j) (length (a :: b :: ts))) with false by (symmetry; apply Nat.eqb_neq; lia).
          reflexivity.
        * cbn [length]. rewrite Nat.eqb_refl. reflexivity.
        * reflexivity.
        * discriminate.
    - rewrite IHa. rnorm. reflexivity.
    - rewrite IHa. rnorm. reflexivity.
  Qed.

  (* MAIN THEOREM (types): the machine of Display for AliasedType prints the structural text *)
  Theorem aty_print_machine_eq : forall t, aty_print_machine ns t = print_aty ns t.
  Proof.
    intros t. unfold aty_print_machine, print_aty.
    rewrite (vev_machine aty_children aty_count aty_count_eq). apply aty_txt.
  Qed.
End MachineProofs.
Print Assumptions aty_print_machine_eq.

Lemma one_len : forall {A B} (l : list A) (f : A -> B),
  Nat.eqb (length l) 1 && nonempty (map f l) = one l.
Proof. intros A B [|a [|b l]] f; reflexivity. Qed.

Lemma one_len' : forall {A} (l : list A), Nat.eqb (length l) 1 && nonempty l = one l.
Proof. intros A [|a [|b l]]; reflexivity. Qed.

Section MachineProofs2.
  Variable ns : N -> list N.

  (** ** patterns *)
  Lemma pat_count_eq : forall p, pat_count p = S (list_sum (map pat_count (pat_children p))).
  Proof. destruct p; reflexivity. Qed.

  Local Notation ptxt := (vtxt pat_children pat_count (pat_display ns)).

  Lemma ptxt_unfold : forall p,
    ptxt p = pat_display ns (p, 0%nat, Nat.eqb (length (pat_children p)) 0)
             ++ inter_out ptxt (fun j => pat_display ns (p, j, Nat.eqb j (length (pat_children p)))) 0%nat
                  (pat_children p).
  Proof. intros p. rewrite (vtxt_unfold pat_children pat_count pat_count_eq (pat_display ns) p). reflexivity. Qed.

  Lemma render_if_csp : forall b : bool, render ns (if b then csp else []) = if b then [44; 32] else [].
  Proof. destruct b; reflexivity. Qed.

  Lemma pat_txt : forall p, ptxt p = render ns (lay_pat p).
  Proof.
    induction p as [x| |ps IHps|ps IHps] using pat_ind'; rewrite ptxt_unfold;
      cbn [pat_children pat_display lay_pat].
    - cbn [length Nat.eqb inter_out]. rnorm. reflexivity.
    - cbn [length Nat.eqb inter_out]. rnorm. reflexivity.
    - rewrite seq_text. rewrite (map_ext_Forall _ _ _ IHps), one_len'. rnorm.
      rewrite render_sepl, map_map, render_if_csp. reflexivity.
    - rewrite seq_text. rewrite (map_ext_Forall _ _ _ IHps). rnorm.
      rewrite render_sepl, map_map. reflexivity.
  Qed.

  (* MAIN THEOREM (patterns): the machine of Display for Pattern prints the structural text *)
  Theorem pat_print_machine_eq : forall p, pat_print_machine ns p = print_pat ns p.
  Proof.
    intros p. unfold pat_print_machine, print_pat.
    rewrite (vev_machine pat_children pat_count pat_count_eq). apply pat_txt.
  Qed.

  (** ** call names and match patterns *)
  Lemma callname_txt : forall c, callname_machine ns c = render ns (lay_callname c).
  Proof.
    destruct c; cbn [callname_machine lay_callname]; rewrite ?aty_print_machine_eq; unfold print_aty;
      rnorm; reflexivity.
  Qed.

  Lemma mpat_txt : forall m, mpat_machine ns m = render ns (lay_mpat m).
  Proof.
    destruct m; cbn [mpat_machine lay_mpat]; rewrite ?aty_print_machine_eq; unfold print_aty;
      rnorm; reflexivity.
  Qed.

  (** ** expressions *)
  Lemma ex_count_ge2 : forall e, (2 <= ex_count e)%nat.
  Proof. destruct e; cbn [ex_count]; lia. Qed.

  Lemma sum_NExpr : forall es, list_sum (map en_count (map NExpr es)) = list_sum (map ex_count es).
  Proof. intros es. rewrite map_map. reflexivity. Qed.

  Lemma sum_NStmt : forall ss, list_sum (map en_count (map NStmt ss)) = list_sum (map stmt_count ss).
  Proof. intros ss. rewrite map_map. reflexivity. Qed.

  Lemma ex_count_block : forall ss l,
    ex_count (PBlock ss l)
    = S (S (list_sum (map stmt_count ss) + match l with Some e1 => ex_count e1 | None => O end)).
  Proof. reflexivity. Qed.

  Lemma en_count_eq : forall t, en_count t = S (list_sum (map en_count (en_children t))).
  Proof.
    destruct t as [e|ss l|s|p t e|e|name args|s lp el rp er].
    - destruct e as [ss l| | | | | | | | | | | | | | | ];
        cbn [en_children en_count map list_sum fold_right]; rewrite ?ex_count_block; cbn [ex_count pred]; lia.
    - cbn [en_children en_count]. rewrite map_app, list_sum_app, sum_NStmt.
      destruct l as [e|]; cbn [map list_sum fold_right en_count]; lia.
    - destruct s as [[[p t]|] e]; cbn [en_children en_count stmt_count map list_sum fold_right]; lia.
    - cbn [en_children en_count map list_sum fold_right]. lia.
    - destruct e; cbn [en_children en_count ex_count pred]; rewrite ?sum_NExpr;
        cbn [map list_sum fold_right en_count]; lia.
    - cbn [en_children en_count]. rewrite sum_NExpr. reflexivity.
    - cbn [en_children en_count map list_sum fold_right]. lia.
  Qed.

  Local Notation etxt := (vtxt en_children en_count (en_display ns)).

  Lemma etxt_unfold : forall t,
    etxt t = en_display ns (t, 0%nat, Nat.eqb (length (en_children t)) 0)
             ++ inter_out etxt (fun j => en_display ns (t, j, Nat.eqb j (length (en_children t)))) 0%nat
                  (en_children t).
  Proof. intros t. rewrite (vtxt_unfold en_children en_count en_count_eq (en_display ns) t). reflexivity. Qed.

  Lemma etxt_single : forall e, is_block e = false -> etxt (NExpr e) = etxt (NSingle e).
  Proof.
    intros e H. rewrite (etxt_unfold (NExpr e)).
    destruct e; try discriminate H; cbn [en_children length Nat.eqb en_display inter_out app]; apply app_nil_r.
  Qed.

  Lemma etxt_block : forall ss l, etxt (NExpr (PBlock ss l)) = etxt (NBlock ss l).
  Proof.
    intros ss l. rewrite (etxt_unfold (NExpr _)).
    cbn [en_children length Nat.eqb en_display inter_out app]. apply app_nil_r.
  Qed.

  (* a block: "{\n", the children separated by four spaces, "}\n" *)
  Lemma block_text : forall ss l cs,
    en_display ns (NBlock ss l, 0%nat, Nat.eqb (length cs) 0)
    ++ inter_out etxt (fun j => en_display ns (NBlock ss l, j, Nat.eqb j (length cs))) 0%nat cs
    = [123; 10] ++ sep_by [32;32;32;32] (map etxt cs) ++ [125; 10].
  Proof.
    intros ss l cs. destruct cs as [|c cs]; [reflexivity|].
    rewrite (inter_out_sep etxt _ [32;32;32;32] [125; 10] (length (c :: cs))).
    - reflexivity.
    - intros j Hj. destruct j as [|j]; [lia|]. cbn [en_display].
      replace (Nat.eqb (S j) (length (c :: cs))) with false by (symmetry; apply Nat.eqb_neq; lia).
      reflexivity.
    - cbn [en_display length]. rewrite Nat.eqb_refl. reflexivity.
    - reflexivity.
    - discriminate.
  Qed.

  Definition lay_stmt (s : option (ppat * aty) * pexpr) : list litem :=
    match s with
    | (Some (p, t), e1) => lay_let p t ++ lay_expr e1 ++ [LT TSemi; nl]
    | (None, e1) => lay_expr e1 ++ [LT TSemi; nl]
    end.

  Lemma stmt_txt : forall s,
    etxt (NExpr (snd s)) = render ns (lay_expr (snd s)) -> etxt (NStmt s) = render ns (lay_stmt s).
  Proof.
    intros [[[p t]|] e] He; cbn [snd] in He; rewrite (etxt_unfold (NStmt _));
      cbn [en_children length Nat.eqb en_display inter_out lay_stmt].
    - rewrite (etxt_unfold (NAssign _ _ _)). cbn [en_children length Nat.eqb en_display inter_out].
      rewrite He, pat_print_machine_eq, aty_print_machine_eq. unfold print_pat, print_aty, lay_let.
      rnorm. reflexivity.
    - rewrite He. rnorm. reflexivity.
  Qed.

  Lemma expr_txt : forall e, etxt (NExpr e) = render ns (lay_expr e).
  Proof.
    induction e as [ss l Hss Hl|b|li|n|n|x|e IHe|es IHes|es IHes|es IHes|e IHe|e IHe| |e IHe
                   |sp name args IHargs|s lp el rp er IHs IHl IHr] using pexpr_ind';
      [rewrite etxt_block|rewrite etxt_single by reflexivity; rewrite (etxt_unfold (NSingle _))..].
    - (* PBlock *)
      rewrite (etxt_unfold (NBlock ss l)), block_text.
      change (lay_expr (PBlock ss l))
        with (LT TLBrace :: nl :: sepl [ind] (map lay_stmt ss ++ match l with Some e1 => [lay_expr e1] | None => [] end)
              ++ [LT TRBrace; nl]).
      rnorm. rewrite render_sepl. change (render ns [ind]) with [32;32;32;32].
      cbn [en_children]. rewrite !map_app, !map_map.
      assert (H1 : map (fun x => etxt (NStmt x)) ss = map (fun x => render ns (lay_stmt x)) ss).
      { apply map_ext_Forall. eapply Forall_impl; [|exact Hss]. intros s Hs. apply stmt_txt. exact Hs. }
      assert (H2 : map etxt match l with Some e => [NExpr e] | None => [] end
                   = map (render ns) match l with Some e1 => [lay_expr e1] | None => [] end).
      { destruct l as [e1|]; [|reflexivity]. cbn [popt_P map] in *. now rewrite Hl. }
      rewrite H1, H2. reflexivity.
    - (* PBool *) destruct b; cbn; rewrite ?app_nil_r; reflexivity.
    - (* PLit *) destruct li; cbn [en_children length Nat.eqb en_display inter_out lay_expr lit_tok]; rnorm; reflexivity.
    - cbn [en_children length Nat.eqb en_display inter_out lay_expr]. rnorm. reflexivity.
    - cbn [en_children length Nat.eqb en_display inter_out lay_expr]. rnorm. reflexivity.
    - cbn [en_children length Nat.eqb en_display inter_out lay_expr]. rnorm. reflexivity.
    - (* PParen *)
      cbn [en_children length Nat.eqb en_display inter_out lay_expr wrap_display]. rewrite IHe. rnorm. reflexivity.
    - (* PTuple *)
      cbn [en_children en_display lay_expr]. rewrite seq_text, map_map, (map_ext_Forall _ _ _ IHes), one_len.
      rnorm. rewrite render_sepl, map_map, render_if_csp. reflexivity.
    - (* PArray *)
      cbn [en_children en_display lay_expr]. rewrite seq_text, map_map, (map_ext_Forall _ _ _ IHes).
      rnorm. rewrite render_sepl, map_map. reflexivity.
    - (* PList *)
      cbn [en_children en_display lay_expr]. rewrite seq_text, map_map, (map_ext_Forall _ _ _ IHes).
      rnorm. rewrite render_sepl, map_map. reflexivity.
    - cbn [en_children length Nat.eqb en_display inter_out lay_expr wrap_display]. rewrite IHe. rnorm. reflexivity.
    - cbn [en_children length Nat.eqb en_display inter_out lay_expr wrap_display]. rewrite IHe. rnorm. reflexivity.
    - cbn [en_children length Nat.eqb en_display inter_out lay_expr]. rnorm. reflexivity.
    - cbn [en_children length Nat.eqb en_display inter_out lay_expr wrap_display]. rewrite IHe. rnorm. reflexivity.
    - (* PCall *)
      cbn [en_children length Nat.eqb en_display inter_out lay_expr].
      rewrite (etxt_unfold (NCall _ _)). cbn [en_children en_display].
      rewrite seq_text, map_map, (map_ext_Forall _ _ _ IHargs), callname_txt.
      rnorm. rewrite render_sepl, map_map. reflexivity.
    - (* PMatch *)
      cbn [en_children length Nat.eqb en_display inter_out lay_expr].
      rewrite (etxt_unfold (NMatch _ _ _ _ _)). cbn [en_children length Nat.eqb en_display inter_out].
      rewrite IHs, IHl, IHr, !mpat_txt. rnorm. reflexivity.
  Qed.

  (* MAIN THEOREM (expressions): the ExprTree machine prints the structural text *)
  Theorem expr_print_machine_eq : forall e, expr_print_machine ns e = print_expr ns e.
  Proof.
    intros e. unfold expr_print_machine, en_print_machine, print_expr.
    rewrite (vev_machine en_children en_count en_count_eq). apply expr_txt.
  Qed.

  (** ** items and programs *)
  Lemma params_tail : forall ps i,
    params_machine ns (S i) ps = flat_map (fun p => [44; 32] ++ render ns (lay_param p)) ps.
  Proof.
    induction ps as [|p ps IH]; intros i; [reflexivity|].
    cbn [params_machine flat_map Nat.ltb Nat.leb]. rewrite IH, aty_print_machine_eq.
    unfold print_aty, lay_param. rnorm. reflexivity.
  Qed.

  Lemma sep_by_flat : forall {A} sep (f : A -> list N) x xs,
    sep_by sep (map f (x :: xs)) = f x ++ flat_map (fun y => sep ++ f y) xs.
  Proof.
    intros A sep f x xs. revert x. induction xs as [|y xs IH]; intros x.
    - cbn. now rewrite app_nil_r.
    - cbn [map]. rewrite sep_by_cons2. change (f y :: map f xs) with (map f (y :: xs)). rewrite IH.
      cbn [flat_map]. rewrite <- !app_assoc. reflexivity.
  Qed.

  Lemma params_txt : forall ps, params_machine ns 0 ps = render ns (sepl csp (map lay_param ps)).
  Proof.
    intros [|p ps]; [reflexivity|].
    rewrite render_sepl, map_map. rewrite (sep_by_flat _ (fun x => render ns (lay_param x))).
    cbn [params_machine Nat.ltb Nat.leb]. rewrite params_tail, aty_print_machine_eq.
    unfold print_aty, lay_param. rnorm. reflexivity.
  Qed.

  Lemma item_txt : forall i, item_machine ns i = render ns (lay_item i).
  Proof.
    destruct i as [n t|name ps ret body| ]; cbn [item_machine lay_item].
    - rewrite aty_print_machine_eq. unfold print_aty. rnorm. reflexivity.
    - rewrite params_txt, expr_print_machine_eq. unfold print_expr.
      destruct ret as [t|]; rewrite ?aty_print_machine_eq; unfold print_aty; rnorm; reflexivity.
    - reflexivity.
  Qed.

  (* MAIN THEOREM: the model of Display for Program built from the three state machines prints
     exactly the structural text *)
  Theorem print_program_machine_eq : forall p, print_program_machine ns p = print_program ns p.
  Proof.
    intros p. unfold print_program_machine, print_program, lay_program.
    induction p as [|i p IH]; [reflexivity|]. cbn [flat_map]. rewrite IH, item_txt. rnorm. reflexivity.
  Qed.
End MachineProofs2.
Print Assumptions pat_print_machine_eq.
Print Assumptions expr_print_machine_eq.
Print Assumptions print_program_machine_eq.

(** * Part 3: the printed text is the token list with whitespace in between *)

(* by definition *)
Theorem print_program_render : forall ns p, print_program ns p = render ns (lay_program p).
Proof. reflexivity. Qed.

Lemma toks_of_app : forall a b, toks_of (a ++ b) = toks_of a ++ toks_of b.
Proof. intros. apply flat_map_app. Qed.
Lemma toks_of_LT : forall t l, toks_of (LT t :: l) = t :: toks_of l.
Proof. reflexivity. Qed.
Lemma toks_of_sp : forall l, toks_of (sp :: l) = toks_of l.
Proof. reflexivity. Qed.
Lemma toks_of_nl : forall l, toks_of (nl :: l) = toks_of l.
Proof. reflexivity. Qed.
Lemma toks_of_nil : toks_of [] = [].
Proof. reflexivity. Qed.

Lemma toks_of_sepl_csp : forall xs, toks_of (sepl csp xs) = sepl [TComma] (map toks_of xs).
Proof.
  induction xs as [|x [|y xs] IH]; [reflexivity|reflexivity|].
  rewrite sepl_cons2. cbn [map]. rewrite sepl_cons2, !toks_of_app, IH. reflexivity.
Qed.

Lemma toks_of_sepl_ind : forall xs, toks_of (sepl [ind] xs) = flat_map toks_of xs.
Proof.
  induction xs as [|x [|y xs] IH]; [reflexivity|cbn; now rewrite app_nil_r|].
  rewrite sepl_cons2, !toks_of_app, IH. reflexivity.
Qed.

Lemma toks_of_if_csp : forall b : bool, toks_of (if b then csp else []) = if b then [TComma] else [].
Proof. destruct b; reflexivity. Qed.

Lemma toks_of_if_comma : forall b : bool, toks_of (if b then [LT TComma] else []) = if b then [TComma] else [].
Proof. destruct b; reflexivity. Qed.

Ltac tnorm :=
  repeat (rewrite toks_of_app || rewrite toks_of_LT || rewrite toks_of_sp || rewrite toks_of_nl
          || rewrite toks_of_sepl_csp || rewrite toks_of_if_csp || rewrite toks_of_if_comma || rewrite toks_of_nil);
  repeat rewrite <- app_assoc; cbn [app].

Lemma lay_aty_tokens : forall t, toks_of (lay_aty t) = tokens_aty t.
Proof.
  induction t as [n|n|a b IHa IHb|a IHa| |k|ts IHts|a n IHa|a k IHa] using aty_ind';
    cbn [lay_aty tokens_aty]; tnorm; rewrite ?IHa, ?IHb; try reflexivity.
  rewrite map_map, (map_ext_Forall _ _ _ IHts). reflexivity.
Qed.

Lemma lay_pat_tokens : forall p, toks_of (lay_pat p) = tokens_pat p.
Proof.
  induction p as [x| |ps IHps|ps IHps] using pat_ind'; cbn [lay_pat tokens_pat]; tnorm; try reflexivity;
    rewrite map_map, (map_ext_Forall _ _ _ IHps); reflexivity.
Qed.

Lemma lay_mpat_tokens : forall m, toks_of (lay_mpat m) = tokens_mpat m.
Proof. destruct m; cbn [lay_mpat tokens_mpat]; tnorm; rewrite ?lay_aty_tokens; reflexivity. Qed.

Lemma lay_callname_tokens : forall c, toks_of (lay_callname c) = tokens_callname c.
Proof. destruct c; cbn [lay_callname tokens_callname]; tnorm; rewrite ?lay_aty_tokens; reflexivity. Qed.

Lemma flat_map_map : forall {A B C} (f : B -> list C) (g : A -> B) l, flat_map f (map g l) = flat_map (fun x => f (g x)) l.
Proof. intros. induction l as [|x l IH]; [reflexivity|]. cbn [map flat_map]. now rewrite IH. Qed.

Lemma flat_map_ext_Forall : forall {A B} (f g : A -> list B) l,
  Forall (fun x => f x = g x) l -> flat_map f l = flat_map g l.
Proof. intros A B f g l H. induction H as [|x l Hx _ IH]; [reflexivity|]. cbn [flat_map]. now rewrite Hx, IH. Qed.

Lemma lay_expr_tokens : forall e, toks_of (lay_expr e) = tokens_expr e.
Proof.
  induction e as [ss l Hss Hl|b|li|n|n|x|e IHe|es IHes|es IHes|es IHes|e IHe|e IHe| |e IHe
                 |sp name args IHargs|s lp el rp er IHs IHl IHr] using pexpr_ind';
    try (cbn [lay_expr tokens_expr]; tnorm; rewrite ?IHe; reflexivity);
    try (cbn [lay_expr tokens_expr]; tnorm; rewrite map_map, (map_ext_Forall _ _ _ IHes); reflexivity).
  - change (lay_expr (PBlock ss l))
      with (LT TLBrace :: nl :: sepl [ind] (map lay_stmt ss ++ match l with Some e1 => [lay_expr e1] | None => [] end)
            ++ [LT TRBrace; nl]).
    change (tokens_expr (PBlock ss l))
      with (TLBrace :: flat_map tokens_stmt ss ++ match l with Some e1 => tokens_expr e1 | None => [] end ++ [TRBrace]).
    tnorm. rewrite toks_of_sepl_ind, flat_map_app, flat_map_map. repeat rewrite <- app_assoc. f_equal. f_equal.
    + apply flat_map_ext_Forall. eapply Forall_impl; [|exact Hss]. intros [[[p t]|] e1] He; cbn [snd] in He;
        cbn [lay_stmt tokens_stmt]; unfold lay_let, tokens_let; tnorm;
        rewrite ?lay_pat_tokens, ?lay_aty_tokens, He; reflexivity.
    + destruct l as [e1|]; [|reflexivity]. cbn [popt_P flat_map] in *. rewrite app_nil_r, Hl. reflexivity.
  - cbn [lay_expr tokens_expr]. tnorm. rewrite lay_callname_tokens, map_map, (map_ext_Forall _ _ _ IHargs).
    reflexivity.
  - cbn [lay_expr tokens_expr]. tnorm. rewrite IHs, IHl, IHr, !lay_mpat_tokens. reflexivity.
Qed.

Lemma lay_item_tokens : forall i, toks_of (lay_item i) = tokens_item i.
Proof.
  destruct i as [n t|name ps ret body| ]; cbn [lay_item tokens_item].
  - tnorm. rewrite lay_aty_tokens. reflexivity.
  - tnorm. rewrite lay_expr_tokens, map_map.
    assert (H : map (fun x => toks_of (lay_param x)) ps = map tokens_param ps).
    { apply map_ext. intros [x t]. unfold lay_param, tokens_param. tnorm. now rewrite lay_aty_tokens. }
    rewrite H. destruct ret as [t|]; tnorm; rewrite ?lay_aty_tokens; reflexivity.
  - reflexivity.
Qed.

(* the tokens of the layout are the token list *)
Theorem lay_program_tokens : forall p, toks_of (lay_program p) = tokens_program p.
Proof.
  induction p as [|i p IH]; [reflexivity|]. unfold lay_program, tokens_program in *. cbn [flat_map].
  tnorm. rewrite IH, lay_item_tokens. reflexivity.
Qed.

(* everything else in the layout is spaces and newlines *)
Definition ws_ok (l : list litem) : bool := forallb litem_ws_ok l.

Lemma ws_ok_app : forall a b, ws_ok (a ++ b) = ws_ok a && ws_ok b.
Proof. intros. apply forallb_app. Qed.

Lemma ws_ok_cons : forall x l, ws_ok (x :: l) = litem_ws_ok x && ws_ok l.
Proof. reflexivity. Qed.

Lemma ws_ok_sepl : forall sep xs, ws_ok sep = true -> Forall (fun x => ws_ok x = true) xs -> ws_ok (sepl sep xs) = true.
Proof.
  intros sep xs Hsep H. induction xs as [|x [|y xs] IH]; [reflexivity|now inversion H|].
  inversion H as [|x0 l0 Hx Hr]; subst. rewrite sepl_cons2, !ws_ok_app, Hx, Hsep, IH by exact Hr. reflexivity.
Qed.

Lemma ws_ok_map : forall {A} (f : A -> list litem) xs,
  Forall (fun x => ws_ok (f x) = true) xs -> Forall (fun x => ws_ok x = true) (map f xs).
Proof. intros A f xs H. induction H; constructor; auto. Qed.

Ltac wnorm := repeat (rewrite ws_ok_app || (rewrite ws_ok_sepl; [|reflexivity|])); cbn [ws_ok forallb litem_ws_ok andb].

Lemma lay_aty_ws : forall t, ws_ok (lay_aty t) = true.
Proof.
  induction t as [n|n|a b IHa IHb|a IHa| |k|ts IHts|a n IHa|a k IHa] using aty_ind'; cbn [lay_aty];
    try reflexivity;
    try (rewrite ?ws_ok_cons, ?ws_ok_app, ?ws_ok_cons, ?ws_ok_app, ?IHa, ?IHb; reflexivity).
  rewrite ws_ok_cons, !ws_ok_app.
  rewrite ws_ok_sepl; [destruct (one ts); reflexivity|reflexivity|apply ws_ok_map; exact IHts].
Qed.

Lemma lay_pat_ws : forall p, ws_ok (lay_pat p) = true.
Proof.
  induction p as [x| |ps IHps|ps IHps] using pat_ind'; cbn [lay_pat]; try reflexivity;
    rewrite ws_ok_cons, !ws_ok_app;
    (rewrite ws_ok_sepl; [try destruct (one ps); reflexivity|reflexivity|apply ws_ok_map; exact IHps]).
Qed.

Lemma lay_mpat_ws : forall m, ws_ok (lay_mpat m) = true.
Proof.
  destruct m; cbn [lay_mpat]; try reflexivity; rewrite !ws_ok_cons, ws_ok_app, lay_aty_ws; reflexivity.
Qed.

Lemma lay_callname_ws : forall c, ws_ok (lay_callname c) = true.
Proof.
  destruct c; cbn [lay_callname]; try reflexivity; rewrite ws_ok_cons, ws_ok_app, lay_aty_ws; reflexivity.
Qed.

Lemma lay_expr_ws : forall e, ws_ok (lay_expr e) = true.
Proof.
  induction e as [ss l Hss Hl|b|li|n|n|x|e IHe|es IHes|es IHes|es IHes|e IHe|e IHe| |e IHe
                 |sp name args IHargs|s lp el rp er IHs IHl IHr] using pexpr_ind';
    try reflexivity;
    try (cbn [lay_expr]; rewrite ws_ok_cons, ws_ok_app, IHe; reflexivity);
    try (cbn [lay_expr]; rewrite ws_ok_cons, !ws_ok_app;
         (rewrite ws_ok_sepl; [try destruct (one es); reflexivity|reflexivity|apply ws_ok_map; exact IHes])).
  - change (lay_expr (PBlock ss l))
      with (LT TLBrace :: nl :: sepl [ind] (map lay_stmt ss ++ match l with Some e1 => [lay_expr e1] | None => [] end)
            ++ [LT TRBrace; nl]).
    rewrite !ws_ok_cons, ws_ok_app. rewrite ws_ok_sepl; [reflexivity|reflexivity|].
    apply Forall_app. split.
    + apply ws_ok_map. eapply Forall_impl; [|exact Hss]. intros [[[p t]|] e1] He; cbn [snd] in He;
        cbn [lay_stmt]; unfold lay_let; repeat (rewrite ws_ok_cons || rewrite ws_ok_app); rewrite ?lay_pat_ws, ?lay_aty_ws, He; reflexivity.
    + destruct l as [e1|]; constructor; [exact Hl|constructor].
  - cbn [lay_expr]. rewrite ws_ok_app, lay_callname_ws, ws_ok_cons, ws_ok_app.
    rewrite ws_ok_sepl; [reflexivity|reflexivity|apply ws_ok_map; exact IHargs].
  - cbn [lay_expr]. repeat (rewrite ws_ok_cons || rewrite ws_ok_app). rewrite IHs, IHl, IHr, !lay_mpat_ws. reflexivity.
Qed.

Lemma lay_item_ws : forall i, ws_ok (lay_item i) = true.
Proof.
  destruct i as [n t|name ps ret body| ]; cbn [lay_item]; [| |reflexivity].
  - rewrite !ws_ok_cons, ws_ok_app, lay_aty_ws. reflexivity.
  - repeat (rewrite ws_ok_cons || rewrite ws_ok_app). rewrite lay_expr_ws.
    rewrite ws_ok_sepl; [|reflexivity|].
    + destruct ret as [t|]; [|reflexivity]. rewrite !ws_ok_cons, lay_aty_ws. reflexivity.
    + apply ws_ok_map. apply Forall_forall. intros [x t] _. unfold lay_param. rewrite !ws_ok_cons. apply lay_aty_ws.
Qed.

Theorem lay_program_ws : forall p, ws_ok (lay_program p) = true.
Proof.
  induction p as [|i p IH]; [reflexivity|]. unfold lay_program in *. cbn [flat_map].
  rewrite !ws_ok_app, lay_item_ws, IH. reflexivity.
Qed.
Print Assumptions lay_program_tokens.
Print Assumptions lay_program_ws.

(** * Part 5: examples *)

(* the fixed spellings *)
Module Strings.
  Import String.
  Local Open Scope string_scope.
  Example keywords_ok :
    k_fn = bytes "fn" /\ k_type = bytes "type" /\ k_mod = bytes "mod" /\ k_const = bytes "const" /\
    k_let = bytes "let" /\ k_match = bytes "match" /\ k_witness = bytes "witness" /\ k_param = bytes "param" /\
    k_arrow = bytes "->" /\ k_fatarrow = bytes "=>" /\ k_gtinto = bytes ">::into" /\
    k_Either = bytes "Either<" /\ k_Option = bytes "Option<" /\ k_bool = bytes "bool" /\ k_List = bytes "List<" /\
    k_Left = bytes "Left(" /\ k_Right = bytes "Right(" /\ k_Some = bytes "Some(" /\ k_None = bytes "None" /\
    k_false = bytes "false" /\ k_true = bytes "true" /\ k_listbang = bytes "list![" /\
    k_unwrap_left = bytes "unwrap_left::<" /\ k_unwrap_right = bytes "unwrap_right::<" /\
    k_is_none = bytes "is_none::<" /\ k_unwrap = bytes "unwrap" /\ k_assert = bytes "assert!" /\
    k_panic = bytes "panic!" /\ k_dbg = bytes "dbg!" /\ k_fold = bytes "fold::<" /\
    k_for_while = bytes "for_while::<" /\ k_jet = bytes "jet::" /\ k_witness_cc = bytes "witness::" /\
    k_param_cc = bytes "param::" /\ k_0b = bytes "0b" /\ k_0x = bytes "0x".
  Proof. vm_compute. repeat split. Qed.
End Strings.

(* Programs parsed and printed by the real implementation: [*_prog] is the parse tree dumped by the harness
   (`svh ptree`, command ptree), [*_text] the bytes of its Display (command pprint).
   Names are interned per role, so a function `f` and a variable `f` get different ids. *)
Module Examples.
(* fn main() { let (a, b): (u8, u8) = (1, 2); match Some(a) { None => {}, Some(x: u8) => assert!(jet::eq_8(x, b)), }; }
 *)
Definition ex0_ns (n : N) : list N :=
  match n with
  | 1 => [109;97;105;110]  (* main *)
  | 2 => [97]  (* a *)
  | 3 => [98]  (* b *)
  | 4 => [120]  (* x *)
  | 5 => [101;113;95;56]  (* eq_8 *)
  | _ => []
  end.
Definition ex0_prog : pprogram :=
  [(IFunction 1 [] None (PBlock [(Some ((PTup [(PId 2); (PId 3)]), (ATuple [(AUInt 3%nat); (AUInt 3%nat)])), (PTuple [(PLit (LDec [49])); (PLit (LDec [50]))])); (None, (PMatch (PSome (PVar 2)) MNone (PBlock [] None) (MSome 4 (AUInt 3%nat)) (PCall 1 PAssert [(PCall 2 (PJet 5) [(PVar 4); (PVar 3)])])))] None))].
Definition ex0_text : list N :=
  [102;110;32;109;97;105;110;40;41;32;123;10;108;101;116;32;40;97;44;32;98;41;58;32;40;117;56;44;32;117;56;41;32;61;32;40;49;44;32;50;41;59;10;32;32;32;32;109;97;116;99;104;32;83;111;109;101;40;97;41;123;10;78;111;110;101;32;61;62;32;123;10;125;10;44;10;83;111;109;101;40;120;58;32;117;56;41;32;61;62;32;97;115;115;101;114;116;33;40;106;101;116;58;58;101;113;95;56;40;120;44;32;98;41;41;44;10;125;59;10;125;10;10].
(* fn main() {
let (a, b): (u8, u8) = (1, 2);
    match Some(a){
None => {
}
,
Some(x: u8) => assert!(jet::eq_8(x, b)),
};
}

 *)
Example ex0_print : print_program ex0_ns ex0_prog = ex0_text.
Proof. vm_compute. reflexivity. Qed.
Example ex0_machine : print_program_machine ex0_ns ex0_prog = ex0_text.
Proof. vm_compute. reflexivity. Qed.
Example ex0_wf : prog_wf ex0_prog = true.
Proof. vm_compute. reflexivity. Qed.
Example ex0_parse : parse_token_list (tokens_program ex0_prog) = Some (erase_program ex0_prog).
Proof. vm_compute. reflexivity. Qed.


(* type Foo = Either<u8, (u16, bool)>;
mod witness { const A: u8 = 1; }
fn f(x: u8, y: Foo) -> u8 { x }
fn main() { let (a, b): (u8, u8) = (1, 2); let c: (u8,) = (a,); let d: () = (); let [p, _]: [u8; 2] = [0x0f, 0b101]; let l: List<u8, 4> = list![1, 2, 3]; match Some(a) { Some(x: u8) => assert!(jet::eq_8(x, b)), None => {}, }; let z: Option<u1> = None; let q: u8 = (f(a, Left(b))); let r: u8 = <u16>::into(witness::W); let s: u8 = unwrap_left::<u8>(param::P); let t: bool = is_none::<Pubkey>(z); dbg!(unwrap(Some(true))); { panic!() }; let u: u8 = fold::<f, 8>(l, 0); let v: Either<u8, u8> = for_while::<f>(a, b); match v { Left(i: u8) => i, Right(j: u8) => { j } }; let w: u8 = unwrap_right::<(u8, u8, u8)>(v); }
 *)
Definition ex1_ns (n : N) : list N :=
  match n with
  | 1 => [70;111;111]  (* Foo *)
  | 2 => [120]  (* x *)
  | 3 => [121]  (* y *)
  | 4 => [102]  (* f *)
  | 5 => [109;97;105;110]  (* main *)
  | 6 => [97]  (* a *)
  | 7 => [98]  (* b *)
  | 8 => [99]  (* c *)
  | 9 => [100]  (* d *)
  | 10 => [112]  (* p *)
  | 11 => [108]  (* l *)
  | 12 => [101;113;95;56]  (* eq_8 *)
  | 13 => [122]  (* z *)
  | 14 => [113]  (* q *)
  | 15 => [114]  (* r *)
  | 16 => [87]  (* W *)
  | 17 => [115]  (* s *)
  | 18 => [80]  (* P *)
  | 19 => [116]  (* t *)
  | 20 => [80;117;98;107;101;121]  (* Pubkey *)
  | 21 => [117]  (* u *)
  | 22 => [118]  (* v *)
  | 23 => [105]  (* i *)
  | 24 => [106]  (* j *)
  | 25 => [119]  (* w *)
  | _ => []
  end.
Definition ex1_prog : pprogram :=
  [(ITypeAlias 1 (AEither (AUInt 3%nat) (ATuple [(AUInt 4%nat); ABool]))); IModule;
   (IFunction 4 [(2, (AUInt 3%nat)); (3, (AAlias 1))] (Some (AUInt 3%nat)) (PBlock [] (Some (PVar 2))));
   (IFunction 5 [] None (PBlock [(Some ((PTup [(PId 6); (PId 7)]), (ATuple [(AUInt 3%nat); (AUInt 3%nat)])), (PTuple [(PLit (LDec [49])); (PLit (LDec [50]))])); (Some ((PId 8), (ATuple [(AUInt 3%nat)])), (PTuple [(PVar 6)])); (Some ((PId 9), (ATuple [])), (PTuple [])); (Some ((PArr [(PId 10); PIgn]), (AArray (AUInt 3%nat) 2%nat)), (PArray [(PLit (LHex [48;102])); (PLit (LBin [49;48;49]))])); (Some ((PId 11), (AList (AUInt 3%nat) 2%nat)), (PList [(PLit (LDec [49])); (PLit (LDec [50])); (PLit (LDec [51]))])); (None, (PMatch (PSome (PVar 6)) MNone (PBlock [] None) (MSome 2 (AUInt 3%nat)) (PCall 1 PAssert [(PCall 2 (PJet 12) [(PVar 2); (PVar 7)])]))); (Some ((PId 13), (AOption (AUInt 0%nat))), PNone); (Some ((PId 14), (AUInt 3%nat)), (PParen (PCall 3 (PCustom 4) [(PVar 6); (PLeft (PVar 7))]))); (Some ((PId 15), (AUInt 3%nat)), (PCall 4 (PCast (AUInt 4%nat)) [(PWitness 16)])); (Some ((PId 17), (AUInt 3%nat)), (PCall 5 (PUnwrapLeft (AUInt 3%nat)) [(PParam 18)])); (Some ((PId 19), ABool), (PCall 6 (PIsNone (ABuiltin 20)) [(PVar 13)])); (None, (PCall 7 PDebug [(PCall 8 PUnwrap [(PSome (PBool true))])])); (None, (PBlock [] (Some (PCall 9 PPanic [])))); (Some ((PId 21), (AUInt 3%nat)), (PCall 10 (PFold 4 3%nat) [(PVar 11); (PLit (LDec [48]))])); (Some ((PId 22), (AEither (AUInt 3%nat) (AUInt 3%nat))), (PCall 11 (PForWhile 4) [(PVar 6); (PVar 7)])); (None, (PMatch (PVar 22) (MLeft 23 (AUInt 3%nat)) (PVar 23) (MRight 24 (AUInt 3%nat)) (PBlock [] (Some (PVar 24))))); (Some ((PId 25), (AUInt 3%nat)), (PCall 12 (PUnwrapRight (ATuple [(AUInt 3%nat); (AUInt 3%nat); (AUInt 3%nat)])) [(PVar 22)]))] None))].
Definition ex1_text : list N :=
  [116;121;112;101;32;70;111;111;32;61;32;69;105;116;104;101;114;60;117;56;44;40;117;49;54;44;32;98;111;111;108;41;62;59;10;109;111;100;32;119;105;116;110;101;115;115;32;123;125;10;102;110;32;102;40;120;58;32;117;56;44;32;121;58;32;70;111;111;41;32;45;62;32;117;56;32;123;10;120;125;10;10;102;110;32;109;97;105;110;40;41;32;123;10;108;101;116;32;40;97;44;32;98;41;58;32;40;117;56;44;32;117;56;41;32;61;32;40;49;44;32;50;41;59;10;32;32;32;32;108;101;116;32;99;58;32;40;117;56;44;41;32;61;32;40;97;44;32;41;59;10;32;32;32;32;108;101;116;32;100;58;32;40;41;32;61;32;40;41;59;10;32;32;32;32;108;101;116;32;91;112;44;32;95;93;58;32;91;117;56;59;32;50;93;32;61;32;91;48;120;48;102;44;32;48;98;49;48;49;93;59;10;32;32;32;32;108;101;116;32;108;58;32;76;105;115;116;60;117;56;44;32;52;62;32;61;32;108;105;115;116;33;91;49;44;32;50;44;32;51;93;59;10;32;32;32;32;109;97;116;99;104;32;83;111;109;101;40;97;41;123;10;78;111;110;101;32;61;62;32;123;10;125;10;44;10;83;111;109;101;40;120;58;32;117;56;41;32;61;62;32;97;115;115;101;114;116;33;40;106;101;116;58;58;101;113;95;56;40;120;44;32;98;41;41;44;10;125;59;10;32;32;32;32;108;101;116;32;122;58;32;79;112;116;105;111;110;60;117;49;62;32;61;32;78;111;110;101;59;10;32;32;32;32;108;101;116;32;113;58;32;117;56;32;61;32;40;102;40;97;44;32;76;101;102;116;40;98;41;41;41;59;10;32;32;32;32;108;101;116;32;114;58;32;117;56;32;61;32;60;117;49;54;62;58;58;105;110;116;111;40;119;105;116;110;101;115;115;58;58;87;41;59;10;32;32;32;32;108;101;116;32;115;58;32;117;56;32;61;32;117;110;119;114;97;112;95;108;101;102;116;58;58;60;117;56;62;40;112;97;114;97;109;58;58;80;41;59;10;32;32;32;32;108;101;116;32;116;58;32;98;111;111;108;32;61;32;105;115;95;110;111;110;101;58;58;60;80;117;98;107;101;121;62;40;122;41;59;10;32;32;32;32;100;98;103;33;40;117;110;119;114;97;112;40;83;111;109;101;40;116;114;117;101;41;41;41;59;10;32;32;32;32;123;10;112;97;110;105;99;33;40;41;125;10;59;10;32;32;32;32;108;101;116;32;117;58;32;117;56;32;61;32;102;111;108;100;58;58;60;102;44;32;56;62;40;108;44;32;48;41;59;10;32;32;32;32;108;101;116;32;118;58;32;69;105;116;104;101;114;60;117;56;44;117;56;62;32;61;32;102;111;114;95;119;104;105;108;101;58;58;60;102;62;40;97;44;32;98;41;59;10;32;32;32;32;109;97;116;99;104;32;118;123;10;76;101;102;116;40;105;58;32;117;56;41;32;61;62;32;105;44;10;82;105;103;104;116;40;106;58;32;117;56;41;32;61;62;32;123;10;106;125;10;44;10;125;59;10;32;32;32;32;108;101;116;32;119;58;32;117;56;32;61;32;117;110;119;114;97;112;95;114;105;103;104;116;58;58;60;40;117;56;44;32;117;56;44;32;117;56;41;62;40;118;41;59;10;125;10;10].
(* type Foo = Either<u8,(u16, bool)>;
mod witness {}
fn f(x: u8, y: Foo) -> u8 {
x}

fn main() {
let (a, b): (u8, u8) = (1, 2);
    let c: (u8,) = (a, );
    let d: () = ();
    let [p, _]: [u8; 2] = [0x0f, 0b101];
    let l: List<u8, 4> = list![1, 2, 3];
    match Some(a){
None => {
}
,
Some(x: u8) => assert!(jet::eq_8(x, b)),
};
    let z: Option<u1> = None;
    let q: u8 = (f(a, Left(b)));
    let r: u8 = <u16>::into(witness::W);
    let s: u8 = unwrap_left::<u8>(param::P);
    let t: bool = is_none::<Pubkey>(z);
    dbg!(unwrap(Some(true)));
    {
panic!()}
;
    let u: u8 = fold::<f, 8>(l, 0);
    let v: Either<u8,u8> = for_while::<f>(a, b);
    match v{
Left(i: u8) => i,
Right(j: u8) => {
j}
,
};
    let w: u8 = unwrap_right::<(u8, u8, u8)>(v);
}

 *)
Example ex1_print : print_program ex1_ns ex1_prog = ex1_text.
Proof. vm_compute. reflexivity. Qed.
Example ex1_machine : print_program_machine ex1_ns ex1_prog = ex1_text.
Proof. vm_compute. reflexivity. Qed.
Example ex1_wf : prog_wf ex1_prog = true.
Proof. vm_compute. reflexivity. Qed.
Example ex1_parse : parse_token_list (tokens_program ex1_prog) = Some (erase_program ex1_prog).
Proof. vm_compute. reflexivity. Qed.


(* mod param { const X: u8 = 1; const Y: (u8, bool) = (2, true); }
type A = (); type B = (A,); type C = ((u1, u2), [List<Option<bool>, 2>; 0], Either<(),Either<u256,u128>>,);
fn g(a: A) -> B { (a,) }
fn h() { }
fn main() {
  /* comment */
  let (x,): (u8,) = (1_0,);
  let ((a, _), [], [b,], ()): ((u8, u8), [u8; 0], [u8; 1], ()) = ((1, 2), [], [3,], (),);
  let c: bool = match true { true => false, false => { true }, };
  let d: u8 = match { Left(c) } { Right(r: u8) => { let q: u8 = r; q } Left(l: bool) => match l { false => 0, true => 1, }, };
  {}; {{}}; { {}; };
  let e: u8 = ((((1))));
  let f: List<u8, 2> = list![];
  let i: List<u8, 2> = list![1,];
  let j: u16 = 0xAbCd;
  let k: (u8, u8, u8) = (1, 2, 3);
  match None { Some(v: u8) => {}, None => {} };
  h();
  g(())
}
 *)
Definition ex2_ns (n : N) : list N :=
  match n with
  | 1 => [65]  (* A *)
  | 2 => [66]  (* B *)
  | 3 => [67]  (* C *)
  | 4 => [97]  (* a *)
  | 5 => [103]  (* g *)
  | 6 => [104]  (* h *)
  | 7 => [109;97;105;110]  (* main *)
  | 8 => [120]  (* x *)
  | 9 => [98]  (* b *)
  | 10 => [99]  (* c *)
  | 11 => [100]  (* d *)
  | 12 => [108]  (* l *)
  | 13 => [114]  (* r *)
  | 14 => [113]  (* q *)
  | 15 => [101]  (* e *)
  | 16 => [102]  (* f *)
  | 17 => [105]  (* i *)
  | 18 => [106]  (* j *)
  | 19 => [107]  (* k *)
  | 20 => [118]  (* v *)
  | _ => []
  end.
Definition ex2_prog : pprogram :=
  [IModule;
   (ITypeAlias 1 (ATuple []));
   (ITypeAlias 2 (ATuple [(AAlias 1)]));
   (ITypeAlias 3 (ATuple [(ATuple [(AUInt 0%nat); (AUInt 1%nat)]); (AArray (AList (AOption ABool) 1%nat) 0%nat); (AEither (ATuple []) (AEither (AUInt 8%nat) (AUInt 7%nat)))]));
   (IFunction 5 [(4, (AAlias 1))] (Some (AAlias 2)) (PBlock [] (Some (PTuple [(PVar 4)]))));
   (IFunction 6 [] None (PBlock [] None));
   (IFunction 7 [] None (PBlock [(Some ((PTup [(PId 8)]), (ATuple [(AUInt 3%nat)])), (PTuple [(PLit (LDec [49;48]))])); (Some ((PTup [(PTup [(PId 4); PIgn]); (PArr []); (PArr [(PId 9)]); (PTup [])]), (ATuple [(ATuple [(AUInt 3%nat); (AUInt 3%nat)]); (AArray (AUInt 3%nat) 0%nat); (AArray (AUInt 3%nat) 1%nat); (ATuple [])])), (PTuple [(PTuple [(PLit (LDec [49])); (PLit (LDec [50]))]); (PArray []); (PArray [(PLit (LDec [51]))]); (PTuple [])])); (Some ((PId 10), ABool), (PMatch (PBool true) MFalse (PBlock [] (Some (PBool true))) MTrue (PBool false))); (Some ((PId 11), (AUInt 3%nat)), (PMatch (PBlock [] (Some (PLeft (PVar 10)))) (MLeft 12 ABool) (PMatch (PVar 12) MFalse (PLit (LDec [48])) MTrue (PLit (LDec [49]))) (MRight 13 (AUInt 3%nat)) (PBlock [(Some ((PId 14), (AUInt 3%nat)), (PVar 13))] (Some (PVar 14))))); (None, (PBlock [] None)); (None, (PBlock [] (Some (PBlock [] None)))); (None, (PBlock [(None, (PBlock [] None))] None)); (Some ((PId 15), (AUInt 3%nat)), (PParen (PParen (PParen (PParen (PLit (LDec [49]))))))); (Some ((PId 16), (AList (AUInt 3%nat) 1%nat)), (PList [])); (Some ((PId 17), (AList (AUInt 3%nat) 1%nat)), (PList [(PLit (LDec [49]))])); (Some ((PId 18), (AUInt 4%nat)), (PLit (LHex [65;98;67;100]))); (Some ((PId 19), (ATuple [(AUInt 3%nat); (AUInt 3%nat); (AUInt 3%nat)])), (PTuple [(PLit (LDec [49])); (PLit (LDec [50])); (PLit (LDec [51]))])); (None, (PMatch PNone MNone (PBlock [] None) (MSome 20 (AUInt 3%nat)) (PBlock [] None))); (None, (PCall 1 (PCustom 6) []))] (Some (PCall 2 (PCustom 5) [(PTuple [])]))))].
Definition ex2_text : list N :=
  [109;111;100;32;119;105;116;110;101;115;115;32;123;125;10;116;121;112;101;32;65;32;61;32;40;41;59;10;116;121;112;101;32;66;32;61;32;40;65;44;41;59;10;116;121;112;101;32;67;32;61;32;40;40;117;49;44;32;117;50;41;44;32;91;76;105;115;116;60;79;112;116;105;111;110;60;98;111;111;108;62;44;32;50;62;59;32;48;93;44;32;69;105;116;104;101;114;60;40;41;44;69;105;116;104;101;114;60;117;50;53;54;44;117;49;50;56;62;62;41;59;10;102;110;32;103;40;97;58;32;65;41;32;45;62;32;66;32;123;10;40;97;44;32;41;125;10;10;102;110;32;104;40;41;32;123;10;125;10;10;102;110;32;109;97;105;110;40;41;32;123;10;108;101;116;32;40;120;44;32;41;58;32;40;117;56;44;41;32;61;32;40;49;48;44;32;41;59;10;32;32;32;32;108;101;116;32;40;40;97;44;32;95;41;44;32;91;93;44;32;91;98;93;44;32;40;41;41;58;32;40;40;117;56;44;32;117;56;41;44;32;91;117;56;59;32;48;93;44;32;91;117;56;59;32;49;93;44;32;40;41;41;32;61;32;40;40;49;44;32;50;41;44;32;91;93;44;32;91;51;93;44;32;40;41;41;59;10;32;32;32;32;108;101;116;32;99;58;32;98;111;111;108;32;61;32;109;97;116;99;104;32;116;114;117;101;123;10;102;97;108;115;101;32;61;62;32;123;10;116;114;117;101;125;10;44;10;116;114;117;101;32;61;62;32;102;97;108;115;101;44;10;125;59;10;32;32;32;32;108;101;116;32;100;58;32;117;56;32;61;32;109;97;116;99;104;32;123;10;76;101;102;116;40;99;41;125;10;123;10;76;101;102;116;40;108;58;32;98;111;111;108;41;32;61;62;32;109;97;116;99;104;32;108;123;10;102;97;108;115;101;32;61;62;32;48;44;10;116;114;117;101;32;61;62;32;49;44;10;125;44;10;82;105;103;104;116;40;114;58;32;117;56;41;32;61;62;32;123;10;108;101;116;32;113;58;32;117;56;32;61;32;114;59;10;32;32;32;32;113;125;10;44;10;125;59;10;32;32;32;32;123;10;125;10;59;10;32;32;32;32;123;10;123;10;125;10;125;10;59;10;32;32;32;32;123;10;123;10;125;10;59;10;125;10;59;10;32;32;32;32;108;101;116;32;101;58;32;117;56;32;61;32;40;40;40;40;49;41;41;41;41;59;10;32;32;32;32;108;101;116;32;102;58;32;76;105;115;116;60;117;56;44;32;50;62;32;61;32;108;105;115;116;33;91;93;59;10;32;32;32;32;108;101;116;32;105;58;32;76;105;115;116;60;117;56;44;32;50;62;32;61;32;108;105;115;116;33;91;49;93;59;10;32;32;32;32;108;101;116;32;106;58;32;117;49;54;32;61;32;48;120;65;98;67;100;59;10;32;32;32;32;108;101;116;32;107;58;32;40;117;56;44;32;117;56;44;32;117;56;41;32;61;32;40;49;44;32;50;44;32;51;41;59;10;32;32;32;32;109;97;116;99;104;32;78;111;110;101;123;10;78;111;110;101;32;61;62;32;123;10;125;10;44;10;83;111;109;101;40;118;58;32;117;56;41;32;61;62;32;123;10;125;10;44;10;125;59;10;32;32;32;32;104;40;41;59;10;32;32;32;32;103;40;40;41;41;125;10;10].
(* mod witness {}
type A = ();
type B = (A,);
type C = ((u1, u2), [List<Option<bool>, 2>; 0], Either<(),Either<u256,u128>>);
fn g(a: A) -> B {
(a, )}

fn h() {
}

fn main() {
let (x, ): (u8,) = (10, );
    let ((a, _), [], [b], ()): ((u8, u8), [u8; 0], [u8; 1], ()) = ((1, 2), [], [3], ());
    let c: bool = match true{
false => {
true}
,
true => false,
};
    let d: u8 = match {
Left(c)}
{
Left(l: bool) => match l{
false => 0,
true => 1,
},
Right(r: u8) => {
let q: u8 = r;
    q}
,
};
    {
}
;
    {
{
}
}
;
    {
{
}
;
}
;
    let e: u8 = ((((1))));
    let f: List<u8, 2> = list![];
    let i: List<u8, 2> = list![1];
    let j: u16 = 0xAbCd;
    let k: (u8, u8, u8) = (1, 2, 3);
    match None{
None => {
}
,
Some(v: u8) => {
}
,
};
    h();
    g(())}

 *)
Example ex2_print : print_program ex2_ns ex2_prog = ex2_text.
Proof. vm_compute. reflexivity. Qed.
Example ex2_machine : print_program_machine ex2_ns ex2_prog = ex2_text.
Proof. vm_compute. reflexivity. Qed.
Example ex2_wf : prog_wf ex2_prog = true.
Proof. vm_compute. reflexivity. Qed.
Example ex2_parse : parse_token_list (tokens_program ex2_prog) = Some (erase_program ex2_prog).
Proof. vm_compute. reflexivity. Qed.


(* the parser also reads what the printer never writes: the arms in the other order (stored normalised),
   a block arm without comma, trailing commas in arrays, module contents (dropped) *)
Example other_order :
  parse_token_list
    [TMod; TModName false; TLBrace; TConst; TIdent 9; TColon; TBoolTy; TEq; TTrue; TSemi; TRBrace;
     TFn; TIdent 1; TLParen; TRParen; TLBrace;
       TMatch; TIdent 2; TLBrace; TTrue; TFatArrow; TLBrace; TRBrace; TFalse; TFatArrow; TLBrack; TDec [49]; TComma; TRBrack; TComma; TRBrace;
     TRBrace]
  = Some [IModule; IFunction 1 [] None (PBlock [] (Some (PMatch (PVar 2) MFalse (PArray [PLit (LDec [49])]) MTrue (PBlock [] None))))].
Proof. vm_compute. reflexivity. Qed.

(* what the parser rejects *)
Example reject_paren_type : parse_ty 9 [TLParen; TBoolTy; TRParen] = None.
Proof. reflexivity. Qed.
Example reject_bound_one : parse_ty 9 [TListLt; TBoolTy; TComma; TNum 1; TGt] = None.
Proof. reflexivity. Qed.
Example reject_bound_not_pow2 : parse_ty 9 [TListLt; TBoolTy; TComma; TNum 6; TGt] = None.
Proof. reflexivity. Qed.
Example reject_arms : parse_expr 20 [TMatch; TIdent 2; TLBrace; TTrue; TFatArrow; TNone; TComma; TNone; TFatArrow; TNone; TComma; TRBrace] = None.
Proof. vm_compute. reflexivity. Qed.
Example reject_args_trailing_comma : parse_expr 20 [TIdent 1; TLParen; TNone; TComma; TRParen] = None.
Proof. vm_compute. reflexivity. Qed.

(* every conjunct of [prog_wf] is needed: trees outside it (which Program::parse never builds) do not
   come back from their own tokens *)
Example need_block_body :
  parse_token_list (tokens_program [IFunction 1 [] None (PVar 2)]) = None.
Proof. vm_compute. reflexivity. Qed.
Example need_digits :                                      (* prints as the empty string *)
  parse_token_list (tokens_program [IFunction 1 [] None (PBlock [] (Some (PLit (LDec []))))]) = None
  /\ print_expr (fun _ => []) (PLit (LDec [])) = [].
Proof. vm_compute. split; reflexivity. Qed.
Example need_arm_order :                                   (* re-read with the arms swapped *)
  parse_token_list (tokens_program [IFunction 1 [] None (PBlock [] (Some (PMatch (PVar 2) MTrue PNone MFalse (PVar 3))))])
  = Some [IFunction 1 [] None (PBlock [] (Some (PMatch (PVar 2) MFalse (PVar 3) MTrue PNone)))].
Proof. vm_compute. reflexivity. Qed.
Example need_arm_pair :
  parse_token_list (tokens_program [IFunction 1 [] None (PBlock [] (Some (PMatch (PVar 2) MTrue PNone MNone (PVar 3))))])
  = None.
Proof. vm_compute. reflexivity. Qed.
Example need_bound : parse_ty 9 (tokens_aty (AList ABool 0)) = None /\ parse_ty 9 (tokens_aty (AUInt 9)) = None.
Proof. vm_compute. split; reflexivity. Qed.
End Examples.
