(* Correctness of the program printer model Text/ProgPrint.v.

   Part 1  generic facts about the verbose pre-order iterator (any tree with a node count)
   Part 2  the three Rust state machines print exactly what the structural printers print
             aty_print_machine_eq  pat_print_machine_eq  expr_print_machine_eq  print_program_machine_eq
   Part 3  the structural printer is the token list plus whitespace
             print_program_render  lay_program_tokens  lay_program_ws
   Part 4  printing loses nothing: the token list of a well-formed tree parses back to that tree
             type_roundtrip  pattern_roundtrip  expr_roundtrip  print_tokens_roundtrip  tokens_injective
   Part 5  examples: expected texts are the output of the real printer (harness `svh ptree`, pprint) *)
From Coq Require Import List Arith NArith Bool Lia.
From Coq Require String Ascii.
From Coq Require Import ZifyBool ZifyNat ZifyN.
Require Import SV.Layout.Ty SV.Text.Literal SV.Text.TyPrint SV.Text.ValParse SV.Proofs.PrintCorrect.
Require Import SV.Lang.Ast SV.Front.PTree SV.Text.ProgPrint.
Import ListNotations.
Local Open Scope N_scope.

(** * Part 4: the token-level round trip *)

(** ** lists with separators *)

Lemma sepl_cons2 : forall {A} (sep : list A) x y l, sepl sep (x :: y :: l) = x ++ sep ++ sepl sep (y :: l).
Proof. reflexivity. Qed.

Lemma sepl_length_in : forall {A B} (sep : list B) (tk : A -> list B) x xs,
  In x xs -> (length (tk x) <= length (sepl sep (map tk xs)))%nat.
Proof.
  intros A B sep tk x xs. induction xs as [|y [|z xs] IH]; intros Hin.
  - contradiction.
  - destruct Hin as [->|[]]. cbn. lia.
  - cbn [map] in *. rewrite sepl_cons2, !app_length. destruct Hin as [->|Hin]; [lia|].
    specialize (IH Hin). lia.
Qed.

Lemma sepl_length_count : forall {A B} (sep : list B) (tk : A -> list B) xs,
  (forall x, In x xs -> (1 <= length (tk x))%nat) ->
  (length xs <= length (sepl sep (map tk xs)))%nat.
Proof.
  intros A B sep tk xs. induction xs as [|y [|z xs] IH]; intros Hne.
  - cbn. lia.
  - cbn. specialize (Hne y (or_introl eq_refl)). lia.
  - cbn [map] in *. rewrite sepl_cons2, !app_length.
    pose proof (Hne y (or_introl eq_refl)).
    assert (length (z :: xs) <= length (sepl sep (tk z :: map tk xs)))%nat
      by (apply IH; intros x Hx; apply Hne; right; exact Hx).
    cbn [length] in *. lia.
Qed.

(** ** first tokens *)

(* the first token of a printed element is none of the tokens the loops test for *)
Definition starts_ok (l : list tok) : Prop :=
  match l with
  | t :: _ => is_rparen t = false /\ is_rbrack t = false /\ is_rbrace t = false /\ is_let t = false
  | [] => False
  end.

Lemma starts_ok_length : forall l, starts_ok l -> (1 <= length l)%nat.
Proof. intros [|t l] H; [contradiction|cbn; lia]. Qed.

Lemma starts_ok_app : forall l r, starts_ok l -> starts_ok (l ++ r).
Proof. intros [|t l] r H; [contradiction|exact H]. Qed.

Lemma tokens_aty_starts : forall t, starts_ok (tokens_aty t).
Proof. destruct t; cbn; repeat split. Qed.

Lemma tokens_pat_starts : forall p, starts_ok (tokens_pat p).
Proof. destruct p; cbn; repeat split. Qed.

Lemma tokens_mpat_starts : forall m, starts_ok (tokens_mpat m).
Proof. destruct m; cbn; repeat split. Qed.

Lemma tokens_expr_starts : forall e, starts_ok (tokens_expr e).
Proof.
  destruct e as [ss l|b|li| | | | | | | | | | | |sp name args| ];
    try destruct b; try destruct li; try destruct name; cbn; repeat split.
Qed.

Lemma tokens_param_starts : forall p, starts_ok (tokens_param p).
Proof. intros p. cbn. repeat split. Qed.

(* the token after an expression is not `(` : an identifier followed by `(` would be read as a call *)
Definition nolp (rest : list tok) : Prop :=
  match rest with t :: _ => is_lparen t = false | [] => True end.

(** ** the loops *)
Section LoopFacts.
  Context {A : Type}.
  Variable pe : list tok -> option (A * list tok).
  Variable tk : A -> list tok.
  Variable er : A -> A.
  Variable follow : list tok -> Prop.
  Hypothesis follow_comma : forall r, follow (TComma :: r).
  Hypothesis follow_rparen : forall r, follow (TRParen :: r).
  Hypothesis follow_rbrack : forall r, follow (TRBrack :: r).

  Definition elem_ok (x : A) : Prop :=
    starts_ok (tk x) /\ forall rest, follow rest -> pe (tk x ++ rest) = Some (er x, rest).

  Definition close_tok (paren : bool) : tok := if paren then TRParen else TRBrack.

  Lemma is_close_close : forall paren, is_close paren (close_tok paren) = true.
  Proof. destruct paren; reflexivity. Qed.

  Lemma is_close_comma : forall paren, is_close paren TComma = false.
  Proof. destruct paren; reflexivity. Qed.

  Lemma follow_close : forall paren r, follow (close_tok paren :: r).
  Proof. destruct paren; cbn; auto. Qed.

  Lemma starts_not_close : forall paren t l, starts_ok (t :: l) -> is_close paren t = false.
  Proof. intros paren t l (H1 & H2 & _). destruct paren; assumption. Qed.

  Lemma seq_list_step : forall paren n l r,
    starts_ok l ->
    seq_list pe paren (S n) (l ++ r)
    = match pe (l ++ r) with
      | Some (x, r1) =>
          match r1 with
          | [] => None
          | t1 :: r2 =>
              if is_close paren t1 then Some ([x], r2)
              else if is_comma t1 then
                match seq_list pe paren n r2 with
                | Some (xs, r3) => Some (x :: xs, r3)
                | None => None
                end
              else None
          end
      | None => None
      end.
  Proof.
    intros paren n [|t l] r Hs; [contradiction|].
    cbn [seq_list app]. rewrite (starts_not_close paren t l Hs). reflexivity.
  Qed.

  Lemma seq_list_ok : forall paren xs n rest,
    Forall elem_ok xs -> (length xs < n)%nat ->
    seq_list pe paren n (sepl [TComma] (map tk xs) ++ close_tok paren :: rest) = Some (map er xs, rest).
  Proof.
    intros paren xs. induction xs as [|x [|y xs] IH]; intros n rest Hall Hn.
    - destruct n as [|n]; [cbn in Hn; lia|]. cbn [map sepl app seq_list]. rewrite is_close_close. reflexivity.
    - destruct n as [|n]; [cbn in Hn; lia|]. inversion Hall as [|x0 l0 [Hs Hx] _]; subst.
      cbn [map sepl]. rewrite seq_list_step by exact Hs.
      rewrite Hx by apply follow_close. rewrite is_close_close. reflexivity.
    - destruct n as [|n]; [cbn in Hn; lia|]. inversion Hall as [|x0 l0 [Hs Hx] Hrest]; subst.
      cbn [map]. rewrite sepl_cons2. rewrite <- !app_assoc. cbn [app].
      rewrite seq_list_step by exact Hs. rewrite Hx by apply follow_comma.
      rewrite is_close_comma. cbn [is_comma].
      change (tk y :: map tk xs) with (map tk (y :: xs)).
      rewrite IH by (try exact Hrest; cbn [length] in *; lia). reflexivity.
  Qed.

  Lemma tuple_list_step : forall n l r,
    starts_ok l ->
    tuple_list pe n (l ++ r)
    = match pe (l ++ r) with
      | Some (x, r1) =>
          match r1 with
          | [] => None
          | t1 :: r2 =>
              if is_rparen t1 then Some (inr x, r2)
              else if is_comma t1 then
                match seq_list pe true n r2 with
                | Some (xs, r3) => Some (inl (x :: xs), r3)
                | None => None
                end
              else None
          end
      | None => None
      end.
  Proof.
    intros n [|t l] r Hs; [contradiction|].
    cbn [tuple_list app]. destruct Hs as (H1 & _). rewrite H1. reflexivity.
  Qed.

  Lemma tuple_list_ok : forall xs n rest,
    Forall elem_ok xs -> (length xs <= n)%nat ->
    tuple_list pe n (sepl [TComma] (map tk xs) ++ (if one xs then [TComma] else []) ++ TRParen :: rest)
    = Some (inl (map er xs), rest).
  Proof.
    intros xs n rest Hall Hn. destruct xs as [|x [|y xs]].
    - reflexivity.
    - inversion Hall as [|x0 l0 [Hs Hx] _]; subst. cbn [map sepl one app].
      rewrite tuple_list_step by exact Hs. rewrite Hx by apply follow_comma. cbn [is_rparen is_comma].
      destruct n as [|n]; [cbn in Hn; lia|]. reflexivity.
    - inversion Hall as [|x0 l0 [Hs Hx] Hrest]; subst. cbn [map one app]. rewrite sepl_cons2.
      rewrite <- !app_assoc. cbn [app].
      rewrite tuple_list_step by exact Hs. rewrite Hx by apply follow_comma. cbn [is_rparen is_comma].
      change (tk y :: map tk xs) with (map tk (y :: xs)).
      rewrite (seq_list_ok true) by (try exact Hrest; cbn [length] in *; lia). reflexivity.
  Qed.

  Lemma tuple_list_paren : forall x n rest,
    elem_ok x -> tuple_list pe n (tk x ++ TRParen :: rest) = Some (inr (er x), rest).
  Proof.
    intros x n rest [Hs Hx]. rewrite tuple_list_step by exact Hs. rewrite Hx by apply follow_rparen. reflexivity.
  Qed.

  Lemma args_tail_ok : forall xs n rest,
    Forall elem_ok xs -> (length xs < n)%nat ->
    args_tail pe n (flat_map (fun x => TComma :: tk x) xs ++ TRParen :: rest) = Some (map er xs, rest).
  Proof.
    induction xs as [|x xs IH]; intros n rest Hall Hn.
    - destruct n as [|n]; [cbn in Hn; lia|]. reflexivity.
    - destruct n as [|n]; [cbn in Hn; lia|]. inversion Hall as [|x0 l0 [Hs Hx] Hrest]; subst.
      cbn [flat_map map]. rewrite <- !app_assoc. cbn [app args_tail is_rparen is_comma].
      rewrite Hx.
      + rewrite IH by (try exact Hrest; cbn [length] in *; lia). reflexivity.
      + destruct xs; cbn [flat_map app]; auto.
  Qed.

  Lemma sepl_flat : forall x xs,
    sepl [TComma] (map tk (x :: xs)) = tk x ++ flat_map (fun y => TComma :: tk y) xs.
  Proof.
    intros x xs. revert x. induction xs as [|y xs IH]; intros x.
    - cbn. now rewrite app_nil_r.
    - cbn [map]. rewrite sepl_cons2. change (tk y :: map tk xs) with (map tk (y :: xs)). rewrite IH. reflexivity.
  Qed.

  Lemma args_list_step : forall n l r,
    starts_ok l ->
    args_list pe n (l ++ r)
    = match pe (l ++ r) with
      | Some (x, r1) =>
          match args_tail pe n r1 with
          | Some (xs, r2) => Some (x :: xs, r2)
          | None => None
          end
      | None => None
      end.
  Proof.
    intros n [|t l] r Hs; [contradiction|].
    cbn [args_list app]. destruct Hs as (H1 & _). rewrite H1. reflexivity.
  Qed.

  Lemma args_list_ok : forall xs n rest,
    Forall elem_ok xs -> (length xs <= n)%nat ->
    args_list pe n (sepl [TComma] (map tk xs) ++ TRParen :: rest) = Some (map er xs, rest).
  Proof.
    intros xs n rest Hall Hn. destruct xs as [|x xs]; [reflexivity|].
    inversion Hall as [|x0 l0 [Hs Hx] Hrest]; subst.
    rewrite sepl_flat, <- app_assoc. rewrite args_list_step by exact Hs.
    rewrite Hx.
    - rewrite args_tail_ok by (try exact Hrest; cbn [length] in *; lia). reflexivity.
    - destruct xs; cbn [flat_map app]; auto.
  Qed.
End LoopFacts.

Ltac len_simpl H := cbn [length] in H; repeat (rewrite app_length in H; cbn [length] in H).

(** ** types *)

Lemma fits_usize_pow2 : forall k, (k <= 63)%nat -> fits_usize (pow2N k) = true.
Proof.
  intros k Hk. unfold fits_usize, pow2N. apply N.ltb_lt.
  change 18446744073709551616 with (2 ^ 64). apply N.pow_lt_mono_r; lia.
Qed.

Lemma parse_bound_pow2 : forall k, bound_ok k = true -> parse_bound (pow2N k) = Some k.
Proof.
  intros k Hk. unfold bound_ok in Hk. apply andb_prop in Hk as [H1 H2].
  apply Nat.leb_le in H1. apply Nat.leb_le in H2.
  unfold parse_bound. rewrite fits_usize_pow2 by exact H2. apply list_bound_exp_pow. exact H1.
Qed.

Lemma forallb_In : forall {A} (f : A -> bool) l x, forallb f l = true -> In x l -> f x = true.
Proof. intros A f l x H Hin. rewrite forallb_forall in H. auto. Qed.

Theorem type_roundtrip_fuel : forall t,
  aty_wf t = true ->
  forall f rest, (length (tokens_aty t) <= f)%nat ->
  parse_ty f (tokens_aty t ++ rest) = Some (t, rest).
Proof.
  induction t as [n|n|a b IHa IHb|a IHa| |k|ts IHts|a n IHa|a k IHa] using aty_ind';
    intros Hwf f rest Hf; cbn [aty_wf] in Hwf; cbn [tokens_aty] in *; len_simpl Hf;
    (destruct f as [|f]; [lia|]).
  - reflexivity.
  - reflexivity.
  - apply andb_prop in Hwf as [Ha Hb]. cbn [app parse_ty]. rewrite <- !app_assoc. cbn [app].
    rewrite (IHa Ha) by lia. cbn [expect is_comma]. rewrite (IHb Hb) by lia. reflexivity.
  - cbn [app parse_ty]. rewrite <- !app_assoc. cbn [app]. rewrite (IHa Hwf) by lia. reflexivity.
  - reflexivity.
  - cbn [app parse_ty]. rewrite Hwf. reflexivity.
  - cbn [app parse_ty]. rewrite <- !app_assoc. cbn [app].
    rewrite (tuple_list_ok (fun ts' => parse_ty f ts') tokens_aty (fun x => x) (fun _ => True)); auto.
    + rewrite map_id. reflexivity.
    + rewrite Forall_forall in IHts. apply Forall_forall. intros x Hx. split; [apply tokens_aty_starts|].
      intros rest' _. apply IHts; [exact Hx|exact (forallb_In _ _ _ Hwf Hx)|].
      pose proof (sepl_length_in [TComma] tokens_aty x ts Hx). lia.
    + pose proof (sepl_length_count [TComma] tokens_aty ts
                    (fun x _ => starts_ok_length _ (tokens_aty_starts x))). lia.
  - apply andb_prop in Hwf as [Ha Hn]. cbn [app parse_ty]. rewrite <- !app_assoc. cbn [app].
    rewrite (IHa Ha) by lia. rewrite Hn, Nat2N.id. reflexivity.
  - apply andb_prop in Hwf as [Ha Hk]. cbn [app parse_ty]. rewrite <- !app_assoc. cbn [app].
    rewrite (IHa Ha) by lia. rewrite (parse_bound_pow2 k Hk). reflexivity.
Qed.

Theorem type_roundtrip : forall t,
  aty_wf t = true -> parse_ty (length (tokens_aty t)) (tokens_aty t) = Some (t, []).
Proof.
  intros t Hwf. rewrite <- (app_nil_r (tokens_aty t)) at 2. apply type_roundtrip_fuel; [exact Hwf|lia].
Qed.
Print Assumptions type_roundtrip.

(** ** patterns *)

Lemma pat_ind' : forall P : pat -> Prop,
  (forall x, P (PId x)) -> P PIgn ->
  (forall ps, Forall P ps -> P (PTup ps)) -> (forall ps, Forall P ps -> P (PArr ps)) ->
  forall p, P p.
Proof.
  intros P HId HIgn HTup HArr. fix IH 1. intros p.
  destruct p as [x| |ps|ps]; [apply HId|apply HIgn|apply HTup|apply HArr];
    (induction ps as [|q ps IHps]; [constructor|constructor; [apply IH|exact IHps]]).
Qed.

Theorem pattern_roundtrip_fuel : forall p f rest,
  (length (tokens_pat p) <= f)%nat ->
  parse_pat f (tokens_pat p ++ rest) = Some (p, rest).
Proof.
  induction p as [x| |ps IHps|ps IHps] using pat_ind'; intros f rest Hf; cbn [tokens_pat] in *; len_simpl Hf;
    (destruct f as [|f]; [lia|]).
  - reflexivity.
  - reflexivity.
  - cbn [app parse_pat]. rewrite <- !app_assoc. cbn [app].
    rewrite (tuple_list_ok (fun ts' => parse_pat f ts') tokens_pat (fun x => x) (fun _ => True)); auto.
    + rewrite map_id. reflexivity.
    + rewrite Forall_forall in IHps. apply Forall_forall. intros x Hx. split; [apply tokens_pat_starts|].
      intros rest' _. apply IHps; [exact Hx|].
      pose proof (sepl_length_in [TComma] tokens_pat x ps Hx). lia.
    + pose proof (sepl_length_count [TComma] tokens_pat ps
                    (fun x _ => starts_ok_length _ (tokens_pat_starts x))). lia.
  - cbn [app parse_pat]. rewrite <- !app_assoc. cbn [app].
    rewrite (seq_list_ok (fun ts' => parse_pat f ts') tokens_pat (fun x => x) (fun _ => True) (fun _ => I)
               (fun _ => I) (fun _ => I) false); auto.
    + rewrite map_id. reflexivity.
    + rewrite Forall_forall in IHps. apply Forall_forall. intros x Hx. split; [apply tokens_pat_starts|].
      intros rest' _. apply IHps; [exact Hx|].
      pose proof (sepl_length_in [TComma] tokens_pat x ps Hx). lia.
    + pose proof (sepl_length_count [TComma] tokens_pat ps
                    (fun x _ => starts_ok_length _ (tokens_pat_starts x))). lia.
Qed.

Theorem pattern_roundtrip : forall p,
  parse_pat (length (tokens_pat p)) (tokens_pat p) = Some (p, []).
Proof.
  intros p. rewrite <- (app_nil_r (tokens_pat p)) at 2. apply pattern_roundtrip_fuel. lia.
Qed.
Print Assumptions pattern_roundtrip.
