(* C01: the term emitted by compile evaluates as the source semantics prescribes, and its result is typed *)
From Coq Require Import List Arith NArith Lia Bool.
Import ListNotations.
Require Import SV.Base.Util SV.Base.Res SV.Base.BT SV.Base.BTLemmas SV.Simp.Core SV.Layout.Ty SV.Layout.Value
               SV.Lang.Ast SV.Comp.Select SV.Comp.Fold SV.Comp.ForWhile SV.Comp.Compile SV.Lang.Sem SV.Lang.WT
               SV.Proofs.LayoutLaws SV.Proofs.LayoutRoundtrip SV.Proofs.EvalBasics SV.Proofs.FoldCorrect SV.Proofs.ForWhileCorrect.

(* ---------- induction principle for the nested AST ---------- *)
Definition opt_P (P:expr->Prop) (o:option expr) : Prop := match o with Some e => P e | None => True end.
Section ExprInd.
Variable P : expr -> Prop.
Hypothesis HBlock : forall t stmts last, Forall (fun s => P (snd s)) stmts ->
   opt_P P last -> P (EBlock t stmts last).
Hypothesis HConst : forall t v, P (EConst t v).
Hypothesis HWitness : forall t n, P (EWitness t n).
Hypothesis HParam : forall t n, P (EParam t n).
Hypothesis HVar : forall t x, P (EVar t x).
Hypothesis HParen : forall e, P e -> P (EParen e).
Hypothesis HTuple : forall t es, Forall P es -> P (ETuple t es).
Hypothesis HArray : forall t es, Forall P es -> P (EArray t es).
Hypothesis HList : forall t es, Forall P es -> P (EList t es).
Hypothesis HLeft : forall t e, P e -> P (ELeft t e).
Hypothesis HRight : forall t e, P e -> P (ERight t e).
Hypothesis HNone : forall t, P (ENone t).
Hypothesis HSome : forall t e, P e -> P (ESome t e).
Hypothesis HCall : forall t b es, Forall P es -> P (ECall t b es).
Hypothesis HFn : forall t k ps body es, P body -> Forall P es -> P (EFn t k ps body es).
Hypothesis HMatch : forall t s xl el xr er, P s -> P el -> P er -> P (EMatch t s xl el xr er).
Fixpoint expr_ind' (e:expr) : P e :=
  let go := (fix go l : Forall P l := match l with [] => Forall_nil _ | x::l' => Forall_cons _ (expr_ind' x) (go l') end) in
  match e with
  | EBlock t stmts last => HBlock t stmts last
      ((fix gs l : Forall (fun s => P (snd s)) l := match l with [] => Forall_nil _ | x::l' => Forall_cons _ (expr_ind' (snd x)) (gs l') end) stmts)
      (match last as o return opt_P P o with Some e' => expr_ind' e' | None => I end)
  | EConst t v => HConst t v
  | EWitness t n => HWitness t n
  | EParam t n => HParam t n
  | EVar t x => HVar t x
  | EParen e' => HParen e' (expr_ind' e')
  | ETuple t es => HTuple t es (go es)
  | EArray t es => HArray t es (go es)
  | EList t es => HList t es (go es)
  | ELeft t e' => HLeft t e' (expr_ind' e')
  | ERight t e' => HRight t e' (expr_ind' e')
  | ENone t => HNone t
  | ESome t e' => HSome t e' (expr_ind' e')
  | ECall t b es => HCall t b es (go es)
  | EFn t k ps body es => HFn t k ps body es (expr_ind' body) (go es)
  | EMatch t s xl el xr er => HMatch t s xl el xr er (expr_ind' s) (expr_ind' el) (expr_ind' er)
  end.
End ExprInd.

Lemma tys_eqb_eq a : forall b, tys_eqb a b = true -> a = b.
Proof. induction a; destruct b; cbn; intros H; try discriminate; auto.
  apply andb_true_iff in H as [H1 H2]. apply ty_eqb_eq in H1. f_equal; auto. Qed.

Lemma is_unit_eq t : is_unit t = true -> t = TTuple [].
Proof. destruct t as [| | | |[|? ?]| |]; cbn; intros; try discriminate; reflexivity. Qed.

Lemma input_pat_cons p sc : sc <> [] -> input_pat (p :: sc) = BProd (of_pat p) (input_pat sc).
Proof. destruct sc; [congruence|reflexivity]. Qed.

Lemma rbind_ok {A B} (r:res A) (k:A -> res B) b : rbind r k = Ok b -> exists a, r = Ok a /\ k a = Ok b.
Proof. destruct r; cbn; intros H; try discriminate. eauto. Qed.
Lemma rmap_ok {A B} (f:A->B) (r:res A) b : rmap f r = Ok b -> exists a, r = Ok a /\ b = f a.
Proof. destruct r; cbn; intros H; try discriminate. inversion H; eauto. Qed.

Lemma mapr_ok {A B} (F:A -> res B) l : forall bs, mapr F l = Ok bs -> Forall2 (fun a b => F a = Ok b) l bs.
Proof. induction l; intros bs H; cbn in H. { inversion H; constructor. }
  apply rbind_ok in H as (b & Hb & H). apply rmap_ok in H as (bs' & Hbs & ->). constructor; auto. Qed.

Section Main.
Variable jet : N -> sval -> option sval.
Variable wit : N -> option sval.
Variable args : N -> option value.
Variable dbg : bool.
Variable jsig : N -> option (list ty * ty).
Variable W : N -> option ty.
Notation ev := (eval jet wit).
Notation SEM := (sem jet wit args).
Notation WTY := (wt jsig W args).
Notation COMP := (compile dbg args).

(* the environment of the run agrees with the declarations the program was checked against *)
Hypothesis Hwit : forall n t, W n = Some t -> exists v, wit n = Some v /\ vty v (struct_ty t) = true.
Hypothesis Hjet : forall j ps r a v, jsig j = Some (ps, r) -> vty a (struct_ty (TTuple ps)) = true ->
                                     jet j a = Some v -> vty v (struct_ty r) = true.
Hypothesis Hverify : jet verify_jet (VR VU) = Some VU /\ jet verify_jet (VL VU) = None.

Definition Inv (G:ctx) (sc:list pat) (v:sval) (r:env) : Prop :=
  sc <> [] /\ bindp (input_pat sc) v = Some r /\ env_ty r G.

Definition Good (e:expr) : Prop := forall G sc v r t,
  WTY G e = true -> Inv G sc v r -> COMP sc e = Ok t ->
  ev t v = SEM r e /\ (forall w, SEM r e = Val w -> vty w (struct_ty (ty_of e)) = true).

Lemma with_debug_eval tr a body v : ev (with_debug dbg tr a body) v = bind (ev a v) (ev body).
Proof.
  unfold with_debug. destruct (dbg && tr); [|reflexivity].
  cbn [eval bit_false bind]. destruct (ev a v); reflexivity.
Qed.

(* lists of expressions *)
Lemma good_list es : Forall Good es -> forall G sc v r tl, forallb (fun e0 => WTY G e0) es = true -> Inv G sc v r ->
  mapr (fun e0 => COMP sc e0) es = Ok tl ->
    (forall k, mapo (fun t => ev t v) tl k = mapo (fun e0 => SEM r e0) es k) /\
    (forall vs, Forall2 (fun e w => SEM r e = Val w) es vs -> Forall2 (fun v s => vty v s = true) vs (map struct_ty (map ty_of es))).
Proof.
  induction 1 as [|e es He Hes IH]; intros G sc v r tl Hw HI HC.
  - cbn in HC. inversion HC; subst. split; auto. intros vs H; inversion H; constructor.
  - cbn in Hw. apply andb_true_iff in Hw as [Hw1 Hw2]. cbn in HC.
    apply rbind_ok in HC as (t1 & C1 & HC). apply rmap_ok in HC as (tl' & C2 & ->).
    destruct (He _ _ _ _ _ Hw1 HI C1) as (E1 & T1).
    destruct (IH _ _ _ _ _ Hw2 HI C2) as (E2 & T2).
    split.
    + intros k. cbn. rewrite E1. destruct (SEM r e); cbn; auto.
    + intros vs H. inversion H; subst. cbn. constructor; auto.
Qed.

Lemma forallb_and {A} (f g:A->bool) l : forallb (fun x => f x && g x) l = true -> forallb f l = true /\ forallb g l = true.
Proof. induction l; cbn; auto. intros H. apply andb_true_iff in H as [H1 H2]. apply andb_true_iff in H1 as [? ?].
  destruct (IHl H2). split; apply andb_true_iff; auto. Qed.

Lemma all_ty_repeat es a : forallb (fun e0 => ty_eqb (ty_of e0) a) es = true -> map ty_of es = repeat a (length es).
Proof. induction es; cbn; auto. intros H. apply andb_true_iff in H as [H1 H2]. apply ty_eqb_eq in H1. f_equal; auto. Qed.

Lemma term_block_full l size : 1 <= length l -> term_block l size = InjR (bt Pair Unit l).
Proof. destruct l; cbn; [lia|reflexivity]. Qed.

(* evaluating a partition of terms *)
Lemma eval_part j : forall tl v, length tl < 2^(S j) ->
  ev (part_fold term_block Pair j tl) v = mapo (fun t => ev t v) tl (fun vs => Val (part_fold sval_block VP j vs)).
Proof.
  induction j; intros tl v HL.
  - cbn in HL. destruct tl as [|x [|y tl]]; cbn in HL; try lia; cbn; auto; destruct (ev x v); reflexivity.
  - cbn [part_fold].
    destruct (Nat.ltb_spec (length tl) (2^(S j))) as [Hl|Hg].
    + cbn [eval term_block bind]. rewrite IHj by assumption. rewrite mapo_bind.
      apply mapo_ext_val. intros vs Hvs. apply F2_length in Hvs. cbn [bind].
      destruct (Nat.ltb_spec (length vs) (2^(S j))); [reflexivity|lia].
    + assert (H1: length (firstn (2^(S j)) tl) = 2^(S j)) by (rewrite firstn_length; lia).
      assert (H2: length (skipn (2^(S j)) tl) < 2^(S j)) by (rewrite skipn_length; cbn [Nat.pow] in *; lia).
      pose proof (pow2_pos (S j)) as Hp.
      rewrite term_block_full by lia.
      cbn [eval]. rewrite eval_bt_pair, IHj by assumption.
      match goal with |- _ = mapo ?F tl ?K => replace (mapo F tl K) with (mapo F (firstn (2^(S j)) tl ++ skipn (2^(S j)) tl) K) by (now rewrite firstn_skipn) end.
      rewrite mapo_app.
      rewrite !mapo_bind. apply mapo_ext_val. intros vs1 Hvs1. apply F2_length in Hvs1. cbn [bind].
      rewrite mapo_bind. apply mapo_ext_val. intros vs2 Hvs2. apply F2_length in Hvs2. cbn [bind].
      rewrite app_length.
      destruct (Nat.ltb_spec (length vs1 + length vs2) (2^(S j))); [lia|].
      rewrite firstn_app, skipn_app. replace (2 ^ S j - length vs1) with 0 by lia.
      rewrite firstn_O, app_nil_r, skipn_O, firstn_all2, skipn_all2 by lia. cbn [app].
      rewrite sval_block_full by lia. reflexivity.
Qed.

Lemma params_bind ps vs : Forall2 (fun v s => vty v s = true) vs (map struct_ty (map snd ps)) ->
  exists b, bind_params ps vs = Some b /\ bindp (of_pat (params_pat ps)) (bt VP VU vs) = Some b /\ env_ty b ps.
Proof.
  intros HV. assert (HL: length ps = length vs) by (apply F2_length in HV; rewrite !map_length in HV; lia).
  unfold bind_params. rewrite HL, Nat.eqb_refl. eexists; split; [reflexivity|].
  unfold params_pat. cbn [of_pat]. rewrite map_map. cbn [of_pat].
  assert (K: exists ves, map fst ves = vs /\
     Forall2 (fun bp ve => bindp bp (fst ve) = Some (snd ve)) (map (fun x => BId (fst x)) ps) ves /\
     concat (map snd ves) = combine (map fst ps) vs /\ env_ty (combine (map fst ps) vs) ps).
  { clear HL. revert vs HV. induction ps as [|[x t] ps IH]; intros vs HV.
    - inversion HV; subst. exists []. repeat split; constructor.
    - cbn in HV. inversion HV as [|v0 s0 vs' ss' Hv0 Hvs]; subst.
      destruct (IH vs' Hvs) as (ves & <- & HF & HC & HT).
      exists ((v0,[(x,v0)])::ves). repeat split; cbn; [constructor; auto| now rewrite HC |].
      constructor; [split; auto| exact HT]. }
  destruct K as (ves & <- & HF & HC & HT). split; [|exact HT].
  rewrite <- HC. apply bindp_bt. exact HF.
Qed.

(* ---------- unfolding lemmas for blocks ---------- *)
Lemma comp_blk_let t p e' ss last sc : COMP sc (EBlock t ((Some p, e')::ss) last) =
  rbind (COMP sc e') (fun t1 => rbind (COMP (p::sc) (EBlock t ss last)) (fun t2 => Ok (Comp (Pair t1 Iden) t2))).
Proof. reflexivity. Qed.
Lemma comp_blk_ex t e' ss last sc : COMP sc (EBlock t ((None, e')::ss) last) =
  rbind (COMP sc e') (fun t1 => rbind (COMP sc (EBlock t ss last)) (fun t2 => Ok (Comp (Pair t1 t2) (Drop Iden)))).
Proof. reflexivity. Qed.
Lemma sem_blk_let t p e' ss last r : SEM r (EBlock t ((Some p, e')::ss) last) =
  bind (SEM r e') (fun v => match bindp (of_pat p) v with Some b => SEM (b ++ r) (EBlock t ss last) | None => Stuck end).
Proof. reflexivity. Qed.
Lemma sem_blk_ex t e' ss last r : SEM r (EBlock t ((None, e')::ss) last) =
  bind (SEM r e') (fun _ => SEM r (EBlock t ss last)).
Proof. reflexivity. Qed.
Lemma wt_blk_let t p e' ss last G : WTY G (EBlock t ((Some p, e')::ss) last) =
  WTY G e' && match pat_ctx p (ty_of e') with Some c => WTY (c ++ G) (EBlock t ss last) | None => false end.
Proof. reflexivity. Qed.
Lemma wt_blk_ex t e' ss last G : WTY G (EBlock t ((None, e')::ss) last) =
  WTY G e' && is_unit (ty_of e') && WTY G (EBlock t ss last).
Proof. reflexivity. Qed.

Lemma good_block t stmts last : Forall (fun s => Good (snd s)) stmts -> opt_P Good last -> Good (EBlock t stmts last).
Proof.
  intros HF HL. induction HF as [|[[p|] e1] ss He1 Hss IHss]; intros G sc v r tm Hw HI HC.
  - destruct last as [e|]; cbn in Hw, HC |- *.
    + apply andb_true_iff in Hw as [Hw1 Hw2]. apply ty_eqb_eq in Hw2.
      destruct (HL _ _ _ _ _ Hw1 HI HC) as (E & T). split; [exact E|]. intros w Hs. rewrite <- Hw2. auto.
    + inversion HC; subst. split; [reflexivity|]. intros w Hs. inversion Hs; subst.
      apply is_unit_eq in Hw. subst. reflexivity.
  - rewrite wt_blk_let in Hw. apply andb_true_iff in Hw as [Hw1 Hw2].
    destruct (pat_ctx p (ty_of e1)) as [c|] eqn:Ec; [|discriminate].
    rewrite comp_blk_let in HC. apply rbind_ok in HC as (t1 & C1 & HC). apply rbind_ok in HC as (t2 & C2 & HC).
    inversion HC; subst. rewrite sem_blk_let. cbn [snd] in He1.
    destruct (He1 _ _ _ _ _ Hw1 HI C1) as (E1 & TY1).
    cbn [eval bind]. rewrite E1.
    destruct (SEM r e1) as [v1| |] eqn:Es1; cbn [bind]; try (split; [reflexivity|discriminate]).
    specialize (TY1 _ eq_refl). destruct (bind_pat_typed _ _ _ _ Ec TY1) as (b & Hb & Htb).
    destruct HI as (Hne & HB & HT).
    assert (HI': Inv (c ++ G) (p :: sc) (VP v1 v) (b ++ r)).
    { split; [discriminate|]. split; [rewrite input_pat_cons by assumption; cbn [bindp]; rewrite Hb, HB; reflexivity | apply env_ty_app; auto]. }
    rewrite Hb. exact (IHss _ _ _ _ _ Hw2 HI' C2).
  - rewrite wt_blk_ex in Hw. apply andb_true_iff in Hw as [Hw1 Hw3]. apply andb_true_iff in Hw1 as [Hw1 Hw2].
    rewrite comp_blk_ex in HC. apply rbind_ok in HC as (t1 & C1 & HC). apply rbind_ok in HC as (t2 & C2 & HC).
    inversion HC; subst. rewrite sem_blk_ex. cbn [snd] in He1.
    destruct (He1 _ _ _ _ _ Hw1 HI C1) as (E1 & TY1).
    destruct (IHss _ _ _ _ _ Hw3 HI C2) as (E2 & TY2).
    cbn [eval bind]. rewrite E1.
    destruct (SEM r e1) as [v1| |] eqn:Es1; cbn [bind]; try (split; [reflexivity|discriminate]).
    rewrite E2. split; [|exact TY2].
    destruct (SEM r (EBlock t ss last)); reflexivity.
Qed.

Lemma good_const t v : Good (EConst t v).
Proof.
  intros G sc v0 r tm Hw HI HC. cbn in *. inversion HC; subst.
  apply andb_true_iff in Hw as [Hw1 Hw2]. apply ty_eqb_eq in Hw2. subst.
  split; [cbn; apply scribe_eval|]. intros w E; inversion E; subst. now apply structural_has_type.
Qed.

Lemma good_witness t n : Good (EWitness t n).
Proof.
  intros G sc v0 r tm Hw HI HC. cbn in *. inversion HC; subst.
  destruct (W n) as [t'|] eqn:EW; [|discriminate]. apply ty_eqb_eq in Hw. subst.
  destruct (Hwit _ _ EW) as (v & Hv & Tv). split; [reflexivity|].
  rewrite Hv. intros w E; inversion E; subst. exact Tv.
Qed.

Lemma good_param t n : Good (EParam t n).
Proof.
  intros G sc v0 r tm Hw HI HC. cbn in *.
  destruct (args n) as [v|] eqn:EA; [|discriminate]. inversion HC; subst.
  apply andb_true_iff in Hw as [Hw1 Hw2]. apply ty_eqb_eq in Hw2. subst.
  split; [cbn; apply scribe_eval|]. intros w E; inversion E; subst. now apply structural_has_type.
Qed.

Lemma good_var t x : Good (EVar t x).
Proof.
  intros G sc v0 r tm Hw HI HC. cbn in *.
  destruct (lookupN G x) as [t'|] eqn:EL; [|discriminate]. apply ty_eqb_eq in Hw. subst.
  destruct HI as (Hne & HB & HT).
  destruct (env_ty_lookup _ _ HT _ _ EL) as (w & Hl & Hv).
  pose proof (get_correct jet wit (input_pat sc) v0 r x HB) as HG.
  destruct (get (input_pat sc) x) as [s|]; [|discriminate]. cbn in HC. inversion HC; subst.
  destruct HG as (w' & Hl' & He). rewrite Hl in Hl'. inversion Hl'; subst.
  rewrite Hl. split; auto. intros w E; inversion E; subst; auto.
Qed.

Lemma good_tuple t es : Forall Good es -> Good (ETuple t es).
Proof.
  intros H G sc v0 r tm Hw HI HC. cbn [wt compile sem ty_of] in *.
  apply andb_true_iff in Hw as [Hw1 Hw2]. apply ty_eqb_eq in Hw1. subst.
  apply rmap_ok in HC as (tl & C & ->).
  destruct (good_list _ H _ _ _ _ _ Hw2 HI C) as (E & TY).
  split; [rewrite eval_bt_pair; apply E|].
  intros w Hs. apply mapo_val in Hs. destruct Hs as (vs & F2 & Hk). inversion Hk; subst.
  cbn [struct_ty]. apply vty_bt. apply TY. exact F2.
Qed.

Lemma good_array t es : Forall Good es -> Good (EArray t es).
Proof.
  intros H G sc v0 r tm Hw HI HC. cbn [wt compile sem ty_of] in *.
  destruct t as [| | | | |a n|]; try discriminate.
  apply andb_true_iff in Hw as [Hw1 Hw2]. apply Nat.eqb_eq in Hw1. subst.
  apply forallb_and in Hw2 as [Hw2 Hw3]. apply all_ty_repeat in Hw3.
  apply rmap_ok in HC as (tl & C & ->).
  destruct (good_list _ H _ _ _ _ _ Hw2 HI C) as (E & TY).
  split; [rewrite eval_bt_pair; apply E|].
  intros w Hs. apply mapo_val in Hs. destruct Hs as (vs & F2 & Hk). inversion Hk; subst.
  cbn [struct_ty]. apply vty_bt. specialize (TY _ F2). rewrite Hw3, map_repeat' in TY. exact TY.
Qed.

Lemma good_elist t es : Forall Good es -> Good (EList t es).
Proof.
  intros H G sc v0 r tm Hw HI HC. cbn [wt compile sem ty_of] in *.
  destruct t as [| | | | | |a k]; try discriminate.
  apply andb_true_iff in Hw as [Hw1 Hw3]. apply andb_true_iff in Hw1 as [Hw0 Hw1].
  apply Nat.leb_le in Hw0. apply Nat.ltb_lt in Hw1.
  apply forallb_and in Hw3 as [Hw2 Hw3]. apply all_ty_repeat in Hw3.
  apply rbind_ok in HC as (tl & C & HC).
  pose proof (mapr_ok _ _ _ C) as HLen. apply F2_length in HLen.
  destruct (Nat.ltb_spec (length tl) (2^k)) as [Hlt|]; [|discriminate]. inversion HC; subst.
  destruct (good_list _ H _ _ _ _ _ Hw2 HI C) as (E & TY).
  split.
  - rewrite eval_part by (replace (S (k-1)) with k by lia; exact Hlt). apply E.
  - intros w Hs. apply mapo_val in Hs. destruct Hs as (vs & F2 & Hk). inversion Hk; subst.
    cbn [struct_ty]. specialize (TY _ F2). rewrite Hw3, map_repeat' in TY.
    replace (2^k - 1) with (2^(S (k-1)) - 1) by (replace (S (k-1)) with k by lia; reflexivity).
    apply vty_part.
    + clear -TY. remember (repeat (struct_ty a) (length es)) as ss. revert Heqss. generalize (length es).
      induction TY; intros n E; [constructor|]. destruct n; [discriminate|]. cbn in E. inversion E; subst. constructor; eauto.
    + apply F2_length in F2. replace (S (k-1)) with k by lia. lia.
Qed.

Lemma good_inj (mk:ty->expr->expr) (inj:sval->sval) (ti:term->term) :
  (forall t e, ty_of (mk t e) = t) ->
  (forall t e sc, COMP sc (mk t e) = rmap ti (COMP sc e)) ->
  (forall t e r, SEM r (mk t e) = bind (SEM r e) (fun v => Val (inj v))) ->
  (forall t v, ev (ti t) v = bind (ev t v) (fun x => Val (inj x))) ->
  forall t e (side: ty -> option ty),
  (forall G, WTY G (mk t e) = match side t with Some a => WTY G e && ty_eqb (ty_of e) a | None => false end) ->
  (forall a x, side t = Some a -> vty x (struct_ty a) = true -> vty (inj x) (struct_ty t) = true) ->
  Good e -> Good (mk t e).
Proof.
  intros Hty Hc Hs He t e side Hw Hv IH G sc v0 r tm W0 HI HC.
  rewrite Hw in W0. destruct (side t) as [a|] eqn:Es; [|discriminate].
  apply andb_true_iff in W0 as [W1 W2]. apply ty_eqb_eq in W2.
  rewrite Hc in HC. apply rmap_ok in HC as (t1 & C & ->).
  destruct (IH _ _ _ _ _ W1 HI C) as (E & TY). rewrite Hs, He, E, Hty. split; [reflexivity|].
  intros w Hsw. destruct (SEM r e); cbn in Hsw; try discriminate. inversion Hsw; subst.
  eapply Hv; [reflexivity|]. auto.
Qed.

Lemma good_left t e : Good e -> Good (ELeft t e).
Proof.
  apply (good_inj ELeft VL InjL) with (side := fun t => match t with TEither a _ => Some a | _ => None end); try reflexivity.
  - intros G. cbn. destruct t; reflexivity.
  - intros a x Hs Hx. destruct t; try discriminate. inversion Hs; subst. exact Hx.
Qed.
Lemma good_right t e : Good e -> Good (ERight t e).
Proof.
  apply (good_inj ERight VR InjR) with (side := fun t => match t with TEither _ b => Some b | _ => None end); try reflexivity.
  - intros G. cbn. destruct t; reflexivity.
  - intros a x Hs Hx. destruct t; try discriminate. inversion Hs; subst. exact Hx.
Qed.
Lemma good_some t e : Good e -> Good (ESome t e).
Proof.
  apply (good_inj ESome VR InjR) with (side := fun t => match t with TOption a => Some a | _ => None end); try reflexivity.
  - intros G. cbn. destruct t; reflexivity.
  - intros a x Hs Hx. destruct t; try discriminate. inversion Hs; subst. exact Hx.
Qed.
Lemma good_none t : Good (ENone t).
Proof.
  intros G sc v0 r tm Hw HI HC. cbn in *. inversion HC; subst. split; [reflexivity|].
  intros w E; inversion E; subst. destruct t; try discriminate. reflexivity.
Qed.

(* ---------- builtin calls ---------- *)
Ltac inv_F2 :=
  repeat match goal with
  | H : Forall2 _ _ (_ :: _) |- _ => inversion H; subst; clear H
  | H : Forall2 _ _ [] |- _ => inversion H; subst; clear H
  end.

Lemma vty_bool_inv v : vty v (SSum SUnit SUnit) = true -> v = VL VU \/ v = VR VU.
Proof. destruct v as [|x|x|? ?]; cbn; try discriminate; destruct x; try discriminate; auto. Qed.

Lemma builtin_sem b ats t vs body : wt_builtin jsig b ats t = true ->
  Forall2 (fun v s => vty v s = true) vs (map struct_ty ats) ->
  builtin_body b = Some body -> ev body (bt VP VU vs) = sem_builtin jet b vs.
Proof.
  intros Hw HV Hb.
  destruct b; cbn in Hb; inversion Hb; subst; clear Hb; cbn [wt_builtin] in Hw.
  - (* jet *) reflexivity.
  - (* unwrap_left *) destruct ats as [|[a b'| | | | | |] [|? ?]]; try discriminate. cbn in HV. inv_F2.
    match goal with H : vty ?x (SSum _ _) = true |- _ => destruct x; cbn in H; try discriminate end; reflexivity.
  - destruct ats as [|[a b'| | | | | |] [|? ?]]; try discriminate. cbn in HV. inv_F2.
    match goal with H : vty ?x (SSum _ _) = true |- _ => destruct x; cbn in H; try discriminate end; reflexivity.
  - destruct ats as [|[|a| | | | |] [|? ?]]; try discriminate. cbn in HV. inv_F2.
    match goal with H : vty ?x (SSum _ _) = true |- _ => destruct x; cbn in H; try discriminate end; reflexivity.
  - (* is_none *) destruct ats as [|[|a| | | | |] [|? ?]]; try discriminate. cbn in HV. inv_F2.
    match goal with H : vty ?x (SSum _ _) = true |- _ => destruct x; cbn in H; try discriminate end; reflexivity.
  - (* assert *) destruct ats as [|[| | | | | |] [|? ?]]; try discriminate. cbn in HV. inv_F2.
    match goal with H : vty ?x (SSum _ _) = true |- _ => apply vty_bool_inv in H as [-> | ->] end;
      unfold bt; cbn [btree eval length sem_builtin]; destruct Hverify as [V1 V2]; [rewrite V2|rewrite V1]; reflexivity.
  - (* panic *) destruct ats; try discriminate. cbn in HV. inv_F2. reflexivity.
  - (* dbg *) destruct ats as [|a [|? ?]]; try discriminate. cbn in HV. inv_F2. reflexivity.
Qed.

Lemma builtin_cast src ats t vs : wt_builtin jsig (BCast src) ats t = true ->
  Forall2 (fun v s => vty v s = true) vs (map struct_ty ats) ->
  Val (bt VP VU vs) = sem_builtin jet (BCast src) vs.
Proof. cbn. intros Hw HV. destruct ats as [|a [|? ?]]; try discriminate. cbn in HV. inv_F2. reflexivity. Qed.

Lemma builtin_typed b ats t vs w : wt_builtin jsig b ats t = true ->
  Forall2 (fun v s => vty v s = true) vs (map struct_ty ats) ->
  sem_builtin jet b vs = Val w -> vty w (struct_ty t) = true.
Proof.
  intros Hw HV Hs. destruct b; cbn [wt_builtin] in Hw.
  - (* jet *) destruct (jsig j) as [[ps r0]|] eqn:Ej; [|discriminate].
    apply andb_true_iff in Hw as [H1 H2]. apply tys_eqb_eq in H1. apply ty_eqb_eq in H2. subst.
    cbn in Hs. destruct (jet j (bt VP VU vs)) as [v|] eqn:Ev; [|discriminate]. inversion Hs; subst.
    eapply Hjet; eauto. cbn [struct_ty]. apply vty_bt. exact HV.
  - destruct ats as [|[a b'| | | | | |] [|? ?]]; try discriminate. apply ty_eqb_eq in Hw. subst. cbn in HV. inv_F2.
    match goal with H : vty ?x (SSum _ _) = true |- _ => destruct x; cbn in H; try discriminate end; cbn in Hs; inversion Hs; subst; auto.
  - destruct ats as [|[a b'| | | | | |] [|? ?]]; try discriminate. apply ty_eqb_eq in Hw. subst. cbn in HV. inv_F2.
    match goal with H : vty ?x (SSum _ _) = true |- _ => destruct x; cbn in H; try discriminate end; cbn in Hs; inversion Hs; subst; auto.
  - destruct ats as [|[|a| | | | |] [|? ?]]; try discriminate. apply ty_eqb_eq in Hw. subst. cbn in HV. inv_F2.
    match goal with H : vty ?x (SSum _ _) = true |- _ => destruct x; cbn in H; try discriminate end; cbn in Hs; inversion Hs; subst; auto.
  - destruct ats as [|[|a| | | | |] [|? ?]]; try discriminate. apply ty_eqb_eq in Hw. subst. cbn in HV. inv_F2.
    match goal with H : vty ?x (SSum _ _) = true |- _ => destruct x; cbn in H; try discriminate end; cbn in Hs; inversion Hs; subst; reflexivity.
  - destruct ats as [|[| | | | | |] [|? ?]]; try discriminate. apply is_unit_eq in Hw. subst. cbn in HV. inv_F2.
    match goal with H : vty ?x (SSum _ _) = true |- _ => apply vty_bool_inv in H as [-> | ->] end; cbn in Hs; inversion Hs; subst; reflexivity.
  - cbn in Hs. discriminate.
  - destruct ats as [|a [|? ?]]; try discriminate. apply ty_eqb_eq in Hw. subst. cbn in HV. inv_F2. cbn in Hs. inversion Hs; subst; auto.
  - destruct ats as [|a [|? ?]]; try discriminate. apply andb_true_iff in Hw as [H1 H2]. apply ty_eqb_eq in H1. subst.
    apply cast_ok_iff in H2. cbn in HV. inv_F2. cbn in Hs. inversion Hs; subst. rewrite <- H2. auto.
Qed.

Lemma good_call t b es : Forall Good es -> Good (ECall t b es).
Proof.
  intros H G sc v0 r tm Hw HI HC. cbn [wt compile sem ty_of] in *.
  apply andb_true_iff in Hw as [Hw1 Hw2].
  apply rbind_ok in HC as (a & Ca & HC). apply rmap_ok in Ca as (tl & C & ->).
  destruct (good_list _ H _ _ _ _ _ Hw1 HI C) as (E & TY).
  split.
  - assert (Key: forall body, builtin_body b = Some body ->
              bind (ev (bt Pair Unit tl) v0) (ev body) = mapo (fun e0 => SEM r e0) es (sem_builtin jet b)).
    { intros body Hb. rewrite eval_bt_pair, E, mapo_bind. apply mapo_ext_val. intros vs Hvs. cbn [bind].
      eapply builtin_sem; eauto. }
    destruct b; cbn [builtin_body] in HC; inversion HC; subst; clear HC;
      try (rewrite with_debug_eval; apply Key; reflexivity).
    + (* is_none *) cbn [eval]. change (bind (ev (bt Pair Unit tl) v0) (ev (Comp (Pair Iden Unit) (Case bit_true bit_false))) = mapo (fun e0 => SEM r e0) es (sem_builtin jet BIsNone)).
      apply Key. reflexivity.
    + (* cast *) rewrite eval_bt_pair, E. apply mapo_ext_val. intros vs Hvs. eapply builtin_cast; eauto.
  - intros w Hs. apply mapo_val in Hs as (vs & Hvs & Hk). eapply builtin_typed; eauto.
Qed.

(* ---------- calls of custom functions, fold, for_while ---------- *)
Definition call_sem (ps:list (N*ty)) (body:expr) (vs:list sval) : out :=
  match bind_params ps vs with Some b => SEM b body | None => Stuck end.

Lemma good_body_call ps body tb : Good body -> WTY ps body = true -> COMP [params_pat ps] body = Ok tb ->
  forall vs, Forall2 (fun v s => vty v s = true) vs (map struct_ty (map snd ps)) ->
    ev tb (bt VP VU vs) = call_sem ps body vs /\
    (forall w, call_sem ps body vs = Val w -> vty w (struct_ty (ty_of body)) = true).
Proof.
  intros IH Hw Cb vs HV. destruct (params_bind ps vs HV) as (b & Hb1 & Hb2 & Hb3).
  unfold call_sem. rewrite Hb1.
  apply (IH ps [params_pat ps] (bt VP VU vs) b tb Hw); [|exact Cb].
  split; [discriminate|]. split; [exact Hb2|exact Hb3].
Qed.

Lemma loopU_loop_inv (P:sval->Prop) (R:sval->Prop) G1 G2 k : forall i a,
  (forall a i, P a -> G1 a i = G2 a i /\
      (forall w, G2 a i = Val w -> R w /\ match w with VL _ => True | VR a' => P a' | _ => False end)) ->
  P a -> loopU G1 (S k) i a = loop G2 (S k) i a /\ (forall w, loop G2 (S k) i a = Val w -> R w \/ (exists a', w = VR a' /\ P a')).
Proof.
  induction k; intros i a H Pa.
  - cbn [loopU loop]. destruct (H a i Pa) as (E & T). rewrite E.
    destruct (G2 a i) as [w| |] eqn:EG; try (split; [reflexivity|discriminate]).
    destruct (T w eq_refl) as (Rw & Sh). destruct w; try contradiction; split; try reflexivity.
    + intros w' Hw'. inversion Hw'; subst. left; exact Rw.
    + intros w' Hw'. inversion Hw'; subst. right. eauto.
  - rewrite loopU_step. cbn [loop]. destruct (H a i Pa) as (E & T). rewrite E.
    destruct (G2 a i) as [w| |] eqn:EG; try (split; [reflexivity|discriminate]).
    destruct (T w eq_refl) as (Rw & Sh). destruct w; try contradiction.
    + split; [reflexivity|]. intros w' Hw'. inversion Hw'; subst. left; exact Rw.
    + apply IHk; assumption.
Qed.

Lemma F2_two {A B} (R:A->B->Prop) vs s1 s2 : Forall2 R vs [s1;s2] -> exists a b, vs = [a;b] /\ R a s1 /\ R b s2.
Proof. intros H. inv_F2. eauto. Qed.

Lemma bt3 (x y z:sval) : bt VP VU [x;y;z] = VP x (VP y z). Proof. reflexivity. Qed.
Lemma bt2 (x y:sval) : bt VP VU [x;y] = VP x y. Proof. reflexivity. Qed.

Lemma good_fn t k ps body es : Good body -> Forall Good es -> Good (EFn t k ps body es).
Proof.
  intros IHb H G sc v0 r tm Hw HI HC. cbn [wt compile sem ty_of] in *.
  apply andb_true_iff in Hw as [Hw Hk]. apply andb_true_iff in Hw as [Hw1 Hwb].
  apply rbind_ok in HC as (a & Ca & HC). apply rmap_ok in Ca as (tl & C & ->).
  apply rbind_ok in HC as (tb & Cb & HC).
  destruct (good_list _ H _ _ _ _ _ Hw1 HI C) as (E & TY).
  pose proof (good_body_call ps body tb IHb Hwb Cb) as Call.
  fold (call_sem ps body).
  destruct k as [|kk|w].
  - (* custom *)
    inversion HC; subst. apply andb_true_iff in Hk as [Hk1 Hk2]. apply tys_eqb_eq in Hk1. apply ty_eqb_eq in Hk2. subst.
    split.
    + cbn [eval]. rewrite eval_bt_pair, E, mapo_bind. apply mapo_ext_val. intros vs Hvs. cbn [bind].
      apply Call. specialize (TY _ Hvs). rewrite Hk1 in TY. exact TY.
    + intros w Hs. apply mapo_val in Hs as (vs & Hvs & Hk). specialize (TY _ Hvs). rewrite Hk1 in TY.
      eapply Call; eauto.
  - (* fold *)
    inversion HC; subst.
    destruct ps as [|[x Et] [|[y At] [|? ?]]]; try discriminate.
    apply andb_true_iff in Hk as [Hk Hk4]. apply andb_true_iff in Hk as [Hk Hk3]. apply andb_true_iff in Hk as [Hk1 Hk2].
    apply Nat.leb_le in Hk1. apply tys_eqb_eq in Hk2. apply ty_eqb_eq in Hk3. apply ty_eqb_eq in Hk4. subst t.
    assert (Step: forall el a, vty el (struct_ty Et) = true -> vty a (struct_ty At) = true ->
              ev tb (VP el a) = call_sem [(x,Et);(y,At)] body [el; a] /\
              (forall w, call_sem [(x,Et);(y,At)] body [el; a] = Val w -> vty w (struct_ty At) = true)).
    { intros el a0 Hel Ha. rewrite <- bt2. rewrite <- Hk3. apply Call. cbn. repeat constructor; assumption. }
    assert (Fold: forall els, Forall (fun x => vty x (struct_ty Et) = true) els -> forall a0, vty a0 (struct_ty At) = true ->
              foldF jet wit tb els a0 = fold_left (fun acc el => bind acc (fun a => call_sem [(x,Et);(y,At)] body [el; a])) els (Val a0) /\
              (forall w, foldF jet wit tb els a0 = Val w -> vty w (struct_ty At) = true)).
    { intros els HF. induction HF as [|el els Hel Hels IHf]; intros a0 Ha.
      - cbn. split; [reflexivity|]. intros w Hw'. inversion Hw'; subst. exact Ha.
      - unfold foldF in *. cbn [fold_left bind]. unfold F at 2. unfold F at 3.
        destruct (Step el a0 Hel Ha) as (S1 & S2). rewrite S1.
        destruct (call_sem [(x, Et); (y, At)] body [el; a0]) as [a1| |] eqn:Ec.
        + apply IHf. apply S2. reflexivity.
        + rewrite fold_failed. split; [|discriminate]. clear. induction els; cbn; auto.
        + rewrite fold_stuck. split; [|discriminate]. clear. induction els; cbn; auto. }
    assert (Main: forall vs, Forall2 (fun e w => SEM r e = Val w) es vs ->
       ev (list_fold kk tb) (bt VP VU vs) =
         match vs with
         | [lv; a0] => match as_list (kk-1) lv with
                       | Some els => fold_left (fun acc el => bind acc (fun a => call_sem [(x,Et);(y,At)] body [el; a])) els (Val a0)
                       | None => Stuck end
         | _ => Stuck end /\
       (forall w, ev (list_fold kk tb) (bt VP VU vs) = Val w -> vty w (struct_ty At) = true)).
    { intros vs Hvs. specialize (TY _ Hvs). rewrite Hk2 in TY. cbn [map] in TY.
      destruct (F2_two _ _ _ _ TY) as (lv0 & acc0 & -> & Hlv & Hacc).
      cbn [struct_ty] in Hlv.
      replace (2^kk - 1) with (2^(S (kk-1)) - 1) in Hlv by (replace (S (kk-1)) with kk by lia; reflexivity).
      destruct (typed_list_canonical _ _ _ Hlv) as (els & Hal & Hcan & Hlen & HFe).
      rewrite Hal. rewrite bt2. rewrite Hcan.
      rewrite list_fold_correct by (try lia; replace kk with (S (kk-1)) at 1 by lia; exact Hlen).
      destruct (Fold els HFe acc0 Hacc) as (F1 & F2). split; [exact F1|exact F2]. }
    split.
    + cbn [eval]. rewrite eval_bt_pair, E, mapo_bind. apply mapo_ext_val. intros vs Hvs. cbn [bind].
      destruct (Main vs Hvs) as (M1 & _). rewrite M1. destruct vs as [|lv [|a0 [|? ?]]]; reflexivity.
    + intros w Hs. apply mapo_val in Hs as (vs & Hvs & Hk). destruct (Main vs Hvs) as (M1 & M2).
      apply M2. rewrite M1. rewrite <- Hk. destruct vs as [|lv [|a0 [|? ?]]]; reflexivity.
  - (* for_while *)
    inversion HC; subst.
    destruct ps as [|[x At] [|[y Ct] [|[z [| | |w'| | |]] [|? ?]]]]; try discriminate.
    destruct t as [Bt At'| | | | | |]; try discriminate.
    apply andb_true_iff in Hk as [Hk Hk4]. apply andb_true_iff in Hk as [Hk Hk3]. apply andb_true_iff in Hk as [Hk1 Hk2].
    apply Nat.eqb_eq in Hk1. apply ty_eqb_eq in Hk2. apply tys_eqb_eq in Hk3. apply ty_eqb_eq in Hk4. subst w' At'.
    set (PS := [(x, At); (y, Ct); (z, TUInt w)]) in *.
    assert (Step: forall a c i, vty a (struct_ty At) = true -> vty c (struct_ty Ct) = true ->
              ev tb (VP a (VP c (uint_sval w (N.of_nat i)))) = call_sem PS body [a; c; uint_sval w (N.of_nat i)] /\
              (forall r0, call_sem PS body [a; c; uint_sval w (N.of_nat i)] = Val r0 -> vty r0 (struct_ty (TEither Bt At)) = true)).
    { intros a0 c i Ha Hc. rewrite <- bt3. rewrite <- Hk4. apply Call. cbn. repeat constructor; try assumption. apply uint_sval_vty. }
    assert (Main: forall vs, Forall2 (fun e w0 => SEM r e = Val w0) es vs ->
       ev (for_while w tb) (bt VP VU vs) =
         match vs with
         | [a0; c] => loop (fun a i => call_sem PS body [a; c; uint_sval w (N.of_nat i)]) (2^(2^w)) 0 a0
         | _ => Stuck end /\
       (forall r0, ev (for_while w tb) (bt VP VU vs) = Val r0 -> vty r0 (struct_ty (TEither Bt At)) = true)).
    { intros vs Hvs. specialize (TY _ Hvs). rewrite Hk3 in TY. cbn [map] in TY.
      destruct (F2_two _ _ _ _ TY) as (acc0 & ctx0 & -> & Hacc & Hctx).
      rewrite bt2, for_while_exact.
      assert (Hp: exists K, 2^(2^w) = S K) by (pose proof (pow_pos (2^w)); exists (2^(2^w) - 1); lia).
      destruct Hp as (K & ->).
      destruct (loopU_loop_inv (fun a => vty a (struct_ty At) = true) (fun r0 => vty r0 (struct_ty (TEither Bt At)) = true)
                  (fun a i => ev tb (VP a (VP ctx0 (uint_sval w (N.of_nat i)))))
                  (fun a i => call_sem PS body [a; ctx0; uint_sval w (N.of_nat i)]) K 0 acc0) as (L1 & L2).
      - intros a i Pa. destruct (Step a ctx0 i Pa Hctx) as (S1 & S2). split; [exact S1|].
        intros r0 Hr. specialize (S2 _ Hr). split; [exact S2|].
        cbn [struct_ty vty] in S2. destruct r0; try discriminate; auto.
      - exact Hacc.
      - split; [exact L1|]. intros r0 Hr. rewrite L1 in Hr. destruct (L2 _ Hr) as [Rr|(a' & -> & Pa')]; [exact Rr|].
        cbn [struct_ty vty]. exact Pa'. }
    split.
    + cbn [eval]. rewrite eval_bt_pair, E, mapo_bind. apply mapo_ext_val. intros vs Hvs. cbn [bind].
      destruct (Main vs Hvs) as (M1 & _). rewrite M1. destruct vs as [|a0 [|c [|? ?]]]; reflexivity.
    + intros r0 Hs. apply mapo_val in Hs as (vs & Hvs & Hk). destruct (Main vs Hvs) as (M1 & M2).
      apply M2. rewrite M1. rewrite <- Hk. destruct vs as [|a0 [|c [|? ?]]]; reflexivity.
Qed.

(* ---------- match ---------- *)
Lemma inv_arm G sc v0 r x a av : Inv G sc v0 r -> vty av (struct_ty a) = true ->
  Inv (arm_ctx x a G) (arm_pat x :: sc) (VP av v0) (match x with Some i => (i,av)::r | None => r end).
Proof.
  intros (Hne & HB & HT) Hv. split; [discriminate|].
  rewrite input_pat_cons by assumption. destruct x as [i|]; cbn [arm_pat of_pat bindp arm_ctx]; rewrite HB.
  - split; [reflexivity|]. constructor; [split; auto|exact HT].
  - split; [reflexivity|exact HT].
Qed.

Lemma good_match t s xl el xr er : Good s -> Good el -> Good er -> Good (EMatch t s xl el xr er).
Proof.
  intros IHs IHl IHr G sc v0 r tm Hw HI HC. cbn [wt compile sem ty_of] in *.
  apply andb_true_iff in Hw as [Hw Ht2]. apply andb_true_iff in Hw as [Hw Ht1]. apply andb_true_iff in Hw as [Hws Harms].
  apply ty_eqb_eq in Ht1. apply ty_eqb_eq in Ht2.
  apply rbind_ok in HC as (tl & Cl & HC). apply rbind_ok in HC as (tr & Cr & HC). apply rbind_ok in HC as (ts & Cs & HC).
  inversion HC; subst tm; clear HC.
  destruct (IHs _ _ _ _ _ Hws HI Cs) as (Es & TYs).
  cbn [eval bind]. rewrite Es.
  destruct (SEM r s) as [vs| |] eqn:Ess; cbn [bind]; try (split; [reflexivity|discriminate]).
  specialize (TYs _ eq_refl).
  destruct (ty_of s) as [a b|a| | | | |] eqn:Ety; try discriminate; cbn [struct_ty] in TYs.
  - (* Either *) apply andb_true_iff in Harms as [Hl Hr].
    destruct vs as [|av|bv|? ?]; cbn [vty] in TYs; try discriminate; cbn [eval].
    + destruct (IHl _ _ _ _ _ Hl (inv_arm _ _ _ _ xl a av HI TYs) Cl) as (E & T). rewrite Ht1 in T. split; assumption.
    + destruct (IHr _ _ _ _ _ Hr (inv_arm _ _ _ _ xr b bv HI TYs) Cr) as (E & T). rewrite Ht2 in T. split; assumption.
  - (* Option *) destruct xl; [discriminate|]. apply andb_true_iff in Harms as [Hl Hr].
    destruct vs as [|av|bv|? ?]; cbn [vty] in TYs; try discriminate; cbn [eval].
    + assert (HI': Inv G (arm_pat None :: sc) (VP av v0) r).
      { destruct HI as (Hne & HB & HT). split; [discriminate|]. rewrite input_pat_cons by assumption.
        cbn [arm_pat of_pat bindp]. rewrite HB. split; [reflexivity|exact HT]. }
      destruct (IHl _ _ _ _ _ Hl HI' Cl) as (E & T). rewrite Ht1 in T. split; assumption.
    + destruct (IHr _ _ _ _ _ Hr (inv_arm _ _ _ _ xr a bv HI TYs) Cr) as (E & T). rewrite Ht2 in T. split; assumption.
  - (* bool *) destruct xl; [discriminate|]. destruct xr; [discriminate|]. apply andb_true_iff in Harms as [Hl Hr].
    assert (HI': forall av, Inv G (arm_pat None :: sc) (VP av v0) r).
    { intros av. destruct HI as (Hne & HB & HT). split; [discriminate|]. rewrite input_pat_cons by assumption.
      cbn [arm_pat of_pat bindp]. rewrite HB. split; [reflexivity|exact HT]. }
    destruct vs as [|av|bv|? ?]; cbn [vty] in TYs; try discriminate; cbn [eval].
    + destruct (IHl _ _ _ _ _ Hl (HI' av) Cl) as (E & T). rewrite Ht1 in T. split; assumption.
    + destruct (IHr _ _ _ _ _ Hr (HI' bv) Cr) as (E & T). rewrite Ht2 in T. split; assumption.
Qed.

Theorem compile_correct_good e : Good e.
Proof.
  induction e using expr_ind'.
  - apply good_block; assumption.
  - apply good_const.
  - apply good_witness.
  - apply good_param.
  - apply good_var.
  - intros G sc v0 r tm Hw HI HC. cbn in *. eapply IHe; eauto.
  - apply good_tuple; assumption.
  - apply good_array; assumption.
  - apply good_elist; assumption.
  - apply good_left; assumption.
  - apply good_right; assumption.
  - apply good_none.
  - apply good_some; assumption.
  - apply good_call; assumption.
  - apply good_fn; assumption.
  - apply good_match; assumption.
Qed.

(* The statement for expressions in an arbitrary scope ... *)
Theorem compile_correct : forall G sc v r t e,
  WTY G e = true -> Inv G sc v r -> COMP sc e = Ok t ->
  ev t v = SEM r e /\ (forall w, SEM r e = Val w -> vty w (struct_ty (ty_of e)) = true).
Proof. intros. eapply compile_correct_good; eauto. Qed.

(* ... and for whole programs: main runs on the unit input and succeeds exactly when the source run does *)
Theorem compile_program_correct : forall main t,
  wt_program jsig W args main = true -> compile_program dbg args main = Ok t ->
  ev t VU = sem_program jet wit args main.
Proof.
  intros main t Hw HC. unfold wt_program in Hw. apply andb_true_iff in Hw as [Hw _].
  unfold compile_program in HC. unfold sem_program.
  apply (compile_correct [] [PIgn] VU [] t main Hw); [|exact HC].
  split; [discriminate|]. split; [reflexivity|constructor].
Qed.
End Main.
