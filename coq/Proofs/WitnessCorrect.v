(* C05 / C12(b) / C02(b): consistency checks and what they guarantee *)
From Coq Require Import List Arith NArith Bool Permutation Lia.
Import ListNotations.
Require Import SV.Base.Util SV.Simp.Core SV.Layout.Ty SV.Layout.Value SV.Wit.Consistent
               SV.Proofs.LayoutLaws SV.Proofs.LayoutRoundtrip.

Lemma ty_eqb_refl t : ty_eqb t t = true.
Proof.
  induction t using ty_ind'; cbn; rewrite ?IHt, ?IHt1, ?IHt2, ?Nat.eqb_refl; auto.
  induction H; auto. now rewrite H, IHForall.
Qed.
Lemma ty_eqb_iff a b : ty_eqb a b = true <-> a = b.
Proof. split; [apply ty_eqb_eq| intros ->; apply ty_eqb_refl]. Qed.

Theorem wit_consistent_spec vals decl :
  wit_consistent vals decl = false <->
  exists n v t, In (n,v) vals /\ decl n = Some t /\ type_of v <> t.
Proof.
  unfold wit_consistent. split.
  - intros H. induction vals as [|[n v] vals IH]; [discriminate|]. cbn in H.
    apply andb_false_iff in H as [H|H].
    + destruct (decl n) as [t|] eqn:Ed; [|discriminate]. exists n, v, t. repeat split; auto. now left.
      intros E. apply ty_eqb_iff in E. congruence.
    + destruct (IH H) as (n' & v' & t' & Hin & Hd & Hne). exists n', v', t'. repeat split; auto. now right.
  - intros (n & v & t & Hin & Hd & Hne). apply not_true_iff_false. intros H.
    rewrite forallb_forall in H. specialize (H _ Hin). cbn in H. rewrite Hd in H. apply ty_eqb_iff in H. contradiction.
Qed.

Theorem wit_consistent_perm vals vals' decl : Permutation vals vals' -> wit_consistent vals decl = wit_consistent vals' decl.
Proof.
  unfold wit_consistent. induction 1; cbn; auto.
  - now rewrite IHPermutation.
  - rewrite !andb_assoc. f_equal. apply andb_comm.
  - congruence.
Qed.

Theorem wit_consistent_undeclared_ignored n v vals decl : decl n = None ->
  wit_consistent ((n,v) :: vals) decl = wit_consistent vals decl.
Proof. intros H. unfold wit_consistent. cbn. now rewrite H. Qed.

Theorem args_consistent_spec args params :
  args_consistent args params = false <->
  exists n t, In (n,t) params /\ (args n = None \/ exists v, args n = Some v /\ type_of v <> t).
Proof.
  unfold args_consistent. split.
  - intros H. induction params as [|[n t] ps IH]; [discriminate|]. cbn in H.
    apply andb_false_iff in H as [H|H].
    + exists n, t. split; [now left|]. destruct (args n) as [v|]; [right|now left].
      exists v. split; auto. intros E. apply ty_eqb_iff in E. congruence.
    + destruct (IH H) as (n' & t' & Hin & Hc). exists n', t'. split; auto. now right.
  - intros (n & t & Hin & Hc). apply not_true_iff_false. intros H.
    rewrite forallb_forall in H. specialize (H _ Hin). cbn in H.
    destruct Hc as [Hn|(v & Hv & Hne)]; [now rewrite Hn in H|]. rewrite Hv in H. apply ty_eqb_iff in H. contradiction.
Qed.

Theorem args_consistent_perm args ps ps' : Permutation ps ps' -> args_consistent args ps = args_consistent args ps'.
Proof.
  unfold args_consistent. induction 1; cbn; auto.
  - now rewrite IHPermutation.
  - rewrite !andb_assoc. f_equal. apply andb_comm.
  - congruence.
Qed.

(* extra arguments are ignored: only the parameters' names are ever looked up *)
Theorem args_consistent_extras args args' params :
  (forall n t, In (n,t) params -> args n = args' n) -> args_consistent args params = args_consistent args' params.
Proof.
  intros H. unfold args_consistent. induction params as [|[n t] ps IH]; cbn; auto.
  rewrite (H n t) by now left. f_equal. apply IH. intros n' t' Hin; apply (H n' t'); now right.
Qed.

(* what a successful consistency check delivers to the back end:
   every declared witness with a supplied (well-formed) value is populated with a value of exactly the declared layout *)
Theorem consistent_delivers vals decl :
  NoDup (map fst vals) -> forallb (fun nv => value_wf (snd nv)) vals = true ->
  wit_consistent vals decl = true ->
  forall n t v, decl n = Some t -> lookupN vals n = Some v ->
    populate vals n = Some (structural v) /\ vty (structural v) (struct_ty t) = true.
Proof.
  intros _ Hwf Hc n t v Hd Hl. unfold populate. rewrite Hl. split; [reflexivity|].
  assert (Hin: In (n,v) vals).
  { clear -Hl. induction vals as [|[m w] vals IH]; cbn in Hl; [discriminate|].
    destruct (N.eqb_spec n m); [inversion Hl; subst; now left| right; auto]. }
  unfold wit_consistent in Hc. rewrite forallb_forall in Hc, Hwf.
  specialize (Hc _ Hin). specialize (Hwf _ Hin). cbn in Hc, Hwf. rewrite Hd in Hc. apply ty_eqb_iff in Hc.
  rewrite <- Hc. now apply structural_has_type.
Qed.
