(* Correctness of the printers of Text/TyPrint.v, Text/ValPrint.v, Text/ModPrint.v and of the readers of
   Text/ValParse.v:
     - the iterator-driven state machines (mirrors of Display for ResolvedType / Value) print exactly
       what the obvious structural printers print            (ty_print_machine_eq, val_print_machine_eq)
     - printed types parse back                               (type_roundtrip)
     - printed well-formed values parse back at their type    (value_roundtrip)
     - the module printer is independent of the order of its input and lists the names in strictly
       increasing byte order                                  (mod_print_perm, mod_print_sorted) *)
From Coq Require Import List Arith NArith Bool Lia Permutation Sorted.
From Coq Require String Ascii.
From Coq Require Import ZifyBool ZifyNat ZifyN.
Require Import SV.Base.Res SV.Layout.Ty SV.Layout.Value SV.Proofs.LayoutRoundtrip.
Require Import SV.Text.U256 SV.Text.Literal SV.Proofs.U256Correct SV.Proofs.LiteralCorrect.
Require Import SV.Text.TyPrint SV.Text.ValPrint SV.Text.ModPrint SV.Text.ValParse.
Import ListNotations.
Local Open Scope N_scope.

(** * Part 0: the string constants, and the expected strings of the Rust unit tests *)

Fixpoint bytes (s : String.string) : list N :=
  match s with String.EmptyString => [] | String.String c r => Ascii.N_of_ascii c :: bytes r end.

Module UnitTests.
  Import String.
  Local Open Scope string_scope.
  Example strings_ok :
  s_Either = bytes "Either<" /\ s_Option = bytes "Option<" /\ s_bool = bytes "bool" /\
  s_List = bytes "List<" /\ s_Left = bytes "Left(" /\ s_Right = bytes "Right(" /\
  s_None = bytes "None" /\ s_Some = bytes "Some(" /\ s_true = bytes "true" /\
  s_false = bytes "false" /\ s_list = bytes "list![" /\ s_mod = bytes "mod " /\
  s_open = [32; 123; 10] /\ s_const = bytes "    const " /\ s_colon = bytes ": " /\
  s_eq = bytes " = " /\ s_semi = [59; 10] /\ s_witness = bytes "witness" /\ s_param = bytes "param".
  Proof. vm_compute. repeat split. Qed.

  Local Ltac t := vm_compute; reflexivity.
  Definition u k := TUInt k.
  Definition u8 n := AUInt 3 n.
  Definition unit := ATuple [].
  Definition ba l := AArray (map u8 l) (TUInt 3).

  (* types.rs  tests::display_type *)
  Example ty1 : ty_print_machine (TTuple []) = bytes "()". t. Qed.
  Example ty2 : ty_print_machine (TTuple [u 0]) = bytes "(u1,)". t. Qed.
  Example ty3 : ty_print_machine (TTuple [u 0; u 3]) = bytes "(u1, u8)". t. Qed.
  Example ty4 : ty_print_machine (TTuple [u 0; u 3; u 4]) = bytes "(u1, u8, u16)". t. Qed.
  Example ty5 : ty_print_machine (TArray (TTuple []) 0) = bytes "[(); 0]". t. Qed.
  Example ty6 : ty_print_machine (TArray (TTuple []) 3) = bytes "[(); 3]". t. Qed.
  Example ty7 : ty_print_machine (TList (TTuple []) 1) = bytes "List<(), 2>". t. Qed.
  Example ty8 : ty_print_machine (TEither (TOption TBool) (TTuple [TList (u 8) 4; TArray (u 7) 12]))
                = bytes "Either<Option<bool>,(List<u256, 16>, [u128; 12])>". t. Qed.

  (* value.rs  tests::display_value *)
  Example v1 : val_print_machine unit = bytes "()". t. Qed.
  Example v2 : val_print_machine (ATuple [AUInt 0 1]) = bytes "(1, )". t. Qed.
  Example v3 : val_print_machine (ATuple [u8 1; u8 42]) = bytes "(1, 42)". t. Qed.
  Example v4 : val_print_machine (ATuple [AUInt 0 1; u8 42; AUInt 4 1337]) = bytes "(1, 42, 1337)". t. Qed.
  Example v5 : val_print_machine (AArray [] TUnit) = bytes "[]". t. Qed.
  Example v6 : val_print_machine (AArray [unit; unit; unit] TUnit) = bytes "[(), (), ()]". t. Qed.
  Example v7 : val_print_machine (AList [unit] TUnit 1) = bytes "list![()]". t. Qed.
  Example v8 : val_print_machine (ba [0xde; 0xad; 0xbe; 0xef]) = bytes "0xdeadbeef". t. Qed.
  (* the hex shortcut inside other aggregates; the empty byte array *)
  Example v9 : val_print_machine (AArray [ba [1; 2]; ba [3; 4]] (TArray (TUInt 3) 2))
               = bytes "[0x0102, 0x0304]". t. Qed.
  Definition big :=
    ATuple [ba [1; 2]; ASome (ba [255]); ba []; AList [ba [7]; ba [8]] (TArray (TUInt 3) 1) 2;
            ALeft (ABool true) TBool; ARight TBool (ANone TBool); AUInt 7 5; ATuple [u8 3]; unit;
            AArray [AUInt 8 1; AUInt 8 2] (TUInt 8)].
  Example v10 : val_print_machine big = bytes
    "(0x0102, Some(0xff), [], list![0x07, 0x08], Left(true), Right(None), 0x00000000000000000000000000000005, (3, ), (), [0x0000000000000000000000000000000000000000000000000000000000000001, 0x0000000000000000000000000000000000000000000000000000000000000002])".
  t. Qed.
  Example v11 : vparse_top (type_of big) (val_pp big) = Some (big, []). t. Qed.
  Example v12 : tparse_top (ty_pp (type_of big)) = Some (type_of big, []). t. Qed.

  (* value.rs  tests::parse_const_expression *)
  Example p1 : vparse_top TBool (bytes "false") = Some (ABool false, []). t. Qed.
  Example p2 : vparse_top (u 3) (bytes "42") = Some (u8 42, []). t. Qed.
  Example p3 : vparse_top (TEither TBool TUnit) (bytes "Left(false)") = Some (ALeft (ABool false) TUnit, []). t. Qed.
  Example p4 : vparse_top (TOption TBool) (bytes "Some(false)") = Some (ASome (ABool false), []). t. Qed.
  Example p5 : vparse_top (TTuple [u 0; u 1; u 2]) (bytes "(1, 2, 3)")
               = Some (ATuple [AUInt 0 1; AUInt 1 2; AUInt 2 3], []). t. Qed.
  Example p6 : vparse_top (TArray (u 2) 3) (bytes "[1, 2, 3]")
               = Some (AArray [AUInt 2 1; AUInt 2 2; AUInt 2 3] (u 2), []). t. Qed.
  Example p7 : vparse_top (TList (u 2) 2) (bytes "list![1, 2, 3]")
               = Some (AList [AUInt 2 1; AUInt 2 2; AUInt 2 3] (u 2) 2, []). t. Qed.

  (* witness.rs  tests::witness_to_string, entries given in another order *)
  Example m1 :
    mod_print s_witness [(bytes "C", AUInt 5 3); (bytes "A", AUInt 5 1); (bytes "B", AUInt 5 2)]
    = bytes "mod witness {
    const A: u32 = 1;
    const B: u32 = 2;
    const C: u32 = 3;
}". t. Qed.
End UnitTests.

(** * Part 1: what the verbose pre-order iterator yields *)

Section VPOSpec.
  Context {T : Type}.
  Variable children : T -> list T.
  Variable E : T -> list (vpo_item T).          (* the items yielded for a subtree *)

  Definition vpo_good (c : T) : Prop :=
    forall fuel st, (length (E c) <= fuel)%nat ->
      vpo_run children fuel (vpo_initial children c :: st)
      = E c ++ vpo_run children (fuel - length (E c)) st.

  (* after the items [ce] of child number i, the node is yielded again with i+1 children yielded *)
  Fixpoint interleave (t : T) (nc i : nat) (ces : list (list (vpo_item T))) : list (vpo_item T) :=
    match ces with
    | [] => []
    | ce :: ces' => ce ++ (t, S i, Nat.eqb (S i) nc) :: interleave t nc (S i) ces'
    end.

  Lemma vpo_tail : forall t cs pre b fuel st,
    children t = pre ++ cs -> Forall vpo_good cs ->
    (S (length (interleave t (length (children t)) (length pre) (map E cs))) <= fuel)%nat ->
    vpo_run children fuel ((t, length pre, b) :: st)
    = (t, length pre, b) :: interleave t (length (children t)) (length pre) (map E cs)
      ++ vpo_run children (fuel - S (length (interleave t (length (children t)) (length pre) (map E cs)))) st.
  Proof.
    intros t cs. unfold vpo_good in *.
    induction cs as [|c cs IH]; intros pre b fuel st Hch Hgood Hfuel.
    - cbn [map interleave length app] in *. destruct fuel as [|f]; [lia|].
      cbn [vpo_run]. rewrite Hch, app_nil_r.
      replace (Nat.ltb (length pre) (length pre)) with false by (symmetry; apply Nat.ltb_ge; lia).
      replace (S f - 1)%nat with f by lia. reflexivity.
    - inversion Hgood as [|c0 cs0 Hc Hcs]; subst c0 cs0.
      cbn [map interleave] in *. rewrite app_length in Hfuel. cbn [length] in Hfuel.
      destruct fuel as [|f]; [lia|]. cbn [vpo_run].
      assert (Hlt : Nat.ltb (length pre) (length (children t)) = true).
      { apply Nat.ltb_lt. rewrite Hch, app_length. cbn [length]. lia. }
      rewrite Hlt.
      assert (Hnth : nth_error (children t) (length pre) = Some c).
      { rewrite Hch, nth_error_app2 by lia. rewrite Nat.sub_diag. reflexivity. }
      rewrite Hnth. cbn [vpo_increment].
      rewrite (Hc f) by lia.
      assert (Hch' : children t = (pre ++ [c]) ++ cs) by (rewrite <- app_assoc; exact Hch).
      assert (Hlen : length (pre ++ [c]) = S (length pre)) by (rewrite app_length; cbn [length]; lia).
      specialize (IH (pre ++ [c]) (Nat.eqb (S (length pre)) (length (children t)))
                     (f - length (E c))%nat st Hch' Hcs).
      rewrite Hlen in IH. rewrite IH by lia.
      rewrite <- app_assoc. cbn [app]. f_equal. f_equal. f_equal. f_equal.
      rewrite app_length. cbn [length]. f_equal. lia.
  Qed.

  Definition node_items (t : T) : list (vpo_item T) :=
    vpo_initial children t :: interleave t (length (children t)) 0 (map E (children t)).

  Lemma vpo_node : forall t,
    Forall vpo_good (children t) ->
    forall fuel st, (length (node_items t) <= fuel)%nat ->
      vpo_run children fuel (vpo_initial children t :: st)
      = node_items t ++ vpo_run children (fuel - length (node_items t)) st.
  Proof.
    intros t Hgood fuel st Hfuel. unfold node_items in *. cbn [length] in Hfuel.
    unfold vpo_initial at 1.
    rewrite (vpo_tail t (children t) [] _ fuel st eq_refl Hgood Hfuel).
    reflexivity.
  Qed.
End VPOSpec.

(* text of the children interleaved with the text written when the node is revisited *)
Section InterOut.
  Context {A : Type}.
  Variable pp : A -> list N.
  Variable out : nat -> list N.
  Fixpoint inter_out (i : nat) (cs : list A) : list N :=
    match cs with
    | [] => []
    | c :: cs' => pp c ++ out (S i) ++ inter_out (S i) cs'
    end.

  Lemma inter_out_sep : forall sep close nc cs i,
    (forall j, (i < j < nc)%nat -> out j = sep) -> out nc = close ->
    (i + length cs = nc)%nat -> cs <> [] ->
    inter_out i cs = sep_by sep (map pp cs) ++ close.
  Proof.
    intros sep close nc cs. induction cs as [|c cs IH]; intros i Hsep Hclose Hlen Hne; [congruence|].
    cbn [inter_out map sep_by length] in *. destruct cs as [|c' cs].
    - cbn [inter_out map length] in *. replace (S i) with nc by lia. rewrite Hclose, app_nil_r. reflexivity.
    - rewrite (IH (S i)); cbn [length] in *; try lia; try discriminate.
      + rewrite (Hsep (S i)) by lia. cbn [map]. rewrite <- !app_assoc. reflexivity.
      + intros j Hj. apply Hsep. lia.
      + exact Hclose.
  Qed.
End InterOut.

(** * Part 2: the type printer machine prints [ty_pp] *)

Definition ty_item_display (it : vpo_item ty) : list N := let '(node, n, _) := it in ty_display node n.

Fixpoint ty_events (t : ty) : list (vpo_item ty) :=
  vpo_initial ty_children t ::
  interleave t (length (ty_children t)) 0
    (match t with
     | TBool | TUInt _ => []
     | TOption a | TArray a _ | TList a _ => [ty_events a]
     | TEither a b => [ty_events a; ty_events b]
     | TTuple ts => map ty_events ts
     end).

Lemma ty_events_eq : forall t, ty_events t = node_items ty_children ty_events t.
Proof. destruct t; reflexivity. Qed.

Lemma interleave_length : forall {T} (t : T) nc ces i,
  length (interleave t nc i ces) = list_sum (map (fun ce => S (length ce)) ces).
Proof.
  intros T t nc ces. induction ces as [|ce ces IH]; intros i; cbn [interleave map list_sum fold_right length]; [reflexivity|].
  rewrite app_length. cbn [length]. rewrite IH. unfold list_sum. lia.
Qed.

Lemma ty_events_length : forall t, length (ty_events t) = ty_nev t.
Proof.
  induction t using ty_ind'; cbn [ty_events ty_nev length interleave ty_children];
    rewrite ?app_length; cbn [length]; rewrite ?app_length; cbn [length]; try lia.
  rewrite interleave_length, map_map. f_equal. f_equal.
  induction H as [|t ts Ht Hts IH]; cbn [map]; [reflexivity|]. now rewrite Ht, IH.
Qed.

Lemma ty_good : forall t, vpo_good ty_children ty_events t.
Proof.
  induction t using ty_ind'; unfold vpo_good; intros fuel st Hf; rewrite ty_events_eq in *;
    apply vpo_node; try exact Hf; cbn [ty_children]; auto.
Qed.

Lemma ty_machine_events : forall t,
  vpo_run ty_children (ty_nev t) [vpo_initial ty_children t] = ty_events t.
Proof.
  intros t. rewrite (ty_good t (ty_nev t) []) by (rewrite ty_events_length; lia).
  rewrite ty_events_length, Nat.sub_diag. cbn [vpo_run]. apply app_nil_r.
Qed.

Lemma ty_inter_display : forall t nc cs i,
  Forall (fun c => flat_map ty_item_display (ty_events c) = ty_pp c) cs ->
  flat_map ty_item_display (interleave t nc i (map ty_events cs))
  = inter_out ty_pp (ty_display t) i cs.
Proof.
  intros t nc cs. induction cs as [|c cs IH]; intros i Hcs; cbn [map interleave inter_out flat_map]; [reflexivity|].
  inversion Hcs as [|c0 cs0 Hc Hcs']; subst. rewrite flat_map_app. cbn [flat_map ty_item_display].
  rewrite Hc, IH by exact Hcs'. reflexivity.
Qed.

Lemma ty_events_display : forall t, flat_map ty_item_display (ty_events t) = ty_pp t.
Proof.
  induction t using ty_ind'; rewrite ty_events_eq; unfold node_items, vpo_initial;
    cbn [flat_map ty_item_display ty_children length].
  - rewrite ty_inter_display by auto. cbn [inter_out ty_display ty_pp]. rewrite ?app_nil_r, <- ?app_assoc. reflexivity.
  - rewrite ty_inter_display by auto. cbn [inter_out ty_display ty_pp]. rewrite ?app_nil_r, <- ?app_assoc. reflexivity.
  - cbn [map interleave flat_map ty_display ty_pp]. apply app_nil_r.
  - cbn [map interleave flat_map ty_display ty_pp]. apply app_nil_r.
  - rewrite ty_inter_display by exact H. destruct ts as [|a ts]; [reflexivity|].
    rewrite (inter_out_sep ty_pp (ty_display (TTuple (a :: ts))) [44; 32]
               ((if Nat.eqb (length (a :: ts)) 1 then [44] else []) ++ [41]) (length (a :: ts)) (a :: ts) 0%nat).
    + cbn [ty_display ty_pp]. destruct ts as [|b ts]; [reflexivity|].
      cbn [length Nat.eqb app]. reflexivity.
    + intros j Hj. cbn [ty_display]. destruct j as [|j]; [lia|].
      replace (Nat.eqb (S j) (length (a :: ts))) with false by (symmetry; apply Nat.eqb_neq; lia). reflexivity.
    + cbn [ty_display length]. rewrite Nat.eqb_refl. reflexivity.
    + reflexivity.
    + discriminate.
  - rewrite ty_inter_display by auto. cbn [inter_out ty_display ty_pp]. rewrite ?app_nil_r, <- ?app_assoc. reflexivity.
  - rewrite ty_inter_display by auto. cbn [inter_out ty_display ty_pp]. rewrite ?app_nil_r, <- ?app_assoc. reflexivity.
Qed.

(* MAIN THEOREM: the n_children_yielded machine of Display for ResolvedType prints the obvious text *)
Theorem ty_print_machine_eq : forall t, ty_print_machine t = ty_pp t.
Proof.
  intros t. unfold ty_print_machine. rewrite ty_machine_events. apply ty_events_display.
Qed.
Print Assumptions ty_print_machine_eq.

(** * Part 3: the value printer machine prints [val_pp] *)

Fixpoint val_events (v : value) : list (vpo_item value) :=
  vpo_initial val_children v ::
  interleave v (length (val_children v)) 0
    (match v with
     | ANone _ | ABool _ | AUInt _ _ => []
     | ALeft x _ | ARight _ x | ASome x => [val_events x]
     | ATuple vs | AArray vs _ | AList vs _ _ => map val_events vs
     end).

Lemma val_events_eq : forall v, val_events v = node_items val_children val_events v.
Proof. destruct v; reflexivity. Qed.

Lemma val_events_length : forall v, length (val_events v) = val_nev v.
Proof.
  assert (Hl : forall vs, Forall (fun v => length (val_events v) = val_nev v) vs ->
               map (fun ce => S (length ce)) (map val_events vs) = map (fun x => S (val_nev x)) vs).
  { intros vs H. rewrite map_map. induction H as [|x xs Hx Hxs IH]; cbn [map]; [reflexivity|]. now rewrite Hx, IH. }
  induction v using value_ind'; cbn [val_events val_nev length interleave val_children];
    rewrite ?app_length; cbn [length]; try lia;
    rewrite interleave_length, (Hl _ H); reflexivity.
Qed.

Lemma val_good : forall v, vpo_good val_children val_events v.
Proof.
  induction v using value_ind'; unfold vpo_good; intros fuel st Hf; rewrite val_events_eq in *;
    apply vpo_node; try exact Hf; cbn [val_children]; auto.
Qed.

Lemma val_machine_events : forall v,
  vpo_run val_children (val_nev v) [vpo_initial val_children v] = val_events v.
Proof.
  intros v. rewrite (val_good v (val_nev v) []) by (rewrite val_events_length; lia).
  rewrite val_events_length, Nat.sub_diag. cbn [vpo_run]. apply app_nil_r.
Qed.

(* the loop, started with the flag cleared in front of the items of v, writes val_pp v and arrives at
   the following items with the flag cleared *)
Definition val_ok (v : value) : Prop :=
  forall rest, val_loop false (val_events v ++ rest) = val_pp v ++ val_loop false rest.

Lemma val_inter_loop : forall nd nc cs i rest,
  (forall j ic, fst (val_step false (nd, S j, ic)) = false) ->
  Forall val_ok cs ->
  val_loop false (interleave nd nc i (map val_events cs) ++ rest)
  = inter_out val_pp (fun j => snd (val_step false (nd, j, Nat.eqb j nc))) i cs ++ val_loop false rest.
Proof.
  intros nd nc cs. induction cs as [|c cs IH]; intros i rest Hflag Hcs; cbn [map interleave inter_out app]; [reflexivity|].
  inversion Hcs as [|c0 cs0 Hc Hcs']; subst. rewrite <- app_assoc. rewrite (Hc _). cbn [app val_loop].
  pose proof (Hflag i (Nat.eqb (S i) nc)) as Hf.
  destruct (val_step false (nd, S i, Nat.eqb (S i) nc)) as [flag' out]. cbn [fst snd] in *. subst flag'.
  rewrite (IH (S i) rest Hflag Hcs').
  rewrite <- !app_assoc. reflexivity.
Qed.

Lemma maybe_bytes_map : forall vs bs, maybe_bytes vs = Some bs -> vs = map (AUInt 3) bs.
Proof.
  induction vs as [|v vs IH]; intros bs H; cbn [maybe_bytes] in H.
  - injection H as <-. reflexivity.
  - destruct v as [| | | | |k n| | |]; try discriminate.
    destruct k as [|[|[|[|k]]]]; try discriminate.
    destruct (maybe_bytes vs) as [bs'|]; [|discriminate]. injection H as <-.
    cbn [map]. f_equal. now apply IH.
Qed.

Lemma maybe_bytes_of_map : forall bs, maybe_bytes (map (AUInt 3) bs) = Some bs.
Proof. induction bs as [|b bs IH]; cbn [map maybe_bytes]; [reflexivity|]. now rewrite IH. Qed.

(* while the flag is set: the byte elements and the revisits of the array write nothing, and the last
   revisit clears the flag *)
Lemma val_bytes_loop : forall vs0 t0 nc bs i rest,
  (i + length bs = nc)%nat -> bs <> [] ->
  val_loop true (interleave (AArray vs0 t0) nc i (map val_events (map (AUInt 3) bs)) ++ rest)
  = val_loop false rest.
Proof.
  intros vs0 t0 nc bs. induction bs as [|b bs IH]; intros i rest Hlen Hne; [congruence|].
  cbn [map interleave val_events val_children length app val_loop val_step vpo_initial].
  cbn [length] in Hlen. destruct bs as [|b' bs].
  - cbn [length] in Hlen. replace (Nat.eqb (S i) nc) with true by (symmetry; apply Nat.eqb_eq; lia).
    cbn [andb Nat.ltb Nat.leb map interleave app]. reflexivity.
  - cbn [length] in Hlen. replace (Nat.eqb (S i) nc) with false by (symmetry; apply Nat.eqb_neq; lia).
    cbn [andb Nat.ltb Nat.leb app]. apply IH; [cbn [length]; lia|discriminate].
Qed.

Lemma val_ok_all : forall v, val_ok v.
Proof.
  induction v using value_ind'; unfold val_ok; intros rest; rewrite val_events_eq;
    unfold node_items, vpo_initial; cbn [val_children length app val_loop].
  - (* Left *) cbn [val_step Nat.eqb]. rewrite val_inter_loop by (auto; intros; reflexivity).
    cbn [inter_out val_step snd val_pp]. rewrite ?app_nil_r, <- ?app_assoc. reflexivity.
  - (* Right *) cbn [val_step Nat.eqb]. rewrite val_inter_loop by (auto; intros; reflexivity).
    cbn [inter_out val_step snd val_pp]. rewrite ?app_nil_r, <- ?app_assoc. reflexivity.
  - (* None *) reflexivity.
  - (* Some *) cbn [val_step Nat.eqb]. rewrite val_inter_loop by (auto; intros; reflexivity).
    cbn [inter_out val_step snd val_pp]. rewrite ?app_nil_r, <- ?app_assoc. reflexivity.
  - (* Bool *) reflexivity.
  - (* UInt *) reflexivity.
  - (* Tuple *)
    cbn [val_step]. rewrite val_inter_loop by (auto; intros; reflexivity).
    destruct vs as [|a vs]; [reflexivity|].
    rewrite (inter_out_sep val_pp _ [44; 32]
               ((if Nat.eqb (length (a :: vs)) 1 then [44; 32] else []) ++ [41]) (length (a :: vs)) (a :: vs) 0%nat).
    + cbn [val_pp length Nat.eqb app]. destruct vs as [|b vs].
      * cbn [map sep_by length Nat.eqb app]. rewrite <- ?app_assoc. reflexivity.
      * cbn [length Nat.eqb app]. rewrite <- ?app_assoc. reflexivity.
    + intros j Hj. cbn [val_step snd]. destruct j as [|j]; [lia|].
      replace (Nat.eqb (S j) (length (a :: vs))) with false by (symmetry; apply Nat.eqb_neq; lia).
      reflexivity.
    + cbn [val_step snd length Nat.eqb]. rewrite Nat.eqb_refl. cbn [negb orb]. reflexivity.
    + reflexivity.
    + discriminate.
  - (* Array *)
    cbn [val_step andb val_pp].
    destruct (maybe_bytes vs) as [[|b bs]|] eqn:Hmb.
    + (* the empty byte array *)
      apply maybe_bytes_map in Hmb. subst vs. reflexivity.
    + (* a non-empty byte array *)
      pose proof (maybe_bytes_map _ _ Hmb) as Hvs. f_equal. rewrite Hvs at 3.
      apply val_bytes_loop; [|discriminate].
      rewrite Hvs, map_length. reflexivity.
    + rewrite val_inter_loop; [| |exact H].
      2:{ intros j ic. cbn [val_step andb]. rewrite Hmb. reflexivity. }
      destruct vs as [|a vs]; [discriminate Hmb|].
      rewrite (inter_out_sep val_pp _ [44; 32] [93] (length (a :: vs)) (a :: vs) 0%nat).
      * cbn [length Nat.eqb app]. rewrite <- ?app_assoc. reflexivity.
      * intros j Hj. cbn [val_step snd andb]. rewrite Hmb. destruct j as [|j]; [lia|].
        replace (Nat.eqb (S j) (length (a :: vs))) with false by (symmetry; apply Nat.eqb_neq; lia).
        reflexivity.
      * cbn [val_step snd andb length Nat.eqb]. rewrite Hmb, Nat.eqb_refl. reflexivity.
      * reflexivity.
      * discriminate.
  - (* List *)
    cbn [val_step]. rewrite val_inter_loop by (auto; intros; reflexivity).
    destruct vs as [|a vs]; [reflexivity|].
    rewrite (inter_out_sep val_pp _ [44; 32] [93] (length (a :: vs)) (a :: vs) 0%nat).
    + cbn [val_pp length Nat.eqb app]. rewrite <- ?app_assoc. reflexivity.
    + intros j Hj. cbn [val_step snd]. destruct j as [|j]; [lia|].
      replace (Nat.eqb (S j) (length (a :: vs))) with false by (symmetry; apply Nat.eqb_neq; lia).
      reflexivity.
    + cbn [val_step snd length Nat.eqb]. rewrite Nat.eqb_refl. reflexivity.
    + reflexivity.
    + discriminate.
Qed.

(* MAIN THEOREM: the state machine of Display for Value (pre-order iterator, print_hex_byte_array flag)
   prints the obvious text, for every value (well-formed or not), at every nesting *)
Theorem val_print_machine_eq : forall v, val_print_machine v = val_pp v.
Proof.
  intros v. unfold val_print_machine. rewrite val_machine_events.
  rewrite <- (app_nil_r (val_events v)), (val_ok_all v []). cbn [val_loop]. apply app_nil_r.
Qed.
Print Assumptions val_print_machine_eq.

(** * Part 4: lexical lemmas *)

Lemma strip_prefix_app : forall p s, strip_prefix p (p ++ s) = Some s.
Proof. induction p as [|c p IH]; intros s; cbn [strip_prefix app]; [reflexivity|]. now rewrite N.eqb_refl. Qed.

Lemma skip_ws_head : forall c s, is_ws c = false -> skip_ws (c :: s) = c :: s.
Proof. intros c s H. cbn [skip_ws]. now rewrite H. Qed.

Lemma skip_ws_space : forall s, skip_ws (32 :: s) = skip_ws s.
Proof. reflexivity. Qed.

Lemma expect_ok : forall c s, is_ws c = false -> strip_prefix [c] (skip_ws (c :: s)) = Some s.
Proof. intros c s H. rewrite skip_ws_head by exact H. cbn [strip_prefix]. now rewrite N.eqb_refl. Qed.

(* [rest] does not continue a run of characters satisfying f *)
Definition stops (f : N -> bool) (rest : list N) : Prop :=
  match rest with [] => True | c :: _ => f c = false end.

Lemma span_app : forall f a rest,
  Forall (fun c => f c = true) a -> stops f rest -> span f (a ++ rest) = (a, rest).
Proof.
  intros f a rest Ha Hr. induction Ha as [|c a Hc Ha IH]; cbn [app].
  - destruct rest as [|c r]; cbn [span]; [reflexivity|]. cbn [stops] in Hr. now rewrite Hr.
  - cbn [span]. now rewrite Hc, IH.
Qed.

Lemma follow_stops : forall f rest,
  (forall c, f c = true -> is_ident_char c = true) -> follow_ok rest = true -> stops f rest.
Proof.
  intros f [|c r] Hf H; cbn [stops follow_ok] in *; [exact I|].
  destruct (f c) eqn:E; [|reflexivity]. rewrite (Hf c E) in H. discriminate.
Qed.

Lemma digit_ident : forall c, is_digit c = true -> is_ident_char c = true.
Proof. intros c H. unfold is_ident_char. now rewrite H. Qed.
Lemma dec_body_ident : forall c, is_dec_body c = true -> is_ident_char c = true.
Proof. unfold is_dec_body, is_ident_char, is_digit, is_alpha. intros c H. lia. Qed.
Lemma hex_body_ident : forall c, is_hex_body c = true -> is_ident_char c = true.
Proof. unfold is_hex_body, is_hex_digit, is_ident_char, is_digit, is_alpha. intros c H. lia. Qed.

Lemma all_digits_is_digit : forall s, all_digits s -> Forall (fun c => is_digit c = true) s.
Proof. intros s H. eapply Forall_impl; [|exact H]. intros c Hc. cbn beta in Hc. unfold is_digit. lia. Qed.

Lemma all_hex_is_hex : forall s, all_hex s -> Forall (fun c => is_hex_body c = true) s.
Proof.
  intros s H. eapply Forall_impl; [|exact H]. intros c Hc. unfold is_hex in Hc.
  unfold is_hex_body, is_hex_digit, is_digit. lia.
Qed.

Lemma dec_acc_value : forall s acc, dec_acc acc s = dec_value_acc acc s.
Proof. induction s as [|c s IH]; intros acc; cbn [dec_acc dec_value_acc]; [reflexivity|apply IH]. Qed.

(* a text whose first character is neither white space nor the given closing bracket *)
Definition head_ok (close : N) (s : list N) : Prop :=
  match s with [] => False | c :: _ => is_ws c = false /\ c <> close end.

Lemma head_ok_digit : forall close s,
  all_digits s -> s <> [] -> ~ (48 <= close <= 57) -> head_ok close s.
Proof.
  intros close [|c s] Hd Hne Hc; [congruence|]. inversion Hd as [|c0 s0 H0 _]; subst.
  cbn [head_ok]. unfold is_ws. split; lia.
Qed.

(* decimal text of a number *)
Lemma size_nat_gt : forall n, n < 2 ^ N.of_nat (N.size_nat n).
Proof.
  destruct n as [|p]; [reflexivity|]. cbn [N.size_nat].
  induction p as [p IH|p IH|]; cbn [Pos.size_nat]; rewrite ?Nat2N.inj_succ, ?N.pow_succ_r'; lia.
Qed.

Lemma dec_N_spec : forall n,
  all_digits (dec_N n) /\ dec_N n <> [] /\ dec_value (dec_N n) = n.
Proof.
  intros n. unfold dec_N.
  assert (Hlt : n < 10 ^ N.of_nat (S (N.size_nat n))).
  { pose proof (size_nat_gt n) as H.
    assert (2 ^ N.of_nat (N.size_nat n) <= 10 ^ N.of_nat (N.size_nat n)) by (apply N.pow_le_mono_l; lia).
    rewrite Nat2N.inj_succ, N.pow_succ_r'. lia. }
  destruct (dec_loop_spec (S (N.size_nat n)) n [] Hlt ltac:(discriminate)) as (pre & Hpre & Hd & Hv & Hc).
  rewrite Hpre, app_nil_r. split; [exact Hd|]. split; [|exact Hv].
  destruct pre; [contradiction|discriminate].
Qed.

Lemma parse_number_dec_N : forall n rest,
  follow_ok rest = true -> parse_number (dec_N n ++ rest) = Some (n, rest).
Proof.
  intros n rest Hr. destruct (dec_N_spec n) as (Hd & Hne & Hv). unfold parse_number.
  rewrite (span_app is_digit (dec_N n) rest (all_digits_is_digit _ Hd) (follow_stops _ _ digit_ident Hr)).
  destruct (dec_N n) as [|d ds] eqn:E; [congruence|]. rewrite dec_acc_value. fold (dec_value (d :: ds)).
  now rewrite Hv.
Qed.

Lemma skip_ws_dec_N : forall n rest, skip_ws (dec_N n ++ rest) = dec_N n ++ rest.
Proof.
  intros n rest. destruct (dec_N_spec n) as (Hd & Hne & _).
  pose proof (head_ok_digit 0 _ Hd Hne ltac:(lia)) as H.
  destruct (dec_N n) as [|c s]; [contradiction|]. cbn [app]. apply skip_ws_head, H.
Qed.

(** * Part 5: printed types parse back *)

(* fuel that suffices to read back the text of t *)
Fixpoint ty_need (t : ty) : nat :=
  match t with
  | TBool | TUInt _ => 1%nat
  | TOption a | TArray a _ | TList a _ => S (ty_need a)
  | TEither a b => S (ty_need a + ty_need b)
  | TTuple ts => S (S (length ts) + list_sum (map ty_need ts))
  end.

(* the types of the language: integer widths 2^0 .. 2^8, list bounds 2^k with k >= 1 *)
Fixpoint ty_ok (t : ty) : bool :=
  match t with
  | TBool => true
  | TUInt k => Nat.leb k 8
  | TOption a | TArray a _ => ty_ok a
  | TList a k => ty_ok a && Nat.leb 1 k
  | TEither a b => ty_ok a && ty_ok b
  | TTuple ts => forallb ty_ok ts
  end.

(* one unfolding of tparse on each printed form *)
Lemma tparse_Either : forall f s,
  tparse (S f) (s_Either ++ s) =
  match tparse f s with
  | None => None
  | Some (a, r) =>
      match strip_prefix [44] (skip_ws r) with
      | None => None
      | Some r =>
          match tparse f r with
          | None => None
          | Some (b, r) =>
              match strip_prefix [62] (skip_ws r) with
              | None => None
              | Some r => Some (TEither a b, r)
              end
          end
      end
  end.
Proof. reflexivity. Qed.

Lemma tparse_Option : forall f s,
  tparse (S f) (s_Option ++ s) =
  match tparse f s with
  | None => None
  | Some (a, r) =>
      match strip_prefix [62] (skip_ws r) with
      | None => None
      | Some r => Some (TOption a, r)
      end
  end.
Proof. reflexivity. Qed.

Lemma tparse_bool : forall f s, tparse (S f) (s_bool ++ s) = Some (TBool, s).
Proof. reflexivity. Qed.

Lemma tparse_List : forall f s,
  tparse (S f) (s_List ++ s) =
  match tparse f s with
  | None => None
  | Some (a, r) =>
      match strip_prefix [44] (skip_ws r) with
      | None => None
      | Some r =>
          match parse_number (skip_ws r) with
          | None => None
          | Some (b, r) =>
              match list_bound_exp b with
              | None => None
              | Some k =>
                  match strip_prefix [62] (skip_ws r) with
                  | None => None
                  | Some r => Some (TList a k, r)
                  end
              end
          end
      end
  end.
Proof. reflexivity. Qed.

Lemma tparse_uint : forall f s,
  tparse (S f) (117 :: s) =
  match parse_number s with
  | None => None
  | Some (w, r) => match from_bit_width w with Some k => Some (TUInt k, r) | None => None end
  end.
Proof. reflexivity. Qed.

Lemma tparse_tuple : forall f s,
  tparse (S f) (40 :: s) =
  match parse_elems (tparse f) 41 f s with
  | None => None
  | Some (ts, tc, r) => if Nat.eqb (length ts) 1 && negb tc then None else Some (TTuple ts, r)
  end.
Proof. reflexivity. Qed.

Lemma tparse_array : forall f s,
  tparse (S f) (91 :: s) =
  match tparse f s with
  | None => None
  | Some (a, r) =>
      match strip_prefix [59] (skip_ws r) with
      | None => None
      | Some r =>
          match parse_number (skip_ws r) with
          | None => None
          | Some (n, r) =>
              match strip_prefix [93] (skip_ws r) with
              | None => None
              | Some r => Some (TArray a (N.to_nat n), r)
              end
          end
      end
  end.
Proof. reflexivity. Qed.

Lemma from_bit_width_pow : forall k, (k <= 8)%nat -> from_bit_width (2 ^ N.of_nat k) = Some k.
Proof. intros k Hk. do 9 (destruct k as [|k]; [reflexivity|]). lia. Qed.

Lemma list_bound_exp_pow : forall k, (1 <= k)%nat -> list_bound_exp (2 ^ N.of_nat k) = Some k.
Proof.
  intros k Hk. unfold list_bound_exp. rewrite N.log2_pow2 by lia. rewrite N.eqb_refl.
  assert (1 < 2 ^ N.of_nat k) by (apply N.pow_gt_1; lia).
  replace (1 <? 2 ^ N.of_nat k) with true by lia. cbn [andb]. now rewrite Nat2N.id.
Qed.

(* sequences *)
Lemma sep_by_cons2 : forall sep x y l, sep_by sep (x :: y :: l) = x ++ sep ++ sep_by sep (y :: l).
Proof. reflexivity. Qed.

Section ElemsFacts.
  Context {A : Type}.
  Variable p : list N -> option (A * list N).
  Variable close : N.
  Hypothesis close_ws : is_ws close = false.
  Hypothesis close_comma : close <> 44.
  Hypothesis close_ident : is_ident_char close = false.

  Lemma parse_elems_space : forall fuel s, parse_elems p close fuel (32 :: s) = parse_elems p close fuel s.
  Proof. intros [|f] s; reflexivity. Qed.

  Lemma parse_elems_close : forall f s, parse_elems p close (S f) (close :: s) = Some ([], true, s).
  Proof. intros f s. cbn [parse_elems]. rewrite skip_ws_head by exact close_ws. now rewrite N.eqb_refl. Qed.

  (* p reads back the text of x in front of any admissible rest *)
  Definition reads (txt : A -> list N) (x : A) : Prop :=
    head_ok close (txt x) /\
    forall rest, follow_ok rest = true -> p (txt x ++ rest) = Some (x, rest).

  Lemma follow_close : forall rest, follow_ok (close :: rest) = true.
  Proof. intros rest. cbn [follow_ok]. now rewrite close_ident. Qed.

  Lemma parse_elems_step : forall txt x f s,
    reads txt x ->
    parse_elems p close (S f) (txt x ++ 44 :: s) =
    match parse_elems p close f s with
    | Some (xs, tc, r) => Some (x :: xs, tc, r)
    | None => None
    end.
  Proof.
    intros txt x f s [Hh Hp]. cbn [parse_elems].
    destruct (txt x) as [|c r] eqn:E; [contradiction|]. cbn [head_ok] in Hh. destruct Hh as [Hws Hc].
    cbn [app]. rewrite skip_ws_head by exact Hws.
    replace (c =? close) with false by (symmetry; apply N.eqb_neq; exact Hc).
    change (c :: r ++ 44 :: s) with ((c :: r) ++ 44 :: s).
    rewrite Hp by reflexivity. rewrite skip_ws_head by reflexivity. cbn [N.eqb Pos.eqb]. reflexivity.
  Qed.

  Lemma parse_elems_last : forall txt x f s,
    reads txt x ->
    parse_elems p close (S f) (txt x ++ close :: s) = Some ([x], false, s).
  Proof.
    intros txt x f s [Hh Hp]. cbn [parse_elems].
    destruct (txt x) as [|c r] eqn:E; [contradiction|]. cbn [head_ok] in Hh. destruct Hh as [Hws Hc].
    cbn [app]. rewrite skip_ws_head by exact Hws.
    replace (c =? close) with false by (symmetry; apply N.eqb_neq; exact Hc).
    change (c :: r ++ close :: s) with ((c :: r) ++ close :: s).
    rewrite Hp by apply follow_close. rewrite skip_ws_head by exact close_ws.
    replace (close =? 44) with false by (symmetry; apply N.eqb_neq; exact close_comma).
    now rewrite N.eqb_refl.
  Qed.

  (* x1, x2, .., xn close *)
  Lemma parse_elems_sep : forall txt xs x fuel rest,
    Forall (reads txt) (x :: xs) -> (length xs < fuel)%nat ->
    parse_elems p close fuel (sep_by [44; 32] (map txt (x :: xs)) ++ close :: rest)
    = Some (x :: xs, false, rest).
  Proof.
    intros txt xs. induction xs as [|y ys IH]; intros x fuel rest Hall Hfuel;
      inversion Hall as [|x0 xs0 Hx Hxs]; subst; (destruct fuel as [|f]; [cbn [length] in Hfuel; lia|]).
    - cbn [map sep_by]. apply parse_elems_last, Hx.
    - cbn [map]. rewrite sep_by_cons2. cbn [map] in IH. rewrite <- !app_assoc. cbn [app].
      rewrite (parse_elems_step txt x f _ Hx), parse_elems_space.
      cbn [length] in Hfuel. rewrite (IH y f rest Hxs) by lia. reflexivity.
  Qed.
End ElemsFacts.

Lemma list_sum_in_le : forall {A} (g : A -> nat) x l, In x l -> (g x <= list_sum (map g l))%nat.
Proof.
  intros A g x l. induction l as [|y l IH]; intros Hin; [contradiction|].
  cbn [map list_sum fold_right]. fold (list_sum (map g l)). destruct Hin as [->|Hin]; [lia|].
  specialize (IH Hin). lia.
Qed.

Lemma ty_pp_head : forall t, head_ok 41 (ty_pp t).
Proof.
  destruct t as [a b|a| |k|ts|a n|a k]; cbn [ty_pp uint_type_name]; try (cbn; split; [reflexivity|discriminate]).
  destruct ts as [|a [|b ts]]; cbn; (split; [reflexivity|discriminate]).
Qed.

Theorem type_roundtrip_fuel : forall t,
  ty_ok t = true ->
  forall fuel rest, (ty_need t <= fuel)%nat -> follow_ok rest = true ->
  tparse fuel (ty_pp t ++ rest) = Some (t, rest).
Proof.
  induction t using ty_ind'; intros Hok fuel rest Hf Hr; cbn [ty_ok] in Hok; cbn [ty_need] in Hf;
    (destruct fuel as [|f]; [lia|]); cbn [ty_pp].
  - (* Either<A,B> *)
    apply andb_true_iff in Hok as [Ha Hb]. rewrite <- !app_assoc, tparse_Either. cbn [app].
    rewrite (IHt1 Ha f) by (reflexivity || lia). rewrite expect_ok by reflexivity.
    rewrite (IHt2 Hb f) by (reflexivity || lia). rewrite expect_ok by reflexivity. reflexivity.
  - (* Option<A> *)
    rewrite <- !app_assoc, tparse_Option. cbn [app].
    rewrite (IHt Hok f) by (reflexivity || lia). rewrite expect_ok by reflexivity. reflexivity.
  - (* bool *) apply tparse_bool.
  - (* uN *)
    apply Nat.leb_le in Hok. unfold uint_type_name. cbn [app]. rewrite tparse_uint.
    rewrite parse_number_dec_N by exact Hr. now rewrite from_bit_width_pow.
  - (* tuples *)
    assert (Hreads : Forall (reads (tparse f) 41 ty_pp) ts).
    { rewrite Forall_forall in H. apply Forall_forall. intros x Hx. split; [apply ty_pp_head|].
      intros rest' Hr'. apply (H x Hx); [|  |exact Hr'].
      - rewrite forallb_forall in Hok. now apply Hok.
      - pose proof (list_sum_in_le ty_need x ts Hx). lia. }
    destruct ts as [|a [|b ts]].
    + cbn [app]. rewrite tparse_tuple. cbn [length] in Hf. destruct f as [|f1]; [lia|].
      rewrite parse_elems_close by reflexivity. reflexivity.
    + rewrite <- !app_assoc. cbn [app]. rewrite tparse_tuple. cbn [length] in Hf.
      destruct f as [|f1]; [lia|]. destruct f1 as [|f2]; [lia|].
      inversion Hreads as [|x0 xs0 Ha _]; subst.
      rewrite (parse_elems_step (tparse (S (S f2))) 41 ty_pp a (S f2) _ Ha).
      rewrite parse_elems_close by reflexivity. reflexivity.
    + rewrite <- !app_assoc. cbn [app]. rewrite tparse_tuple.
      rewrite (parse_elems_sep (tparse f) 41) by (try reflexivity; try discriminate; try exact Hreads; cbn [length] in *; lia).
      reflexivity.
  - (* [A; n] *)
    rewrite <- !app_assoc. cbn [app]. rewrite tparse_array.
    rewrite (IHt Hok f) by (reflexivity || lia). rewrite expect_ok by reflexivity.
    rewrite skip_ws_space, skip_ws_dec_N, parse_number_dec_N by reflexivity.
    rewrite expect_ok by reflexivity. now rewrite Nat2N.id.
  - (* List<A, 2^k> *)
    apply andb_true_iff in Hok as [Ha Hk]. apply Nat.leb_le in Hk.
    rewrite <- !app_assoc, tparse_List. cbn [app].
    rewrite (IHt Ha f) by (reflexivity || lia). rewrite expect_ok by reflexivity.
    rewrite skip_ws_space, skip_ws_dec_N, parse_number_dec_N by reflexivity.
    rewrite list_bound_exp_pow by exact Hk. rewrite expect_ok by reflexivity. reflexivity.
Qed.

(* the text is at least as long as the fuel it needs *)
Lemma sep_by_length_ge : forall (sep : list N) xs,
  (list_sum (map (@length N) xs) + length sep * (length xs - 1) <= length (sep_by sep xs))%nat.
Proof.
  intros sep xs. induction xs as [|x [|y xs] IH].
  - cbn. lia.
  - cbn. lia.
  - rewrite sep_by_cons2, !app_length. cbn [map list_sum fold_right length] in *.
    fold (list_sum (map (@length N) xs)) in *. lia.
Qed.

Lemma ty_need_le_length : forall t, (ty_need t <= length (ty_pp t))%nat.
Proof.
  induction t using ty_ind'; cbn [ty_need ty_pp uint_type_name]; rewrite ?app_length; cbn [length]; try lia.
  - unfold s_bool. cbn [length]. lia.
  - unfold uint_type_name. cbn [length]. lia.
  - destruct ts as [|a [|b ts]].
    + cbn. lia.
    + inversion H as [|x0 xs0 Ha _]; subst. cbn [length map list_sum fold_right app].
      rewrite app_length. cbn [length]. lia.
    + cbn [app length]. rewrite app_length. cbn [length].
      pose proof (sep_by_length_ge [44; 32] (map ty_pp (a :: b :: ts))) as Hs.
      rewrite map_length in Hs. cbn [length] in Hs.
      assert (Hsum : (list_sum (map ty_need (a :: b :: ts))
                      <= list_sum (map (@length N) (map ty_pp (a :: b :: ts))))%nat).
      { clear Hs. induction H as [|x xs Hx Hxs IH]; [cbn; lia|].
        cbn [map list_sum fold_right]. fold (list_sum (map ty_need xs)).
        fold (list_sum (map (@length N) (map ty_pp xs))). lia. }
      cbn [length]. lia.
Qed.

(* MAIN THEOREM: a printed type parses back to itself *)
Theorem type_roundtrip : forall t, ty_ok t = true -> tparse_top (ty_pp t) = Some (t, []).
Proof.
  intros t Hok. unfold tparse_top.
  rewrite <- (app_nil_r (ty_pp t)) at 2.
  apply type_roundtrip_fuel; [exact Hok| |reflexivity].
  pose proof (ty_need_le_length t). lia.
Qed.
Print Assumptions type_roundtrip.

(** * Part 6: printed values parse back at their type *)

Fixpoint val_need (v : value) : nat :=
  match v with
  | ANone _ | ABool _ | AUInt _ _ => 1%nat
  | ALeft x _ | ARight _ x | ASome x => S (val_need x)
  | ATuple vs => S (list_sum (map val_need vs))
  | AArray vs _ | AList vs _ _ => S (Nat.max 1 (length vs + list_sum (map val_need vs)))
  end.

(* every integer inside the value has one of the nine widths u1 .. u256 *)
Fixpoint val_types_ok (v : value) : bool :=
  match v with
  | AUInt k _ => Nat.leb k 8
  | ANone _ | ABool _ => true
  | ALeft x _ | ARight _ x | ASome x => val_types_ok x
  | ATuple vs | AArray vs _ | AList vs _ _ => forallb val_types_ok vs
  end.

(** ** integer literals *)

Lemma dec_loop_head : forall fuel n acc, fuel <> O ->
  exists d r, dec_loop fuel n acc = (48 + d) :: r /\ d < 10.
Proof.
  induction fuel as [|f IH]; intros n acc Hf; [congruence|]. cbn [dec_loop].
  assert (Hm : n mod 10 < 10) by (apply N.mod_lt; lia).
  destruct (n / 10 =? 0); [eauto|].
  destruct f as [|f']; [cbn [dec_loop]; eauto|]. apply IH. discriminate.
Qed.

Lemma uint_display_head : forall k n, exists d r, uint_display k n = (48 + d) :: r /\ d < 10.
Proof.
  intros k n.
  assert (Hdec : exists d r, dec_of_N n = (48 + d) :: r /\ d < 10) by (apply dec_loop_head; discriminate).
  do 7 (destruct k as [|k]; [exact Hdec|]).
  destruct k as [|k]; [exists 0; eexists; split; [reflexivity|lia]|].
  destruct k as [|k]; [exists 0; eexists; split; [reflexivity|lia]|]. exact Hdec.
Qed.

Lemma val_pp_head : forall v, head_ok 41 (val_pp v) /\ head_ok 93 (val_pp v).
Proof.
  assert (Hc : forall c r, is_ws c = false -> c <> 41 -> c <> 93 -> head_ok 41 (c :: r) /\ head_ok 93 (c :: r)).
  { intros c r H1 H2 H3. cbn [head_ok]. auto. }
  destruct v as [x tr|tl x|t|x|b|k n|vs|vs t|vs t k]; cbn [val_pp];
    try (apply Hc; [reflexivity|discriminate|discriminate]).
  - destruct b; apply Hc; (reflexivity || discriminate).
  - destruct (uint_display_head k n) as (d & r & -> & Hd). apply Hc; unfold is_ws; lia.
  - destruct vs as [|a [|b vs]]; apply Hc; (reflexivity || discriminate).
  - destruct (maybe_bytes vs) as [[|b bs]|]; apply Hc; (reflexivity || discriminate).
Qed.

Lemma starts_0x_digits : forall d rest,
  all_digits d -> no_leading_zero d -> follow_ok rest = true -> starts_0x (d ++ rest) = false.
Proof.
  intros [|c r] rest Hd Hn Hr; [contradiction|]. cbn [no_leading_zero] in Hn. cbn [app].
  inversion Hd as [|c0 r0 Hc Hr']; subst.
  destruct (N.eq_dec c 48) as [->|Hne].
  - rewrite (Hn eq_refl). cbn [app]. destruct rest as [|c' rest']; [reflexivity|].
    cbn [follow_ok] in Hr. destruct (N.eq_dec c' 120) as [->|Hx]; [discriminate Hr|].
    unfold starts_0x. destruct c' as [|p]; [reflexivity|].
    do 7 (destruct p as [p|p|]; try reflexivity). congruence.
  - unfold starts_0x. destruct c as [|p]; [reflexivity|].
    do 6 (destruct p as [p|p|]; try reflexivity). congruence.
Qed.

Lemma parse_uint_lit_display : forall k n rest,
  (k <= 8)%nat -> n < 2 ^ 2 ^ N.of_nat k -> follow_ok rest = true ->
  parse_uint_lit k (uint_display k n ++ rest) = Some (AUInt k n, rest).
Proof.
  intros k n rest Hk Hn Hr. destruct (uint_display_parse k n Hk Hn) as [Hdec Hhex].
  destruct (Nat.le_gt_cases k 6) as [Hk6|Hk7].
  - destruct (Hdec Hk6) as (Hd & Hnlz & Hs & Hp). unfold parse_uint_lit.
    rewrite (starts_0x_digits _ _ Hd Hnlz Hr). unfold lex_dec.
    rewrite (span_app is_dec_body (uint_display k n) rest).
    + rewrite Hs. destruct (uint_display k n) as [|c r] eqn:E; [contradiction|]. now rewrite Hp.
    + eapply Forall_impl; [|exact Hd]. intros c Hc. cbn beta in Hc. unfold is_dec_body, is_digit. lia.
    + apply (follow_stops _ _ dec_body_ident Hr).
  - destruct (Hhex ltac:(lia)) as (body & Hb & Hh & Hs & Hp). rewrite Hb. cbn [app].
    unfold parse_uint_lit, lex_hex. cbn [starts_0x skipn].
    rewrite (span_app is_hex_body body rest (all_hex_is_hex _ Hh) (follow_stops _ _ hex_body_ident Hr)).
    rewrite Hs. destruct body as [|c r].
    + exfalso. assert (k = 7%nat \/ k = 8%nat) as [-> | ->] by lia; vm_compute in Hp; discriminate.
    + now rewrite Hp.
Qed.

(** ** byte-array literals *)

Lemma hex_of_bytes_length : forall bs, length (hex_of_bytes bs) = (2 * length bs)%nat.
Proof. induction bs as [|b bs IH]; cbn [hex_of_bytes length]; lia. Qed.

Lemma parse_byte_array_lit_display : forall b bs rest,
  bytes_ok (b :: bs) -> follow_ok rest = true ->
  parse_byte_array_lit (length (b :: bs)) (hex_literal (b :: bs) ++ rest)
  = Some (AArray (map (AUInt 3) (b :: bs)) (TUInt 3), rest).
Proof.
  intros b bs rest Hok Hr. destruct (hex_of_bytes_spec (b :: bs) Hok) as (Hh & Hl & Hp).
  unfold parse_byte_array_lit, lex_hex, hex_literal. cbn [app starts_0x skipn].
  rewrite (span_app is_hex_body _ rest (all_hex_is_hex _ Hh) (follow_stops _ _ hex_body_ident Hr)).
  rewrite (all_hex_no_underscore _ Hh).
  destruct (hex_of_bytes (b :: bs)) as [|c r] eqn:E; [cbn in E; discriminate|].
  assert (Hpb : parse_hex_bytes (length (b :: bs)) (c :: r) = Ok (b :: bs)).
  { apply (parse_hex_bytes_correct _ _ _ Hh). split; [exact Hl|now rewrite Hp]. }
  now rewrite Hpb.
Qed.

(** ** one unfolding of vparse on each printed form *)

Lemma vparse_space : forall f t s, vparse f t (32 :: s) = vparse f t s.
Proof. intros [|f] t s; reflexivity. Qed.

Lemma vparse_true : forall f s, vparse (S f) TBool (s_true ++ s) = Some (ABool true, s).
Proof. reflexivity. Qed.
Lemma vparse_false : forall f s, vparse (S f) TBool (s_false ++ s) = Some (ABool false, s).
Proof. reflexivity. Qed.
Lemma vparse_uint : forall f k s, vparse (S f) (TUInt k) s = parse_uint_lit k (skip_ws s).
Proof. reflexivity. Qed.
Lemma vparse_None : forall f a s, vparse (S f) (TOption a) (s_None ++ s) = Some (ANone a, s).
Proof. reflexivity. Qed.
Lemma vparse_Some : forall f a s,
  vparse (S f) (TOption a) (s_Some ++ s) =
  match vparse f a s with
  | None => None
  | Some (x, r) =>
      match strip_prefix [41] (skip_ws r) with None => None | Some r => Some (ASome x, r) end
  end.
Proof. reflexivity. Qed.
Lemma vparse_Left : forall f a b s,
  vparse (S f) (TEither a b) (s_Left ++ s) =
  match vparse f a s with
  | None => None
  | Some (x, r) =>
      match strip_prefix [41] (skip_ws r) with None => None | Some r => Some (ALeft x b, r) end
  end.
Proof. reflexivity. Qed.
Lemma vparse_Right : forall f a b s,
  vparse (S f) (TEither a b) (s_Right ++ s) =
  match vparse f b s with
  | None => None
  | Some (x, r) =>
      match strip_prefix [41] (skip_ws r) with None => None | Some r => Some (ARight a x, r) end
  end.
Proof. reflexivity. Qed.
Lemma vparse_tuple : forall f ts s,
  vparse (S f) (TTuple ts) (40 :: s) =
  match parse_tuple_elems (vparse f) (Nat.eqb (length ts) 1) ts s with
  | Some (xs, r) => Some (ATuple xs, r)
  | None => None
  end.
Proof. reflexivity. Qed.
Lemma vparse_array_hex : forall f n s,
  vparse (S f) (TArray (TUInt 3) n) (48 :: 120 :: s) = parse_byte_array_lit n (48 :: 120 :: s).
Proof. reflexivity. Qed.
Lemma vparse_array_bracket : forall f a n s,
  vparse (S f) (TArray a n) (91 :: s) =
  match parse_elems (vparse f a) 93 f s with
  | Some (xs, _, r) => if Nat.eqb (length xs) n then Some (AArray xs a, r) else None
  | None => None
  end.
Proof. intros f a n s. cbn [vparse skip_ws is_ws N.eqb Pos.eqb orb starts_0x]. now rewrite andb_false_r. Qed.
Lemma vparse_list : forall f a k s,
  vparse (S f) (TList a k) (s_list ++ s) =
  match parse_elems (vparse f a) 93 f s with
  | Some (xs, _, r) =>
      if N.of_nat (length xs) <? 2 ^ N.of_nat k then Some (AList xs a k, r) else None
  | None => None
  end.
Proof. reflexivity. Qed.

(** ** tuple components *)
Section TupleFacts.
  Variable p : ty -> list N -> option (value * list N).
  Hypothesis p_space : forall t s, p t (32 :: s) = p t s.

  Definition vreads (x : value) : Prop :=
    forall rest, follow_ok rest = true -> p (type_of x) (val_pp x ++ rest) = Some (x, rest).

  Lemma parse_tuple_elems_nil : forall single s, parse_tuple_elems p single [] (41 :: s) = Some ([], s).
  Proof. reflexivity. Qed.

  Lemma parse_tuple_elems_comma : forall single x ts s,
    vreads x ->
    parse_tuple_elems p single (type_of x :: ts) (val_pp x ++ 44 :: s) =
    match parse_tuple_elems p single ts s with
    | Some (xs, r) => Some (x :: xs, r)
    | None => None
    end.
  Proof. intros single x ts s Hx. cbn [parse_tuple_elems]. rewrite (Hx (44 :: s)) by reflexivity. reflexivity. Qed.

  Lemma parse_tuple_elems_last : forall x s,
    vreads x ->
    parse_tuple_elems p false [type_of x] (val_pp x ++ 41 :: s) = Some ([x], s).
  Proof. intros x s Hx. cbn [parse_tuple_elems]. rewrite (Hx (41 :: s)) by reflexivity. reflexivity. Qed.

  Lemma parse_tuple_elems_ws : forall single ts s,
    parse_tuple_elems p single ts (32 :: s) = parse_tuple_elems p single ts s.
  Proof. intros single [|t ts] s; cbn [parse_tuple_elems]; [reflexivity|]. now rewrite p_space. Qed.

  (* x1, x2, .., xn )   for the components of a tuple that is not a 1-tuple *)
  Lemma parse_tuple_elems_sep : forall xs x rest,
    Forall vreads (x :: xs) ->
    parse_tuple_elems p false (map type_of (x :: xs)) (sep_by [44; 32] (map val_pp (x :: xs)) ++ 41 :: rest)
    = Some (x :: xs, rest).
  Proof.
    induction xs as [|y ys IH]; intros x rest Hall; inversion Hall as [|x0 xs0 Hx Hxs]; subst.
    - cbn [map sep_by]. apply parse_tuple_elems_last, Hx.
    - cbn [map]. rewrite sep_by_cons2. cbn [map] in IH. rewrite <- !app_assoc. cbn [app].
      rewrite (parse_tuple_elems_comma false x _ _ Hx), parse_tuple_elems_ws.
      rewrite (IH y rest Hxs). reflexivity.
  Qed.
End TupleFacts.

(** ** the round trip *)

Lemma wf_elems : forall vs t,
  forallb (fun x => value_wf x && ty_eqb (type_of x) t) vs = true ->
  forall x, In x vs -> value_wf x = true /\ type_of x = t.
Proof.
  intros vs t W x Hx. rewrite forallb_forall in W. specialize (W x Hx).
  apply andb_true_iff in W as [W1 W2]. split; [exact W1|now apply ty_eqb_eq].
Qed.

Lemma list_bound_N : forall n k, (n < 2 ^ k)%nat -> N.of_nat n <? 2 ^ N.of_nat k = true.
Proof.
  intros n k H. apply N.ltb_lt. change 2 with (N.of_nat 2). rewrite <- Nat2N.inj_pow. lia.
Qed.

Theorem value_roundtrip_fuel : forall v,
  value_wf v = true -> val_types_ok v = true ->
  forall fuel rest, (val_need v <= fuel)%nat -> follow_ok rest = true ->
  vparse fuel (type_of v) (val_pp v ++ rest) = Some (v, rest).
Proof.
  induction v using value_ind'; intros W K fuel rest Hf Hr;
    cbn [value_wf] in W; cbn [val_types_ok] in K; cbn [val_need] in Hf;
    (destruct fuel as [|f]; [lia|]); cbn [val_pp type_of].
  - (* Left(x) *)
    rewrite <- !app_assoc, vparse_Left. cbn [app].
    rewrite (IHv W K f) by (reflexivity || lia). rewrite expect_ok by reflexivity. reflexivity.
  - (* Right(x) *)
    rewrite <- !app_assoc, vparse_Right. cbn [app].
    rewrite (IHv W K f) by (reflexivity || lia). rewrite expect_ok by reflexivity. reflexivity.
  - (* None *) apply vparse_None.
  - (* Some(x) *)
    rewrite <- !app_assoc, vparse_Some. cbn [app].
    rewrite (IHv W K f) by (reflexivity || lia). rewrite expect_ok by reflexivity. reflexivity.
  - (* true / false *) destruct b; [apply vparse_true|apply vparse_false].
  - (* integers *)
    apply Nat.leb_le in K. apply N.ltb_lt in W. rewrite vparse_uint.
    destruct (uint_display_head k n) as (d & r & E & Hd).
    assert (Hws : skip_ws (uint_display k n ++ rest) = uint_display k n ++ rest).
    { rewrite E. cbn [app]. apply skip_ws_head. unfold is_ws. lia. }
    rewrite Hws. apply parse_uint_lit_display; [exact K| |exact Hr].
    replace (2 ^ N.of_nat k) with (N.of_nat (2 ^ k)); [exact W|].
    change 2 with (N.of_nat 2). now rewrite <- Nat2N.inj_pow.
  - (* tuples *)
    assert (Hreads : Forall (vreads (vparse f)) vs).
    { rewrite Forall_forall in H. apply Forall_forall. intros x Hx rest' Hr'.
      rewrite forallb_forall in W, K. apply (H x Hx); [now apply W|now apply K| |exact Hr'].
      pose proof (list_sum_in_le val_need x vs Hx). lia. }
    destruct vs as [|a [|b vs]].
    + cbn [app map]. rewrite vparse_tuple. reflexivity.
    + rewrite <- !app_assoc. cbn [app map]. rewrite vparse_tuple.
      inversion Hreads as [|x0 xs0 Ha _]; subst.
      rewrite (parse_tuple_elems_comma (vparse f) _ a [] _ Ha).
      rewrite parse_tuple_elems_ws by apply vparse_space. rewrite parse_tuple_elems_nil. reflexivity.
    + rewrite <- !app_assoc. cbn [app]. rewrite vparse_tuple.
      replace (Nat.eqb (length (map type_of (a :: b :: vs))) 1) with false by reflexivity.
      rewrite (parse_tuple_elems_sep (vparse f) (vparse_space f) (b :: vs) a rest Hreads). reflexivity.
  - (* arrays *)
    pose proof (wf_elems vs t W) as We.
    destruct (maybe_bytes vs) as [[|b bs]|] eqn:Hmb.
    + (* empty byte array: [] *)
      apply maybe_bytes_map in Hmb. subst vs. cbn [map sep_by app length].
      rewrite vparse_array_bracket. cbn [length] in Hf. destruct f as [|f1]; [lia|].
      rewrite parse_elems_close by reflexivity. reflexivity.
    + (* non-empty byte array: 0x.. *)
      pose proof (maybe_bytes_map _ _ Hmb) as Hvs.
      assert (Ht : t = TUInt 3).
      { destruct (We (AUInt 3 b)) as [_ Ht]; [rewrite Hvs; now left|]. now rewrite <- Ht. }
      assert (Hok : bytes_ok (b :: bs)).
      { apply Forall_forall. intros x Hx. destruct (We (AUInt 3 x)) as [Wx _].
        - rewrite Hvs. now apply in_map.
        - cbn [value_wf] in Wx. apply N.ltb_lt in Wx. exact Wx. }
      subst t. rewrite Hvs at 1 2. rewrite map_length.
      unfold hex_literal at 1. cbn [app]. rewrite vparse_array_hex.
      change (48 :: 120 :: hex_of_bytes (b :: bs) ++ rest) with (hex_literal (b :: bs) ++ rest).
      rewrite (parse_byte_array_lit_display b bs rest Hok Hr). now rewrite <- Hvs.
    + (* [x, y, ..] *)
      destruct vs as [|a vs]; [discriminate Hmb|].
      rewrite <- !app_assoc. cbn [app]. rewrite vparse_array_bracket.
      rewrite (parse_elems_sep (vparse f t) 93 eq_refl ltac:(discriminate) eq_refl val_pp vs a f rest).
      * now rewrite Nat.eqb_refl.
      * rewrite Forall_forall in H. apply Forall_forall. intros x Hx. split; [apply val_pp_head|].
        intros rest' Hr'. destruct (We x Hx) as [Wx Tx]. rewrite <- Tx.
        rewrite forallb_forall in K. apply (H x Hx); [exact Wx|now apply K| |exact Hr'].
        pose proof (list_sum_in_le val_need x (a :: vs) Hx). lia.
      * cbn [length] in Hf. lia.
  - (* lists *)
    apply andb_true_iff in W as [W Wk]. apply andb_true_iff in W as [W Wl]. apply Nat.ltb_lt in Wl.
    pose proof (wf_elems vs t W) as We.
    rewrite <- !app_assoc, vparse_list. cbn [app].
    destruct vs as [|a vs].
    + cbn [map sep_by app]. cbn [length] in Hf. destruct f as [|f1]; [lia|].
      rewrite parse_elems_close by reflexivity. now rewrite (list_bound_N _ _ Wl).
    + rewrite (parse_elems_sep (vparse f t) 93 eq_refl ltac:(discriminate) eq_refl val_pp vs a f rest).
      * now rewrite (list_bound_N _ _ Wl).
      * rewrite Forall_forall in H. apply Forall_forall. intros x Hx. split; [apply val_pp_head|].
        intros rest' Hr'. destruct (We x Hx) as [Wx Tx]. rewrite <- Tx.
        rewrite forallb_forall in K. apply (H x Hx); [exact Wx|now apply K| |exact Hr'].
        pose proof (list_sum_in_le val_need x (a :: vs) Hx). lia.
      * cbn [length] in Hf. lia.
Qed.
Print Assumptions value_roundtrip_fuel.

(* the text is at least as long as the fuel it needs *)
Lemma sum_need_le : forall vs,
  Forall (fun v => (val_need v <= length (val_pp v))%nat) vs ->
  (list_sum (map val_need vs) <= list_sum (map (@length N) (map val_pp vs)))%nat.
Proof.
  intros vs H. induction H as [|x xs Hx Hxs IH]; [cbn; lia|].
  cbn [map list_sum fold_right]. fold (list_sum (map val_need xs)).
  fold (list_sum (map (@length N) (map val_pp xs))). lia.
Qed.

Lemma sum_length_ge : forall vs,
  Forall (fun v => (val_need v <= length (val_pp v))%nat) vs ->
  (length vs <= list_sum (map (@length N) (map val_pp vs)))%nat.
Proof.
  intros vs H. induction H as [|x xs Hx Hxs IH]; [cbn; lia|].
  cbn [map list_sum fold_right length]. fold (list_sum (map (@length N) (map val_pp xs))).
  assert (1 <= val_need x)%nat by (destruct x; cbn [val_need]; lia). lia.
Qed.

Lemma brackets_need : forall vs,
  Forall (fun v => (val_need v <= length (val_pp v))%nat) vs ->
  (Nat.max 1 (length vs + list_sum (map val_need vs)) <= S (length (sep_by [44; 32]%N (map val_pp vs))))%nat.
Proof.
  intros vs H. pose proof (sum_need_le vs H) as H1. pose proof (sum_length_ge vs H) as H2.
  pose proof (sep_by_length_ge [44; 32] (map val_pp vs)) as H3. rewrite map_length in H3.
  cbn [length] in H3. destruct vs as [|a [|b vs]]; cbn [length] in *; lia.
Qed.

Lemma val_need_le_length : forall v, (val_need v <= length (val_pp v))%nat.
Proof.
  induction v using value_ind'; cbn [val_need val_pp].
  - rewrite !app_length. cbn [length]. lia.
  - rewrite !app_length. cbn [length]. lia.
  - cbn. lia.
  - rewrite !app_length. cbn [length]. lia.
  - destruct b; cbn; lia.
  - destruct (uint_display_head k n) as (d & r & -> & _). cbn [length]. lia.
  - pose proof (sum_need_le vs H) as H1.
    pose proof (sep_by_length_ge [44; 32] (map val_pp vs)) as H3. rewrite map_length in H3.
    destruct vs as [|a [|b vs]].
    + cbn. lia.
    + cbn [map list_sum fold_right length sep_by] in *. rewrite !app_length. cbn [length]. lia.
    + rewrite !app_length. cbn [length] in *. lia.
  - destruct (maybe_bytes vs) as [[|b bs]|] eqn:Hmb.
    + apply maybe_bytes_map in Hmb. subst vs. cbn. lia.
    + pose proof (maybe_bytes_map _ _ Hmb) as Hvs. unfold hex_literal. cbn [length].
      rewrite hex_of_bytes_length.
      assert (Hs : list_sum (map val_need vs) = length (b :: bs)).
      { rewrite Hvs, map_map. cbn [val_need]. clear. induction (b :: bs) as [|x l IH]; [reflexivity|].
        cbn [map list_sum fold_right length]. fold (list_sum (map (fun _ : N => 1%nat) l)). now rewrite IH. }
      rewrite Hs. rewrite Hvs at 1. rewrite map_length. lia.
    + pose proof (brackets_need vs H) as Hb. rewrite !app_length. cbn [length].
      revert Hb. generalize (Nat.max 1 (length vs + list_sum (map val_need vs)))
                            (length (sep_by [44; 32] (map val_pp vs))). intros x y Hb. lia.
  - pose proof (brackets_need vs H) as Hb. rewrite !app_length. unfold s_list. cbn [length].
    revert Hb. generalize (Nat.max 1 (length vs + list_sum (map val_need vs)))
                          (length (sep_by [44; 32] (map val_pp vs))). intros x y Hb. lia.
Qed.

(* MAIN THEOREM: the text printed for a well-formed value, followed by any rest that does not start with
   an identifier character (letter, digit, '_'), parses back at the type of the value to the same value
   and leaves exactly the rest.  This covers the hexadecimal form of non-empty byte arrays, the hex
   form of u128 / u256, empty aggregates, 1-tuples and every nesting. *)
Theorem value_roundtrip : forall v rest,
  value_wf v = true -> val_types_ok v = true -> follow_ok rest = true ->
  vparse_top (type_of v) (val_pp v ++ rest) = Some (v, rest).
Proof.
  intros v rest W K Hr. unfold vparse_top. apply value_roundtrip_fuel; try assumption.
  rewrite app_length. pose proof (val_need_le_length v). lia.
Qed.
Print Assumptions value_roundtrip.

(* the same for the text produced by the state machine (Display for Value) *)
Corollary value_display_roundtrip : forall v,
  value_wf v = true -> val_types_ok v = true ->
  vparse_top (type_of v) (val_print_machine v) = Some (v, []).
Proof.
  intros v W K. rewrite val_print_machine_eq, <- (app_nil_r (val_pp v)).
  now apply value_roundtrip.
Qed.

Corollary type_display_roundtrip : forall t,
  ty_ok t = true -> tparse_top (ty_print_machine t) = Some (t, []).
Proof. intros t H. rewrite ty_print_machine_eq. now apply type_roundtrip. Qed.

(** * Part 7: the module printer *)

Lemma lex_leb_total : forall a b, lex_leb a b = true \/ lex_leb b a = true.
Proof.
  induction a as [|x a IH]; intros [|y b]; cbn [lex_leb]; auto.
  destruct (N.ltb_spec x y), (N.ltb_spec y x); auto; lia.
Qed.

Lemma lex_leb_antisym : forall a b, lex_leb a b = true -> lex_leb b a = true -> a = b.
Proof.
  induction a as [|x a IH]; intros [|y b]; cbn [lex_leb]; intros H1 H2; try discriminate; [reflexivity|].
  destruct (N.ltb_spec x y), (N.ltb_spec y x); try discriminate; try lia.
  assert (x = y) by lia. subst y. f_equal. now apply IH.
Qed.

Lemma lex_leb_trans : forall a b c, lex_leb a b = true -> lex_leb b c = true -> lex_leb a c = true.
Proof.
  induction a as [|x a IH]; intros [|y b] [|z c]; cbn [lex_leb]; intros H1 H2; try discriminate; try reflexivity.
  destruct (N.ltb_spec x y), (N.ltb_spec y x), (N.ltb_spec y z), (N.ltb_spec z y),
           (N.ltb_spec x z), (N.ltb_spec z x); try discriminate; try reflexivity; try lia.
  now apply (IH b c).
Qed.

Definition entry_le (e1 e2 : entry) : Prop := lex_leb (fst e1) (fst e2) = true.
(* strictly increasing byte-wise order of the names *)
Definition lex_lt (a b : list N) : Prop := lex_leb a b = true /\ a <> b.

Lemma mod_insert_perm : forall e l, Permutation (mod_insert e l) (e :: l).
Proof.
  intros e l. induction l as [|h t IH]; cbn [mod_insert]; [reflexivity|].
  destruct (lex_leb (fst e) (fst h)); [reflexivity|].
  rewrite IH. apply perm_swap.
Qed.

Lemma mod_sort_perm : forall l, Permutation (mod_sort l) l.
Proof.
  induction l as [|e t IH]; cbn [mod_sort]; [reflexivity|].
  rewrite mod_insert_perm. now constructor.
Qed.

Lemma mod_insert_sorted : forall e l,
  StronglySorted entry_le l -> StronglySorted entry_le (mod_insert e l).
Proof.
  intros e l H. induction H as [|h t Ht IH Hh]; cbn [mod_insert].
  - constructor; constructor.
  - destruct (lex_leb (fst e) (fst h)) eqn:E.
    + constructor; [constructor; assumption|]. constructor; [exact E|].
      eapply Forall_impl; [|exact Hh]. intros x Hx. unfold entry_le in *.
      now apply (lex_leb_trans _ (fst h)).
    + constructor; [exact IH|].
      assert (Hhe : entry_le h e).
      { unfold entry_le. destruct (lex_leb_total (fst h) (fst e)) as [H1|H1]; [exact H1|congruence]. }
      eapply Permutation_Forall; [symmetry; apply mod_insert_perm|]. constructor; assumption.
Qed.

Lemma mod_sort_sorted : forall l, StronglySorted entry_le (mod_sort l).
Proof.
  induction l as [|e t IH]; cbn [mod_sort]; [constructor|]. now apply mod_insert_sorted.
Qed.

(* a list of entries with pairwise distinct names has exactly one sorted arrangement *)
Lemma sorted_perm_unique : forall l1 l2,
  StronglySorted entry_le l1 -> StronglySorted entry_le l2 ->
  Permutation l1 l2 -> NoDup (map fst l1) -> l1 = l2.
Proof.
  induction l1 as [|a l1 IH]; intros [|b l2] S1 S2 P ND.
  - reflexivity.
  - apply Permutation_nil in P. discriminate.
  - symmetry in P. apply Permutation_nil in P. discriminate.
  - inversion S1 as [|a0 l0 S1' F1]; subst. inversion S2 as [|b0 l0 S2' F2]; subst.
    cbn [map] in ND. inversion ND as [|k ks Hnotin ND']; subst.
    assert (Hab : a = b).
    { assert (Ha : In a (b :: l2)) by (eapply Permutation_in; [exact P|now left]).
      assert (Hb : In b (a :: l1)) by (eapply Permutation_in; [symmetry; exact P|now left]).
      destruct Ha as [Ha|Ha]; [now symmetry|]. destruct Hb as [Hb|Hb]; [exact Hb|].
      rewrite Forall_forall in F1, F2. pose proof (F1 b Hb) as L1. pose proof (F2 a Ha) as L2.
      unfold entry_le in *. pose proof (lex_leb_antisym _ _ L1 L2) as Hk.
      exfalso. apply Hnotin. rewrite Hk. now apply in_map. }
    subst b. f_equal. apply IH; try assumption. now apply Permutation_cons_inv in P.
Qed.

(* MAIN THEOREM: the printed module does not depend on the order in which the map hands out its
   entries (the HashMap iteration order) *)
Theorem mod_print_perm : forall m e1 e2,
  Permutation e1 e2 -> NoDup (map fst e1) -> mod_print m e1 = mod_print m e2.
Proof.
  intros m e1 e2 P ND. unfold mod_print.
  replace (mod_sort e2) with (mod_sort e1); [reflexivity|].
  apply sorted_perm_unique; try apply mod_sort_sorted.
  - rewrite !mod_sort_perm. exact P.
  - eapply Permutation_NoDup; [|exact ND]. apply Permutation_map. symmetry. apply mod_sort_perm.
Qed.
Print Assumptions mod_print_perm.

(* MAIN THEOREM: the lines of the printed module are the entries, each exactly once, with the names in
   strictly increasing byte-wise order *)
Theorem mod_print_sorted : forall m e,
  NoDup (map fst e) ->
  exists sorted,
    mod_print m e = s_mod ++ m ++ s_open ++ flat_map mod_line sorted ++ [125] /\
    Permutation sorted e /\
    StronglySorted lex_lt (map fst sorted).
Proof.
  intros m e ND. exists (mod_sort e). split; [reflexivity|]. split; [apply mod_sort_perm|].
  assert (ND' : NoDup (map fst (mod_sort e))).
  { eapply Permutation_NoDup; [|exact ND]. apply Permutation_map. symmetry. apply mod_sort_perm. }
  pose proof (mod_sort_sorted e) as S. induction S as [|h t St IH Hh]; cbn [map]; [constructor|].
  cbn [map] in ND'. inversion ND' as [|k ks Hnotin NDt]; subst.
  constructor; [now apply IH|].
  apply Forall_forall. intros k Hk. apply in_map_iff in Hk as (x & <- & Hx).
  rewrite Forall_forall in Hh. split; [apply (Hh x Hx)|].
  intros Heq. apply Hnotin. rewrite Heq. now apply in_map.
Qed.
Print Assumptions mod_print_sorted.
