(* C07: laws of the structural layout *)
From Coq Require Import List Arith NArith Lia Bool.
Import ListNotations.
Require Import SV.Base.Util SV.Base.BT SV.Base.BTLemmas SV.Simp.Core SV.Layout.Ty SV.Layout.Value.

Lemma sty_eqb_eq a : forall b, sty_eqb a b = true <-> a = b.
Proof.
  induction a; destruct b; cbn; split; intros H; try discriminate; try reflexivity.
  - apply andb_true_iff in H as [H1 H2]. apply IHa1 in H1. apply IHa2 in H2. congruence.
  - inversion H; subst. apply andb_true_iff. split; [apply IHa1|apply IHa2]; reflexivity.
  - apply andb_true_iff in H as [H1 H2]. apply IHa1 in H1. apply IHa2 in H2. congruence.
  - inversion H; subst. apply andb_true_iff. split; [apply IHa1|apply IHa2]; reflexivity.
Qed.

Lemma firstn_repeat {A} (x:A) n m : firstn n (repeat x m) = repeat x (min n m).
Proof. revert m; induction n; intros [|m]; cbn; auto. now rewrite IHn. Qed.
Lemma skipn_repeat {A} (x:A) n m : skipn n (repeat x m) = repeat x (m - n).
Proof. revert m; induction n; intros [|m]; cbn; auto. Qed.

Lemma pow2_pos j : 1 <= 2^j. Proof. pose proof (Nat.pow_nonzero 2 j). lia. Qed.

(* ---------- integers, booleans, sums ---------- *)
Lemma struct_ty_uint_zero : struct_ty (TUInt 0) = SSum SUnit SUnit. Proof. reflexivity. Qed.
Lemma struct_ty_uint_succ k : struct_ty (TUInt (S k)) = SProd (struct_ty (TUInt k)) (struct_ty (TUInt k)).
Proof. reflexivity. Qed.
Lemma struct_ty_bool : struct_ty TBool = SSum SUnit SUnit. Proof. reflexivity. Qed.
Lemma struct_ty_option a : struct_ty (TOption a) = SSum SUnit (struct_ty a). Proof. reflexivity. Qed.
Lemma struct_ty_either a b : struct_ty (TEither a b) = SSum (struct_ty a) (struct_ty b). Proof. reflexivity. Qed.

(* ---------- tuples and arrays: the recursive split ---------- *)
Lemma struct_ty_tuple_nil : struct_ty (TTuple []) = SUnit. Proof. reflexivity. Qed.
Lemma struct_ty_tuple_one a : struct_ty (TTuple [a]) = struct_ty a. Proof. reflexivity. Qed.
Lemma struct_ty_tuple_split ts : 2 <= length ts ->
  struct_ty (TTuple ts) = SProd (struct_ty (TTuple (firstn (half (length ts)) ts)))
                                (struct_ty (TTuple (skipn (half (length ts)) ts))).
Proof.
  intros H. cbn [struct_ty]. rewrite bt_split by (rewrite map_length; exact H).
  rewrite map_length, firstn_map, skipn_map. reflexivity.
Qed.

Lemma struct_ty_array_zero a : struct_ty (TArray a 0) = SUnit. Proof. reflexivity. Qed.
Lemma struct_ty_array_one a : struct_ty (TArray a 1) = struct_ty a. Proof. reflexivity. Qed.
Lemma struct_ty_array_split a n : 2 <= n ->
  struct_ty (TArray a n) = SProd (struct_ty (TArray a (half n))) (struct_ty (TArray a (n - half n))).
Proof.
  intros H. cbn [struct_ty]. pose proof (half_bounds _ H).
  rewrite bt_split by (rewrite repeat_length; exact H).
  rewrite repeat_length, firstn_repeat, skipn_repeat. rewrite Nat.min_l by lia. reflexivity.
Qed.
(* ... and the right part holds the largest power of two strictly below n *)
Lemma array_right_part n : 2 <= n -> exists j, n - half n = 2^j /\ 2^j < n /\ n <= 2^(S j).
Proof. apply half_spec. Qed.

(* ---------- lists ---------- *)
Lemma struct_ty_list_one a : struct_ty (TList a 1) = SSum SUnit (struct_ty a).
Proof. reflexivity. Qed.

Lemma struct_ty_list_succ a j :
  struct_ty (TList a (S (S j))) =
  SProd (SSum SUnit (struct_ty (TArray a (2^(S j))))) (struct_ty (TList a (S j))).
Proof.
  cbn [struct_ty]. replace (S (S j) - 1) with (S j) by lia. replace (S j - 1) with j by lia.
  cbn [part_fold]. rewrite repeat_length.
  pose proof (pow2_pos j).
  assert (E: 2 ^ S (S j) - 1 = 2^(S j) + (2^(S j) - 1)) by (cbn [Nat.pow]; lia).
  destruct (Nat.ltb_spec (2 ^ S (S j) - 1) (2 ^ S j)) as [Hlt|Hge]; [exfalso; lia|].
  rewrite firstn_repeat, skipn_repeat. rewrite Nat.min_l by (rewrite E; lia).
  replace (2 ^ S (S j) - 1 - 2 ^ S j) with (2 ^ S j - 1) by (rewrite E; lia).
  reflexivity.
Qed.

(* elements fill the blocks in order, largest block first *)
Lemma structural_list_one_nil a : structural (AList [] a 1) = VL VU. Proof. reflexivity. Qed.
Lemma structural_list_one_some a x : structural (AList [x] a 1) = VR (structural x). Proof. reflexivity. Qed.
Lemma structural_list_fill vs a j :
  structural (AList vs a (S (S j))) =
  if length vs <? 2^(S j)
  then VP (VL VU) (structural (AList vs a (S j)))
  else VP (VR (structural (AArray (firstn (2^(S j)) vs) a))) (structural (AList (skipn (2^(S j)) vs) a (S j))).
Proof.
  cbn [structural]. replace (S (S j) - 1) with (S j) by lia. replace (S j - 1) with j by lia.
  cbn [part_fold]. rewrite map_length.
  destruct (Nat.ltb_spec (length vs) (2^(S j))) as [Hlt|Hge]; [reflexivity|].
  rewrite firstn_map, skipn_map. unfold sval_block at 1.
  pose proof (pow2_pos (S j)).
  destruct (map structural (firstn (2 ^ S j) vs)) eqn:E; [|reflexivity].
  apply (f_equal (@length _)) in E. rewrite map_length, firstn_length in E. cbn [length] in E. lia.
Qed.

(* ---------- casts ---------- *)
Lemma cast_ok_iff s t : cast_ok s t = true <-> struct_ty s = struct_ty t.
Proof. apply sty_eqb_eq. Qed.
Lemma cast_refl t : cast_ok t t = true. Proof. now apply cast_ok_iff. Qed.
Lemma cast_sym s t : cast_ok s t = cast_ok t s.
Proof. apply eq_true_iff_eq. rewrite !cast_ok_iff. split; congruence. Qed.
Lemma cast_trans s t u : cast_ok s t = true -> cast_ok t u = true -> cast_ok s u = true.
Proof. rewrite !cast_ok_iff. congruence. Qed.
