(* Correctness of the integer-literal parsing / printing model of Text/Literal.v
   (/repo/src/value.rs: UIntValue::parse_decimal, parse_binary, Value::parse_hexadecimal,
    Display for UIntValue; /repo/src/parse.rs: underscore stripping). *)
From Coq Require Import List NArith ZArith Bool Lia Arith.
From Coq Require Import ZifyBool ZifyNat ZifyN.
Require Import SV.Base.Res SV.Text.U256 SV.Text.Literal SV.Proofs.U256Correct.
Import ListNotations.
Local Open Scope N_scope.

Ltac Zify.zify_post_hook ::= Z.div_mod_to_equations.

Notation len l := (N.of_nat (length l)).

(** * Underscore stripping *)

Lemma strip_underscores_no_underscore : forall s, Forall (fun c => c <> 95) (strip_underscores s).
Proof.
  intros s. unfold strip_underscores. apply Forall_forall. intros c Hin.
  apply filter_In in Hin. destruct Hin as [_ Hc]. lia.
Qed.

Lemma strip_underscores_id : forall s, Forall (fun c => c <> 95) s -> strip_underscores s = s.
Proof.
  induction s as [|c r IHr]; intros H; [reflexivity|].
  inversion H as [|c0 r0 Hc Hr]; subst. unfold strip_underscores in *. cbn [filter].
  replace (negb (c =? 95)) with true by lia. f_equal. now apply IHr.
Qed.

(* the grammar's dec_literal is (ASCII_DIGIT | "_")+ : after stripping only digits remain
   (possibly none at all) *)
Lemma strip_underscores_digits : forall s,
  Forall (fun c => 48 <= c <= 57 \/ c = 95) s -> all_digits (strip_underscores s).
Proof.
  induction s as [|c r IHr]; intros H; [constructor|].
  inversion H as [|c0 r0 Hc Hr]; subst. unfold strip_underscores in *. cbn [filter].
  destruct (N.eqb_spec c 95) as [->|Hne]; cbn [negb].
  - now apply IHr.
  - constructor; [lia|now apply IHr].
Qed.

Lemma strip_underscores_only_underscores : forall s,
  Forall (fun c => c = 95) s -> strip_underscores s = [].
Proof.
  induction s as [|c r IHr]; intros H; [reflexivity|].
  inversion H as [|c0 r0 Hc Hr]; subst. unfold strip_underscores in *. cbn [filter].
  rewrite N.eqb_refl. cbn [negb]. now apply IHr.
Qed.

(** * Decimal: Rust's str::parse::<uN>() *)

Lemma parse_uint_unchecked_digits : forall s acc,
  all_digits s -> parse_uint_unchecked s acc = Ok (dec_value_acc acc s).
Proof.
  induction s as [|c r IHr]; intros acc Hd; [reflexivity|].
  inversion Hd as [|c0 r0 Hc Hr]; subst.
  cbn [parse_uint_unchecked dec_value_acc]. rewrite (to_digit10_digit c Hc). now apply IHr.
Qed.

(* the checked loop: loop invariant  result = value of the prefix read so far, result <= max *)
Lemma parse_uint_checked_spec : forall max s acc,
  all_digits s -> acc <= max ->
  (dec_value_acc acc s <= max -> parse_uint_checked max s acc = Ok (dec_value_acc acc s)) /\
  (max < dec_value_acc acc s -> parse_uint_checked max s acc = Err).
Proof.
  intros max. induction s as [|c r IHr]; intros acc Hd Hacc.
  - cbn [parse_uint_checked dec_value_acc]. split; [reflexivity|lia].
  - inversion Hd as [|c0 r0 Hc Hr]; subst.
    cbn [parse_uint_checked dec_value_acc]. rewrite (to_digit10_digit c Hc).
    pose proof (dec_value_acc_ge r (acc * 10 + (c - 48))) as Hge.
    destruct (max <? acc * 10) eqn:E1.
    + split; [lia|reflexivity].
    + destruct (max <? acc * 10 + (c - 48)) eqn:E2.
      * split; [lia|reflexivity].
      * apply IHr; [exact Hr|lia].
Qed.

Lemma parse_uint_unchecked_no_panic : forall s acc, parse_uint_unchecked s acc <> Panic.
Proof.
  induction s as [|c r IHr]; intros acc; cbn [parse_uint_unchecked]; [discriminate|].
  destruct (to_digit10 c); [apply IHr|discriminate].
Qed.

Lemma parse_uint_checked_no_panic : forall max s acc, parse_uint_checked max s acc <> Panic.
Proof.
  intros max. induction s as [|c r IHr]; intros acc; cbn [parse_uint_checked]; [discriminate|].
  destruct (to_digit10 c); [|discriminate].
  destruct (max <? acc * 10); [discriminate|].
  destruct (max <? acc * 10 + n); [discriminate|apply IHr].
Qed.

Lemma rust_parse_uint_no_panic : forall bits s, rust_parse_uint bits s <> Panic.
Proof.
  intros bits s. unfold rust_parse_uint. destruct s as [|c rest]; [discriminate|].
  destruct (match rest with [] => (c =? 43) || (c =? 45) | _ :: _ => false end); [discriminate|].
  destruct (len (if c =? 43 then rest else c :: rest) <=? bits / 8 * 2).
  - apply parse_uint_unchecked_no_panic.
  - apply parse_uint_checked_no_panic.
Qed.

Definition std_bits (bits : N) : Prop :=
  bits = 8 \/ bits = 16 \/ bits = 32 \/ bits = 64 \/ bits = 128.

(* the fast path is only taken when the digits cannot overflow *)
Lemma fast_path_bound : forall bits, std_bits bits -> 10 ^ (bits / 8 * 2) < 2 ^ bits.
Proof.
  intros bits [->|[->|[->|[->| ->]]]]; vm_compute; reflexivity.
Qed.

Lemma rust_parse_uint_spec : forall bits s,
  std_bits bits -> all_digits s -> s <> [] ->
  (dec_value s < 2 ^ bits -> rust_parse_uint bits s = Ok (dec_value s)) /\
  (2 ^ bits <= dec_value s -> rust_parse_uint bits s = Err).
Proof.
  intros bits s Hb Hd Hne. destruct s as [|c rest]; [congruence|].
  unfold rust_parse_uint.
  inversion Hd as [|c0 r0 Hc Hr]; subst.
  assert (Hss : match rest with [] => (c =? 43) || (c =? 45) | _ :: _ => false end = false).
  { destruct rest; [lia|reflexivity]. }
  rewrite Hss.
  replace (c =? 43) with false by lia.
  pose proof (fast_path_bound bits Hb) as Hfast.
  assert (Hpos : 0 < 2 ^ bits) by (apply N.neq_0_lt_0, N.pow_nonzero; lia).
  destruct (len (c :: rest) <=? bits / 8 * 2) eqn:Hlen.
  - (* unchecked fast path *)
    rewrite parse_uint_unchecked_digits by exact Hd. fold (dec_value (c :: rest)).
    pose proof (dec_value_lt_pow (c :: rest) Hd) as Hlt.
    assert (10 ^ len (c :: rest) <= 10 ^ (bits / 8 * 2)) by (apply N.pow_le_mono_r; lia).
    split; [reflexivity|lia].
  - destruct (parse_uint_checked_spec (2 ^ bits - 1) (c :: rest) 0 Hd ltac:(lia)) as [H1 H2].
    fold (dec_value (c :: rest)) in H1, H2.
    split; intros H; [apply H1|apply H2]; lia.
Qed.

Lemma rust_parse_uint_empty : forall bits, rust_parse_uint bits [] = Err.
Proof. reflexivity. Qed.

Lemma rust_parse_uint_ok_iff : forall bits s n,
  std_bits bits -> all_digits s ->
  (rust_parse_uint bits s = Ok n <-> s <> [] /\ n = dec_value s /\ n < 2 ^ bits).
Proof.
  intros bits s n Hb Hd. split.
  - intros H. destruct s as [|c r]; [discriminate|].
    assert (Hne : c :: r <> []) by discriminate.
    destruct (rust_parse_uint_spec bits (c :: r) Hb Hd Hne) as [H1 H2].
    destruct (N.lt_ge_cases (dec_value (c :: r)) (2 ^ bits)) as [Hlt|Hge].
    + rewrite (H1 Hlt) in H. injection H as <-. auto.
    + rewrite (H2 Hge) in H. discriminate.
  - intros (Hne & -> & Hlt). apply (rust_parse_uint_spec bits s Hb Hd Hne). exact Hlt.
Qed.

(** * parse_decimal *)

(* u1 / u2 / u4: parse as u8, then the range check of UIntValue::u1/u2/u4 *)
Lemma parse_decimal_small : forall bound s n,
  bound <= 256 -> all_digits s ->
  (rbind (rust_parse_uint 8 s) (fun v => if v <? bound then Ok v else Err) = Ok n <->
   s <> [] /\ n = dec_value s /\ n < bound).
Proof.
  intros bound s n Hb Hd.
  assert (Hstd : std_bits 8) by (left; reflexivity).
  split.
  - intros H. destruct (rust_parse_uint 8 s) as [v| |] eqn:E; cbn [rbind] in H; try discriminate.
    apply (rust_parse_uint_ok_iff 8 s v Hstd Hd) in E. destruct E as (Hne & -> & Hlt).
    destruct (dec_value s <? bound) eqn:Hc; [|discriminate].
    injection H as <-. repeat split; [exact Hne|lia].
  - intros (Hne & -> & Hlt).
    assert (E : rust_parse_uint 8 s = Ok (dec_value s)).
    { apply (rust_parse_uint_ok_iff 8 s _ Hstd Hd). repeat split; [exact Hne|].
      change (2 ^ 8) with 256. lia. }
    rewrite E. cbn [rbind]. replace (dec_value s <? bound) with true by lia. reflexivity.
Qed.

(* MAIN THEOREM (decimal, u1 .. u128) *)
Theorem parse_decimal_correct : forall k s n,
  (k <= 7)%nat -> all_digits s ->
  (parse_decimal k s = Ok n <-> s <> [] /\ n = dec_value s /\ n < 2 ^ 2 ^ N.of_nat k).
Proof.
  intros k s n Hk Hd.
  destruct k as [|[|[|[|[|[|[|[|k]]]]]]]]; [..|lia]; cbn [parse_decimal].
  - apply parse_decimal_small; [vm_compute; discriminate|exact Hd].
  - apply parse_decimal_small; [vm_compute; discriminate|exact Hd].
  - apply parse_decimal_small; [vm_compute; discriminate|exact Hd].
  - apply (rust_parse_uint_ok_iff 8); [unfold std_bits; tauto|exact Hd].
  - apply (rust_parse_uint_ok_iff 16); [unfold std_bits; tauto|exact Hd].
  - apply (rust_parse_uint_ok_iff 32); [unfold std_bits; tauto|exact Hd].
  - apply (rust_parse_uint_ok_iff 64); [unfold std_bits; tauto|exact Hd].
  - apply (rust_parse_uint_ok_iff 128); [unfold std_bits; tauto|exact Hd].
Qed.
Print Assumptions parse_decimal_correct.

(* MAIN THEOREM (decimal, u256): the same statement WITHOUT the non-emptiness condition,
   because U256::from_str accepts the empty string as 0. *)
Theorem parse_decimal_u256_correct : forall s n,
  all_digits s ->
  (parse_decimal 8 s = Ok n <-> n = dec_value s /\ n < 2 ^ 2 ^ N.of_nat 8).
Proof.
  intros s n Hd. cbn [parse_decimal].
  change (2 ^ 2 ^ N.of_nat 8) with (2 ^ 256).
  destruct (u256_from_str_correct s Hd) as [H1 H2]. split.
  - intros H. destruct (N.lt_ge_cases (dec_value s) (2 ^ 256)) as [Hlt|Hge].
    + destruct (H1 Hlt) as (b & Hb & _ & _ & Hv). rewrite Hb in H. cbn [rmap] in H.
      injection H as <-. rewrite Hv. auto.
    + rewrite (H2 Hge) in H. discriminate.
  - intros (-> & Hlt). destruct (H1 Hlt) as (b & Hb & _ & _ & Hv).
    rewrite Hb. cbn [rmap]. now rewrite Hv.
Qed.
Print Assumptions parse_decimal_u256_correct.

(* The uniform statement is FALSE at k = 8: the empty digit string (source text `_`) is
   accepted as the u256 value 0. *)
Lemma parse_decimal_empty_u256 : parse_decimal 8 [] = Ok 0.
Proof. vm_compute. reflexivity. Qed.

Lemma parse_decimal_empty_u256_refuted :
  ~ (forall k s n, (k <= 8)%nat -> all_digits s ->
       (parse_decimal k s = Ok n <-> s <> [] /\ n = dec_value s /\ n < 2 ^ 2 ^ N.of_nat k)).
Proof.
  intros H. destruct (H 8%nat [] 0 (le_n 8) (Forall_nil _)) as [H1 _].
  destruct (H1 parse_decimal_empty_u256) as [Hne _]. now apply Hne.
Qed.

(* all widths in one statement, with the exception spelled out *)
Theorem parse_decimal_correct_all : forall k s n,
  (k <= 8)%nat -> all_digits s ->
  (parse_decimal k s = Ok n <->
   (s <> [] \/ k = 8%nat) /\ n = dec_value s /\ n < 2 ^ 2 ^ N.of_nat k).
Proof.
  intros k s n Hk Hd. destruct (Nat.eq_dec k 8) as [->|Hne].
  - rewrite (parse_decimal_u256_correct s n Hd). tauto.
  - rewrite (parse_decimal_correct k s n ltac:(lia) Hd). split.
    + intros (H1 & H2 & H3). auto.
    + intros ([H1|H1] & H2 & H3); [auto|contradiction].
Qed.

Lemma parse_decimal_empty : forall k, (k <= 7)%nat -> parse_decimal k [] = Err.
Proof.
  intros k Hk. destruct k as [|[|[|[|[|[|[|[|k]]]]]]]]; [..|lia]; reflexivity.
Qed.

(* parse_decimal never panics, on any input and any k *)
Theorem parse_decimal_no_panic : forall k s, parse_decimal k s <> Panic.
Proof.
  intros k s.
  destruct k as [|[|[|[|[|[|[|[|[|k]]]]]]]]]; cbn [parse_decimal]; try discriminate;
    try apply rust_parse_uint_no_panic.
  1-3: pose proof (rust_parse_uint_no_panic 8 s) as Hnp;
       destruct (rust_parse_uint 8 s) as [v| |]; cbn [rbind]; [|discriminate|congruence];
       match goal with |- context [if ?c then _ else _] => destruct c end; discriminate.
  pose proof (u256_from_str_no_panic s) as Hnp.
  destruct (u256_from_str s); cbn [rmap]; [discriminate|discriminate|congruence].
Qed.
Print Assumptions parse_decimal_no_panic.

(* hence on digit strings: Err in all remaining cases *)
Corollary parse_decimal_err_iff : forall k s,
  (k <= 8)%nat -> all_digits s ->
  (parse_decimal k s = Err <->
   ~ ((s <> [] \/ k = 8%nat) /\ dec_value s < 2 ^ 2 ^ N.of_nat k)).
Proof.
  intros k s Hk Hd. pose proof (parse_decimal_no_panic k s) as Hnp.
  pose proof (parse_decimal_correct_all k s (dec_value s) Hk Hd) as Hiff. split.
  - intros HE (H1 & H2). destruct Hiff as [_ Hiff]. rewrite Hiff in HE by auto. discriminate.
  - intros Hn. destruct (parse_decimal k s) as [v| |] eqn:E; [|reflexivity|congruence].
    exfalso. apply Hn.
    destruct (parse_decimal_correct_all k s v Hk Hd) as [Hv _]. rewrite E in Hv.
    destruct (Hv eq_refl) as (H1 & -> & H3). auto.
Qed.

(** * Binary *)

(* value of a bit string; like the Rust (`bit == '1'`), every character other than '1' is a 0 *)
Definition bit_of (c : N) : N := if c =? 49 then 1 else 0.
Fixpoint bin_value_acc (acc : N) (s : list N) : N :=
  match s with
  | [] => acc
  | c :: r => bin_value_acc (acc * 2 + bit_of c) r
  end.
Definition bin_value (s : list N) : N := bin_value_acc 0 s.

Definition all_bits (s : list N) : Prop := Forall (fun c => c = 48 \/ c = 49) s.

Lemma bit_of_lt : forall c, bit_of c < 2.
Proof. intros c. unfold bit_of. destruct (c =? 49); lia. Qed.

Lemma bin_value_acc_split : forall s acc,
  bin_value_acc acc s = acc * 2 ^ len s + bin_value s.
Proof.
  induction s as [|c r IHr]; intros acc.
  - unfold bin_value. cbn [bin_value_acc length]. change (N.of_nat 0) with 0. rewrite N.pow_0_r. lia.
  - unfold bin_value. cbn [bin_value_acc length].
    rewrite (IHr (acc * 2 + bit_of c)), (IHr (0 * 2 + bit_of c)).
    rewrite Nat2N.inj_succ, N.pow_succ_r'. lia.
Qed.

Lemma bin_value_acc_app : forall a b acc,
  bin_value_acc acc (a ++ b) = bin_value_acc (bin_value_acc acc a) b.
Proof.
  induction a as [|c r IHr]; intros b acc; cbn [app bin_value_acc]; [reflexivity|apply IHr].
Qed.

Lemma bin_value_app : forall a b, bin_value (a ++ b) = bin_value a * 2 ^ len b + bin_value b.
Proof.
  intros a b. unfold bin_value at 1. rewrite bin_value_acc_app.
  fold (bin_value a). apply bin_value_acc_split.
Qed.

Lemma bin_value_lt : forall s, bin_value s < 2 ^ len s.
Proof.
  intros s. induction s as [|c r IHr] using rev_ind.
  - cbn. lia.
  - rewrite bin_value_app, app_length. cbn [length].
    replace (N.of_nat (length r + 1)) with (N.succ (len r)) by lia.
    rewrite N.pow_succ_r'. change (N.of_nat 1) with 1. rewrite N.pow_1_r.
    unfold bin_value at 2. cbn [bin_value_acc]. pose proof (bit_of_lt c). lia.
Qed.

Lemma bin_value_padding : forall p s, bin_value (repeat 48 p ++ s) = bin_value s.
Proof.
  induction p as [|p IHp]; intros s; [reflexivity|].
  cbn [repeat app]. unfold bin_value in *. cbn [bin_value_acc].
  change (0 * 2 + bit_of 48) with 0. apply IHp.
Qed.

Lemma lor_bit : forall x b, b < 2 -> N.lor (2 * x) b = 2 * x + b.
Proof.
  intros x b Hb. assert (Hb' : b = 0 \/ b = 1) by lia. destruct Hb' as [->| ->].
  - now rewrite N.lor_0_r, N.add_0_r.
  - destruct x as [|p]; reflexivity.
Qed.

(* eight rounds of `byte = (byte << 1) | bit` starting from 0 never lose a bit *)
Lemma take_byte_spec : forall n bits byte m,
  (n <= length bits)%nat -> byte < 2 ^ N.of_nat m -> (m + n <= 8)%nat ->
  take_byte n bits byte = Ok (bin_value_acc byte (firstn n bits), skipn n bits) /\
  bin_value_acc byte (firstn n bits) < 2 ^ N.of_nat (m + n).
Proof.
  induction n as [|n IHn]; intros bits byte m Hlen Hb Hm.
  - cbn [take_byte firstn skipn bin_value_acc]. rewrite Nat.add_0_r. auto.
  - destruct bits as [|bit rest]; [cbn in Hlen; lia|].
    cbn [take_byte firstn skipn bin_value_acc]. cbn [length] in Hlen.
    assert (Hb2 : byte * 2 < 2 ^ N.of_nat (S m)).
    { rewrite Nat2N.inj_succ, N.pow_succ_r'. lia. }
    assert (H256 : 2 ^ N.of_nat (S m) <= 2 ^ 8) by (apply N.pow_le_mono_r; lia).
    change (2 ^ 8) with 256 in H256.
    rewrite N.mod_small by lia.
    fold (bit_of bit). rewrite (N.mul_comm byte 2), lor_bit by apply bit_of_lt.
    rewrite (N.mul_comm 2 byte).
    assert (Hb3 : byte * 2 + bit_of bit < 2 ^ N.of_nat (S m)).
    { pose proof (bit_of_lt bit). rewrite Nat2N.inj_succ, N.pow_succ_r' in *. lia. }
    replace (m + S n)%nat with (S m + n)%nat by lia.
    apply IHn; lia.
Qed.

(* the byte loop: given exactly 8*n characters it cannot hit the unwrap, and the bytes are the
   big-endian representation of the bit string *)
Lemma collect_bytes_spec : forall n bits,
  length bits = (8 * n)%nat ->
  exists bytes, collect_bytes n bits = Ok bytes /\ length bytes = n /\ bytes_ok bytes /\
                bytes_value bytes = bin_value bits.
Proof.
  induction n as [|n IHn]; intros bits Hlen.
  - destruct bits; [|discriminate]. exists []. repeat split. constructor.
  - cbn [collect_bytes].
    destruct (take_byte_spec 8 bits 0 0 ltac:(lia) ltac:(cbn; lia) ltac:(lia)) as [Htb Hlt].
    rewrite Htb. fold (bin_value (firstn 8 bits)) in *.
    destruct (IHn (skipn 8 bits)) as (bytes & Hc & Hl & Hok & Hv).
    { rewrite skipn_length. lia. }
    rewrite Hc. cbn [rmap].
    exists (bin_value (firstn 8 bits) :: bytes). split; [reflexivity|]. split; [cbn [length]; lia|]. split.
    + constructor; [exact Hlt|exact Hok].
    + rewrite bytes_value_cons, Hv, Hl.
      rewrite <- (firstn_skipn 8 bits) at 3. rewrite bin_value_app.
      rewrite skipn_length, Hlen.
      replace (N.of_nat (8 * S n - 8)) with (8 * N.of_nat n) by lia.
      rewrite N.pow_mul_r. reflexivity.
Qed.

Lemma from_bit_width_some : forall n kb,
  from_bit_width n = Some kb -> (kb <= 8)%nat /\ n = 2 ^ N.of_nat kb.
Proof.
  intros n kb. unfold from_bit_width.
  repeat (match goal with |- context [?a =? ?b] => destruct (N.eqb_spec a b) as [->|?] end);
    intros H; try discriminate; injection H as <-; split; try lia; reflexivity.
Qed.

Lemma pow2_facts : forall k, (k <= 8)%nat ->
  is_pow2 (2 ^ N.of_nat k) = true /\ from_bit_width (2 ^ N.of_nat k) = Some k.
Proof.
  intros k Hk. destruct k as [|[|[|[|[|[|[|[|[|k]]]]]]]]]; [..|lia]; split; reflexivity.
Qed.

(* the tail of parse_binary, after the bytes have been collected *)
Definition bin_finish (k : nat) (bytes : list N) : res N :=
  match k with
  | 0%nat | 1%nat | 2%nat => match bytes with b0 :: _ => Ok b0 | [] => Panic end
  | _ => match uint_try_from bytes with Some (_, v) => Ok v | None => Panic end
  end.

Lemma parse_binary_unfold : forall k s,
  parse_binary k s =
  if negb (is_pow2 (len s)) then Err else
  match from_bit_width (len s) with
  | None => Err
  | Some kb =>
      if negb (Nat.eqb k kb) then Err else
      match collect_bytes (N.to_nat ((len s + 7) / 8)) (repeat 48 (N.to_nat (8 - len s)) ++ s) with
      | Ok bytes => bin_finish k bytes
      | Err => Err
      | Panic => Panic
      end
  end.
Proof. reflexivity. Qed.

Lemma parse_binary_ok : forall k s,
  (k <= 8)%nat -> len s = 2 ^ N.of_nat k -> parse_binary k s = Ok (bin_value s).
Proof.
  intros k s Hk Hlen. rewrite parse_binary_unfold, Hlen.
  destruct (pow2_facts k Hk) as [Hp Hf]. rewrite Hp, Hf, Nat.eqb_refl. cbn [negb].
  set (bl := N.to_nat ((2 ^ N.of_nat k + 7) / 8)).
  set (pl := N.to_nat (8 - 2 ^ N.of_nat k)).
  assert (Hpad : length (repeat 48 pl ++ s) = (8 * bl)%nat).
  { rewrite app_length, repeat_length. unfold pl, bl.
    destruct k as [|[|[|[|[|[|[|[|[|k]]]]]]]]]; [..|lia];
      match goal with |- context [2 ^ N.of_nat ?c] =>
        let v := eval vm_compute in (2 ^ N.of_nat c) in change (2 ^ N.of_nat c) with v in * end;
      match goal with |- context [N.to_nat (8 - ?c)] =>
        let v := eval vm_compute in (N.to_nat (8 - c)) in change (N.to_nat (8 - c)) with v end;
      match goal with |- context [N.to_nat ((?c + 7) / 8)] =>
        let v := eval vm_compute in (N.to_nat ((c + 7) / 8)) in change (N.to_nat ((c + 7) / 8)) with v end;
      lia. }
  destruct (collect_bytes_spec bl _ Hpad) as (bytes & Hc & Hl & Hok & Hv).
  rewrite Hc, bin_value_padding in *.
  unfold bl in Hl.
  destruct k as [|[|[|[|[|[|[|[|[|k]]]]]]]]]; [..|lia]; cbn [bin_finish];
    match type of Hl with context [N.to_nat ?c] =>
      let v := eval vm_compute in (N.to_nat c) in change (N.to_nat c) with v in Hl end.
  1-3: destruct bytes as [|b0 [|b1 r]]; try discriminate;
       rewrite <- Hv; rewrite bytes_value_cons, bytes_value_nil; cbn [length];
       change (N.of_nat 0) with 0; rewrite N.pow_0_r; f_equal; lia.
  all: unfold uint_try_from; rewrite Hl, Hv; reflexivity.
Qed.

(* MAIN THEOREM (binary), for ALL strings s (any characters, any length, including empty)
   and all k: either the length is exactly the bit width and the result is the value,
   or the result is Err.  In particular parse_binary never panics. *)
Theorem parse_binary_cases : forall k s,
  ((k <= 8)%nat /\ len s = 2 ^ N.of_nat k /\ parse_binary k s = Ok (bin_value s)) \/
  (~ ((k <= 8)%nat /\ len s = 2 ^ N.of_nat k) /\ parse_binary k s = Err).
Proof.
  intros k s.
  destruct (le_dec k 8) as [Hk|Hk].
  - destruct (N.eq_dec (len s) (2 ^ N.of_nat k)) as [Hl|Hl].
    + left. auto using parse_binary_ok.
    + right. split; [tauto|]. rewrite parse_binary_unfold.
      destruct (is_pow2 (len s)); [|reflexivity]. cbn [negb].
      destruct (from_bit_width (len s)) as [kb|] eqn:E; [|reflexivity].
      apply from_bit_width_some in E. destruct E as [Hkb E].
      destruct (Nat.eqb_spec k kb) as [->|Hne]; [contradiction|reflexivity].
  - right. split; [tauto|]. rewrite parse_binary_unfold.
    destruct (is_pow2 (len s)); [|reflexivity]. cbn [negb].
    destruct (from_bit_width (len s)) as [kb|] eqn:E; [|reflexivity].
    apply from_bit_width_some in E. destruct E as [Hkb E].
    destruct (Nat.eqb_spec k kb) as [->|Hne]; [contradiction|reflexivity].
Qed.
Print Assumptions parse_binary_cases.

Theorem parse_binary_correct : forall k s n,
  parse_binary k s = Ok n <-> (k <= 8)%nat /\ len s = 2 ^ N.of_nat k /\ n = bin_value s.
Proof.
  intros k s n. destruct (parse_binary_cases k s) as [(Hk & Hl & H)|(Hn & H)]; rewrite H.
  - split; [intros E; injection E as <-; auto|intros (_ & _ & ->); reflexivity].
  - split; [discriminate|intros (H1 & H2 & _); tauto].
Qed.
Print Assumptions parse_binary_correct.

Theorem parse_binary_err_iff : forall k s,
  parse_binary k s = Err <-> ~ ((k <= 8)%nat /\ len s = 2 ^ N.of_nat k).
Proof.
  intros k s. destruct (parse_binary_cases k s) as [(Hk & Hl & H)|(Hn & H)]; rewrite H.
  - split; [discriminate|tauto].
  - tauto.
Qed.

Theorem parse_binary_no_panic : forall k s, parse_binary k s <> Panic.
Proof.
  intros k s. destruct (parse_binary_cases k s) as [(_ & _ & H)|(_ & H)]; rewrite H; discriminate.
Qed.
Print Assumptions parse_binary_no_panic.

(* special cases spelled out *)
Lemma parse_binary_empty : forall k, parse_binary k [] = Err.
Proof. intros k. reflexivity. Qed.

(* the value always fits the type (this is what the debug_assert!s in the u1/u2/u4 arms say) *)
Lemma parse_binary_range : forall k s n, parse_binary k s = Ok n -> n < 2 ^ 2 ^ N.of_nat k.
Proof.
  intros k s n H. apply parse_binary_correct in H. destruct H as (_ & Hl & ->).
  rewrite <- Hl. apply bin_value_lt.
Qed.

(** * Hexadecimal *)

Definition is_hex (c : N) : Prop := 48 <= c <= 57 \/ 97 <= c <= 102 \/ 65 <= c <= 70.
Definition all_hex (s : list N) : Prop := Forall is_hex s.

(* value of one hex digit character (both cases) *)
Definition hex_digit_value (c : N) : N :=
  if c <=? 57 then c - 48 else if c <=? 70 then c - 55 else c - 87.

Fixpoint hex_value_acc (acc : N) (s : list N) : N :=
  match s with
  | [] => acc
  | c :: r => hex_value_acc (acc * 16 + hex_digit_value c) r
  end.
Definition hex_value (s : list N) : N := hex_value_acc 0 s.

(* the bytes denoted by a hex string, in order: byte i is made of characters 2i and 2i+1 *)
Fixpoint hex_pairs (s : list N) : list N :=
  match s with
  | hi :: lo :: r => (hex_digit_value hi * 16 + hex_digit_value lo) :: hex_pairs r
  | _ => []
  end.

Lemma pair_ind : forall P : list N -> Prop,
  P [] -> (forall a, P [a]) -> (forall a b r, P r -> P (a :: b :: r)) -> forall l, P l.
Proof.
  intros P H0 H1 H2. fix IH 1. intros [|a [|b r]]; [exact H0|apply H1|apply H2, IH].
Qed.

Lemma is_hex_dec : forall c, is_hex c \/ ~ is_hex c.
Proof. intros c. unfold is_hex. lia. Qed.

Lemma to_digit16_hex : forall c,
  is_hex c -> to_digit16 c = Some (hex_digit_value c) /\ hex_digit_value c < 16.
Proof.
  intros c H. unfold is_hex in H. unfold to_digit16, hex_digit_value.
  destruct (N.leb_spec 48 c); destruct (N.leb_spec c 57); destruct (N.leb_spec 97 c);
    destruct (N.leb_spec c 102); destruct (N.leb_spec 65 c); destruct (N.leb_spec c 70);
    cbn [andb]; try lia; (split; [reflexivity|lia]).
Qed.

Lemma to_digit16_nonhex : forall c, ~ is_hex c -> to_digit16 c = None.
Proof.
  intros c H. unfold is_hex in H. unfold to_digit16.
  destruct (N.leb_spec 48 c); destruct (N.leb_spec c 57); destruct (N.leb_spec 97 c);
    destruct (N.leb_spec c 102); destruct (N.leb_spec 65 c); destruct (N.leb_spec c 70);
    cbn [andb]; try lia; reflexivity.
Qed.

Lemma hex_value_acc_split : forall s acc,
  hex_value_acc acc s = acc * 16 ^ len s + hex_value s.
Proof.
  induction s as [|c r IHr]; intros acc.
  - unfold hex_value. cbn [hex_value_acc length]. change (N.of_nat 0) with 0. rewrite N.pow_0_r. lia.
  - unfold hex_value. cbn [hex_value_acc length].
    rewrite (IHr (acc * 16 + hex_digit_value c)), (IHr (0 * 16 + hex_digit_value c)).
    rewrite Nat2N.inj_succ, N.pow_succ_r'. lia.
Qed.

Lemma hex_pairs_length : forall s, len s mod 2 = 0 -> len s = 2 * len (hex_pairs s).
Proof.
  induction s as [|a|a b r IHr] using pair_ind; intros He.
  - reflexivity.
  - cbn in He. discriminate.
  - cbn [hex_pairs length] in *. rewrite !Nat2N.inj_succ in *.
    assert (len r mod 2 = 0) by lia. specialize (IHr H). lia.
Qed.

Lemma hex_pairs_value : forall s, len s mod 2 = 0 -> bytes_value (hex_pairs s) = hex_value s.
Proof.
  induction s as [|a|a b r IHr] using pair_ind; intros He.
  - reflexivity.
  - cbn in He. discriminate.
  - assert (Hr : len r mod 2 = 0) by (cbn [length] in He; rewrite !Nat2N.inj_succ in He; lia).
    cbn [hex_pairs]. rewrite bytes_value_cons, (IHr Hr).
    unfold hex_value at 2. cbn [hex_value_acc]. rewrite hex_value_acc_split.
    pose proof (hex_pairs_length r Hr) as Hl. rewrite Hl.
    rewrite N.pow_mul_r. change (16 ^ 2) with 256. lia.
Qed.

Lemma hex_pairs_ok : forall s, all_hex s -> bytes_ok (hex_pairs s).
Proof.
  induction s as [|a|a b r IHr] using pair_ind; intros Hh; cbn [hex_pairs]; try constructor.
  - inversion Hh as [|x l Ha Hh']; subst. inversion Hh' as [|y l' Hb Hr]; subst.
    destruct (to_digit16_hex a Ha) as [_ La]. destruct (to_digit16_hex b Hb) as [_ Lb]. lia.
  - inversion Hh as [|x l Ha Hh']; subst. inversion Hh' as [|y l' Hb Hr]; subst. now apply IHr.
Qed.

(* "bytes in order" *)
Lemma hex_pairs_nth : forall s i,
  (2 * i + 1 < length s)%nat ->
  nth i (hex_pairs s) 0 =
  hex_digit_value (nth (2 * i) s 0) * 16 + hex_digit_value (nth (2 * i + 1) s 0).
Proof.
  induction s as [|a|a b r IHr] using pair_ind; intros i Hi.
  - cbn in Hi. lia.
  - cbn in Hi. lia.
  - destruct i as [|i].
    + reflexivity.
    + cbn [hex_pairs nth]. cbn [length] in Hi.
      replace (2 * S i)%nat with (S (S (2 * i))) by lia.
      replace (S (S (2 * i)) + 1)%nat with (S (S (2 * i + 1))) by lia.
      cbn [nth]. apply IHr. lia.
Qed.

(* the pair loop of from_hex on an even-length string *)
Lemma from_hex_pairs_cases : forall s,
  len s mod 2 = 0 ->
  (all_hex s /\ from_hex_pairs s = Ok (hex_pairs s)) \/
  (~ all_hex s /\ from_hex_pairs s = Err).
Proof.
  induction s as [|a|a b r IHr] using pair_ind; intros He.
  - left. split; [constructor|reflexivity].
  - cbn in He. discriminate.
  - assert (Hr : len r mod 2 = 0) by (cbn [length] in He; rewrite !Nat2N.inj_succ in He; lia).
    cbn [from_hex_pairs hex_pairs].
    destruct (is_hex_dec a) as [Ha|Ha].
    2:{ right. rewrite (to_digit16_nonhex a Ha). split; [|reflexivity].
        intros Hh. inversion Hh; subst. contradiction. }
    destruct (to_digit16_hex a Ha) as [Ea La]. rewrite Ea.
    destruct (is_hex_dec b) as [Hb|Hb].
    2:{ right. rewrite (to_digit16_nonhex b Hb). split; [|reflexivity].
        intros Hh. inversion Hh as [|x l _ Hh']; subst. inversion Hh'; subst. contradiction. }
    destruct (to_digit16_hex b Hb) as [Eb Lb]. rewrite Eb.
    destruct (IHr Hr) as [[Hh E]|[Hh E]]; rewrite E; cbn [rmap].
    + left. split; [constructor; [exact Ha|constructor; [exact Hb|exact Hh]]|].
      rewrite N.mod_small by lia. reflexivity.
    + right. split; [|reflexivity].
      intros Hh'. inversion Hh' as [|x l _ Hh'']; subst. inversion Hh''; subst. contradiction.
Qed.

(* The common part of parse_hexadecimal, for ALL strings: wrong length -> Err; right length and
   only hex digits -> the bytes; right length but some other character -> Panic (the expect on
   from_hex; unreachable from the grammar, which only produces hex digits). *)
Theorem parse_hex_common_cases : forall e s,
  (len s = 2 * e /\ all_hex s /\ parse_hex_common e s = Ok (hex_pairs s)) \/
  (len s = 2 * e /\ ~ all_hex s /\ parse_hex_common e s = Panic) \/
  (len s <> 2 * e /\ parse_hex_common e s = Err).
Proof.
  intros e s. unfold parse_hex_common, from_hex.
  destruct (N.eq_dec (len s) (2 * e)) as [Hl|Hl].
  - assert (He : len s mod 2 = 0) by lia.
    replace (len s mod 2 =? 0) with true by lia.
    replace (len s =? e * 2) with true by lia. cbn [negb orb].
    destruct (from_hex_pairs_cases s He) as [[Hh E]|[Hh E]]; rewrite E; auto.
  - right. right. split; [exact Hl|].
    replace (len s =? e * 2) with false by lia. rewrite orb_true_r. reflexivity.
Qed.
Print Assumptions parse_hex_common_cases.

(** ** byte arrays  [u8; n] *)

Theorem parse_hex_bytes_cases : forall n s,
  (length s = (2 * n)%nat /\ all_hex s /\ parse_hex_bytes n s = Ok (hex_pairs s)) \/
  (length s = (2 * n)%nat /\ ~ all_hex s /\ parse_hex_bytes n s = Panic) \/
  (length s <> (2 * n)%nat /\ parse_hex_bytes n s = Err).
Proof.
  intros n s. unfold parse_hex_bytes.
  destruct (parse_hex_common_cases (N.of_nat n) s) as [(Hl & H)|[(Hl & H)|(Hl & H)]].
  - left. split; [lia|exact H].
  - right. left. split; [lia|exact H].
  - right. right. split; [lia|exact H].
Qed.

(* MAIN THEOREM (hex byte arrays): over the hex alphabet, Ok exactly for 2n characters, and the
   result is the byte list in order (hex_pairs, see hex_pairs_nth); n bytes. *)
Theorem parse_hex_bytes_correct : forall n s bytes,
  all_hex s ->
  (parse_hex_bytes n s = Ok bytes <-> length s = (2 * n)%nat /\ bytes = hex_pairs s).
Proof.
  intros n s bytes Hh.
  destruct (parse_hex_bytes_cases n s) as [(Hl & _ & H)|[(Hl & Hn & H)|(Hl & H)]]; rewrite H.
  - split; [intros E; injection E as <-; auto|intros (_ & ->); reflexivity].
  - contradiction.
  - split; [discriminate|intros (Hl' & _); contradiction].
Qed.
Print Assumptions parse_hex_bytes_correct.

Lemma parse_hex_bytes_length : forall n s bytes,
  parse_hex_bytes n s = Ok bytes -> length bytes = n /\ bytes_ok bytes.
Proof.
  intros n s bytes H.
  destruct (parse_hex_bytes_cases n s) as [(Hl & Hh & E)|[(Hl & Hn & E)|(Hl & E)]];
    rewrite E in H; try discriminate. injection H as <-.
  split; [|apply hex_pairs_ok, Hh].
  pose proof (hex_pairs_length s ltac:(lia)). lia.
Qed.

Theorem parse_hex_bytes_err_iff : forall n s,
  parse_hex_bytes n s = Err <-> length s <> (2 * n)%nat.
Proof.
  intros n s.
  destruct (parse_hex_bytes_cases n s) as [(Hl & _ & H)|[(Hl & Hn & H)|(Hl & H)]]; rewrite H;
    split; try discriminate; try tauto.
Qed.

(* exact panic set, for all strings *)
Theorem parse_hex_bytes_panic_iff : forall n s,
  parse_hex_bytes n s = Panic <-> length s = (2 * n)%nat /\ ~ all_hex s.
Proof.
  intros n s.
  destruct (parse_hex_bytes_cases n s) as [(Hl & Hh & H)|[(Hl & Hn & H)|(Hl & H)]]; rewrite H;
    split; try discriminate; try tauto.
Qed.

(* over the alphabet the grammar allows there is no panic *)
Corollary parse_hex_bytes_no_panic : forall n s, all_hex s -> parse_hex_bytes n s <> Panic.
Proof.
  intros n s Hh H. apply parse_hex_bytes_panic_iff in H. tauto.
Qed.
Print Assumptions parse_hex_bytes_no_panic.

(* the zero-length array accepts the digit-less literal `0x_` *)
Lemma parse_hex_bytes_empty : parse_hex_bytes 0 [] = Ok [].
Proof. reflexivity. Qed.

(** ** integers *)

Definition wide : list (nat * nat) :=
  [(3, 1); (4, 2); (5, 4); (6, 8); (7, 16); (8, 32)]%nat.

Lemma uint_try_from_len : forall bytes k e,
  In (k, e) wide -> length bytes = e -> uint_try_from bytes = Some (k, bytes_value bytes).
Proof.
  intros bytes k e Hin Hl. unfold uint_try_from. rewrite Hl.
  unfold wide in Hin. cbn [In] in Hin.
  repeat (destruct Hin as [Hin|Hin]; [injection Hin as <- <-; reflexivity|]). contradiction.
Qed.

Lemma wide_byte_width : forall k e, In (k, e) wide ->
  Nat.ltb 8 k = false /\ byte_width k = N.of_nat e /\ (3 <= k <= 8)%nat /\
  2 ^ N.of_nat k / 4 = 2 * N.of_nat e.
Proof.
  intros k e Hin. unfold wide in Hin. cbn [In] in Hin.
  repeat (destruct Hin as [Hin|Hin];
          [injection Hin as <- <-; repeat split; try lia; vm_compute; reflexivity|]).
  contradiction.
Qed.

Lemma wide_complete : forall k, (3 <= k <= 8)%nat -> exists e, In (k, e) wide.
Proof.
  intros k Hk. unfold wide.
  destruct k as [|[|[|[|[|[|[|[|[|k]]]]]]]]]; try lia; eexists; cbn [In]; eauto 10.
Qed.

(* u8 .. u256, for ALL strings *)
Theorem parse_hex_uint_wide_cases : forall k s,
  (3 <= k <= 8)%nat ->
  (len s = 2 ^ N.of_nat k / 4 /\ all_hex s /\ parse_hex_uint k s = Ok (hex_value s)) \/
  (len s = 2 ^ N.of_nat k / 4 /\ ~ all_hex s /\ parse_hex_uint k s = Panic) \/
  (len s <> 2 ^ N.of_nat k / 4 /\ parse_hex_uint k s = Err).
Proof.
  intros k s Hk. destruct (wide_complete k Hk) as [e Hin].
  destruct (wide_byte_width k e Hin) as (Hlt & Hbw & _ & Hq).
  unfold parse_hex_uint. rewrite Hlt, Hbw, Hq.
  destruct (parse_hex_common_cases (N.of_nat e) s) as [(Hl & Hh & H)|[(Hl & Hn & H)|(Hl & H)]];
    rewrite H.
  - left. split; [exact Hl|]. split; [exact Hh|].
    assert (He : len s mod 2 = 0) by lia.
    pose proof (hex_pairs_length s He) as Hpl.
    rewrite (uint_try_from_len (hex_pairs s) k e Hin) by lia.
    now rewrite hex_pairs_value.
  - right. left. auto.
  - right. right. auto.
Qed.

(* u1, u2, u4: byte_width() is 0, so exactly the EMPTY digit string passes the length check,
   from_hex gives zero bytes, and UIntValue::try_from(&[]) is an Err that is `expect`ed. *)
Theorem parse_hex_uint_narrow_cases : forall k s,
  (k < 3)%nat ->
  (s = [] /\ parse_hex_uint k s = Panic) \/ (s <> [] /\ parse_hex_uint k s = Err).
Proof.
  intros k s Hk.
  assert (Hbw : Nat.ltb 8 k = false /\ byte_width k = 0).
  { destruct k as [|[|[|k]]]; [..|lia]; split; reflexivity. }
  destruct Hbw as [Hlt Hbw]. unfold parse_hex_uint. rewrite Hlt, Hbw.
  destruct s as [|c r].
  - left. split; reflexivity.
  - right. split; [discriminate|].
    destruct (parse_hex_common_cases 0 (c :: r)) as [(Hl & _)|[(Hl & _)|(Hl & H)]];
      [cbn [length] in Hl; lia..|]. now rewrite H.
Qed.

(* the real bug, by computation: `let x: u1 = 0x_;` (also u2, u4) panics at value.rs:640 *)
Lemma parse_hex_uint_u1_empty_panics : parse_hex_uint 0 [] = Panic.
Proof. vm_compute. reflexivity. Qed.
Lemma parse_hex_uint_u2_empty_panics : parse_hex_uint 1 [] = Panic.
Proof. vm_compute. reflexivity. Qed.
Lemma parse_hex_uint_u4_empty_panics : parse_hex_uint 2 [] = Panic.
Proof. vm_compute. reflexivity. Qed.
(* a non-hex character at the right length panics too (not reachable through the grammar) *)
Lemma parse_hex_uint_bad_char_panics : parse_hex_uint 3 [102; 103] = Panic.
Proof. vm_compute. reflexivity. Qed.

(* MAIN THEOREM (hex integers, u8 .. u256), over the hex alphabet *)
Theorem parse_hex_uint_correct : forall k s n,
  (3 <= k <= 8)%nat -> all_hex s ->
  (parse_hex_uint k s = Ok n <-> len s = 2 ^ N.of_nat k / 4 /\ n = hex_value s).
Proof.
  intros k s n Hk Hh.
  destruct (parse_hex_uint_wide_cases k s Hk) as [(Hl & _ & H)|[(Hl & Hn & H)|(Hl & H)]]; rewrite H.
  - split; [intros E; injection E as <-; auto|intros (_ & ->); reflexivity].
  - contradiction.
  - split; [discriminate|intros (Hl' & _); contradiction].
Qed.
Print Assumptions parse_hex_uint_correct.

(* hex integers, u1 / u2 / u4: never Ok *)
Theorem parse_hex_uint_narrow : forall k s n, (k < 3)%nat -> parse_hex_uint k s <> Ok n.
Proof.
  intros k s n Hk. destruct (parse_hex_uint_narrow_cases k s Hk) as [(_ & H)|(_ & H)];
    rewrite H; discriminate.
Qed.

Lemma parse_hex_uint_not_a_type : forall k s, (8 < k)%nat -> parse_hex_uint k s = Err.
Proof.
  intros k s Hk. unfold parse_hex_uint. replace (Nat.ltb 8 k) with true; [reflexivity|].
  symmetry. apply Nat.ltb_lt. exact Hk.
Qed.

(* EXACT panic set of parse_hex_uint, for all k and all strings *)
Theorem parse_hex_uint_panic_iff : forall k s,
  parse_hex_uint k s = Panic <->
  ((k < 3)%nat /\ s = []) \/
  ((3 <= k <= 8)%nat /\ len s = 2 ^ N.of_nat k / 4 /\ ~ all_hex s).
Proof.
  intros k s.
  destruct (Nat.lt_ge_cases k 3) as [Hk|Hk]; [|destruct (Nat.le_gt_cases k 8) as [Hk8|Hk8]].
  - destruct (parse_hex_uint_narrow_cases k s Hk) as [(Hs & H)|(Hs & H)]; rewrite H.
    + split; [auto|reflexivity].
    + split; [discriminate|]. intros [(_ & E)|(Hk' & _)]; [contradiction|lia].
  - destruct (parse_hex_uint_wide_cases k s ltac:(lia)) as [(Hl & Hh & H)|[(Hl & Hn & H)|(Hl & H)]];
      rewrite H.
    + split; [discriminate|]. intros [(Hk' & _)|(_ & _ & Hn)]; [lia|contradiction].
    + split; [intros _; right; auto|reflexivity].
    + split; [discriminate|]. intros [(Hk' & _)|(_ & Hl' & _)]; [lia|contradiction].
  - rewrite (parse_hex_uint_not_a_type k s Hk8).
    split; [discriminate|]. intros [(Hk' & _)|(Hk' & _)]; lia.
Qed.
Print Assumptions parse_hex_uint_panic_iff.

(* over the alphabet the grammar allows (hex digits, any length including 0): the panic set is
   exactly { (k, "") | k < 3 } *)
Corollary parse_hex_uint_panic_iff_hex : forall k s,
  all_hex s -> (parse_hex_uint k s = Panic <-> (k < 3)%nat /\ s = []).
Proof.
  intros k s Hh. rewrite parse_hex_uint_panic_iff. split.
  - intros [H|(_ & _ & Hn)]; [exact H|contradiction].
  - auto.
Qed.

Corollary parse_hex_uint_no_panic : forall k s,
  all_hex s -> ~ ((k < 3)%nat /\ s = []) -> parse_hex_uint k s <> Panic.
Proof.
  intros k s Hh Hn H. apply (parse_hex_uint_panic_iff_hex k s Hh) in H. contradiction.
Qed.
Print Assumptions parse_hex_uint_no_panic.

Theorem parse_hex_uint_err_iff : forall k s,
  all_hex s ->
  (parse_hex_uint k s = Err <->
   ((k < 3)%nat /\ s <> []) \/ ((3 <= k <= 8)%nat /\ len s <> 2 ^ N.of_nat k / 4) \/ (8 < k)%nat).
Proof.
  intros k s Hh.
  destruct (Nat.lt_ge_cases k 3) as [Hk|Hk]; [|destruct (Nat.le_gt_cases k 8) as [Hk8|Hk8]].
  - destruct (parse_hex_uint_narrow_cases k s Hk) as [(Hs & H)|(Hs & H)]; rewrite H.
    + split; [discriminate|]. intros [(_ & E)|[(Hk' & _)|Hk']]; [contradiction|lia|lia].
    + split; [auto|reflexivity].
  - destruct (parse_hex_uint_wide_cases k s ltac:(lia)) as [(Hl & _ & H)|[(Hl & Hn & H)|(Hl & H)]];
      rewrite H.
    + split; [discriminate|]. intros [(Hk' & _)|[(_ & Hl')|Hk']]; [lia|contradiction|lia].
    + contradiction.
    + split; [intros _; right; left; split; [lia|exact Hl]|reflexivity].
  - rewrite (parse_hex_uint_not_a_type k s Hk8). split; [auto|reflexivity].
Qed.

(* the value fits the type *)
Lemma hex_value_lt : forall s, all_hex s -> hex_value s < 16 ^ len s.
Proof.
  induction s as [|c r IHr] using rev_ind; intros Hh.
  - cbn. lia.
  - apply Forall_app in Hh. destruct Hh as [Hr Hc]. inversion Hc as [|x l Hx _]; subst.
    unfold hex_value. rewrite app_length. cbn [length].
    replace (N.of_nat (length r + 1)) with (N.succ (len r)) by lia. rewrite N.pow_succ_r'.
    assert (E : forall a b acc, hex_value_acc acc (a ++ b) = hex_value_acc (hex_value_acc acc a) b).
    { induction a as [|y a' IHa]; intros b acc; cbn [app hex_value_acc]; [reflexivity|apply IHa]. }
    rewrite E. cbn [hex_value_acc]. fold (hex_value r). specialize (IHr Hr).
    destruct (to_digit16_hex c Hx) as [_ Lc]. lia.
Qed.

Lemma parse_hex_uint_range : forall k s n,
  all_hex s -> parse_hex_uint k s = Ok n -> n < 2 ^ 2 ^ N.of_nat k.
Proof.
  intros k s n Hh H.
  destruct (Nat.lt_ge_cases k 3) as [Hk|Hk]; [|destruct (Nat.le_gt_cases k 8) as [Hk8|Hk8]].
  - exfalso. exact (parse_hex_uint_narrow k s n Hk H).
  - apply (parse_hex_uint_correct k s n ltac:(lia) Hh) in H. destruct H as [Hl ->].
    pose proof (hex_value_lt s Hh) as L. rewrite Hl in L.
    replace (2 ^ 2 ^ N.of_nat k) with (16 ^ (2 ^ N.of_nat k / 4)); [exact L|].
    destruct k as [|[|[|[|[|[|[|[|[|k]]]]]]]]]; try lia; vm_compute; reflexivity.
  - rewrite (parse_hex_uint_not_a_type k s Hk8) in H. discriminate.
Qed.

(** * Printing and the print / parse round trip *)

(* the decimal printing loop: with enough fuel it prepends the canonical digits of n *)
Lemma dec_loop_spec : forall fuel n acc,
  n < 10 ^ N.of_nat fuel -> fuel <> O ->
  exists pre, dec_loop fuel n acc = pre ++ acc /\ all_digits pre /\ dec_value pre = n /\
              no_leading_zero pre.
Proof.
  induction fuel as [|f IHf]; intros n acc Hlt Hf; [congruence|].
  cbn [dec_loop].
  assert (Hm : n mod 10 < 10) by (apply N.mod_lt; lia).
  assert (Hone : forall d, dec_value [48 + d] = d).
  { intros d. rewrite dec_value_cons, dec_value_nil. cbn [length].
    change (N.of_nat 0) with 0. rewrite N.pow_0_r. lia. }
  destruct (N.eqb_spec (n / 10) 0) as [Hq|Hq].
  - exists [48 + n mod 10]. split; [reflexivity|]. split; [|split].
    + constructor; [lia|constructor].
    + rewrite Hone. lia.
    + cbn [no_leading_zero]. intros _. reflexivity.
  - assert (Hlt' : n / 10 < 10 ^ N.of_nat f).
    { rewrite Nat2N.inj_succ, N.pow_succ_r' in Hlt. lia. }
    assert (Hf' : f <> O).
    { intros ->. change (N.of_nat 0) with 0 in Hlt'. rewrite N.pow_0_r in Hlt'. lia. }
    destruct (IHf (n / 10) ((48 + n mod 10) :: acc) Hlt' Hf') as (pre & Hpre & Hd & Hv & Hc).
    exists (pre ++ [48 + n mod 10]). split; [|split; [|split]].
    + rewrite Hpre, <- app_assoc. reflexivity.
    + apply Forall_app. split; [exact Hd|constructor; [lia|constructor]].
    + rewrite dec_value_snoc, Hv. lia.
    + destruct pre as [|c r]; [contradiction|]. cbn [app no_leading_zero] in *.
      intros Hc0. specialize (Hc Hc0). subst r c.
      exfalso. apply Hq. rewrite <- Hv. change 48 with (48 + 0). apply Hone.
Qed.

(* Display for u8 .. u64 (and the u8 inside U1/U2/U4): canonical decimal text *)
Theorem dec_of_N_correct : forall n,
  n < 2 ^ 64 ->
  all_digits (dec_of_N n) /\ no_leading_zero (dec_of_N n) /\ dec_value (dec_of_N n) = n.
Proof.
  intros n Hn. unfold dec_of_N.
  assert (Hlt : n < 10 ^ N.of_nat 20).
  { assert (2 ^ 64 < 10 ^ N.of_nat 20) by (vm_compute; reflexivity). lia. }
  destruct (dec_loop_spec 20 n [] Hlt ltac:(discriminate)) as (pre & Hpre & Hd & Hv & Hc).
  rewrite Hpre, app_nil_r. auto.
Qed.

Lemma to_le_bytes_spec : forall l n,
  n < 256 ^ N.of_nat l ->
  length (to_le_bytes l n) = l /\ bytes_ok (to_le_bytes l n) /\
  bytes_value (rev (to_le_bytes l n)) = n.
Proof.
  induction l as [|l IHl]; intros n Hn.
  - change (N.of_nat 0) with 0 in Hn. rewrite N.pow_0_r in Hn.
    cbn [to_le_bytes rev length]. repeat split; [constructor|]. rewrite bytes_value_nil. lia.
  - cbn [to_le_bytes rev length].
    assert (Hq : n / 256 < 256 ^ N.of_nat l).
    { rewrite Nat2N.inj_succ, N.pow_succ_r' in Hn. lia. }
    destruct (IHl (n / 256) Hq) as (Hl & Hok & Hv).
    split; [now rewrite Hl|]. split.
    + constructor; [apply N.mod_lt; lia|exact Hok].
    + rewrite bytes_value_snoc, Hv. lia.
Qed.

Lemma to_be_bytes_spec : forall l n,
  n < 256 ^ N.of_nat l ->
  length (to_be_bytes l n) = l /\ bytes_ok (to_be_bytes l n) /\ bytes_value (to_be_bytes l n) = n.
Proof.
  intros l n Hn. unfold to_be_bytes. destruct (to_le_bytes_spec l n Hn) as (Hl & Hok & Hv).
  split; [now rewrite rev_length|]. split; [apply Forall_rev, Hok|exact Hv].
Qed.

Lemma hex_char_spec : forall d, d < 16 ->
  is_hex (hex_char d) /\ hex_digit_value (hex_char d) = d.
Proof.
  intros d Hd. unfold hex_char, is_hex, hex_digit_value.
  destruct (N.ltb_spec d 10).
  - replace (48 + d <=? 57) with true by lia. lia.
  - replace (87 + d <=? 57) with false by lia. replace (87 + d <=? 70) with false by lia. lia.
Qed.

Lemma hex_of_bytes_spec : forall bs,
  bytes_ok bs ->
  all_hex (hex_of_bytes bs) /\ length (hex_of_bytes bs) = (2 * length bs)%nat /\
  hex_pairs (hex_of_bytes bs) = bs.
Proof.
  induction bs as [|b r IHr]; intros Hok.
  - repeat split. constructor.
  - inversion Hok as [|b0 r0 Hb Hr]; subst. destruct (IHr Hr) as (Hh & Hl & Hp).
    cbn [hex_of_bytes hex_pairs length].
    destruct (hex_char_spec (b / 16) ltac:(lia)) as [H1 V1].
    destruct (hex_char_spec (b mod 16) ltac:(lia)) as [H2 V2].
    split; [constructor; [exact H1|constructor; [exact H2|exact Hh]]|]. split; [lia|].
    rewrite V1, V2, Hp. f_equal. lia.
Qed.

(* hex digits contain no underscore *)
Lemma all_hex_no_underscore : forall s, all_hex s -> strip_underscores s = s.
Proof.
  intros s Hh. apply strip_underscores_id. eapply Forall_impl; [|exact Hh].
  intros c Hc. unfold is_hex in Hc. lia.
Qed.

Lemma all_digits_no_underscore : forall s, all_digits s -> strip_underscores s = s.
Proof.
  intros s Hd. apply strip_underscores_id. eapply Forall_impl; [|exact Hd].
  intros c Hc. cbn beta in Hc. lia.
Qed.

(* printing u128 / u256 and parsing the hex body back *)
Lemma hex_display_parse : forall k e n,
  In (k, e) wide -> n < 256 ^ N.of_nat e ->
  all_hex (hex_of_bytes (to_be_bytes e n)) /\
  parse_hex_uint k (hex_of_bytes (to_be_bytes e n)) = Ok n.
Proof.
  intros k e n Hin Hn.
  destruct (to_be_bytes_spec e n Hn) as (Hl & Hok & Hv).
  destruct (hex_of_bytes_spec (to_be_bytes e n) Hok) as (Hh & Hl2 & Hp).
  destruct (wide_byte_width k e Hin) as (_ & _ & Hk & Hq).
  split; [exact Hh|].
  apply (parse_hex_uint_correct k _ n Hk Hh). split; [rewrite Hq; lia|].
  rewrite <- hex_pairs_value by lia. now rewrite Hp.
Qed.

(* MAIN THEOREM (round trip): for every value n of the type, the text printed by
   Display for UIntValue parses back to n:
   - k <= 6 (u1..u64): decimal text, through parse_decimal;
   - k = 7, 8 (u128, u256): the text is "0x" ++ body, the parser strips the "0x" prefix (and
     underscores: there are none) and body goes through the hex path. *)
Theorem uint_display_parse : forall k n,
  (k <= 8)%nat -> n < 2 ^ 2 ^ N.of_nat k ->
  ((k <= 6)%nat ->
     all_digits (uint_display k n) /\ no_leading_zero (uint_display k n) /\
     strip_underscores (uint_display k n) = uint_display k n /\
     parse_decimal k (uint_display k n) = Ok n) /\
  ((7 <= k)%nat ->
     exists body, uint_display k n = 48 :: 120 :: body /\ all_hex body /\
                  strip_underscores body = body /\ parse_hex_uint k body = Ok n).
Proof.
  intros k n Hk Hn. split.
  - intros Hk6.
    assert (Hd : uint_display k n = dec_of_N n).
    { destruct k as [|[|[|[|[|[|[|k]]]]]]]; [..|lia]; reflexivity. }
    assert (H64 : n < 2 ^ 64).
    { assert (2 ^ 2 ^ N.of_nat k <= 2 ^ 64); [|lia].
      apply N.pow_le_mono_r; [lia|]. change 64 with (2 ^ 6). apply N.pow_le_mono_r; lia. }
    rewrite Hd. destruct (dec_of_N_correct n H64) as (Hall & Hnlz & Hv).
    split; [exact Hall|]. split; [exact Hnlz|]. split; [apply all_digits_no_underscore, Hall|].
    apply (parse_decimal_correct k _ n ltac:(lia) Hall). split; [|split].
    + destruct (dec_of_N n); [contradiction|discriminate].
    + now rewrite Hv.
    + exact Hn.
  - intros Hk7.
    assert (Hcase : k = 7%nat \/ k = 8%nat) by lia. destruct Hcase as [-> | ->].
    + exists (hex_of_bytes (to_be_bytes 16 n)).
      destruct (hex_display_parse 7 16 n) as [Hh Hp].
      { unfold wide. cbn [In]. tauto. }
      { replace (256 ^ N.of_nat 16) with (2 ^ 2 ^ N.of_nat 7) by (vm_compute; reflexivity). exact Hn. }
      split; [reflexivity|]. split; [exact Hh|]. split; [apply all_hex_no_underscore, Hh|exact Hp].
    + exists (hex_of_bytes (to_be_bytes 32 n)).
      destruct (hex_display_parse 8 32 n) as [Hh Hp].
      { unfold wide. cbn [In]. tauto. }
      { replace (256 ^ N.of_nat 32) with (2 ^ 2 ^ N.of_nat 8) by (vm_compute; reflexivity). exact Hn. }
      split; [reflexivity|]. split; [exact Hh|]. split; [apply all_hex_no_underscore, Hh|exact Hp].
Qed.
Print Assumptions uint_display_parse.

(* U256 values are held as 32 bytes; printing the bytes directly (what Display for
   UIntValue::U256 does) and parsing gives back the same bytes' value. *)
Corollary u256_hex_display_parse : forall b,
  length b = 32%nat -> bytes_ok b ->
  parse_hex_uint 8 (hex_of_bytes b) = Ok (bytes_value b).
Proof.
  intros b Hl Hok. destruct (hex_of_bytes_spec b Hok) as (Hh & Hl2 & Hp).
  apply (parse_hex_uint_correct 8 _ _ ltac:(lia) Hh). split.
  - rewrite Hl2, Hl. vm_compute. reflexivity.
  - rewrite <- hex_pairs_value.
    + now rewrite Hp.
    + rewrite Hl2, Hl. reflexivity.
Qed.

(** * Summary: where the literal functions can panic (over the grammar's alphabets)

    - parse_decimal : never                       (parse_decimal_no_panic, any input)
    - parse_binary  : never                       (parse_binary_no_panic, any input)
    - parse_hex_bytes : never on hex digits       (parse_hex_bytes_no_panic; exact set: parse_hex_bytes_panic_iff)
    - parse_hex_uint  : exactly k < 3 and s = []  (parse_hex_uint_panic_iff_hex; witness
                                                   parse_hex_uint_u1_empty_panics) *)
Theorem literal_no_panic : forall k s,
  parse_decimal k s <> Panic /\
  parse_binary k s <> Panic /\
  (all_hex s -> forall n, parse_hex_bytes n s <> Panic) /\
  (all_hex s -> (parse_hex_uint k s = Panic <-> (k < 3)%nat /\ s = [])).
Proof.
  intros k s. split; [apply parse_decimal_no_panic|]. split; [apply parse_binary_no_panic|].
  split.
  - intros Hh n. now apply parse_hex_bytes_no_panic.
  - intros Hh. now apply parse_hex_uint_panic_iff_hex.
Qed.
Print Assumptions literal_no_panic.

(** * The leading '+' accepted by str::parse::<uN>() (never produced by the grammar) *)

Lemma rust_parse_uint_plus : forall bits s,
  all_digits s -> s <> [] -> rust_parse_uint bits (43 :: s) = rust_parse_uint bits s.
Proof.
  intros bits s Hd Hne. destruct s as [|c r]; [congruence|].
  inversion Hd as [|c0 r0 Hc Hr]; subst.
  unfold rust_parse_uint. rewrite N.eqb_refl.
  replace (c =? 43) with false by lia.
  destruct r; [replace (c =? 45) with false by lia|]; reflexivity.
Qed.

Lemma rust_parse_uint_sign_only : forall bits,
  rust_parse_uint bits [43] = Err /\ rust_parse_uint bits [45] = Err.
Proof. intros bits. split; reflexivity. Qed.

(* U256::from_str has no sign handling at all *)
Lemma u256_from_str_plus : forall s, u256_from_str (43 :: s) = Err.
Proof.
  intros s. apply u256_from_str_invalid. constructor. lia.
Qed.
