(* Basic facts about eval, selectors, pattern binding and typed environments *)
From Coq Require Import List Arith NArith Lia Bool.
Import ListNotations.
Require Import SV.Base.Util SV.Base.Res SV.Base.BT SV.Base.BTLemmas SV.Simp.Core SV.Layout.Ty SV.Layout.Value
               SV.Lang.Ast SV.Comp.Select SV.Lang.Sem SV.Lang.WT SV.Proofs.LayoutLaws SV.Proofs.LayoutRoundtrip.

Lemma lookupN_app {A} (r1 r2:list (N*A)) x :
  lookupN (r1 ++ r2) x = match lookupN r1 x with Some v => Some v | None => lookupN r2 x end.
Proof. induction r1 as [|[y v] r1 IHr]; cbn; auto. destruct (N.eqb x y); auto. Qed.

(* ---------- mapo ---------- *)
Section MapLemmas.
Context {A:Type}.
Lemma mapo_app (F:A->out) l1 : forall l2 k,
  mapo F (l1 ++ l2) k = mapo F l1 (fun v1 => mapo F l2 (fun v2 => k (v1 ++ v2))).
Proof. induction l1; intros l2 k; cbn; auto. destruct (F a); cbn; auto. apply IHl1. Qed.

Lemma mapo_ext_len (F:A->out) l : forall k k', (forall vs, length vs = length l -> k vs = k' vs) -> mapo F l k = mapo F l k'.
Proof. induction l; intros k k' H; cbn. { apply H; reflexivity. }
  destruct (F a); cbn; auto. apply IHl. intros vs Hv. apply H. cbn; lia. Qed.

Lemma mapo_val (F:A->out) l : forall k w, mapo F l k = Val w ->
  exists vs, Forall2 (fun a v => F a = Val v) l vs /\ k vs = Val w.
Proof. induction l; intros k w H; cbn in H. { exists []; split; [constructor|exact H]. }
  destruct (F a) as [v| |] eqn:E; cbn in H; try discriminate.
  destruct (IHl _ _ H) as (vs & F2 & Hk). exists (v::vs). split; [constructor; auto|exact Hk]. Qed.

Lemma mapo_ext_val (F:A->out) l : forall k k',
  (forall vs, Forall2 (fun a v => F a = Val v) l vs -> k vs = k' vs) -> mapo F l k = mapo F l k'.
Proof. induction l; intros k k' H; cbn. { apply H; constructor. }
  destruct (F a) as [v| |] eqn:E; cbn; [|reflexivity|reflexivity]. apply IHl. intros vs Hv. apply H. constructor; assumption. Qed.

Lemma mapo_bind (F:A->out) l : forall k K, bind (mapo F l k) K = mapo F l (fun vs => bind (k vs) K).
Proof. induction l; intros k K; cbn; auto. destruct (F a); cbn; auto. Qed.
End MapLemmas.

Section Ev.
Variable jet : N -> sval -> option sval.
Variable wit : N -> option sval.
Notation ev := (eval jet wit).

Lemma scribe_eval w : forall x, ev (scribe w) x = Val w.
Proof. induction w; intros x; cbn; auto; try (rewrite IHw; reflexivity). rewrite IHw1, IHw2. reflexivity. Qed.

(* a balanced tree of pairs evaluates its leaves left to right *)
Lemma eval_bt_pair v tl : ev (bt Pair Unit tl) v = mapo (fun t => ev t v) tl (fun vs => Val (bt VP VU vs)).
Proof.
  remember (length tl) as n eqn:E. revert tl E.
  induction n as [n IH] using lt_wf_ind; intros tl E.
  destruct (Nat.le_gt_cases 2 (length tl)) as [H2|H2].
  - rewrite (bt_split Pair Unit tl H2). pose proof (half_bounds _ H2) as Hh. set (h := half (length tl)) in *.
    cbn [eval].
    rewrite (IH (length (firstn h tl))) by (rewrite ?firstn_length; try reflexivity; lia).
    rewrite (IH (length (skipn h tl))) by (rewrite ?skipn_length; try reflexivity; lia).
    replace (mapo (fun t => ev t v) tl (fun vs => Val (bt VP VU vs)))
      with (mapo (fun t => ev t v) (firstn h tl ++ skipn h tl) (fun vs => Val (bt VP VU vs)))
      by (now rewrite firstn_skipn).
    rewrite mapo_app. rewrite mapo_bind. apply mapo_ext_len. intros vs1 L1. cbn [bind].
    rewrite mapo_bind. apply mapo_ext_len. intros vs2 L2. cbn [bind].
    rewrite firstn_length in L1. rewrite skipn_length in L2.
    symmetry. f_equal. apply bt_app; try lia.
    replace (length vs1 + length vs2) with (length tl) by lia. fold h. lia.
  - destruct tl as [|x [|y tl]]; cbn in H2; try lia; cbn; auto. unfold bt; cbn. destruct (ev x v); reflexivity.
Qed.

(* ---------- selectors ---------- *)
Theorem get_correct p : forall v r x, bindp p v = Some r ->
  match get p x with
  | Some s => exists w, lookupN r x = Some w /\ ev (sel s) v = Val w
  | None => lookupN r x = None
  end.
Proof.
  induction p as [|y|l IHl rr IHr]; intros v r x Hb; cbn in *.
  - inversion Hb; subst. reflexivity.
  - inversion Hb; subst. cbn. destruct (N.eqb x y); [eexists; split; reflexivity | reflexivity].
  - destruct v as [| | |a b]; try discriminate.
    destruct (bindp l a) as [e1|] eqn:E1; [|discriminate].
    destruct (bindp rr b) as [e2|] eqn:E2; [|discriminate].
    inversion Hb; subst. rewrite lookupN_app.
    specialize (IHl a e1 x E1). specialize (IHr b e2 x E2).
    destruct (get l x) as [s|].
    + destruct IHl as (w & Hw & He). exists w. rewrite Hw. split; auto.
    + rewrite IHl. destruct (get rr x) as [s|]; cbn.
      * destruct IHr as (w & Hw & He). exists w. split; auto.
      * exact IHr.
Qed.
End Ev.

(* ---------- typed values and environments ---------- *)
Definition env_ty (r:env) (G:ctx) : Prop :=
  Forall2 (fun xv yt => fst xv = fst yt /\ vty (snd xv) (struct_ty (snd yt)) = true) r G.

Lemma env_ty_lookup r G : env_ty r G -> forall x T, lookupN G x = Some T ->
  exists w, lookupN r x = Some w /\ vty w (struct_ty T) = true.
Proof.
  induction 1 as [|[x1 v1] [y1 t1] r G [Hxy Hv] H IH]; intros x T HL; cbn in *; [discriminate|]. subst.
  destruct (N.eqb x y1); [inversion HL; subst; eauto | eauto].
Qed.
Lemma env_ty_app r1 G1 r2 G2 : env_ty r1 G1 -> env_ty r2 G2 -> env_ty (r1++r2) (G1++G2).
Proof. unfold env_ty. intros; apply Forall2_app; auto. Qed.

Lemma vty_bt_inv ss v : vty v (bt SProd SUnit ss) = true -> exists vs, v = bt VP VU vs /\ Forall2 (fun v s => vty v s = true) vs ss.
Proof.
  apply (bt_inv (fun v s => vty v s = true) VP SProd VU SUnit).
  - intros a; destruct a; cbn; congruence.
  - intros a b1 b2; destruct a; cbn; try discriminate. intros H. apply andb_true_iff in H as [? ?]; eauto.
Qed.

(* binding a balanced tree of values against a balanced tree of patterns *)
Lemma bindp_bt bps ves : Forall2 (fun bp ve => bindp bp (fst ve) = Some (snd ve)) bps ves ->
  bindp (bt BProd BIgn bps) (bt VP VU (map fst ves)) = Some (concat (map snd ves)).
Proof.
  intros H.
  pose (g := fun (a b:sval*env) => (VP (fst a) (fst b), snd a ++ snd b)).
  assert (R: bindp (bt BProd BIgn bps) (fst (bt g (VU,[]) ves)) = Some (snd (bt g (VU,[]) ves))).
  { apply (bt_rel (fun bp ve => bindp bp (fst ve) = Some (snd ve)) BProd g BIgn (VU,[])); auto.
    intros a b a' b' Ha Hb. cbn. rewrite Ha, Hb. reflexivity. }
  rewrite (bt_hom fst g VP (VU,[]) VU) in R by reflexivity.
  rewrite (bt_hom snd g (@app _) (VU,[]) []) in R by reflexivity.
  rewrite (bt_assoc (@app (N*sval)) []) in R; auto using app_assoc, app_nil_r.
Qed.

Section PatInd.
Variable P : pat -> Prop.
Hypothesis HId : forall x, P (PId x).
Hypothesis HIgn : P PIgn.
Hypothesis HTup : forall ps, Forall P ps -> P (PTup ps).
Hypothesis HArr : forall ps, Forall P ps -> P (PArr ps).
Fixpoint pat_ind' (p:pat) : P p :=
  let go := (fix go l : Forall P l := match l with [] => Forall_nil _ | x::l' => Forall_cons _ (pat_ind' x) (go l') end) in
  match p with PId x => HId x | PIgn => HIgn | PTup ps => HTup ps (go ps) | PArr ps => HArr ps (go ps) end.
End PatInd.

(* the generic step shared by tuple and array patterns *)
Lemma bind_components ps : Forall (fun p => forall T c v, pat_ctx p T = Some c -> vty v (struct_ty T) = true ->
                                     exists b, bindp (of_pat p) v = Some b /\ env_ty b c) ps ->
  forall ts vs cs, length ps = length ts ->
    Forall2 (fun pt c => pat_ctx (fst pt) (snd pt) = Some c) (combine ps ts) cs ->
    Forall2 (fun v s => vty v s = true) vs (map struct_ty ts) ->
    exists b, bindp (bt BProd BIgn (map of_pat ps)) (bt VP VU vs) = Some b /\ env_ty b (concat cs).
Proof.
  intros HF ts vs cs HL HC HV.
  assert (K: exists ves, map fst ves = vs /\
             Forall2 (fun bp ve => bindp bp (fst ve) = Some (snd ve)) (map of_pat ps) ves /\
             env_ty (concat (map snd ves)) (concat cs)).
  { revert ts vs cs HL HC HV. induction HF as [|p ps Hp Hps IH]; intros ts vs cs HL HC HV.
    - destruct ts; [|discriminate]. cbn in HC. inversion HC; subst. inversion HV; subst.
      exists []. repeat split; constructor.
    - destruct ts as [|t ts]; [discriminate|]. cbn in HC. inversion HC as [|? c ? cs' Hc HC']; subst.
      cbn in HV. inversion HV as [|v0 s0 vs' ss' Hv0 Hvs']; subst. cbn [fst snd] in Hc.
      destruct (Hp _ _ _ Hc Hv0) as (b1 & Hb1 & Ht1).
      destruct (IH ts vs' cs' ltac:(cbn in HL; lia) HC' Hvs') as (ves & <- & HF2 & Ht).
      exists ((v0,b1)::ves). repeat split; cbn; [constructor; auto|]. apply env_ty_app; auto. }
  destruct K as (ves & <- & HF2 & Ht).
  exists (concat (map snd ves)). split; [apply bindp_bt; exact HF2 | exact Ht].
Qed.

Lemma pat_ctx_tuple ps : forall ts c,
  (fix go (ps:list pat) (ts:list ty) : option ctx :=
     match ps, ts with
     | [], [] => Some []
     | p'::ps', t::ts' => match pat_ctx p' t, go ps' ts' with Some c1, Some c2 => Some (c1 ++ c2) | _,_ => None end
     | _, _ => None end) ps ts = Some c ->
  length ps = length ts /\ exists cs, Forall2 (fun pt c => pat_ctx (fst pt) (snd pt) = Some c) (combine ps ts) cs /\ c = concat cs.
Proof.
  induction ps as [|p ps IH]; intros [|t ts] c H; try discriminate.
  - inversion H; subst. split; auto. exists []. split; constructor.
  - destruct (pat_ctx p t) as [c1|] eqn:E1; [|discriminate].
    match type of H with match ?X with _ => _ end = _ => destruct X as [c2|] eqn:E2; [|discriminate] end.
    inversion H; subst. destruct (IH _ _ E2) as (HL & cs & HF & ->).
    split; [cbn; lia|]. exists (c1::cs). split; [constructor; auto|reflexivity].
Qed.

Lemma pat_ctx_array a ps : forall c,
  (fix go (ps:list pat) : option ctx :=
     match ps with
     | [] => Some []
     | p'::ps' => match pat_ctx p' a, go ps' with Some c1, Some c2 => Some (c1 ++ c2) | _,_ => None end
     end) ps = Some c ->
  exists cs, Forall2 (fun pt c => pat_ctx (fst pt) (snd pt) = Some c) (combine ps (repeat a (length ps))) cs /\ c = concat cs.
Proof.
  induction ps as [|p ps IH]; intros c H.
  - inversion H; subst. exists []. split; constructor.
  - destruct (pat_ctx p a) as [c1|] eqn:E1; [|discriminate].
    match type of H with match ?X with _ => _ end = _ => destruct X as [c2|] eqn:E2; [|discriminate] end.
    inversion H; subst. destruct (IH _ eq_refl) as (cs & HF & ->).
    exists (c1::cs). split; [cbn; constructor; auto|reflexivity].
Qed.

Lemma map_repeat' {A B} (f:A->B) x n : map f (repeat x n) = repeat (f x) n.
Proof. induction n; cbn; congruence. Qed.

(* binding a well-typed value against a pattern that fits its type succeeds, and the bindings are typed *)
Lemma bind_pat_typed p : forall T c v, pat_ctx p T = Some c -> vty v (struct_ty T) = true ->
  exists b, bindp (of_pat p) v = Some b /\ env_ty b c.
Proof.
  induction p as [x| |ps IH|ps IH] using pat_ind'; intros T c v Hc Hv; cbn [pat_ctx] in Hc.
  - inversion Hc; subst. exists [(x,v)]. split; [reflexivity|]. constructor; [split; auto|constructor].
  - inversion Hc; subst. exists []. split; [reflexivity|constructor].
  - destruct T as [| | | |ts| |]; try discriminate. cbn [struct_ty] in Hv.
    destruct (vty_bt_inv _ _ Hv) as (vs & -> & Hvs).
    destruct (pat_ctx_tuple _ _ _ Hc) as (HL & cs & HF & ->).
    cbn [of_pat]. eapply bind_components; eauto.
  - destruct T as [| | | | |a n|]; try discriminate.
    destruct (Nat.eqb_spec (length ps) n) as [En|]; [|discriminate]. subst n.
    cbn [struct_ty] in Hv. destruct (vty_bt_inv _ _ Hv) as (vs & -> & Hvs).
    destruct (pat_ctx_array _ _ _ Hc) as (cs & HF & ->).
    cbn [of_pat]. eapply (bind_components ps IH (repeat a (length ps))); eauto.
    + now rewrite repeat_length.
    + rewrite map_repeat'. exact Hvs.
Qed.
