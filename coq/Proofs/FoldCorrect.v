(* C08: the doubling construction of list_fold folds the elements first to last *)
From Coq Require Import List Arith NArith Lia Bool.
Import ListNotations.
Require Import SV.Base.BT SV.Base.BTLemmas SV.Simp.Core SV.Layout.Ty SV.Layout.Value SV.Comp.Fold
               SV.Proofs.LayoutLaws SV.Proofs.LayoutRoundtrip SV.Proofs.EvalBasics.

Section Fold.
Variable jet : N -> sval -> option sval.
Variable wit : N -> option sval.
Notation ev := (eval jet wit).
Variable f : term.

Definition F (e a:sval) : out := ev f (VP e a).
Definition foldF (l:list sval) (a:sval) : out := fold_left (fun acc e => bind acc (F e)) l (Val a).

Lemma fold_stuck l : fold_left (fun acc e => bind acc (F e)) l Stuck = Stuck.
Proof. induction l; cbn; auto. Qed.
Lemma fold_failed l : fold_left (fun acc e => bind acc (F e)) l Failed = Failed.
Proof. induction l; cbn; auto. Qed.
Lemma foldF_app l1 l2 a : foldF (l1++l2) a = bind (foldF l1 a) (foldF l2).
Proof.
  unfold foldF. rewrite fold_left_app.
  destruct (fold_left (fun acc e => bind acc (F e)) l1 (Val a)); cbn;
    auto using fold_stuck, fold_failed.
Qed.

(* f_array after j doublings folds a full block of 2^j elements *)
Fixpoint f_arr (j:nat) : term := match j with 0 => f | S j' => next_f_array (f_arr j') end.

Lemma f_arr_correct j : forall l a, length l = 2^j ->
  ev (f_arr j) (VP (bt VP VU l) a) = foldF l a.
Proof.
  induction j as [|j IHj]; intros l a Hl.
  - cbn in Hl. destruct l as [|e [|? ?]]; cbn in Hl; try lia. reflexivity.
  - cbn [f_arr]. unfold next_f_array.
    assert (H1: length (firstn (2^j) l) = 2^j) by (rewrite firstn_length; cbn [Nat.pow] in Hl; lia).
    assert (H2: length (skipn (2^j) l) = 2^j) by (rewrite skipn_length; cbn [Nat.pow] in Hl; lia).
    rewrite <- (firstn_skipn (2^j) l) at 1.
    rewrite (bt_pow2_app VP VU j) by assumption.
    cbn [eval OIH OOH IH bind].
    rewrite (IHj _ a H1).
    replace (foldF l a) with (foldF (firstn (2^j) l ++ skipn (2^j) l) a) by (now rewrite firstn_skipn).
    rewrite foldF_app.
    destruct (foldF (firstn (2 ^ j) l) a) eqn:E; cbn [bind]; auto.
Qed.

(* fold after j doublings handles lists of fewer than 2^(S j) elements *)
Fixpoint f_fold (j:nat) : term := match j with 0 => Case IH f | S j' => next_f_fold (f_arr (S j')) (f_fold j') end.

Lemma f_fold_correct j : forall l a, length l < 2^(S j) ->
  ev (f_fold j) (VP (part_fold sval_block VP j l) a) = foldF l a.
Proof.
  induction j as [|j IHj]; intros l a Hl.
  - cbn in Hl. destruct l as [|e [|? ?]]; cbn in Hl; try lia; reflexivity.
  - cbn [f_fold part_fold]. destruct (Nat.ltb_spec (length l) (2^(S j))) as [Hlt|Hge].
    + unfold next_f_fold. cbn [eval OOH OIH IH bind sval_block]. apply IHj; auto.
    + assert (H1: length (firstn (2^(S j)) l) = 2^(S j)) by (rewrite firstn_length; lia).
      assert (H2: length (skipn (2^(S j)) l) < 2^(S j)) by (rewrite skipn_length; cbn [Nat.pow] in Hl |- *; lia).
      rewrite sval_block_full by (pose proof (pow2_pos (S j)); lia).
      unfold next_f_fold. cbn [eval OOH OIH IOH IIH OH IH bind].
      rewrite (f_arr_correct (S j) _ a H1).
      replace (foldF l a) with (foldF (firstn (2^(S j)) l ++ skipn (2^(S j)) l) a) by (now rewrite firstn_skipn).
      rewrite foldF_app.
      destruct (foldF (firstn (2 ^ S j) l) a) eqn:E; cbn [bind]; auto.
Qed.

Lemma fold_loop_eq n : forall j, fold_loop n (f_arr j) (f_fold j) = f_fold (n + j).
Proof.
  induction n as [|n IHn]; intros j; cbn [fold_loop]; auto.
  change (next_f_array (f_arr j)) with (f_arr (S j)).
  change (next_f_fold (f_arr (S j)) (f_fold j)) with (f_fold (S j)).
  rewrite IHn. f_equal. lia.
Qed.

Theorem list_fold_correct k l a : 1 <= k -> length l < 2^k ->
  ev (list_fold k f) (VP (part_fold sval_block VP (k-1) l) a) = foldF l a.
Proof.
  intros Hk Hl. unfold list_fold.
  change f with (f_arr 0) at 1. change (Case IH (f_arr 0)) with (f_fold 0).
  rewrite fold_loop_eq. rewrite Nat.add_0_r. apply f_fold_correct.
  replace (S (k-1)) with k by lia. exact Hl.
Qed.
End Fold.

(* every well-typed list value is the canonical partition of its elements *)
Lemma vty_bt_repeat_inv T n v : vty v (bt SProd SUnit (repeat T n)) = true ->
  exists vs, v = bt VP VU vs /\ length vs = n /\ Forall (fun x => vty x T = true) vs.
Proof.
  intros H. destruct (vty_bt_inv _ _ H) as (vs & -> & HF).
  exists vs. split; [reflexivity|]. split.
  - apply F2_length in HF. now rewrite repeat_length in HF.
  - clear H. remember (repeat T n) as ss. revert n Heqss. induction HF; intros n E; [constructor|].
    destruct n; [discriminate|]. cbn in E. inversion E; subst. constructor; eauto.
Qed.

Lemma typed_list_canonical T j : forall lv,
  vty lv (part_fold sty_block SProd j (repeat T (2^(S j) - 1))) = true ->
  exists els, as_list j lv = Some els /\ lv = part_fold sval_block VP j els /\
              length els < 2^(S j) /\ Forall (fun x => vty x T = true) els.
Proof.
  induction j; intros lv H.
  - cbn [part_fold] in H. cbn [Nat.pow Nat.mul Nat.add Nat.sub repeat] in H. cbn [sty_block] in H.
    change (bt SProd SUnit [T]) with T in H.
    destruct lv as [|x|x|? ?]; cbn [vty] in H; try discriminate.
    + destruct x; try discriminate. exists []. repeat split; cbn; auto.
    + exists [x]. repeat split; cbn; auto.
  - cbn [part_fold] in H. rewrite repeat_length in H.
    pose proof (pow2_pos j) as Hp.
    assert (E: 2 ^ S (S j) - 1 = 2^(S j) + (2^(S j) - 1)) by (cbn [Nat.pow]; lia).
    destruct (Nat.ltb_spec (2 ^ S (S j) - 1) (2 ^ S j)) as [Hlt|Hge]; [exfalso; lia|].
    rewrite firstn_repeat, skipn_repeat in H. rewrite Nat.min_l in H by (rewrite E; lia).
    replace (2 ^ S (S j) - 1 - 2 ^ S j) with (2 ^ S j - 1) in H by (rewrite E; lia).
    destruct lv as [| | |b rest]; cbn [vty] in H; try discriminate.
    apply andb_true_iff in H as [Hb Hr].
    destruct (IHj _ Hr) as (els & Hal & -> & Hlen & HF).
    unfold sty_block in Hb.
    destruct b as [|x|x|? ?]; cbn [vty] in Hb; try discriminate.
    + destruct x; try discriminate.
      exists els. cbn [as_list as_product as_block as_option]. rewrite Hal. cbn [option_map app].
      split; [reflexivity|]. split.
      * cbn [part_fold]. destruct (Nat.ltb_spec (length els) (2^(S j))); [reflexivity|lia].
      * split; [cbn [Nat.pow] in *; lia|assumption].
    + destruct (vty_bt_repeat_inv _ _ _ Hb) as (blk & -> & Hbl & HFb).
      exists (blk ++ els). cbn [as_list as_product as_block as_option].
      rewrite <- Hbl at 1. rewrite (bt_unfold_bt VP VU as_product as_product_VP). rewrite Hal. cbn [option_map].
      split; [reflexivity|]. split.
      * cbn [part_fold]. rewrite app_length.
        destruct (Nat.ltb_spec (length blk + length els) (2^(S j))); [lia|].
        rewrite firstn_app, skipn_app, Hbl, Nat.sub_diag, firstn_O, app_nil_r, firstn_all2, skipn_all2 by lia.
        rewrite sval_block_full by lia. reflexivity.
      * split; [rewrite app_length; cbn [Nat.pow] in *; lia| apply Forall_app; auto].
Qed.
