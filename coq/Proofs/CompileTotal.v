(* C03 (part): code generation is total on well-typed ASTs — never Err (CannotCompile / undefined variable),
   never Panic (the modelled unwrap/expect/assert sites) — and C14(a): the debug flag does not change behaviour. *)
From Coq Require Import List Arith NArith Lia Bool.
Import ListNotations.
Require Import SV.Base.Util SV.Base.Res SV.Base.BT SV.Base.BTLemmas SV.Simp.Core SV.Layout.Ty SV.Layout.Value
               SV.Lang.Ast SV.Comp.Select SV.Comp.Fold SV.Comp.ForWhile SV.Comp.Compile SV.Lang.Sem SV.Lang.WT
               SV.Proofs.LayoutLaws SV.Proofs.LayoutRoundtrip SV.Proofs.EvalBasics SV.Proofs.CompileCorrect.

Lemma vty_vzero s : vty (vzero s) s = true.
Proof. induction s; cbn; auto. now rewrite IHs1, IHs2. Qed.

Section Total.
Variable args : N -> option value.
Variable dbg : bool.
Variable jsig : N -> option (list ty * ty).
Variable W : N -> option ty.
Notation WTY := (wt jsig W args).
Notation COMP := (compile dbg args).

Definition Tot (e:expr) : Prop := forall G sc v r, WTY G e = true -> Inv G sc v r -> exists t, COMP sc e = Ok t.

Lemma tot_list es : Forall Tot es -> forall G sc v r, forallb (fun e0 => WTY G e0) es = true -> Inv G sc v r ->
  exists tl, mapr (fun e0 => COMP sc e0) es = Ok tl /\ length tl = length es.
Proof.
  induction 1 as [|e es He Hes IH]; intros G sc v r Hw HI.
  - exists []. split; reflexivity.
  - cbn in Hw. apply andb_true_iff in Hw as [Hw1 Hw2].
    destruct (He _ _ _ _ Hw1 HI) as (t & Ct). destruct (IH _ _ _ _ Hw2 HI) as (tl & Ctl & Hl).
    exists (t :: tl). cbn. rewrite Ct. cbn. rewrite Ctl. cbn. split; [reflexivity|lia].
Qed.

Lemma tot_block t stmts last : Forall (fun s => Tot (snd s)) stmts -> opt_P Tot last -> Tot (EBlock t stmts last).
Proof.
  intros HF HL. induction HF as [|[[p|] e1] ss He1 Hss IHss]; intros G sc v r Hw HI.
  - destruct last as [e|]; cbn in Hw |- *.
    + apply andb_true_iff in Hw as [Hw1 _]. eapply HL; eauto.
    + eexists; reflexivity.
  - change (WTY G (EBlock t ((Some p, e1) :: ss) last)) with
      (WTY G e1 && match pat_ctx p (ty_of e1) with Some c => WTY (c ++ G) (EBlock t ss last) | None => false end) in Hw.
    apply andb_true_iff in Hw as [Hw1 Hw2].
    destruct (pat_ctx p (ty_of e1)) as [c|] eqn:Ec; [|discriminate].
    cbn [snd] in He1. destruct (He1 _ _ _ _ Hw1 HI) as (t1 & C1).
    destruct (bind_pat_typed _ _ _ _ Ec (vty_vzero (struct_ty (ty_of e1)))) as (b & Hb & Htb).
    destruct HI as (Hne & HB & HT).
    assert (HI': Inv (c ++ G) (p :: sc) (VP (vzero (struct_ty (ty_of e1))) v) (b ++ r)).
    { split; [discriminate|]. split; [rewrite input_pat_cons by assumption; cbn [bindp]; rewrite Hb, HB; reflexivity | apply env_ty_app; auto]. }
    destruct (IHss _ _ _ _ Hw2 HI') as (t2 & C2).
    exists (Comp (Pair t1 Iden) t2).
    change (COMP sc (EBlock t ((Some p, e1) :: ss) last)) with
      (rbind (COMP sc e1) (fun t1 => rbind (COMP (p::sc) (EBlock t ss last)) (fun t2 => Ok (Comp (Pair t1 Iden) t2)))).
    rewrite C1. cbn [rbind]. rewrite C2. reflexivity.
  - change (WTY G (EBlock t ((None, e1) :: ss) last)) with
      (WTY G e1 && is_unit (ty_of e1) && WTY G (EBlock t ss last)) in Hw.
    apply andb_true_iff in Hw as [Hw1 Hw3]. apply andb_true_iff in Hw1 as [Hw1 Hw2].
    cbn [snd] in He1. destruct (He1 _ _ _ _ Hw1 HI) as (t1 & C1).
    destruct (IHss _ _ _ _ Hw3 HI) as (t2 & C2).
    exists (Comp (Pair t1 t2) (Drop Iden)).
    change (COMP sc (EBlock t ((None, e1) :: ss) last)) with
      (rbind (COMP sc e1) (fun t1 => rbind (COMP sc (EBlock t ss last)) (fun t2 => Ok (Comp (Pair t1 t2) (Drop Iden))))).
    rewrite C1. cbn [rbind]. rewrite C2. reflexivity.
Qed.

Lemma inv_arm' G sc v0 r x a : Inv G sc v0 r ->
  Inv (arm_ctx x a G) (arm_pat x :: sc) (VP (vzero (struct_ty a)) v0) (match x with Some i => (i,vzero (struct_ty a))::r | None => r end).
Proof.
  intros (Hne & HB & HT). split; [discriminate|].
  rewrite input_pat_cons by assumption. destruct x as [i|]; cbn [arm_pat of_pat bindp arm_ctx]; rewrite HB.
  - split; [reflexivity|]. constructor; [split; [reflexivity|apply vty_vzero]|exact HT].
  - split; [reflexivity|exact HT].
Qed.

Theorem compile_total_tot e : Tot e.
Proof.
  induction e using expr_ind'.
  - apply tot_block; assumption.
  - intros G sc v0 r Hw HI. eexists; reflexivity.
  - intros G sc v0 r Hw HI. eexists; reflexivity.
  - intros G sc v0 r Hw HI. cbn in *. destruct (args n); [eexists; reflexivity|discriminate].
  - (* var *) intros G sc v r Hw HI. cbn in *.
    destruct (lookupN G x) as [t'|] eqn:EL; [|discriminate].
    destruct HI as (Hne & HB & HT). destruct (env_ty_lookup _ _ HT _ _ EL) as (w & Hl & Hv).
    pose proof (get_correct (fun _ _ => None) (fun _ => None) (input_pat sc) v r x HB) as HG.
    destruct (get (input_pat sc) x) as [s|]; [eexists; reflexivity|]. congruence.
  - intros G sc v r Hw HI. cbn in *. eapply IHe; eauto.
  - (* tuple *) intros G sc v r Hw HI. cbn [wt compile] in *. apply andb_true_iff in Hw as [_ Hw].
    destruct (tot_list _ H _ _ _ _ Hw HI) as (tl & C & _). rewrite C. eexists; reflexivity.
  - intros G sc v r Hw HI. cbn [wt compile] in *. destruct t; try discriminate.
    apply andb_true_iff in Hw as [_ Hw]. apply forallb_and in Hw as [Hw _].
    destruct (tot_list _ H _ _ _ _ Hw HI) as (tl & C & _). rewrite C. eexists; reflexivity.
  - (* list *) intros G sc v r Hw HI. cbn [wt compile] in *. destruct t; try discriminate.
    apply andb_true_iff in Hw as [Hw1 Hw]. apply andb_true_iff in Hw1 as [_ Hlen]. apply forallb_and in Hw as [Hw _].
    destruct (tot_list _ H _ _ _ _ Hw HI) as (tl & C & Hl). rewrite C. cbn [rbind]. rewrite Hl, Hlen. eexists; reflexivity.
  - intros G sc v r Hw HI. cbn [wt compile] in *. destruct t; try discriminate. apply andb_true_iff in Hw as [Hw _].
    destruct (IHe _ _ _ _ Hw HI) as (tm1 & C). rewrite C. eexists; reflexivity.
  - intros G sc v r Hw HI. cbn [wt compile] in *. destruct t; try discriminate. apply andb_true_iff in Hw as [Hw _].
    destruct (IHe _ _ _ _ Hw HI) as (tm1 & C). rewrite C. eexists; reflexivity.
  - intros G sc v r Hw HI. eexists; reflexivity.
  - intros G sc v r Hw HI. cbn [wt compile] in *. destruct t; try discriminate. apply andb_true_iff in Hw as [Hw _].
    destruct (IHe _ _ _ _ Hw HI) as (tm1 & C). rewrite C. eexists; reflexivity.
  - (* call *) intros G sc v r Hw HI. cbn [wt compile] in *. apply andb_true_iff in Hw as [Hw _].
    destruct (tot_list _ H _ _ _ _ Hw HI) as (tl & C & _). rewrite C. cbn [rmap rbind].
    destruct b; cbn [builtin_body]; eexists; reflexivity.
  - (* fn *) intros G sc v r Hw HI. cbn [wt compile] in *.
    apply andb_true_iff in Hw as [Hw _]. apply andb_true_iff in Hw as [Hw1 Hwb].
    destruct (tot_list _ H _ _ _ _ Hw1 HI) as (tl & C & _). rewrite C. cbn [rmap rbind].
    assert (HV: Forall2 (fun v s => vty v s = true) (map (fun p => vzero (struct_ty (snd p))) ps) (map struct_ty (map snd ps))).
    { clear. induction ps; cbn; constructor; auto. apply vty_vzero. }
    destruct (params_bind ps _ HV) as (b & _ & Hb2 & Hb3).
    destruct (IHe ps [params_pat ps] (bt VP VU (map (fun p => vzero (struct_ty (snd p))) ps)) b Hwb) as (tb & Cb).
    { split; [discriminate|]. split; [exact Hb2|exact Hb3]. }
    rewrite Cb. cbn [rbind]. destruct k; eexists; reflexivity.
  - (* match *) intros G sc v r Hw HI. cbn [wt compile] in *.
    apply andb_true_iff in Hw as [Hw _]. apply andb_true_iff in Hw as [Hw _]. apply andb_true_iff in Hw as [Hws Harms].
    destruct (IHe1 _ _ _ _ Hws HI) as (ts & Cs).
    assert (A: (exists tl, COMP (arm_pat xl :: sc) e2 = Ok tl) /\ (exists tr, COMP (arm_pat xr :: sc) e3 = Ok tr)).
    { destruct (ty_of e1) as [a b|a| | | | |]; try discriminate.
      - apply andb_true_iff in Harms as [Hl Hr]. split; [eapply IHe2; [exact Hl|apply inv_arm'; exact HI] | eapply IHe3; [exact Hr|apply inv_arm'; exact HI]].
      - destruct xl; [discriminate|]. apply andb_true_iff in Harms as [Hl Hr].
        split; [eapply IHe2; [exact Hl|apply (inv_arm' G sc v r None (TTuple [])); exact HI] | eapply IHe3; [exact Hr|apply inv_arm'; exact HI]].
      - destruct xl; [discriminate|]. destruct xr; [discriminate|]. apply andb_true_iff in Harms as [Hl Hr].
        split; [eapply IHe2; [exact Hl|apply (inv_arm' G sc v r None (TTuple [])); exact HI] | eapply IHe3; [exact Hr|apply (inv_arm' G sc v r None (TTuple [])); exact HI]]. }
    destruct A as ((tl & Cl) & (tr & Cr)). rewrite Cl, Cr, Cs. eexists; reflexivity.
Qed.

Theorem compile_total : forall G sc v r e, WTY G e = true -> Inv G sc v r -> exists t, COMP sc e = Ok t.
Proof. intros. eapply compile_total_tot; eauto. Qed.

Theorem compile_program_total : forall main, wt_program jsig W args main = true ->
  exists t, compile_program dbg args main = Ok t.
Proof.
  intros main Hw. unfold wt_program in Hw. apply andb_true_iff in Hw as [Hw _].
  apply (compile_total [] [PIgn] VU [] main Hw). split; [discriminate|]. split; [reflexivity|constructor].
Qed.
End Total.

(* C14(a): the debug wrapper is behaviour-neutral — both builds evaluate to the source semantics *)
Theorem debug_neutral jet wit args jsig W :
  (forall n t, W n = Some t -> exists v, wit n = Some v /\ vty v (struct_ty t) = true) ->
  (forall j ps r a v, jsig j = Some (ps, r) -> vty a (struct_ty (TTuple ps)) = true -> jet j a = Some v -> vty v (struct_ty r) = true) ->
  (jet verify_jet (VR VU) = Some VU /\ jet verify_jet (VL VU) = None) ->
  forall G sc v r e t1 t2, wt jsig W args G e = true -> Inv G sc v r ->
    compile true args sc e = Ok t1 -> compile false args sc e = Ok t2 ->
    eval jet wit t1 v = eval jet wit t2 v.
Proof.
  intros H1 H2 H3 G sc v r e t1 t2 Hw HI C1 C2.
  destruct (compile_correct jet wit args true jsig W H1 H2 H3 G sc v r t1 e Hw HI C1) as (E1 & _).
  destruct (compile_correct jet wit args false jsig W H1 H2 H3 G sc v r t2 e Hw HI C2) as (E2 & _).
  congruence.
Qed.
